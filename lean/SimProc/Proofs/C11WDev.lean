/-
Machinery for `Props/C11W.lean`, part 5: shutting down, failing and restoring a device, the RELEASE
event, and the availability check preserve the closed-world invariant.
-/
import SimProc.Proofs.C11WSteps

namespace SimProc
namespace C11W
open World FloorCoreL

/-! ### shutting down -/

theorem resM_setDev_shut (w : World) (x : Nat) (d : Dev) (hd : d.resM = (w.dev x).resM) (y : Nat) :
    ((w.setDev x d).dev y).resM = (w.dev y).resM := by
  rw [dev_setDev]
  split
  · next h => obtain ⟨rfl, _⟩ := h; exact hd
  · rfl

theorem dev_setDev_envOp (w : World) (x : Nat) (d : Dev) (op : EnvOp) (y : Nat) :
    ((w.setDev x d).envOp op).dev y = if x = y ∧ x < w.devs.length then d else w.dev y :=
  dev_setDev w x y d

/-- mark `x` as shut down and pause its events (maintenance shutdown of an operational device) -/
theorem inv_shutPause (w : World) (x : Nat) (h : Inv w) (hs : (w.dev x).shutDown = false) :
    Inv ((w.setDev x { w.dev x with shutDown := true }).envOp (.pause (w.dev x).aid)) := by
  have hd : ∀ y, (((w.setDev x { w.dev x with shutDown := true }).envOp
      (.pause (w.dev x).aid)).dev y).resM = (w.dev y).resM :=
    fun y => resM_setDev_shut w x { w.dev x with shutDown := true } rfl y
  refine inv_pause w _ (w.dev x).aid h (h.r.congr rfl rfl setDev_devs_length hd) rfl rfl hd ?_ ?_
    (aid_ne_neg_one h.r.s x)
  · intro y hk ha
    have hy : y = x := Classical.byContradiction fun hne => aid_ne_of_proc h.r.s hk hne ha
    subst hy
    rw [dev_setDev_envOp, if_pos ⟨rfl, lt_of_processor hk⟩]
  · intro y
    rw [dev_setDev_envOp]
    split
    · next hxy =>
      obtain ⟨rfl, _⟩ := hxy
      exact Or.inr ⟨hs, rfl, rfl⟩
    · exact Or.inl rfl

/-- mark `x` as shut down and cancel its events (failure; a failing processor holds nothing) -/
theorem inv_shutCancel (w : World) (x : Nat) (h : Inv w)
    (hf : (w.dev x).kind = .processor → (w.dev x).reserved = none) :
    Inv ((w.setDev x { w.dev x with shutDown := true }).envOp (.cancel (w.dev x).aid)) := by
  have hd : ∀ y, (((w.setDev x { w.dev x with shutDown := true }).envOp
      (.cancel (w.dev x).aid)).dev y).resM = (w.dev y).resM :=
    fun y => resM_setDev_shut w x { w.dev x with shutDown := true } rfl y
  refine inv_cancel w _ (w.dev x).aid h (h.r.congr rfl rfl setDev_devs_length hd) rfl rfl hd ?_ ?_
    (aid_ne_neg_one h.r.s x)
  · intro y hk ha
    have hy : y = x := Classical.byContradiction fun hne => aid_ne_of_proc h.r.s hk hne ha
    subst hy
    refine ⟨hf hk, ?_⟩
    rw [dev_setDev_envOp, if_pos ⟨rfl, lt_of_processor hk⟩]
  · intro y
    rw [dev_setDev_envOp]
    split
    · next hxy =>
      obtain ⟨rfl, _⟩ := hxy
      exact Or.inr ⟨rfl, rfl⟩
    · exact Or.inl rfl

theorem inv_cancelOnly (w : World) (x : Nat) (h : Inv w) (hs : (w.dev x).shutDown = true)
    (hf : (w.dev x).kind = .processor → (w.dev x).reserved = none) :
    Inv (w.envOp (.cancel (w.dev x).aid)) := by
  have e : ({ w.dev x with shutDown := true } : Dev) = w.dev x := by rw [← hs]
  have := inv_shutCancel w x h hf
  rw [e, setDev_dev_self] at this
  exact this

/-- `_shutdown`: a failure only hits a processor that holds nothing (it has just released). -/
theorem inv_shutdownDev (w : World) (x : Nat) (isF : Bool) (lost : Option Nat) (h : Inv w)
    (hf : isF = true → (w.dev x).kind = .processor → (w.dev x).reserved = none) :
    Inv (w.shutdownDev x isF lost) := by
  unfold shutdownDev
  dsimp only
  by_cases hs : (w.dev x).shutDown = true
  · rw [if_pos hs]
    split
    · next hc =>
      simp only [Bool.and_eq_true] at hc
      exact (inv_cancelOnly w x h hs (hf hc.1)).mono
        (monoS_foldl _ _ _ (fun w k => monoS_addRes w _)).toMono
    · exact h
  · rw [if_neg hs]
    have hs' : (w.dev x).shutDown = false := by simpa using hs
    cases isF
    · simp only [Bool.false_eq_true, if_false]
      refine (inv_shutPause w x h hs').mono (MonoS.toMono ?_)
      repeat' split
      all_goals repeat monoS_peel
    · simp only [if_true]
      refine (inv_shutCancel w x h (hf rfl)).mono (MonoS.toMono ?_)
      repeat' split
      all_goals repeat monoS_peel

/-! ### restoring -/

theorem inv_restoreCore (w : World) (x : Nat) (h : Inv w) (hs : (w.dev x).shutDown = true) :
    Inv ((w.setDev x { w.dev x with shutDown := false, lastRestore := some w.now }).envOp
      (.unpause (w.dev x).aid)) := by
  have hd : ∀ y, (((w.setDev x { w.dev x with shutDown := false, lastRestore := some w.now }).envOp
      (.unpause (w.dev x).aid)).dev y).resM = (w.dev y).resM :=
    fun y => resM_setDev_shut w x { w.dev x with shutDown := false, lastRestore := some w.now } rfl y
  refine inv_unpause w _ (w.dev x).aid h (h.r.congr rfl rfl setDev_devs_length hd) rfl rfl hd ?_ ?_
  · intro y hk ha
    have hy : y = x := Classical.byContradiction fun hne => aid_ne_of_proc h.r.s hk hne ha
    subst hy
    rw [dev_setDev_envOp, if_pos ⟨rfl, lt_of_processor hk⟩]
  · intro y
    rw [dev_setDev_envOp]
    split
    · next hxy =>
      obtain ⟨rfl, _⟩ := hxy
      exact Or.inr ⟨hs, rfl, rfl⟩
    · exact Or.inl rfl

theorem inv_restoreDev (w : World) (x : Nat) (h : Inv w) : Inv (w.restoreDev x) := by
  unfold restoreDev
  dsimp only
  by_cases hs : (w.dev x).shutDown = true
  · simp only [hs, Bool.not_true, Bool.false_eq_true, if_false]
    refine (inv_restoreCore w x h hs).mono (MonoS.toMono ?_)
    repeat' split
    all_goals repeat monoS_peel
  · have hs' : (w.dev x).shutDown = false := by simpa using hs
    simp only [hs', Bool.not_false, if_true]
    exact h

/-! ### failing -/

/-- Taking the part in process away from `x` (which is about to release its reservation). -/
theorem invR_dropPart (w : World) (x : Nat) (h : Inv w) :
    InvR x (w.modDev x (fun d => { d with part := none })) := by
  have hdev : ∀ y, ((w.modDev x (fun d => { d with part := none })).dev y) =
      if x = y ∧ x < w.devs.length then { w.dev x with part := none } else w.dev y :=
    fun y => dev_modDev w x y _
  have hne : ∀ y, y ≠ x → (w.modDev x (fun d => { d with part := none })).dev y = w.dev y :=
    fun y hy => dev_modDev_ne (Ne.symm hy)
  have henv : EnvMono w (w.modDev x (fun d => { d with part := none })) := EnvMono.of_env_eq rfl
  have hrm : (w.modDev x (fun d => { d with part := none })).rm = w.rm := rfl
  have hlen : (w.modDev x (fun d => { d with part := none })).devs.length = w.devs.length :=
    modDev_devs_length
  have hscr : (w.modDev x (fun d => { d with part := none })).scripts = w.scripts := rfl
  have hee : (w.modDev x (fun d => { d with part := none })).env = w.env := rfl
  generalize w.modDev x (fun d => { d with part := none }) = W at *
  have hf : ∀ {α : Type} (g : Dev → α), (∀ d p, g { d with part := p } = g d) →
      ∀ y, g (W.dev y) = g (w.dev y) := by
    intro α g hg y
    rw [hdev]
    split
    · next hxy => obtain ⟨rfl, _⟩ := hxy; exact hg _ _
    · rfl
  have hdk : ∀ y, dk (W.dev y) = dk (w.dev y) := hf dk (fun _ _ => rfl)
  refine ⟨h.r.congr' hscr hrm hlen (hf (·.reserved) (fun _ _ => rfl)) (hf (·.resReq) (fun _ _ => rfl))
    (hf (·.waitingRes) (fun _ _ => rfl)) (hf (·.kind) (fun _ _ => rfl)) (hf (·.aid) (fun _ _ => rfl))
    ?_, ⟨?_, ?_, ?_, by rw [hee]; exact h.e.q⟩, ?_, ?_⟩
  · intro y
    rw [hdev]
    split
    · intro hp; cases hp
    · exact id
  · intro y hy hk hs hr hp
    rw [hne y hy] at hk hs hr hp ⊢
    rw [hee]
    exact h.e.relP y hk hs hr hp
  · intro y hk hs
    rw [dk_kind (hdk y)] at hk
    rw [dk_shutDown (hdk y)] at hs
    rw [hee]
    exact h.e.noRun y hk hs
  · intro e he y hk ha
    rw [dk_kind (hdk y)] at hk
    rw [dk_aid (hdk y)]
    rw [hee] at he
    exact h.e.evA e he y hk ha
  · exact h.pend.step henv (by rw [hrm]; exact id)
  · intro y hy
    refine (h.rel y).step (hdk y) henv ?_
    intro _ _ hr hp
    rw [hne y hy] at hr hp
    exact Or.inl ⟨hr, hp⟩

theorem inv_failDev (w : World) (x : Nat) (h : Inv w) : Inv (w.failDev x) := by
  unfold failDev
  dsimp only
  have key : ∀ w0 : World, Inv w0 → ∀ lost,
      Inv ((((w0.modDev x (fun d => { d with part := none })).releaseReserved x).addRec
        (.failure x ((w0.modDev x (fun d => { d with part := none })).releaseReserved x).now
          lost)).shutdownDev x true lost) := by
    intro w0 h0 lost
    have h1 := invR_dropPart w0 x h0
    have hp : ((w0.modDev x (fun d => { d with part := none })).dev x).kind = .processor →
        ((w0.modDev x (fun d => { d with part := none })).dev x).part = none := by
      intro hk
      have hk0 : (w0.dev x).kind = .processor :=
        (modDev_dev_field (fun d => d.kind) w0 x _ rfl x).symm.trans hk
      rw [dev_modDev_same (lt_of_processor hk0)]
    have h2 := invR_releaseReserved _ x h1 hp
    have h3 := h2.mono (monoS_addRec _ (.failure x
      ((w0.modDev x (fun d => { d with part := none })).releaseReserved x).now lost)).toMono
    refine inv_shutdownDev _ x true lost h3 ?_
    intro _ _
    exact releaseReserved_reserved _ x
  split
  · refine key _ ?_ _
    refine h.mono (MonoS.toMono ?_)
    exact MonoS.of_eq rfl rfl rfl rfl
  · exact key _ h _

/-! ### the RELEASE event -/

/-- Running `_release_resources_if_idle` of `x` when everything but `Rel x` holds (the RELEASE
event has just been taken from the queue) and `x` is not a shut-down processor. -/
theorem invX_releaseIfIdle (w : World) (x : Nat) (h : InvX x w)
    (hop : (w.dev x).kind = .processor → (w.dev x).shutDown = false) : Inv (w.releaseIfIdle x) := by
  unfold releaseIfIdle
  have hopr : w.operational x = true := by
    by_cases hk : (w.dev x).kind = .processor
    · unfold operational; simp [hk, hop hk]
    · exact operational_nonproc hk
  cases hp : (w.dev x).part with
  | none =>
    simp only [hopr, Option.isNone_none, Bool.not_true, Bool.false_or, if_true]
    exact invX_releaseReserved w x h (fun _ => hp)
  | some p =>
    simp only [hopr, Option.isNone_some, Bool.not_true, Bool.or_false, Bool.false_eq_true,
      if_false]
    refine ⟨h.r, h.e, h.pend, fun y => ?_⟩
    by_cases hy : y = x
    · subst hy; intro _ _ _ hpp; rw [hp] at hpp; cases hpp
    · exact h.rel y hy


/-! ### the availability check -/

/-- The state of `_check_pending_requests` between two iterations: everything but `Pend`, and the
entries the scan has passed do not fit. -/
structure ScanI (w : World) (i : Nat) : Prop where
  r : RInv w
  e : EInv w
  rel : ∀ x, Rel w x
  passed : ∀ j e, j < i → w.rm.waiting[j]? = some e → w.rm.canFulfill e.1 = false

theorem canFulfill_congr {a b : RM} (h : a.pools = b.pools) (req : Req) :
    a.canFulfill req = b.canFulfill req := C10.canFulfill_pools a b h req

/-- One callback of the scan: the waiting processor at index `i` is told and removed. -/
theorem scanI_call (w : World) (i x : Nat) (req : Req) (h : ScanI w i)
    (hi : w.rm.waiting[i]? = some (req, Cb.proc x)) :
    ScanI (scanOps.erase (scanOps.call w (Cb.proc x) req) i) i := by
  show ScanI ({ (w.procResourceCb x) with
    rm := { (w.procResourceCb x).rm with waiting := (w.procResourceCb x).rm.waiting.eraseIdx i } }) i
  unfold procResourceCb
  have hm : MonoS (w.modDev x (fun d => { d with waitingRes := false }))
      ((w.modDev x (fun d => { d with waitingRes := false })).notify x) := monoS_notify _ x
  have hdev : ∀ {α : Type} (g : Dev → α), (∀ d b, g { d with waitingRes := b } = g d) →
      ∀ y, g ((w.modDev x (fun d => { d with waitingRes := false })).dev y) = g (w.dev y) :=
    fun g hg y => modDev_dev_field g w x _ (hg _ _) y
  have hwr : ∀ y, y ≠ x →
      ((w.modDev x (fun d => { d with waitingRes := false })).dev y).waitingRes =
        (w.dev y).waitingRes := fun y hy => by rw [dev_modDev_ne (Ne.symm hy)]
  have hlen0 : (w.modDev x (fun d => { d with waitingRes := false })).devs.length = w.devs.length :=
    modDev_devs_length
  have henv0 : (w.modDev x (fun d => { d with waitingRes := false })).env = w.env := rfl
  have hrm0 : (w.modDev x (fun d => { d with waitingRes := false })).rm = w.rm := rfl
  have hscr0 : (w.modDev x (fun d => { d with waitingRes := false })).scripts = w.scripts := rfl
  generalize w.modDev x (fun d => { d with waitingRes := false }) = wa at *
  have hrm1 : (wa.notify x).rm = w.rm := hm.m0.rm.trans hrm0
  generalize wa.notify x = w1 at *
  have hdk : ∀ y, dk (w1.dev y) = dk (w.dev y) := fun y => (hm.m0.dk y).trans (hdev dk (fun _ _ => rfl) y)
  have hres : ∀ y, (w1.dev y).reserved = (w.dev y).reserved :=
    fun y => (hm.m0.reserved y).trans (hdev (·.reserved) (fun _ _ => rfl) y)
  have hreq : ∀ y, (w1.dev y).resReq = (w.dev y).resReq :=
    fun y => (hm.m0.resReq y).trans (hdev (·.resReq) (fun _ _ => rfl) y)
  have hpart : ∀ y, (w.dev y).kind = .processor → (w1.dev y).part = (w.dev y).part := by
    intro y hk
    rw [hm.same y (by rw [hdev (·.kind) (fun _ _ => rfl)]; exact hk)]
    exact hdev (·.part) (fun _ _ => rfl) y
  have henv : EnvMono w w1 := hm.m0.env.congr_left henv0 (hdev dk (fun _ _ => rfl))
  have hil : i < w.rm.waiting.length := (List.getElem?_eq_some_iff.1 hi).1
  have hwait : Wait ({ w1 with rm := { w1.rm with waiting := w1.rm.waiting.eraseIdx i } } : World) := by
    unfold Wait
    show ((w1.rm.waiting.eraseIdx i).map (·.2)).Nodup ∧ ∀ e ∈ w1.rm.waiting.eraseIdx i, ∃ x', _ ∧
      (w1.dev x').waitingRes = true
    rw [hrm1]
    constructor
    · exact h.r.wait.1.sublist ((List.eraseIdx_sublist _ _).map _)
    · intro e he
      obtain ⟨j, hj, hje⟩ := List.mem_eraseIdx_iff_getElem?.1 he
      obtain ⟨x', hx', hwx⟩ := h.r.wait.2 e (List.mem_of_getElem? hje)
      refine ⟨x', hx', ?_⟩
      have hne : x' ≠ x := by
        intro e'
        subst e'
        have hjl : j < w.rm.waiting.length := (List.getElem?_eq_some_iff.1 hje).1
        have h1 : (w.rm.waiting.map (·.2))[j]'(by simpa using hjl) = Cb.proc x' := by
          simp [(List.getElem?_eq_some_iff.1 hje).2, hx']
        have h2 : (w.rm.waiting.map (·.2))[i]'(by simpa using hil) = Cb.proc x' := by
          simp [(List.getElem?_eq_some_iff.1 hi).2]
        exact hj ((List.getElem_inj h.r.wait.1).1 (h1.trans h2.symm))
      rw [hm.m0.waitingRes, hwr x' hne]
      exact hwx
  refine ⟨h.r.congrW (hm.m0.scr.trans hscr0) ?_ ?_ ?_ (hm.m0.len.trans hlen0) hres hreq
      (fun y => dk_kind (hdk y)) (fun y => dk_aid (hdk y)) ?_ hwait, ?_, ?_, ?_⟩
  · show C09.Inv { w1.rm with waiting := w1.rm.waiting.eraseIdx i }
    rw [hrm1]
    exact ⟨h.r.rmI.poolKeys, h.r.rmI.resvIds, h.r.rmI.heldKeys, h.r.rmI.heldPos, h.r.rmI.heldKnown,
      h.r.rmI.usageEq, h.r.rmI.capNonneg⟩
  · show w1.rm.inited = true
    rw [hrm1]; exact h.r.ini
  · show w1.rm.resv = w.rm.resv
    rw [hrm1]
  · intro y hk hp
    have hp' : ((w1.dev y).part).isSome = true := hp
    rw [hpart y hk] at hp'; exact hp'
  · refine h.e.step ⟨hdk, henv.congr_right rfl, ?_⟩
    intro y hk _ hr hp
    exact ⟨by rw [← hres]; exact hr, by rw [← hpart y hk]; exact hp⟩
  · intro y
    refine (h.rel y).step (hdk y) (henv.congr_right rfl) ?_
    intro hk _ hr hp
    exact Or.inl ⟨by rw [← hres]; exact hr, by rw [← hpart y hk]; exact hp⟩
  · intro j e hj he
    have he' : (w1.rm.waiting.eraseIdx i)[j]? = some e := he
    rw [List.getElem?_eraseIdx_of_lt hj, hrm1] at he'
    show ({ w1.rm with waiting := w1.rm.waiting.eraseIdx i } : RM).canFulfill e.1 = false
    rw [canFulfill_congr (b := w.rm) (by rw [hrm1])]
    exact h.passed j e hj he'

theorem scanI_skip (w : World) (i : Nat) (req : Req) (cb : Cb) (h : ScanI w i)
    (hi : w.rm.waiting[i]? = some (req, cb)) (hc : ¬ w.rm.canFulfill req = true) :
    ScanI w (i + 1) := by
  refine ⟨h.r, h.e, h.rel, ?_⟩
  intro j e hj he
  by_cases hji : j = i
  · subst hji
    rw [hi] at he
    cases he
    simpa using hc
  · exact h.passed j e (by omega) he

theorem inv_scan (f : Nat) : ∀ (w : World) (i : Nat), ScanI w i →
    w.rm.waiting.length + 1 ≤ f + i → Inv (scanWaiting scanOps f w i) := by
  induction f with
  | zero =>
    intro w i h hf
    show Inv w
    refine ⟨h.r, h.e, ?_, h.rel⟩
    intro ⟨e, he, hc⟩
    obtain ⟨j, hj⟩ := List.mem_iff_getElem?.1 he
    have hjl : j < w.rm.waiting.length := (List.getElem?_eq_some_iff.1 hj).1
    have := h.passed j e (by omega) hj
    rw [this] at hc; cases hc
  | succ f ih =>
    intro w i h hf
    unfold scanWaiting
    cases hi : (scanOps.rm w).waiting[i]? with
    | none =>
      simp only
      refine ⟨h.r, h.e, ?_, h.rel⟩
      intro ⟨e, he, hc⟩
      obtain ⟨j, hj⟩ := List.mem_iff_getElem?.1 he
      have hjl : j < w.rm.waiting.length := (List.getElem?_eq_some_iff.1 hj).1
      have hil : w.rm.waiting.length ≤ i := List.getElem?_eq_none_iff.1 hi
      have := h.passed j e (by omega) hj
      rw [this] at hc; cases hc
    | some ent =>
      obtain ⟨req, cb⟩ := ent
      simp only
      have hi' : w.rm.waiting[i]? = some (req, cb) := hi
      have hil : i < w.rm.waiting.length := (List.getElem?_eq_some_iff.1 hi').1
      split
      · obtain ⟨x, hx, _⟩ := h.r.wait.2 (req, cb) (List.mem_of_getElem? hi')
        simp only at hx
        subst hx
        have h2 := scanI_call w i x req h hi'
        refine ih _ i h2 ?_
        show (w.procResourceCb x).rm.waiting.eraseIdx i |>.length |>.succ |> (· ≤ f + i)
        have hrm : (w.procResourceCb x).rm = w.rm := by
          unfold procResourceCb
          exact (monoS_notify _ x).m0.rm
        rw [hrm, List.length_eraseIdx_of_lt hil]
        omega
      · next hc => exact ih w (i + 1) (scanI_skip w i req cb h hi' hc) (by omega)

/-- all waiting processors are distinct devices, so there are at most as many as devices -/
theorem wait_length_le {w : World} (h : Wait w) : w.rm.waiting.length ≤ w.devs.length := by
  have h1 : (w.rm.waiting.map (·.2)).length ≤ ((List.range w.devs.length).map Cb.proc).length := by
    apply List.Nodup.length_le_of_subset h.1
    intro cb hcb
    obtain ⟨e, he, rfl⟩ := List.mem_map.1 hcb
    obtain ⟨x, hx, hw⟩ := h.2 e he
    rw [hx]
    refine List.mem_map.2 ⟨x, List.mem_range.2 ?_, rfl⟩
    apply Nat.lt_of_not_le
    intro hle
    rw [dev_of_length_le hle] at hw
    cases hw
  simpa using h1

/-- `_check_pending_requests` (the event whose pending witness has just been consumed). -/
theorem inv_rmCheck (w : World) (hr : RInv w) (he : EInv w) (hrel : ∀ x, Rel w x) : Inv w.rmCheck := by
  unfold rmCheck
  refine inv_scan 10000 w 0 ⟨hr, he, hrel, fun j e hj => absurd hj (Nat.not_lt_zero j)⟩ ?_
  have := wait_length_le hr.wait
  have := hr.s.len
  omega

end C11W
end SimProc
