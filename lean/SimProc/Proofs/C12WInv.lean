/-
C12W, part 5: how the sites at which the model touches a maintainer act on the invariant `G0`:
a frame step, scheduling a START / FINISH event, writing a START record, finishing (erase + FINISH
record), a scan (new active orders), popping an event.
-/
import SimProc.Proofs.C12WDefs

namespace SimProc
namespace C12W
open World FloorCoreL

/-- Close a `List.Perm` goal between rearrangements of appends / conses from hypotheses of the
same kind, by counting. -/
syntax "perm_count" (ppSpace colGt term:max)* : tactic
macro_rules
  | `(tactic| perm_count $hs*) => `(tactic|
    (rw [List.perm_iff_count]
     intro a
     $[have := (List.perm_iff_count.1 $hs) a]*
     simp only [List.count_append, List.count_cons, List.count_nil] at *
     omega))

/-! ### list helpers -/

theorem filter_split {α} [DecidableEq α] (q : α → Bool) (l : List α) (o : α) (h : o ∈ l) :
    (l.filter q).Perm ((if q o then [o] else []) ++ (l.erase o).filter q) := by
  have h1 : (l.filter q).Perm ((o :: l.erase o).filter q) := (List.perm_cons_erase h).filter q
  refine h1.trans ?_
  rw [List.filter_cons]
  split <;> simp

theorem seq_ne_of_mem_erase {l : List Order} (hnd : (l.map (·.seq)).Nodup) {o x : Order}
    (ho : o ∈ l) (hx : x ∈ l.erase o) : x.seq ≠ o.seq := by
  have hp : (l.map (·.seq)).Perm (o.seq :: (l.erase o).map (·.seq)) :=
    (List.perm_cons_erase ho).map _
  have hn := hp.nodup_iff.1 hnd
  rw [List.nodup_cons] at hn
  intro heq
  exact hn.1 (heq ▸ List.mem_map_of_mem (f := (·.seq)) hx)

theorem contains_congr {l l' : List Nat} (h : ∀ s, s ∈ l' ↔ s ∈ l) (x : Nat) :
    l'.contains x = l.contains x := by
  rw [Bool.eq_iff_iff]
  simp [h x]

/-! ### congruence -/

theorem running_congr {w w' : World} {R R' : List (Nat × Nat)} {m : Nat}
    (ha : (w'.maint m).active = (w.maint m).active)
    (h : ∀ s, s ∈ fkeys m w'.env.events ++ proj m R' ↔ s ∈ fkeys m w.env.events ++ proj m R) :
    running w' R' m = running w R m := by
  unfold running
  rw [ha]
  apply List.filter_congr
  intro o _
  exact contains_congr h o.seq

/-- Everything of a maintainer but its value bookkeeping. -/
def mcore (m : Maint) : Option Int × Int × List Order × List Order × Nat :=
  (m.cap, m.util, m.queue, m.active, m.nextSeq)

theorem mcore_cap {m m' : Maint} (h : mcore m' = mcore m) : m'.cap = m.cap := congrArg (·.1) h
theorem mcore_util {m m' : Maint} (h : mcore m' = mcore m) : m'.util = m.util := congrArg (·.2.1) h
theorem mcore_queue {m m' : Maint} (h : mcore m' = mcore m) : m'.queue = m.queue :=
  congrArg (·.2.2.1) h
theorem mcore_active {m m' : Maint} (h : mcore m' = mcore m) : m'.active = m.active :=
  congrArg (·.2.2.2.1) h
theorem mcore_nextSeq {m m' : Maint} (h : mcore m' = mcore m) : m'.nextSeq = m.nextSeq :=
  congrArg (·.2.2.2.2) h

theorem inv_of_mcore {m m' : Maint} (h : mcore m' = mcore m) (hi : C12.Inv m) : C12.Inv m' := by
  refine ⟨?_, ?_, ?_, ?_, ?_, ?_⟩
  · rw [mcore_util h, mcore_active h]; exact hi.utilEq
  · rw [mcore_active h]; exact hi.oneTarget
  · rw [mcore_active h, mcore_queue h]; exact hi.noDup
  · rw [mcore_active h, mcore_queue h]; exact hi.seqs
  · rw [mcore_active h, mcore_queue h, mcore_nextSeq h]; exact hi.fresh
  · rw [mcore_active h, mcore_queue h]; exact hi.needNonneg

theorem cap_of_mcore {m m' : Maint} (h : mcore m' = mcore m) (hc : C12.CapOK m) : C12.CapOK m' := by
  intro c hcap
  rw [mcore_cap h] at hcap
  rw [mcore_util h]
  exact hc c hcap

theorem startable_of_mcore {m m' : Maint} (h : mcore m' = mcore m) (o : Order) :
    m'.startable o = m.startable o := by
  unfold Maint.startable Maint.fits Maint.targetFree
  rw [mcore_cap h, mcore_util h, mcore_active h]

/-- `G0` reads of a world only the maintainers (without their values), their asset ids, the clock,
the maintainer events of the queue and the start / finish records. -/
theorem G0.congr {X R : List (Nat × Nat)} {w w' : World} (g : G0 X R w)
    (hm : ∀ m, mcore (w'.maint m) = mcore (w.maint m)) (ha : ∀ m, aidOf w' m = aidOf w m)
    (hnow : w'.env.now = w.env.now)
    (hev : w'.env.events.filter isM = w.env.events.filter isM)
    (hpa : ∀ e ∈ w'.env.paused, isM e = false) (hinv : C01.Inv w'.env)
    (hrec : w'.recs.filter isSF = w.recs.filter isSF) : G0 X R w' := by
  refine ⟨fun m => inv_of_mcore (hm m) (g.inv m), fun m => cap_of_mcore (hm m) (g.cap m), hinv, hpa,
    ?_, ?_, ?_⟩
  · intro e he f m s hk
    have hM : isM e = true := (isM_true_iff e).2 ⟨_, hk⟩
    have he' : e ∈ w'.env.events.filter isM := List.mem_filter.2 ⟨he, hM⟩
    rw [hev] at he'
    have := g.ev e (List.mem_filter.1 he').1 f m s hk
    rw [ha]
    show _ ∧ _ ∧ (_ → e.time = w'.env.now ∧ _) ∧ _
    rw [hnow]
    exact this
  · intro m
    rw [skeys_of_filter_eq hev, mcore_active (hm m)]
    exact g.perm m
  · intro m
    obtain ⟨L, h1, h2⟩ := g.log m
    refine ⟨L, by rw [openOf_of_filter_eq hrec]; exact h1, ?_⟩
    have e : running w' R m = running w R m :=
      running_congr (mcore_active (hm m)) (fun s => by rw [fkeys_of_filter_eq hev])
    rw [e]; exact h2

theorem NoStart.congr {w w' : World} (h : NoStart w)
    (hm : ∀ m, mcore (w'.maint m) = mcore (w.maint m)) : NoStart w' := by
  intro m o ho
  rw [mcore_queue (hm m)] at ho
  rw [startable_of_mcore (hm m)]
  exact h m o ho

theorem QSorted.congr {w w' : World} (h : QSorted w)
    (hm : ∀ m, mcore (w'.maint m) = mcore (w.maint m)) : QSorted w' := by
  intro m
  rw [mcore_queue (hm m)]
  exact h m

theorem G.congr {X R : List (Nat × Nat)} {w w' : World} (g : G X R w)
    (hm : ∀ m, mcore (w'.maint m) = mcore (w.maint m)) (ha : ∀ m, aidOf w' m = aidOf w m)
    (hnow : w'.env.now = w.env.now)
    (hev : w'.env.events.filter isM = w.env.events.filter isM)
    (hpa : ∀ e ∈ w'.env.paused, isM e = false) (hinv : C01.Inv w'.env)
    (hrec : w'.recs.filter isSF = w.recs.filter isSF) : G X R w' :=
  ⟨g.g0.congr hm ha hnow hev hpa hinv hrec, g.ns.congr hm, g.qs.congr hm⟩

/-- A frame step keeps the invariant. -/
theorem G.of_frame {X R : List (Nat × Nat)} {w w' : World} (g : G X R w) (hk : FK w' = FK w)
    (hq : QRef (aids w) w.env w'.env) : G X R w' := by
  have hs := hq.spec g.g0.mg g.g0.env
  have hmm : ∀ m, mcore (w'.maint m) = mcore (w.maint m) := by
    intro m; unfold World.maint; rw [FK_maints hk]
  refine g.congr hmm (aidOf_of_aids_eq (FK_aids hk)) hs.1 hs.2.1 hs.2.2.1 hs.2.2.2
    (filter_SF_of_WO (FK_wos hk))

/-! ### scheduling a maintainer event -/

theorem ekey_newEvent (s : Env) (t a : Int) (act : Nat) (p : Int) (wt : Nat) :
    ekey (s.newEvent t a act p wt) = actKey (Action.ofNat act) := rfl

/-- What scheduling does to the world (time not in the past). -/
theorem schedLib_fields (w : World) (t a : Int) (act : Action) (p : Int) (h : w.now ≤ t) :
    ∃ ne : Event, ne.time = t ∧ ne.asset = a ∧ ne.act = act.toNat ∧ ne.prio = p ∧
      ne.cancelled = false ∧ ne.pausedAt = none ∧
      w.schedLib t a act p = { w with env := { w.env with
        events := insort ne w.env.events, nextUid := w.env.nextUid + 1 } } ∧
      (C01.Inv w.env → C01.Inv (w.schedLib t a act p).env) := by
  refine ⟨w.env.newEvent t a act.toNat p (weightOf w.seed w.wmod t a act.toNat p),
    rfl, rfl, rfl, rfl, rfl, rfl, schedLib_ok w t a act p h, ?_⟩
  intro hi
  rw [C01W.schedLib_env]
  exact C01.inv_apply _ _ hi

theorem mem_fkeys_cons {m : Nat} {e : Event} {l : List Event} {x : Nat} :
    x ∈ fkeys m (e :: l) ↔ ekey e = some (true, m, x) ∨ x ∈ fkeys m l := by
  rw [mem_fkeys, mem_fkeys]
  constructor
  · rintro ⟨e', he', hk⟩
    rcases List.mem_cons.1 he' with rfl | h
    · exact Or.inl hk
    · exact Or.inr ⟨e', h, hk⟩
  · rintro (h | ⟨e', he', hk⟩)
    · exact ⟨e, List.mem_cons_self, h⟩
    · exact ⟨e', List.mem_cons_of_mem _ he', hk⟩

theorem mem_fkeys_insort {m : Nat} {e : Event} {l : List Event} {x : Nat} :
    x ∈ fkeys m (insort e l) ↔ ekey e = some (true, m, x) ∨ x ∈ fkeys m l := by
  rw [(fkeys_insort m e l).mem_iff, mem_fkeys_cons]

/-- A maintainer event is inserted for an order in flight. -/
theorem G0.insertEv {X R X' R' : List (Nat × Nat)} {w w' : World} {ne : Event} {f : Bool}
    {m s : Nat} (g : G0 X R w)
    (hm : ∀ m, w'.maint m = w.maint m) (ha : ∀ m, aidOf w' m = aidOf w m)
    (hnow : w'.env.now = w.env.now) (hev : w'.env.events = insort ne w.env.events)
    (hpa : w'.env.paused = w.env.paused) (hinv : C01.Inv w'.env) (hrec : w'.recs = w.recs)
    (hk : ekey ne = some (f, m, s)) (hc : ne.cancelled = false) (hasset : ne.asset = aidOf w m)
    (hstart : f = false → ne.time = w.env.now ∧ ne.prio = pStartWork)
    (hfin : f = true → ne.prio = pFinishWork)
    (hX : f = false → X = (m, s) :: X' ∧ R = R') (hR : f = true → R = (m, s) :: R' ∧ X = X') :
    G0 X' R' w' := by
  refine ⟨fun m => hm m ▸ g.inv m, fun m => hm m ▸ g.cap m, hinv, hpa ▸ g.paused, ?_, ?_, ?_⟩
  · intro e he f' m' s' hk'
    rw [hev] at he
    rw [ha]
    show _ ∧ _ ∧ (_ → e.time = w'.env.now ∧ _) ∧ _
    rw [hnow]
    rcases insort_mem.1 he with rfl | he
    · rw [hk] at hk'
      cases hk'
      exact ⟨hc, hasset, hstart, hfin⟩
    · exact g.ev e he f' m' s' hk'
  · intro m'
    have h1 := g.perm m'
    have h2 := skeys_insort m' ne w.env.events
    rw [skeys_cons, hk] at h2
    rw [hev, hm]
    cases f
    · obtain ⟨rfl, rfl⟩ := hX rfl
      by_cases hmm : m = m'
      · subst hmm
        rw [proj_cons_same] at h1
        simp only [if_true] at h2
        perm_count h1 h2
      · rw [proj_cons_ne _ _ hmm] at h1
        simp only [hmm, if_false, List.nil_append] at h2
        perm_count h1 h2
    · obtain ⟨rfl, rfl⟩ := hR rfl
      by_cases hmm : m = m'
      · subst hmm
        rw [proj_cons_same] at h1
        simp only [if_true] at h2
        perm_count h1 h2
      · rw [proj_cons_ne _ _ hmm] at h1
        simp only [hmm, if_false, List.nil_append] at h2
        perm_count h1 h2
  · intro m'
    obtain ⟨L, h1, h2⟩ := g.log m'
    refine ⟨L, hrec ▸ h1, ?_⟩
    have e : running w' R' m' = running w R m' := by
      apply running_congr (by rw [hm])
      intro x
      rw [hev, List.mem_append, mem_fkeys_insort, hk, List.mem_append]
      cases f
      · obtain ⟨rfl, rfl⟩ := hX rfl
        simp
      · obtain ⟨rfl, rfl⟩ := hR rfl
        by_cases hmm : m = m'
        · subst hmm
          rw [proj_cons_same]
          simp only [Option.some.injEq, Prod.mk.injEq, true_and, List.mem_cons]
          constructor
          · rintro ((h | h) | h)
            · exact Or.inr (Or.inl h.symm)
            · exact Or.inl h
            · exact Or.inr (Or.inr h)
          · rintro (h | h | h)
            · exact Or.inl (Or.inr h)
            · exact Or.inl (Or.inl h.symm)
            · exact Or.inr h
        · rw [proj_cons_ne _ _ hmm]
          simp [hmm]
    rw [e]; exact h2

/-- The START event of an order in flight is scheduled. -/
theorem G0.schedStart {X R : List (Nat × Nat)} {w : World} {m s : Nat}
    (g : G0 ((m, s) :: X) R w) (hm : m < 256) :
    G0 X R (w.schedLib w.now (aidOf w m) (.startWork m s) pStartWork) := by
  obtain ⟨ne, ht, ha, hact, hp, hc, _, heq, hinv⟩ :=
    schedLib_fields w w.now (aidOf w m) (.startWork m s) pStartWork (Int.le_refl _)
  have hk : ekey ne = some (false, m, s) := by
    unfold ekey; rw [hact, ofNat_toNat_startWork m s hm]; rfl
  refine g.insertEv (ne := ne) (f := false) (m := m) (s := s) ?_ ?_ ?_ ?_ ?_ (hinv g.env) ?_ hk hc ha
    (fun _ => ⟨ht, hp⟩) (fun h => by cases h) (fun _ => ⟨rfl, rfl⟩) (fun h => by cases h)
  all_goals rw [heq]
  all_goals first | rfl | (intro _; rfl)

/-- The FINISH event of an order in progress is scheduled. -/
theorem G0.schedFinish {X R : List (Nat × Nat)} {w : World} {m s : Nat} (t : Int)
    (g : G0 X ((m, s) :: R) w) (hm : m < 256) (ht : w.now ≤ t) :
    G0 X R (w.schedLib t (aidOf w m) (.finishWork m s) pFinishWork) := by
  obtain ⟨ne, _, ha, hact, hp, hc, _, heq, hinv⟩ :=
    schedLib_fields w t (aidOf w m) (.finishWork m s) pFinishWork ht
  have hk : ekey ne = some (true, m, s) := by
    unfold ekey; rw [hact, ofNat_toNat_finishWork m s hm]; rfl
  refine g.insertEv (ne := ne) (f := true) (m := m) (s := s) ?_ ?_ ?_ ?_ ?_ (hinv g.env) ?_ hk hc ha
    (fun h => by cases h) (fun _ => hp) (fun h => by cases h) (fun _ => ⟨rfl, rfl⟩)
  all_goals rw [heq]
  all_goals first | rfl | (intro _; rfl)

theorem NoStart.schedLib {w : World} (h : NoStart w) (t a : Int) (act : Action) (p : Int) :
    NoStart (w.schedLib t a act p) := by
  have hk := schedLib_FK w t a act p
  apply h.congr
  intro m; unfold World.maint; rw [FK_maints hk]

/-! ### records -/

theorem openStep_ne (m m' : Nat) (acc : Option (List OKey)) (k : Nat) (t : Int) (tgt : Nat)
    (tag info : Int) (h : m ≠ m') : openStep m' acc (.workOrder k m t tgt tag info) = acc := by
  simp [openStep, h]

/-- Nothing else than a start / finish record is written. -/
theorem G0.addRec {X R : List (Nat × Nat)} {w : World} (g : G0 X R w) (r : Rec)
    (h : isSF r = false) : G0 X R (w.addRec r) := by
  refine g.congr (fun _ => rfl) (fun _ => rfl) rfl rfl g.paused g.env ?_
  show (w.recs ++ [r]).filter isSF = _
  simp [List.filter_append, h]

/-- **The START record**: the order in flight is now in progress. -/
theorem G0.startRec {X R : List (Nat × Nat)} {w : World} {m : Nat} {o : Order} (t : Int)
    (g : G0 ((m, o.seq) :: X) R w) (ho : o ∈ (w.maint m).active) :
    G0 X ((m, o.seq) :: R) (w.addRec (.workOrder 1 m t o.target o.tag o.info)) := by
  refine ⟨g.inv, g.cap, g.env, g.paused, g.ev, ?_, ?_⟩
  · intro m'
    have h1 := g.perm m'
    show (skeys m' w.env.events ++ proj m' X ++ proj m' ((m, o.seq) :: R)).Perm
      ((w.maint m').active.map (·.seq))
    by_cases hmm : m = m'
    · subst hmm
      rw [proj_cons_same] at h1 ⊢
      perm_count h1
    · rw [proj_cons_ne _ _ hmm] at h1 ⊢
      exact h1
  · intro m'
    obtain ⟨L, h1, h2⟩ := g.log m'
    show ∃ L, openOf m' (w.recs ++ [_]) = some L ∧ _
    rw [openOf_append_one, h1]
    by_cases hmm : m = m'
    · subst hmm
      refine ⟨L ++ [okey o], by simp [openStep, okey], ?_⟩
      -- the order was not in progress before
      have hnd := g.nodup_lhs m
      rw [proj_cons_same] at hnd
      have hnot : o.seq ∉ fkeys m w.env.events ++ proj m R := by
        intro hmem
        have hc : 2 ≤ List.count o.seq (skeys m w.env.events ++ o.seq :: proj m X ++ proj m R) := by
          simp only [List.count_append, List.count_cons, beq_self_eq_true, if_true]
          rcases List.mem_append.1 hmem with h | h
          · have := List.count_pos_iff.2 ((fkeys_sublist_skeys m _).subset h)
            omega
          · have := List.count_pos_iff.2 h
            omega
        have := List.nodup_iff_count.1 hnd o.seq
        omega
      let p : Order → Bool := fun x => (fkeys m w.env.events ++ proj m R).contains x.seq
      let p' : Order → Bool := fun x => (fkeys m w.env.events ++ proj m ((m, o.seq) :: R)).contains x.seq
      have e1 : running w R m = (w.maint m).active.filter p := rfl
      have e2 : running (w.addRec (.workOrder 1 m t o.target o.tag o.info)) ((m, o.seq) :: R) m =
          (w.maint m).active.filter p' := rfl
      have hpo : p o = false := by
        simp only [p, List.contains_eq_mem, decide_eq_false_iff_not]; exact hnot
      have hp'o : p' o = true := by
        simp [p', proj_cons_same]
      have s1 := filter_split p (w.maint m).active o ho
      have s2 := filter_split p' (w.maint m).active o ho
      rw [hpo] at s1
      rw [hp'o] at s2
      have hcongr : ((w.maint m).active.erase o).filter p' = ((w.maint m).active.erase o).filter p := by
        apply List.filter_congr
        intro x hx
        have hne := seq_ne_of_mem_erase (g.nodup m) ho hx
        simp only [p, p', proj_cons_same, List.contains_eq_mem, List.mem_append, List.mem_cons,
          decide_eq_decide]
        constructor
        · rintro (h | h | h)
          · exact Or.inl h
          · exact absurd h hne
          · exact Or.inr h
        · rintro (h | h)
          · exact Or.inl h
          · exact Or.inr (Or.inr h)
      rw [e1] at h2
      rw [e2]
      rw [hcongr] at s2
      have s1' := s1.map okey
      have s2' := s2.map okey
      simp only [Bool.false_eq_true, if_false, List.nil_append, if_true, List.cons_append,
        List.map_cons] at s1' s2'
      perm_count h2 s1' s2'
    · refine ⟨L, openStep_ne _ _ _ _ _ _ _ _ hmm, ?_⟩
      have e : running (w.addRec (.workOrder 1 m t o.target o.tag o.info)) ((m, o.seq) :: R) m' =
          running w R m' :=
        running_congr rfl (fun x => by rw [proj_cons_ne _ _ hmm]; rfl)
      rw [e]; exact h2

/-! ### finishing -/

theorem sumNeeded_cons (o : Order) (l : List Order) :
    C12.sumNeeded (o :: l) = o.needed + C12.sumNeeded l := by
  simp only [C12.sumNeeded, List.map_cons, List.foldl_cons]
  rw [C12L.foldl_add]; omega

theorem sumNeeded_erase (l : List Order) (o : Order) (h : o ∈ l) :
    C12.sumNeeded (l.erase o) = C12.sumNeeded l - o.needed := by
  induction l with
  | nil => cases h
  | cons x xs ih =>
    by_cases hx : x = o
    · subst hx; rw [List.erase_cons_head, sumNeeded_cons]; omega
    · have ho : o ∈ xs := by
        rcases List.mem_cons.1 h with h | h
        · exact absurd h.symm hx
        · exact h
      rw [List.erase_cons_tail (by simpa using hx), sumNeeded_cons, sumNeeded_cons, ih ho]; omega

theorem inv_erase (m : Maint) (o : Order) (h : C12.Inv m) (ho : o ∈ m.active) :
    C12.Inv { m with util := m.util - o.needed, active := m.active.erase o } := by
  have hsub : (m.queue ++ m.active.erase o).Sublist (m.queue ++ m.active) :=
    (List.Sublist.refl _).append List.erase_sublist
  refine ⟨?_, ?_, ?_, ?_, ?_, ?_⟩
  · show m.util - o.needed = C12.sumNeeded (m.active.erase o)
    rw [sumNeeded_erase _ _ ho, h.utilEq]
  · exact (List.erase_sublist.map _).nodup h.oneTarget
  · exact (hsub.map _).nodup h.noDup
  · exact (hsub.map _).nodup h.seqs
  · exact fun x hx => h.fresh x (hsub.subset hx)
  · exact fun x hx => h.needNonneg x (hsub.subset hx)

theorem cap_erase (m : Maint) (o : Order) (hi : C12.Inv m) (h : C12.CapOK m) (ho : o ∈ m.active) :
    C12.CapOK { m with util := m.util - o.needed, active := m.active.erase o } := by
  intro c hc
  have := h c hc
  have := hi.needNonneg o (List.mem_append_right _ ho)
  show m.util - o.needed ≤ c
  omega

/-- **Finishing**: the order in progress (FINISH event popped) leaves the active list and its
FINISH record is written. -/
theorem G0.finishRec {X R : List (Nat × Nat)} {w : World} {m : Nat} {o : Order} (t : Int)
    (g : G0 X ((m, o.seq) :: R) w) (ho : o ∈ (w.maint m).active) :
    G0 X R ((w.modMaint m (fun _ => { w.maint m with
        util := (w.maint m).util - o.needed, active := (w.maint m).active.erase o })).addRec
      (.workOrder 2 m t o.target o.tag o.info)) := by
  have hlt : m < w.maints.length := lt_of_active_ne ho
  generalize hmm' : ({ w.maint m with
        util := (w.maint m).util - o.needed, active := (w.maint m).active.erase o } : Maint) = mm
  have hsame : ∀ v : World, v = (w.modMaint m (fun _ => mm)).addRec
      (.workOrder 2 m t o.target o.tag o.info) → v.maint m = mm := by
    intro v hv; subst hv
    exact maint_modMaint_same w m (fun _ => mm) hlt
  have hne : ∀ m', m ≠ m' → ((w.modMaint m (fun _ => mm)).addRec
      (.workOrder 2 m t o.target o.tag o.info)).maint m' = w.maint m' :=
    fun m' h => maint_modMaint_ne w m m' (fun _ => mm) h
  have hs := hsame _ rfl
  refine ⟨?_, ?_, g.env, g.paused, ?_, ?_, ?_⟩
  · intro m'
    by_cases h : m = m'
    · subst h; rw [hs, ← hmm']; exact inv_erase _ o (g.inv m) ho
    · rw [hne m' h]; exact g.inv m'
  · intro m'
    by_cases h : m = m'
    · subst h; rw [hs, ← hmm']; exact cap_erase _ o (g.inv m) (g.cap m) ho
    · rw [hne m' h]; exact g.cap m'
  · intro e he f m' s hk
    have := g.ev e he f m' s hk
    rw [show aidOf ((w.modMaint m (fun _ => mm)).addRec
      (.workOrder 2 m t o.target o.tag o.info)) m' = aidOf w m' from
      aidOf_modMaint w m m' (fun _ => mm)]
    exact this
  · intro m'
    have h1 := g.perm m'
    show (skeys m' w.env.events ++ proj m' X ++ proj m' R).Perm _
    by_cases h : m = m'
    · subst h
      rw [hs, ← hmm']
      rw [proj_cons_same] at h1
      have h3 : ((w.maint m).active.map (·.seq)).Perm
          (o.seq :: ((w.maint m).active.erase o).map (·.seq)) := (List.perm_cons_erase ho).map _
      show List.Perm _ (((w.maint m).active.erase o).map (·.seq))
      perm_count h1 h3
    · rw [hne m' h]
      rw [proj_cons_ne _ _ h] at h1
      exact h1
  · intro m'
    obtain ⟨L, h1, h2⟩ := g.log m'
    show ∃ L, openOf m' (w.recs ++ [_]) = some L ∧ _
    rw [openOf_append_one, h1]
    by_cases h : m = m'
    · subst h
      let p : Order → Bool := fun x => (fkeys m w.env.events ++ proj m ((m, o.seq) :: R)).contains x.seq
      let p' : Order → Bool := fun x => (fkeys m w.env.events ++ proj m R).contains x.seq
      have e1 : running w ((m, o.seq) :: R) m = (w.maint m).active.filter p := rfl
      have e2 : running ((w.modMaint m (fun _ => mm)).addRec
          (.workOrder 2 m t o.target o.tag o.info)) R m =
          ((w.maint m).active.erase o).filter p' := by
        unfold running
        rw [hs, ← hmm']
        rfl
      have hpo : p o = true := by simp [p, proj_cons_same]
      have s1 := filter_split p (w.maint m).active o ho
      rw [hpo] at s1
      have hcongr : ((w.maint m).active.erase o).filter p = ((w.maint m).active.erase o).filter p' := by
        apply List.filter_congr
        intro x hx
        have hne := seq_ne_of_mem_erase (g.nodup m) ho hx
        simp only [p, p', proj_cons_same, List.contains_eq_mem, List.mem_append, List.mem_cons,
          decide_eq_decide]
        constructor
        · rintro (h | h | h)
          · exact Or.inl h
          · exact absurd h hne
          · exact Or.inr h
        · rintro (h | h)
          · exact Or.inl h
          · exact Or.inr (Or.inr h)
      rw [hcongr] at s1
      rw [e1] at h2
      rw [e2]
      have s1' := s1.map okey
      simp only [if_true, List.cons_append, List.nil_append, List.map_cons] at s1'
      have hmem : okey o ∈ L := (h2.trans s1').mem_iff.2 List.mem_cons_self
      have hmem' : (o.target, o.tag, o.info) ∈ L := hmem
      refine ⟨L.erase (okey o), by simp [openStep, okey, hmem'], ?_⟩
      have s3 := List.perm_cons_erase hmem
      perm_count h2 s1' s3
    · refine ⟨L, openStep_ne _ _ _ _ _ _ _ _ h, ?_⟩
      have e : running ((w.modMaint m (fun _ => mm)).addRec
          (.workOrder 2 m t o.target o.tag o.info)) R m' = running w ((m, o.seq) :: R) m' :=
        running_congr (by rw [hne m' h]) (fun x => by rw [proj_cons_ne _ _ h]; rfl)
      rw [e]; exact h2

/-! ### a scan: more active orders -/

/-- The maintainer `m` is replaced by a state whose active list is the old one followed by the
orders `st` (started by a scan): these are in flight. -/
theorem G0.setMaint {X R : List (Nat × Nat)} {w : World} {m : Nat} {mm : Maint} {st : List Order}
    (g : G0 X R w) (hlt : m < w.maints.length) (hi : C12.Inv mm) (hc : C12.CapOK mm)
    (ha : mm.active = (w.maint m).active ++ st) :
    G0 (st.map (fun o => (m, o.seq)) ++ X) R (w.modMaint m (fun _ => mm)) := by
  have hs : (w.modMaint m (fun _ => mm)).maint m = mm := maint_modMaint_same w m _ hlt
  have hne : ∀ m', m ≠ m' → (w.modMaint m (fun _ => mm)).maint m' = w.maint m' :=
    fun m' h => maint_modMaint_ne w m m' _ h
  refine ⟨?_, ?_, g.env, g.paused, ?_, ?_, ?_⟩
  · intro m'
    by_cases h : m = m'
    · subst h; rw [hs]; exact hi
    · rw [hne m' h]; exact g.inv m'
  · intro m'
    by_cases h : m = m'
    · subst h; rw [hs]; exact hc
    · rw [hne m' h]; exact g.cap m'
  · intro e he f m' s hk
    rw [aidOf_modMaint]
    exact g.ev e he f m' s hk
  · intro m'
    have h1 := g.perm m'
    show (skeys m' w.env.events ++ proj m' _ ++ proj m' R).Perm _
    rw [proj_append]
    by_cases h : m = m'
    · subst h
      rw [hs, ha, proj_map_same, List.map_append]
      perm_count h1
    · rw [hne m' h, proj_map_ne _ h]
      exact h1
  · intro m'
    obtain ⟨L, h1, h2⟩ := g.log m'
    refine ⟨L, h1, ?_⟩
    by_cases h : m = m'
    · subst h
      have e2 : running (w.modMaint m (fun _ => mm)) R m =
          running w R m ++ st.filter (fun o => (fkeys m w.env.events ++ proj m R).contains o.seq) := by
        unfold running
        rw [hs, ha, List.filter_append]
        rfl
      have hnil : st.filter (fun o => (fkeys m w.env.events ++ proj m R).contains o.seq) = [] := by
        rw [List.filter_eq_nil_iff]
        intro x hx hcx
        simp only [List.contains_eq_mem, decide_eq_true_eq] at hcx
        -- the sequence number of `x` is that of an old active order
        have hold : x.seq ∈ (w.maint m).active.map (·.seq) := by
          apply (g.perm m).subset
          rcases List.mem_append.1 hcx with h | h
          · exact List.mem_append_left _ (List.mem_append_left _ ((fkeys_sublist_skeys m _).subset h))
          · exact List.mem_append_right _ h
        have hnd := hi.seqs
        rw [ha, List.map_append, List.map_append] at hnd
        have hnd2 := (List.nodup_append.1 hnd).2.1
        have := (List.nodup_append.1 hnd2).2.2 _ hold _ (List.mem_map_of_mem (f := (·.seq)) hx)
        exact this rfl
      rw [e2, hnil, List.append_nil]
      exact h2
    · have e : running (w.modMaint m (fun _ => mm)) R m' = running w R m' :=
        running_congr (by rw [hne m' h]) (fun x => Iff.rfl)
      rw [e]; exact h2

/-- The START events of the orders a scan started are scheduled. -/
theorem G0.startOrders {X R : List (Nat × Nat)} {w : World} {m : Nat} (st : List Order)
    (g : G0 (st.map (fun o => (m, o.seq)) ++ X) R w) (hm : m < 256) :
    G0 X R (w.startOrders m st) := by
  unfold World.startOrders
  induction st generalizing w with
  | nil => exact g
  | cons o st ih =>
    rw [List.foldl_cons]
    apply ih
    exact G0.schedStart (m := m) (s := o.seq) g hm

theorem QSorted.schedLib {w : World} (h : QSorted w) (t a : Int) (act : Action) (p : Int) :
    QSorted (w.schedLib t a act p) := by
  have hk := schedLib_FK w t a act p
  apply h.congr
  intro m; unfold World.maint; rw [FK_maints hk]

theorem NoStart.startOrders {w : World} (h : NoStart w) (m : Nat) (st : List Order) :
    NoStart (w.startOrders m st) := by
  unfold World.startOrders
  induction st generalizing w with
  | nil => exact h
  | cons o st ih => rw [List.foldl_cons]; exact ih (h.schedLib _ _ _ _)

/-! ### popping an event -/

/-- What is in flight after the event `e` has been popped. -/
def flightX (e : Event) : List (Nat × Nat) :=
  match ekey e with
  | some (false, m, s) => [(m, s)]
  | _ => []

def flightR (e : Event) : List (Nat × Nat) :=
  match ekey e with
  | some (true, m, s) => [(m, s)]
  | _ => []

theorem G.pop_core {w w' : World} {e : Event} (g : G [] [] w)
    (hm : ∀ m, w'.maint m = w.maint m) (ha : ∀ m, aidOf w' m = aidOf w m)
    (hnow : w'.env.now = e.time) (hev : w.env.events = e :: w'.env.events)
    (hpa : w'.env.paused = w.env.paused) (hinv : C01.Inv w'.env) (hrec : w'.recs = w.recs) :
    G (flightX e) (flightR e) w' := by
  have hsort : SortedEv (e :: w'.env.events) := hev ▸ g.g0.env.sorted
  refine ⟨⟨fun m => hm m ▸ g.g0.inv m, fun m => hm m ▸ g.g0.cap m, hinv, hpa ▸ g.g0.paused,
    ?_, ?_, ?_⟩, g.ns.congr (fun m => by rw [hm]), g.qs.congr (fun m => by rw [hm])⟩
  · intro e' he' f m s hk
    have hmem : e' ∈ w.env.events := by rw [hev]; exact List.mem_cons_of_mem _ he'
    have := g.g0.ev e' hmem f m s hk
    rw [ha]
    refine ⟨this.1, this.2.1, ?_, this.2.2.2⟩
    intro hf
    refine ⟨?_, (this.2.2.1 hf).2⟩
    have h1 : e'.time = w.env.now := (this.2.2.1 hf).1
    have h2 : e.time ≤ e'.time := Event.nlt_time (hsort.head_min e' he')
    have h3 : w.env.now ≤ e.time := g.g0.env.future e (by rw [hev]; exact List.mem_cons_self)
    show e'.time = w'.env.now
    omega
  · intro m
    have h1 := g.g0.perm m
    rw [hev, skeys_cons] at h1
    rw [hm]
    unfold flightX flightR
    generalize ekey e = k at h1 ⊢
    rcases k with _ | ⟨f, m', s⟩
    · simpa using h1
    · cases f
      · simp only [proj_nil, List.append_nil] at h1 ⊢
        by_cases hmm : m' = m
        · subst hmm
          rw [proj_cons_same, proj_nil]
          simp only [if_true] at h1
          perm_count h1
        · rw [proj_cons_ne _ _ hmm]
          simpa [hmm] using h1
      · simp only [proj_nil, List.append_nil] at h1 ⊢
        by_cases hmm : m' = m
        · subst hmm
          rw [proj_cons_same, proj_nil]
          simp only [if_true] at h1
          perm_count h1
        · rw [proj_cons_ne _ _ hmm]
          simpa [hmm] using h1
  · intro m
    obtain ⟨L, h1, h2⟩ := g.g0.log m
    refine ⟨L, hrec ▸ h1, ?_⟩
    have e' : running w' (flightR e) m = running w [] m := by
      apply running_congr (by rw [hm])
      intro x
      rw [hev, List.mem_append, List.mem_append, mem_fkeys_cons]
      unfold flightR
      rcases ekey e with _ | ⟨f, m', s⟩
      · simp
      · cases f
        · simp
        · by_cases hmm : m' = m
          · subst hmm
            rw [proj_cons_same]
            simp only [proj_nil, List.mem_cons, List.not_mem_nil, or_false, Option.some.injEq,
              Prod.mk.injEq, true_and]
            constructor
            · rintro (h | h)
              · exact Or.inr h
              · exact Or.inl h.symm
            · rintro (h | h)
              · exact Or.inr h.symm
              · exact Or.inl h
          · rw [proj_cons_ne _ _ hmm]
            simp [hmm]
    rw [e']; exact h2

/-- **Popping an event** (`Environment.step` up to the action): the clock moves to the time of the
event, which is the current time if a START event is pending. -/
theorem G.pop {w : World} {e : Event} {env' : Env} (g : G [] [] w) (h : w.env.step = some (e, env')) :
    G (flightX e) (flightR e) { w with env := env' } := by
  have hinv := C01.inv_step g.g0.env h
  obtain ⟨es, heq, rfl⟩ := Env.step_some.mp h
  exact g.pop_core (fun _ => rfl) (fun _ => rfl) rfl heq rfl hinv rfl

end C12W
end SimProc
