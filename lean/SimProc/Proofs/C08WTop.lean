/-
C08W, part 4b: the functions local to one device that is not a batcher keep top-level parts
top-level (`TLV`): what the device holds afterwards it held before or has just been generated, and
the kids of the existing batches are untouched.
-/
import SimProc.Proofs.C08WView
import SimProc.Proofs.FloorGive
namespace SimProc
namespace C08W
open World C02V

theorem tlv_of_sv {z : Nat} {w w' : World} (h : sv w' = sv w) : TLV z (sv w) (sv w') := by
  rw [h]; exact TLV.refl _ _

theorem tlv_setDev (w : World) (x : Nat) (d' : Dev)
    (h : ∀ q ∈ (sdev d').held, q ∈ (sdev (w.dev x)).held) : TLV x (sv w) (sv (w.setDev x d')) := by
  by_cases hx : x < w.devs.length
  · rw [sv_setDev]
    have hxg := sv_get w x hx
    have hxl : x < (sv w).devs.length := (List.getElem?_eq_some_iff.1 hxg).1
    refine ⟨?_, ?_, ⟨[], by simp [SV.setDev]⟩⟩
    · intro y hy
      simp only [SV.setDev]
      rw [List.getElem?_set_ne (fun e => hy e.symm)]
    · intro d0 hd0
      simp only [SV.setDev] at hd0
      rw [List.getElem?_set_self hxl] at hd0
      cases hd0
      exact ⟨_, hxg, fun q hq => Or.inl (h q hq)⟩
  · rw [setDev_of_ge w x d' (Nat.le_of_not_lt hx)]; exact TLV.refl _ _

theorem tlv_gen {z : Nat} {a a' : SV} (h : Gen z a a') : TLV z a a' := by
  cases h with
  | leaf d hz hk ho =>
    have hzl : z < a.devs.length := (List.getElem?_eq_some_iff.1 hz).1
    refine ⟨?_, ?_, ⟨[none], rfl⟩⟩
    · intro y hy
      show (a.devs.set z _)[y]? = _
      rw [List.getElem?_set_ne (fun e => hy e.symm)]
    · intro d0 hd0
      change (a.devs.set z _)[z]? = some d0 at hd0
      rw [List.getElem?_set_self hzl] at hd0
      cases hd0
      refine ⟨d, hz, ?_⟩
      intro q hq
      rcases List.mem_cons.1 ((held_output_perm d _ ho).subset hq) with rfl | hq
      · exact Or.inr (Nat.le_refl _)
      · exact Or.inl hq
  | batch d n hz hk ho =>
    have hzl : z < a.devs.length := (List.getElem?_eq_some_iff.1 hz).1
    refine ⟨?_, ?_, ⟨List.replicate n none ++ [some (List.range' a.kids.length n)], by
      show a.kids ++ List.replicate n none ++ [_] = _; rw [List.append_assoc]⟩⟩
    · intro y hy
      show (a.devs.set z _)[y]? = _
      rw [List.getElem?_set_ne (fun e => hy e.symm)]
    · intro d0 hd0
      change (a.devs.set z _)[z]? = some d0 at hd0
      rw [List.getElem?_set_self hzl] at hd0
      cases hd0
      refine ⟨d, hz, ?_⟩
      intro q hq
      rcases List.mem_cons.1 ((held_output_perm d _ ho).subset hq) with rfl | hq
      · exact Or.inr (by omega)
      · exact Or.inl hq

theorem tlv_genS {z : Nat} {a a' : SV} (h : GenS z a a') : TLV z a a' := by
  cases h with
  | refl => exact TLV.refl _ _
  | gen _ h => exact tlv_gen h

theorem tlv_finishCycleHandler (w : World) (x : Nat) :
    TLV x (sv w) (sv (w.finishCycleHandler x)) := by
  unfold World.finishCycleHandler
  simp only []
  split
  · exact tlv_of_sv (sv_setErr ..)
  · split
    · exact tlv_of_sv (sv_setErr ..)
    · rename_i p hp
      split
      · exact tlv_of_sv (sv_setErr ..)
      · rw [sv_schedulePass]
        refine tlv_setDev w x _ ?_
        intro q hq
        simp only [SDev.held, sdev, hp, Option.toList_some, Option.toList_none, List.nil_append,
          List.mem_append, List.mem_singleton, List.mem_map] at hq ⊢
        rcases hq with (hq | hq) | hq
        · exact Or.inl (Or.inl (Or.inl hq))
        · exact Or.inl (Or.inr hq)
        · exact Or.inr hq

theorem tlv_clearOutput (w : World) (x : Nat) :
    TLV x (sv w) (sv (w.modDev x (fun d => { d with output := none }))) := by
  refine tlv_setDev w x _ ?_
  intro q hq
  simp only [SDev.held, sdev, Option.toList_none, List.append_nil, List.mem_append, List.mem_map] at hq ⊢
  rcases hq with (hq | hq) | hq
  · exact Or.inl (Or.inl (Or.inl hq))
  · exact Or.inl (Or.inr hq)
  · exact Or.inr hq

theorem tlv_finishCycle (w : World) (x : Nat) : TLV x (sv w) (sv (w.finishCycle x)) := by
  by_cases hsrc : (w.dev x).kind = .source
  · exact tlv_genS (genS_finishCycle_source w x hsrc)
  unfold World.finishCycle
  simp only []
  split
  · rename_i h; exact absurd h hsrc
  · rw [sv_notify]
    exact (tlv_finishCycleHandler w x).trans (tlv_clearOutput _ x)
  · refine (tlv_finishCycleHandler w x).trans (tlv_of_sv ?_)
    frame'
  · exact tlv_finishCycleHandler w x

theorem tlv_scheduleFinish (w : World) (x : Nat) : TLV x (sv w) (sv (w.scheduleFinish x)) := by
  rcases scheduleFinish_cases w x with h | h
  · rw [h]
    have := tlv_finishCycle (w.setDev x { w.dev x with offset := 0 }) x
    rw [sv_setOffset] at this; exact this
  · exact tlv_of_sv h

theorem tlv_tryMove (w : World) (x : Nat) (hk : (w.dev x).kind ≠ .batcher) :
    TLV x (sv w) (sv (w.tryMove x)) := by
  by_cases h1 : (w.dev x).kind = .buffer
  · cases hp : (w.dev x).part with
    | none =>
      have : w.tryMove x = w := by simp only [World.tryMove, h1, hp]
      rw [this]; exact TLV.refl _ _
    | some p =>
      rw [sv_tryMove_buffer w x p h1 hp]
      refine tlv_setDev w x _ ?_
      intro q hq
      simp only [SDev.held, sdev, hp, Option.toList_some, Option.toList_none, List.nil_append,
        List.mem_append, List.mem_singleton, List.mem_map, List.map_append, List.map_cons,
        List.map_nil] at hq ⊢
      rcases hq with (hq | (hq | hq)) | hq
      · exact Or.inl (Or.inl (Or.inr hq))
      · exact Or.inl (Or.inr hq)
      · exact Or.inl (Or.inl (Or.inl hq))
      · exact Or.inr hq
  · by_cases hc : (w.operational x && (w.dev x).part.isSome && (w.dev x).output.isNone) = true
    · by_cases hp : (w.dev x).kind = .processor
      · have e : w.tryMove x = (w.setDev x { w.dev x with lastUseStart := some w.now }).scheduleFinish x := by
          simp only [World.tryMove, hp, hc, if_true]
        rw [e]
        have := tlv_scheduleFinish (w.setDev x { w.dev x with lastUseStart := some w.now }) x
        rw [sv_setDev_same _ _ _ (by rfl)] at this
        exact this
      · have e : w.tryMove x = w.scheduleFinish x := by
          unfold World.tryMove
          simp only []
          split <;> simp_all
        rw [e]; exact tlv_scheduleFinish w x
    · have e : w.tryMove x = w := by
        unfold World.tryMove
        simp only []
        split <;> simp_all
      rw [e]; exact TLV.refl _ _

theorem tlv_onReceived (w : World) (x p : Nat) (hk : (w.dev x).kind ≠ .batcher) :
    TLV x (sv w) (sv (w.onReceived x p)) := by
  rw [C02V.onReceived_eq]
  have hs := sv_recvBook w x p
  have hk' : ((recvBook w x p).dev x).kind ≠ .batcher := by
    have : st (recvBook w x p) = st w := by unfold recvBook; frame
    rw [kind_of_st this]; exact hk
  split
  · have := tlv_tryMove (recvBook w x p) x hk'
    rw [hs] at this; exact this
  · exact tlv_of_sv hs

theorem tlv_acceptPart (w : World) (x p : Nat) (hk : (w.dev x).kind ≠ .batcher) :
    TLV x (accept (sv w) x p (sdev (w.dev x))) (sv (w.acceptPart x p)) := by
  rw [C02V.acceptPart_eq, ← sv_acceptPre]
  apply tlv_onReceived
  have : st (C02V.acceptPre w x p) = st w := by unfold C02V.acceptPre; frame
  rw [kind_of_st this]; exact hk

end C08W
end SimProc
