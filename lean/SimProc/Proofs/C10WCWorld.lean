/-
C10W — `C w (f w)` for every function of `Model/World.lean` except the availability check:
scripted operations of the class, constructors, maintainer / scheduler / sensor events, `exec` of
every action other than `rmCheck`, `simulateInit`.
-/
import SimProc.Proofs.C10WCFloor

namespace SimProc
namespace C10W
open World FloorCoreL C01W

@[simp] theorem KK_modMaint (w : World) (m : Nat) (f : Maint → Maint) :
    KK (w.modMaint m f) = KK w := rfl
@[simp] theorem KK_setVar (w : World) (h : Nat) (v : Option Nat) : KK (w.setVar h v) = KK w := rfl

macro_rules | `(tactic| c_step) => `(tactic| with_reducible apply C.trans_KK (h := KK_modMaint _ _ _))
macro_rules | `(tactic| c_step) => `(tactic| with_reducible apply C.trans_KK (h := KK_setVar _ _ _))

theorem C_startOrders (w : World) (m : Nat) (st : List Order) : C w (w.startOrders m st) := by
  unfold startOrders
  c_auto

macro_rules | `(tactic| c_step) => `(tactic| with_reducible apply C.trans (h2 := C_startOrders _ _ _))

theorem C_schedUpdate (w : World) (s : Nat) (advance : Bool) :
    C w (w.schedUpdate s advance) := by
  unfold schedUpdate
  dsimp only
  c_auto

macro_rules | `(tactic| c_step) => `(tactic| with_reducible apply C.trans (h2 := C_schedUpdate _ _ _))

theorem C_initAsset (w : World) (a : AssetRef) : C w (w.initAsset a) := by
  unfold initAsset
  split <;> (try dsimp only) <;> c_auto

macro_rules | `(tactic| c_step) => `(tactic| with_reducible apply C.trans (h2 := C_initAsset _ _))

/-! ### constructors -/

/-- Registering a new device whose `waitingRes` flag is clear. -/
theorem C_appendDev (w : World) (d : Dev) (as : List AssetRef) (hd : d.waitingRes = false)
    (ha : (1 : Int) ≤ d.aid) :
    C w ({ w with devs := w.devs ++ [d], assets := as } : World) := by
  intro hp
  have hdev : ∀ y, y < w.devs.length →
      ({ w with devs := w.devs ++ [d], assets := as } : World).dev y = w.dev y := by
    intro y hy
    exact getD_append_left _ _ _ _ hy
  have hflag : ∀ y, (({ w with devs := w.devs ++ [d], assets := as } : World).dev y).waitingRes = true →
      y < w.devs.length := by
    intro y hy
    apply Nat.lt_of_not_le
    intro hle
    rcases Nat.eq_or_lt_of_le hle with he | hlt
    · subst he
      have : ({ w with devs := w.devs ++ [d], assets := as } : World).dev w.devs.length = d :=
        getD_append_singleton _ _ _
      rw [this, hd] at hy; cases hy
    · have : ({ w with devs := w.devs ++ [d], assets := as } : World).dev y = default :=
        dev_of_length_le (by simp; omega)
      rw [this] at hy; cases hy
  refine ⟨⟨?_, hp.scr, hp.wait.nodup, ?_, ?_⟩, Refines.refl _, id,
    fun _ => Or.inr ⟨rfl, C10.PoolLe.refl _⟩⟩
  · intro a ha'
    have : a ∈ w.devs.map (·.aid) ++ [d.aid] := by simpa using ha'
    rcases List.mem_append.1 this with h | h
    · exact hp.aid a h
    · have : a = d.aid := by simpa using h
      omega
  · intro e he y hy
    obtain ⟨h1, h2⟩ := hp.wait.entry e he y hy
    rw [hdev y (lt_of_resReq h2)]
    exact ⟨h1, h2⟩
  · intro y hy
    have hlt := hflag y hy
    rw [hdev y hlt] at hy
    exact hp.wait.flag y hy

theorem C_addDev (w : World) (d : Dev) (hd : d.waitingRes = false) : C w (w.addDev d) := by
  unfold addDev
  extract_lets i d' ups w1 w2 gr w3
  have h1 : C w w1 := C_appendDev w _ _ hd (by show (1 : Int) ≤ (w.assets.length : Int) + 1; omega)
  have h2 : C w1 w2 := C_rewire _ _ _
  have h3 : C w2 w3 := by
    show C w2 (if _ then _ else _)
    split
    · exact C.of_KK rfl
    · exact C.refl _
  have h4 : C w3 (if w3.started = true then w3.initAsset (AssetRef.dev i) else w3) := by
    split
    · exact C_initAsset _ _
    · exact C.refl _
  exact (h1.trans h2).trans (h3.trans h4)

macro_rules | `(tactic| c_step) => `(tactic|
  ((with_reducible apply C.trans (h2 := C_addDev _ _ ?hd)); case hd => first | exact rfl | assumption))

theorem C_addAsset (w : World) (spec : AssetSpec) (h : specOK spec = true) :
    C w (w.addAsset spec) := by
  cases spec with
  | dev d =>
    have hd : d.waitingRes = false := by simpa [specOK] using h
    exact C_addDev w d hd
  | group gid devs ins outs =>
    simp only [addAsset]
    c_auto
  | maint cap v =>
    simp only [addAsset]
    c_auto
  | sched tt cyc =>
    simp only [addAsset]
    c_auto
  | sensor sw =>
    simp only [addAsset]
    c_auto
  | cms =>
    simp only [addAsset]
    c_auto

/-! ### scripted operations -/

macro "c_ops" : tactic => `(tactic| repeat' first | c_step | split | dsimp only)

theorem C_applyOp (w : World) (op : Op) (hop : opC op = true) : C w (w.applyOp op).1 := by
  have hu := opC_user hop
  cases op with
  | sched t a k p =>
    exact C_sched _ _ _ _ _ (by intro h; cases h)
      (by have h' : pTerminate < _ := of_decide_eq_true hu; exact h')
  | schedRel dt a k p =>
    exact C_sched _ _ _ _ _ (by intro h; cases h)
      (by have h' : pTerminate < _ := of_decide_eq_true hu; exact h')
  | pause a => exact C_envOp _ _ (show _ ≠ _ from of_decide_eq_true hu)
  | unpause a => exact C_envOp _ _ (show _ ≠ _ from of_decide_eq_true hu)
  | cancel a => exact C_envOp _ _ (show _ ≠ _ from of_decide_eq_true hu)
  | addRes r amt =>
    have h := RmC.add w.rm r amt
    simp only [applyOp]
    rcases hr : w.rm.add r amt with ⟨rm, res, recs, chk⟩
    rw [hr] at h
    dsimp only at h ⊢
    exact C_rmStep w rm recs chk h
  | reserve hd req =>
    have h := RmC.reserve w.rm req
    simp only [applyOp]
    rcases hr : w.rm.reserve req with ⟨rm, res, id, recs⟩
    rw [hr] at h
    dsimp only at h ⊢
    split
    · exact C.refl _
    · c_step
      exact C_rmStep w rm recs false h
  | release hd part =>
    simp only [applyOp]
    cases w.getVar hd with
    | none => exact C.refl _
    | some id =>
      dsimp only
      exact C_rmStep w _ _ _ (RmC.release w.rm id part)
  | merge h1 h2 =>
    simp only [applyOp]
    cases w.getVar h1 with
    | none => exact C.refl _
    | some a =>
      cases w.getVar h2 with
      | none => exact C.refl _
      | some b =>
        dsimp only
        exact C_rmSet w _ (RmC.merge w.rm a b)
  | register k req =>
    simp only [applyOp]
    exact C_rmStep w _ _ _ (RmC.register w.rm req k)
  | schedFail d t =>
    simp only [applyOp]
    split
    · exact C.refl _
    · exact C_sched _ _ _ _ _ (by intro h; cases h) (by decide)
  | schedFailRel d dt =>
    simp only [applyOp]
    split
    · exact C.refl _
    · exact C_sched _ _ _ _ _ (by intro h; cases h) (by decide)
  | shutdown d => simp only [applyOp]; c_ops
  | restore d => simp only [applyOp]; c_ops
  | block d b => simp only [applyOp]; c_ops
  | adjust d n => simp only [applyOp]; c_ops
  | setCycle d c => simp only [applyOp]; c_ops
  | offsetNext d o => simp only [applyOp]; c_ops
  | rewire d ups => simp only [applyOp]; c_ops
  | workOrder m tgt tag info =>
    simp only [applyOp]
    c_ops
  | setParams tgt tag dur need cost => simp only [applyOp]; c_ops
  | regObj s obj ovr => simp only [applyOp]; c_ops
  | unregObj s obj => simp only [applyOp]; c_ops
  | setVar k v => simp only [applyOp]; c_ops
  | addSensor c s => simp only [applyOp]; c_ops
  | create spec =>
    simp only [applyOp]
    exact C_addAsset w spec (opC_create hop)

theorem C_applyOps (w : World) (ops : List Op) (h : ∀ op ∈ ops, opC op = true) :
    C w (w.applyOps ops) := by
  unfold applyOps
  induction ops generalizing w with
  | nil => exact C.refl _
  | cons op ops ih =>
    rw [List.foldl_cons]
    refine C.trans ?_ (ih _ (fun o ho => h o (List.mem_cons_of_mem _ ho)))
    exact (C_applyOp w op (h op List.mem_cons_self)).trans_KK (KK_addRes _ _)

theorem C_runScript (w : World) (k : Nat) : C w (w.runScript k) := by
  refine C.with_P fun hp => ?_
  unfold runScript
  refine C_applyOps _ _ ?_
  intro op hop
  obtain ⟨s, hs, hm⟩ := mem_getD_nil hop
  exact hp.scr s hs op hm

macro_rules | `(tactic| c_step) => `(tactic| with_reducible apply C.trans (h2 := C_runScript _ _))

/-! ### maintainer events -/

theorem C_hookStart (w : World) (tgt : Nat) (tag : Int) : C w (w.hookStart tgt tag) := by
  unfold hookStart
  dsimp only
  c_auto

theorem C_hookEnd (w : World) (tgt : Nat) (tag : Int) : C w (w.hookEnd tgt tag) := by
  unfold hookEnd
  dsimp only
  c_auto

macro_rules | `(tactic| c_step) => `(tactic| with_reducible apply C.trans (h2 := C_hookStart _ _ _))
macro_rules | `(tactic| c_step) => `(tactic| with_reducible apply C.trans (h2 := C_hookEnd _ _ _))

theorem C_startWork (w : World) (m seq : Nat) : C w (w.startWork m seq) := by
  unfold startWork
  dsimp only
  c_auto

theorem C_finishWork (w : World) (m seq : Nat) : C w (w.finishWork m seq) := by
  unfold finishWork
  dsimp only
  c_auto

theorem C_periodicSense (w : World) (s : Nat) : C w (w.periodicSense s) := by
  unfold periodicSense
  dsimp only
  c_auto

/-! ### events -/

/-- Every action other than the availability check. -/
theorem C_exec (w : World) (a : Action) (ha : a ≠ .rmCheck) : C w (w.exec a) := by
  unfold exec
  split
  · exact C.refl _
  · exact C_runScript _ _
  · exact C_finishCycle _ _
  · exact C_passPart _ _
  · exact C_failDev _ _
  · exact C_releaseIfIdle _ _
  · exact absurd rfl ha
  · exact C_startWork _ _ _
  · exact C_finishWork _ _ _
  · exact C_schedUpdate _ _ _
  · exact C_periodicSense _ _
  · exact C.of_KK (KK_setErr _ _)

theorem C_simulateInit (w : World) : C w w.simulateInit := by
  unfold simulateInit
  split
  · exact C.refl _
  · have h := RmC.apply w.rm .init (fun _ _ h => by cases h)
    rcases hr : w.rm.init with ⟨rm, recs, chk⟩
    have h' : RmC w.rm rm chk := by
      have e1 : (w.rm.apply .init).1 = rm := by
        show w.rm.init.1 = rm; rw [hr]
      have e2 : (w.rm.apply .init).2.2 = chk := by
        show w.rm.init.2.2 = chk; rw [hr]
      rw [e1, e2] at h; exact h
    dsimp only
    c_step
    c_step
    exact C_rmStep w rm recs chk h'

end C10W
end SimProc
