/-
C14W, pass 2 (continued) — processors (failure, shutdown, restore), scripted device operations.
-/
import SimProc.Proofs.C14WParFloor

namespace SimProc
namespace C14W
open World C01W

macro_rules | `(tactic| pp_step) => `(tactic| with_reducible apply pp_passPart ‹Cong _ _ _ _ _›)

section
variable {Q : Env → Env → Prop} {s1 m1 s2 m2 : Nat}
local notation "PP'" => PP Q s1 m1 s2 m2

theorem pp_shutdownDev (hQ : Cong Q s1 m1 s2 m2) {w : World} {t : Twin} (h : PP' w t)
    (x : Nat) (f : Bool) (lost : Option Nat) :
    PP' (w.shutdownDev x f lost) (NX (fun v => v.shutdownDev x f lost) w t) := by
  have ha : (w.dev x).aid ≠ -1 := h.good.ne x
  pp_go h [shutdownDev]

theorem pp_restoreDev (hQ : Cong Q s1 m1 s2 m2) {w : World} {t : Twin} (h : PP' w t)
    (x : Nat) : PP' (w.restoreDev x) (NX (fun v => v.restoreDev x) w t) := by
  have ha : (w.dev x).aid ≠ -1 := h.good.ne x
  pp_go h [restoreDev]

end

macro_rules | `(tactic| pp_step) => `(tactic| with_reducible apply pp_shutdownDev ‹Cong _ _ _ _ _›)
macro_rules | `(tactic| pp_step) => `(tactic| with_reducible apply pp_restoreDev ‹Cong _ _ _ _ _›)

section
variable {Q : Env → Env → Prop} {s1 m1 s2 m2 : Nat}
local notation "PP'" => PP Q s1 m1 s2 m2

theorem pp_failDev (hQ : Cong Q s1 m1 s2 m2) {w : World} {t : Twin} (h : PP' w t)
    (x : Nat) : PP' (w.failDev x) (NX (fun v => v.failDev x) w t) := by
  pp_go h [failDev]

theorem pp_releaseIfIdle (hQ : Cong Q s1 m1 s2 m2) {w : World} {t : Twin} (h : PP' w t)
    (x : Nat) : PP' (w.releaseIfIdle x) (NX (fun v => v.releaseIfIdle x) w t) := by
  pp_go h [releaseIfIdle]

theorem pp_procResourceCb (hQ : Cong Q s1 m1 s2 m2) {w : World} {t : Twin} (h : PP' w t)
    (x : Nat) : PP' (w.procResourceCb x) (NX (fun v => v.procResourceCb x) w t) := by
  pp_go h [procResourceCb]

theorem pp_setBlock (hQ : Cong Q s1 m1 s2 m2) {w : World} {t : Twin} (h : PP' w t)
    (x : Nat) (b : Bool) : PP' (w.setBlock x b) (NX (fun v => v.setBlock x b) w t) := by
  pp_go h [setBlock]

theorem pp_adjustParts (hQ : Cong Q s1 m1 s2 m2) {w : World} {t : Twin} (h : PP' w t)
    (x : Nat) (v : Int) : PP' (w.adjustParts x v) (NX (fun u => u.adjustParts x v) w t) := by
  pp_go h [adjustParts]

theorem pp_rewire (hQ : Cong Q s1 m1 s2 m2) {w : World} {t : Twin} (h : PP' w t)
    (x : Nat) (ups : List Nat) : PP' (w.rewire x ups) (NX (fun v => v.rewire x ups) w t) := by
  pp_go h [rewire]

theorem pp_initDev (hQ : Cong Q s1 m1 s2 m2) {w : World} {t : Twin} (h : PP' w t)
    (x : Nat) : PP' (w.initDev x) (NX (fun v => v.initDev x) w t) := by
  pp_go h [initDev]

end

macro_rules | `(tactic| pp_step) => `(tactic| with_reducible apply pp_failDev ‹Cong _ _ _ _ _›)
macro_rules | `(tactic| pp_step) => `(tactic| with_reducible apply pp_releaseIfIdle ‹Cong _ _ _ _ _›)
macro_rules | `(tactic| pp_step) => `(tactic| with_reducible apply pp_procResourceCb ‹Cong _ _ _ _ _›)
macro_rules | `(tactic| pp_step) => `(tactic| with_reducible apply pp_setBlock ‹Cong _ _ _ _ _›)
macro_rules | `(tactic| pp_step) => `(tactic| with_reducible apply pp_adjustParts ‹Cong _ _ _ _ _›)
macro_rules | `(tactic| pp_step) => `(tactic| with_reducible apply pp_rewire ‹Cong _ _ _ _ _›)
macro_rules | `(tactic| pp_step) => `(tactic| with_reducible apply pp_initDev ‹Cong _ _ _ _ _›)

end C14W
end SimProc
