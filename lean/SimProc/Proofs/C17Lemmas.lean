/-
Definitions and helper lemmas for C17 (Props/C17.lean): the part batcher.

* `seqOf`, `Wf`, `InputNonempty`: the observation and the structural well-formedness predicates the
  property theorems are stated with;
* `takeInput`, `addOutput`, `batcherStep`: the body of `World.batcherLoop` cut into its two phases
  (`_get_part_from_input`, `_add_part_to_output`), with `batcherLoop (f+1) = batcherLoop f ∘ step`;
* `Item`, `BSt`, `BSt.step`, `BSt.loop`: an abstract list machine, `abs` the abstraction function,
  and the refinement theorem `abs_batcherLoop`;
* the frame relation `Frame` and its invariance.
-/
import SimProc.Proofs.FloorCore2

namespace SimProc
namespace C17
open World FloorCoreL

/-! ## Definitions -/

/-- What sits in a slot, as the batcher sees it: a single part or a batch with its parts. -/
inductive Item where
  | single (p : Nat)
  | batch (l : List Nat)
deriving DecidableEq, Repr

def Item.leaves : Item → List Nat
  | .single p => [p]
  | .batch l => l

@[simp] theorem Item.leaves_single (p : Nat) : (Item.single p).leaves = [p] := rfl
@[simp] theorem Item.leaves_batch (l : List Nat) : (Item.batch l).leaves = l := rfl

def itemOf (w : World) (p : Nat) : Item :=
  match (w.part p).kids with
  | some l => .batch l
  | none => .single p

/-- The parts inside batcher `x` in the order in which they will leave: the output, then the batch
under construction, then what is left of the input. -/
def seqOf (w : World) (x : Nat) : List Nat :=
  (match (w.dev x).output with | some o => w.leavesOf o | none => []) ++
  (match (w.dev x).inprog with | some b => (w.part b).kids.getD [] | none => []) ++
  (match (w.dev x).part with | some p => w.leavesOf p | none => [])

/-- Structural well-formedness of batcher `x` (holds in every reachable state):
the shell of the batch under construction is an existing part different from the input; a batcher
that emits single parts has no batch under construction and the parts of its input batch are
single parts (batches are one level deep). -/
structure Wf (w : World) (x : Nat) : Prop where
  prog_valid : ∀ b ∈ (w.dev x).inprog, b < w.parts.length
  prog_ne_input : ∀ b ∈ (w.dev x).inprog, ∀ p ∈ (w.dev x).part, b ≠ p
  single_noprog : (w.dev x).bsize = none → (w.dev x).inprog = none
  single_leaves : (w.dev x).bsize = none →
    ∀ p ∈ (w.dev x).part, ∀ l ∈ (w.part p).kids, ∀ k ∈ l, (w.part k).kids = none

instance (w : World) (x : Nat) : Decidable (Wf w x) :=
  decidable_of_iff
    ((∀ b ∈ (w.dev x).inprog, b < w.parts.length) ∧
     (∀ b ∈ (w.dev x).inprog, ∀ p ∈ (w.dev x).part, b ≠ p) ∧
     ((w.dev x).bsize = none → (w.dev x).inprog = none) ∧
     ((w.dev x).bsize = none →
        ∀ p ∈ (w.dev x).part, ∀ l ∈ (w.part p).kids, ∀ k ∈ l, (w.part k).kids = none))
    ⟨fun ⟨a, b, c, d⟩ => ⟨a, b, c, d⟩, fun ⟨a, b, c, d⟩ => ⟨a, b, c, d⟩⟩

/-- The input is not an EMPTY batch (`tryMove` drops an empty input batch before it enters the
loop, and the loop clears the input as soon as its last part is taken). -/
def InputNonempty (w : World) (x : Nat) : Prop :=
  ∀ p ∈ (w.dev x).part, (w.part p).kids ≠ some []

instance (w : World) (x : Nat) : Decidable (InputNonempty w x) := by
  unfold InputNonempty; infer_instance

/-! ### the body of the loop -/

/-- `_get_part_from_input`: the next part and the world without it in the input. -/
def takeInput (w : World) (x p : Nat) : World × Nat :=
  match (w.part p).kids with
  | some (k :: rest) =>
    let w := w.modPart p (fun r => { r with kids := some rest })
    let w := if rest.isEmpty then w.modDev x (fun d => { d with part := none }) else w
    (w, k)
  | _ => (w.modDev x (fun d => { d with part := none }), p)

/-- `_add_part_to_output`. -/
def addOutput (w : World) (x t : Nat) : World :=
  match (w.dev x).bsize with
  | none => w.modDev x (fun d => { d with output := some t })
  | some n =>
    let (w, b) := match (w.dev x).inprog with
      | some b => (w, b)
      | none =>
        let (w, b) := w.newPart { quality := 0, value := 0, kids := some [] }
        (w.modDev x (fun d => { d with inprog := some b }), b)
    let w := w.modPart b (fun r => { r with kids := some ((r.kids.getD []) ++ [t]) })
    if ((w.part b).kids.getD []).length ≥ n then
      w.modDev x (fun d => { d with output := some b, inprog := none })
    else w

/-- One iteration of `batcherLoop` (the identity once the loop has stopped). -/
def batcherStep (w : World) (x : Nat) : World :=
  match (w.dev x).output, (w.dev x).part with
  | none, some p => addOutput (takeInput w x p).1 x (takeInput w x p).2
  | _, _ => w

theorem batcherLoop_stopped {w : World} {x : Nat}
    (h : (w.dev x).output.isSome ∨ (w.dev x).part = none) (f : Nat) : batcherLoop f w x = w := by
  cases f with
  | zero => rfl
  | succ f =>
    rcases h with h | h
    · cases ho : (w.dev x).output with
      | none => simp [ho] at h
      | some o => simp only [batcherLoop, ho]
    · cases ho : (w.dev x).output <;> simp only [batcherLoop, ho, h]

theorem batcherStep_stopped {w : World} {x : Nat}
    (h : (w.dev x).output.isSome ∨ (w.dev x).part = none) : batcherStep w x = w := by
  unfold batcherStep
  split
  · next ho hp => simp [ho, hp] at h
  · rfl

theorem batcherLoop_succ (f : Nat) (w : World) (x : Nat) :
    batcherLoop (f + 1) w x = batcherLoop f (batcherStep w x) x := by
  cases ho : (w.dev x).output with
  | some o => rw [batcherLoop_stopped (by simp [ho]), batcherStep_stopped (by simp [ho]),
      batcherLoop_stopped (by simp [ho])]
  | none =>
    cases hp : (w.dev x).part with
    | none => rw [batcherLoop_stopped (by simp [hp]), batcherStep_stopped (by simp [hp]),
        batcherLoop_stopped (by simp [hp])]
    | some p =>
      rw [batcherLoop, batcherStep]
      simp only [ho, hp]
      rfl

/-! ### the abstract list machine -/

/-- Abstract state of a batcher: what is in the output slot, the parts of the batch under
construction (`none`: no shell), what is in the input slot. -/
structure BSt where
  out : Option Item
  prog : Option (List Nat)
  inp : Option Item
deriving DecidableEq, Repr

/-- The abstraction function. -/
def abs (w : World) (x : Nat) : BSt where
  out := (w.dev x).output.map (itemOf w)
  prog := (w.dev x).inprog.map (fun b => (w.part b).kids.getD [])
  inp := (w.dev x).part.map (itemOf w)

/-- Leaves of what is in a slot. -/
def optLeaves : Option Item → List Nat
  | some i => i.leaves
  | none => []

@[simp] theorem optLeaves_none : optLeaves none = [] := rfl
@[simp] theorem optLeaves_some (i : Item) : optLeaves (some i) = i.leaves := rfl

def BSt.seq (s : BSt) : List Nat := optLeaves s.out ++ s.prog.getD [] ++ optLeaves s.inp

/-- Take the next part from the FRONT of an input item; the rest of the item (`none`: exhausted).
An empty batch has no next part. -/
def Item.take : Item → Option (Nat × Option Item)
  | .single p => some (p, none)
  | .batch [] => none
  | .batch (k :: rest) => some (k, if rest.isEmpty then none else some (.batch rest))

/-- One iteration of the abstract loop for batch size `bs` (`none`: single parts). -/
def BSt.step (bs : Option Nat) (s : BSt) : BSt :=
  match s.out, s.inp with
  | none, some it =>
    match it.take with
    | none => s
    | some (t, inp') =>
      match bs with
      | none => { out := some (.single t), prog := s.prog, inp := inp' }
      | some n =>
        let l := s.prog.getD [] ++ [t]
        if l.length ≥ n then { out := some (.batch l), prog := none, inp := inp' }
        else { out := none, prog := some l, inp := inp' }
  | _, _ => s

def BSt.loop (bs : Option Nat) : Nat → BSt → BSt
  | 0, s => s
  | f + 1, s => BSt.loop bs f (s.step bs)

theorem leaves_itemOf (w : World) (p : Nat) : (itemOf w p).leaves = w.leavesOf p := by
  unfold itemOf leavesOf; split <;> simp [Item.leaves, *]

theorem seq_abs (w : World) (x : Nat) : (abs w x).seq = seqOf w x := by
  unfold BSt.seq abs seqOf
  cases (w.dev x).output <;> cases (w.dev x).inprog <;> cases (w.dev x).part <;>
    simp [leaves_itemOf]

/-! ### phase 1: `takeInput` -/

theorem takeInput_spec {w : World} {x p : Nat} (hx : x < w.devs.length)
    (hp : (w.dev x).part = some p) (hne : (w.part p).kids ≠ some []) :
    ∃ p' : Option Nat,
      (takeInput w x p).1.dev x = { w.dev x with part := p' } ∧
      (∀ p1 ∈ p', p1 = p ∧ p < w.parts.length ∧ ((takeInput w x p).1.part p).kids ≠ some [] ∧
        (w.part p).kids ≠ none) ∧
      (takeInput w x p).1.devs.length = w.devs.length ∧
      (takeInput w x p).1.parts.length = w.parts.length ∧
      (∀ q, q ≠ p → (takeInput w x p).1.part q = w.part q) ∧
      (itemOf w p).take = some ((takeInput w x p).2, p'.map (itemOf (takeInput w x p).1)) ∧
      (∀ l ∈ (w.part p).kids, (takeInput w x p).2 ∈ l ∧
        ∀ l' ∈ ((takeInput w x p).1.part p).kids, ∀ k ∈ l', k ∈ l) ∧
      ((w.part p).kids = none → (takeInput w x p).2 = p ∧ (takeInput w x p).1.parts = w.parts) := by
  have hplt : (w.part p).kids ≠ none → p < w.parts.length := by
    intro h
    exact Nat.lt_of_not_le fun hge => h (by rw [part_of_length_le hge]; rfl)
  cases hk : (w.part p).kids with
  | none =>
    have e : takeInput w x p = (w.modDev x (fun d => { d with part := none }), p) := by
      simp [takeInput, hk]
    rw [e]
    refine ⟨none, ?_, ?_, ?_, ?_, ?_, ?_, ?_, ?_⟩
    · simp [dev_modDev, hx]
    · simp
    · simp
    · simp
    · simp
    · simp [itemOf, hk, Item.take]
    · simp
    · simp
  | some l =>
    cases l with
    | nil => exact absurd hk hne
    | cons k rest =>
      have hpl := hplt (by simp [hk])
      cases rest with
      | nil =>
        have e : takeInput w x p = ((w.modPart p (fun r => { r with kids := some [] })).modDev x
            (fun d => { d with part := none }), k) := by
          simp [takeInput, hk]
        rw [e]
        refine ⟨none, ?_, ?_, ?_, ?_, ?_, ?_, ?_, ?_⟩
        · simp [dev_modDev, hx]
        · simp
        · simp
        · simp
        · intro q hq; simp [part_modPart_ne (Ne.symm hq)]
        · simp [itemOf, hk, Item.take]
        · simp [part_modPart_same hpl]
        · simp
      | cons k2 r =>
        have e : takeInput w x p = (w.modPart p (fun r' => { r' with kids := some (k2 :: r) }), k) := by
          simp [takeInput, hk]
        rw [e]
        refine ⟨some p, ?_, ?_, ?_, ?_, ?_, ?_, ?_, ?_⟩
        · simp [← hp]
        · simp [part_modPart_same hpl, hpl]
        · simp
        · simp
        · intro q hq; simp [part_modPart_ne (Ne.symm hq)]
        · simp [itemOf, hk, Item.take, part_modPart_same hpl]
        · simp [part_modPart_same hpl]; grind
        · simp

/-! ### phase 2: `addOutput` -/

theorem addOutput_spec {w : World} {x t : Nat} (hx : x < w.devs.length)
    (hbv : ∀ b ∈ (w.dev x).inprog, b < w.parts.length) :
    ∃ (o' b' : Option Nat),
      (addOutput w x t).dev x = { w.dev x with output := o', inprog := b' } ∧
      (addOutput w x t).devs.length = w.devs.length ∧
      w.parts.length ≤ (addOutput w x t).parts.length ∧
      (∀ q, q < w.parts.length → (∀ b ∈ (w.dev x).inprog, q ≠ b) →
        (addOutput w x t).part q = w.part q) ∧
      (∀ b ∈ b', b < (addOutput w x t).parts.length ∧
        (b ∈ (w.dev x).inprog ∨ w.parts.length ≤ b)) ∧
      (match (w.dev x).bsize with
       | none => o' = some t ∧ b' = (w.dev x).inprog ∧ (addOutput w x t).parts = w.parts
       | some n =>
         let l := ((w.dev x).inprog.map (fun b => (w.part b).kids.getD [])).getD [] ++ [t]
         if l.length ≥ n then
           (∃ b, o' = some b ∧ ((addOutput w x t).part b).kids = some l) ∧ b' = none
         else o' = (w.dev x).output ∧
           ∃ b, b' = some b ∧ ((addOutput w x t).part b).kids = some l) := by
  cases hbs : (w.dev x).bsize with
  | none =>
    have e : addOutput w x t = w.modDev x (fun d => { d with output := some t }) := by
      simp [addOutput, hbs]
    rw [e]
    refine ⟨some t, (w.dev x).inprog, ?_, ?_, ?_, ?_, ?_, ?_⟩
    · simp [dev_modDev, hx]
    · simp
    · simp
    · simp
    · intro b hb; exact ⟨by simpa using hbv b hb, Or.inl hb⟩
    · simp
  | some n =>
    cases hb : (w.dev x).inprog with
    | some b =>
      have hbl : b < w.parts.length := hbv b (by simp [hb])
      have hk : ((w.modPart b (fun r => { r with kids := some (r.kids.getD [] ++ [t]) })).part b).kids
          = some ((w.part b).kids.getD [] ++ [t]) := by simp [part_modPart_same hbl]
      have e : addOutput w x t =
          if ((w.part b).kids.getD [] ++ [t]).length ≥ n then
            (w.modPart b (fun r => { r with kids := some (r.kids.getD [] ++ [t]) })).modDev x
              (fun d => { d with output := some b, inprog := none })
          else w.modPart b (fun r => { r with kids := some (r.kids.getD [] ++ [t]) }) := by
        simp only [addOutput, hbs, hb, hk, Option.getD_some]
      rw [e]
      by_cases hn : ((w.part b).kids.getD [] ++ [t]).length ≥ n
      · rw [if_pos hn]
        refine ⟨some b, none, ?_, ?_, ?_, ?_, ?_, ?_⟩
        · simp [dev_modDev, hx]
        · simp
        · simp
        · intro q _ hq; simp [part_modPart_ne (Ne.symm (hq b rfl))]
        · simp
        · simp only [Option.map_some, Option.getD_some]
          rw [if_pos hn]
          exact ⟨⟨b, rfl, by simpa using hk⟩, trivial⟩
      · rw [if_neg hn]
        refine ⟨(w.dev x).output, some b, ?_, ?_, ?_, ?_, ?_, ?_⟩
        · simp [← hb]
        · simp
        · simp
        · intro q _ hq; simp [part_modPart_ne (Ne.symm (hq b rfl))]
        · simp [hbl]
        · simp only [Option.map_some, Option.getD_some]
          rw [if_neg hn]
          exact ⟨trivial, b, rfl, hk⟩
    | none =>
      have hL : ((w.newPart { quality := 0, value := 0, kids := some [] }).1.modDev x
          (fun d => { d with inprog := some w.parts.length })).parts.length = w.parts.length + 1 := by
        simp
      have hk : ((((w.newPart { quality := 0, value := 0, kids := some [] }).1.modDev x
          (fun d => { d with inprog := some w.parts.length })).modPart w.parts.length
            (fun r => { r with kids := some (r.kids.getD [] ++ [t]) })).part w.parts.length).kids
          = some [t] := by
        rw [part_modPart_same (by rw [hL]; omega)]
        simp
      have e : addOutput w x t =
          if [t].length ≥ n then
            (((w.newPart { quality := 0, value := 0, kids := some [] }).1.modDev x
              (fun d => { d with inprog := some w.parts.length })).modPart w.parts.length
                (fun r => { r with kids := some (r.kids.getD [] ++ [t]) })).modDev x
              (fun d => { d with output := some w.parts.length, inprog := none })
          else ((w.newPart { quality := 0, value := 0, kids := some [] }).1.modDev x
              (fun d => { d with inprog := some w.parts.length })).modPart w.parts.length
                (fun r => { r with kids := some (r.kids.getD [] ++ [t]) }) := by
        simp only [addOutput, hbs, hb, newPart_snd, hk, Option.getD_some]
      rw [e]
      have hold : ∀ q, q < w.parts.length →
          (((w.newPart { quality := 0, value := 0, kids := some [] }).1.modDev x
            (fun d => { d with inprog := some w.parts.length })).modPart w.parts.length
              (fun r => { r with kids := some (r.kids.getD [] ++ [t]) })).part q = w.part q := by
        intro q hq
        rw [part_modPart_ne (by omega), part_modDev, part_newPart_old hq]
      by_cases hn : [t].length ≥ n
      · rw [if_pos hn]
        refine ⟨some w.parts.length, none, ?_, ?_, ?_, ?_, ?_, ?_⟩
        · simp [dev_modDev, hx]
        · simp
        · simp
        · intro q hq _; simpa using hold q hq
        · simp
        · simp only [Option.map_none, Option.getD_none, List.nil_append]
          rw [if_pos hn]
          exact ⟨⟨_, rfl, by simpa using hk⟩, trivial⟩
      · rw [if_neg hn]
        refine ⟨(w.dev x).output, some w.parts.length, ?_, ?_, ?_, ?_, ?_, ?_⟩
        · simp [dev_modDev, hx]
        · simp
        · simp
        · intro q hq _; exact hold q hq
        · simp
        · simp only [Option.map_none, Option.getD_none, List.nil_append]
          rw [if_neg hn]
          exact ⟨trivial, _, rfl, hk⟩

/-! ### one iteration refines the abstract step -/

theorem itemOf_congr {w w' : World} {p : Nat} (h : w'.part p = w.part p) :
    itemOf w' p = itemOf w p := by
  unfold itemOf; rw [h]

theorem lt_of_part_isSome {w : World} {x : Nat} (h : (w.dev x).part ≠ none) :
    x < w.devs.length :=
  Nat.lt_of_not_le fun hge => h (by rw [dev_of_length_le hge]; rfl)

theorem step_stopped {s : BSt} (bs : Option Nat) (h : s.out.isSome ∨ s.inp = none) :
    s.step bs = s := by
  unfold BSt.step
  split
  · next ho hi => simp [ho, hi] at h
  · rfl

theorem batcherStep_refines {w : World} {x : Nat} (hwf : Wf w x) (hne : InputNonempty w x) :
    Wf (batcherStep w x) x ∧ InputNonempty (batcherStep w x) x ∧
    ((batcherStep w x).dev x).bsize = (w.dev x).bsize ∧
    abs (batcherStep w x) x = (abs w x).step (w.dev x).bsize := by
  by_cases hstop : (w.dev x).output.isSome ∨ (w.dev x).part = none
  · rw [batcherStep_stopped hstop]
    refine ⟨hwf, hne, rfl, ?_⟩
    rw [step_stopped]
    rcases hstop with h | h
    · left; simpa [abs] using h
    · right; simp [abs, h]
  · have ho : (w.dev x).output = none := by
      cases h : (w.dev x).output with
      | none => rfl
      | some o => exact absurd (Or.inl (by simp [h])) hstop
    obtain ⟨p, hp⟩ : ∃ p, (w.dev x).part = some p := by
      cases h : (w.dev x).part with
      | none => exact absurd (Or.inr h) hstop
      | some p => exact ⟨p, rfl⟩
    have hx : x < w.devs.length := lt_of_part_isSome (by simp [hp])
    have hstep : batcherStep w x = addOutput (takeInput w x p).1 x (takeInput w x p).2 := by
      simp [batcherStep, ho, hp]
    rw [hstep]
    obtain ⟨p', hd1, hp', hdl, hpl, hq, htake, hmem, hnone⟩ :=
      takeInput_spec hx hp (hne p (by simp [hp]))
    generalize (takeInput w x p).1 = w1 at *
    generalize (takeInput w x p).2 = t at *
    have h1o : (w1.dev x).output = none := by rw [hd1]; exact ho
    have h1i : (w1.dev x).inprog = (w.dev x).inprog := by rw [hd1]
    have h1b : (w1.dev x).bsize = (w.dev x).bsize := by rw [hd1]
    have h1p : (w1.dev x).part = p' := by rw [hd1]
    have hbne : ∀ b ∈ (w.dev x).inprog, b ≠ p := fun b hb => hwf.prog_ne_input b hb p (by simp [hp])
    have hbv1 : ∀ b ∈ (w1.dev x).inprog, b < w1.parts.length := by
      intro b hb; rw [hpl]; exact hwf.prog_valid b (h1i ▸ hb)
    obtain ⟨o', b', hd2, hdl2, hpl2, hq2, hb', hcase⟩ := addOutput_spec (t := t) (hdl ▸ hx) hbv1
    generalize addOutput w1 x t = w2 at *
    have h2p : (w2.dev x).part = p' := by rw [hd2]; exact h1p
    have h2o : (w2.dev x).output = o' := by rw [hd2]
    have h2i : (w2.dev x).inprog = b' := by rw [hd2]
    have h2b : (w2.dev x).bsize = (w.dev x).bsize := by rw [hd2]; exact h1b
    -- the input part is not touched by phase 2
    have hpp : ∀ p1 ∈ p', w2.part p1 = w1.part p1 := by
      intro p1 hp1
      obtain ⟨rfl, hlt, _, _⟩ := hp' p1 hp1
      exact hq2 p1 (hpl ▸ hlt) (fun b hb => (hbne b (h1i ▸ hb)).symm)
    -- the shell is not touched by phase 1
    have hbb : ∀ b ∈ (w.dev x).inprog, w1.part b = w.part b := fun b hb => hq b (hbne b hb)
    refine ⟨⟨?_, ?_, ?_, ?_⟩, ?_, h2b, ?_⟩
    · intro b hb; exact (hb' b (h2i ▸ hb)).1
    · intro b hb p1 hp1
      obtain ⟨rfl, hlt, _, _⟩ := hp' p1 (h2p ▸ hp1)
      rcases (hb' b (h2i ▸ hb)).2 with h | h
      · exact hbne b (h1i ▸ h)
      · rw [hpl] at h; omega
    · intro hbs
      rw [h2b] at hbs
      rw [h1b, hbs] at hcase
      rw [h2i, hcase.2.1, h1i]; exact hwf.single_noprog hbs
    · intro hbs p1 hp1 l' hl' k hk
      rw [h2b] at hbs
      rw [h1b, hbs] at hcase
      obtain ⟨rfl, hlt, _, hkn⟩ := hp' p1 (h2p ▸ hp1)
      have e2 : ∀ q, w2.part q = w1.part q := part_congr hcase.2.2
      rw [e2] at hl' ⊢
      obtain ⟨l, hl⟩ : ∃ l, (w.part p1).kids = some l := by
        cases h : (w.part p1).kids with
        | none => exact absurd h hkn
        | some l => exact ⟨l, rfl⟩
      have hkl : k ∈ l := (hmem l (by simp [hl])).2 l' hl' k hk
      have hleaf := hwf.single_leaves hbs p1 (by simp [hp]) l (by simp [hl]) k hkl
      have hkp : k ≠ p1 := by
        intro h; rw [h, hl] at hleaf; simp at hleaf
      rw [hq k hkp]; exact hleaf
    · intro p1 hp1
      rw [h2p] at hp1
      rw [hpp p1 hp1]
      obtain ⟨rfl, _, h, _⟩ := hp' p1 hp1
      exact h
    · -- the abstract step
      have habs : abs w x = { out := none, prog := (w.dev x).inprog.map (fun b => (w.part b).kids.getD []),
                              inp := some (itemOf w p) } := by
        simp [abs, ho, hp]
      have hinp : (w2.dev x).part.map (itemOf w2) = p'.map (itemOf w1) := by
        rw [h2p]
        cases hp'' : p' with
        | none => rfl
        | some p1 => simp [itemOf_congr (hpp p1 (by simp [hp'']))]
      have hprog1 : (w1.dev x).inprog.map (fun b => (w1.part b).kids.getD []) =
          (w.dev x).inprog.map (fun b => (w.part b).kids.getD []) := by
        rw [h1i]
        cases hb : (w.dev x).inprog with
        | none => rfl
        | some b => simp [hbb b (by simp [hb])]
      rw [habs]
      simp only [BSt.step, htake]
      cases hbs : (w.dev x).bsize with
      | none =>
        rw [h1b, hbs] at hcase
        obtain ⟨ho', hb'', hparts⟩ := hcase
        have e2 : ∀ q, w2.part q = w1.part q := part_congr hparts
        have htleaf : (w1.part t).kids = none := by
          cases hk : (w.part p).kids with
          | none =>
            obtain ⟨rfl, hpar⟩ := hnone hk
            rw [part_congr hpar]; exact hk
          | some l =>
            have htl := (hmem l (by simp [hk])).1
            have hleaf := hwf.single_leaves hbs p (by simp [hp]) l (by simp [hk]) t htl
            have htp : t ≠ p := by
              intro h; rw [h, hk] at hleaf; simp at hleaf
            rw [hq t htp]; exact hleaf
        simp only [abs, hinp, h2o, ho', h2i, hb'', h1i, Option.map_some]
        simp only [itemOf, e2, htleaf]
        rw [h1i] at hprog1
        rw [hprog1]
      | some n =>
        rw [h1b, hbs] at hcase
        simp only [hprog1] at hcase
        simp only
        by_cases hn : ((Option.map (fun b => (w.part b).kids.getD []) (w.dev x).inprog).getD [] ++ [t]).length ≥ n
        · rw [if_pos hn] at hcase ⊢
          obtain ⟨⟨b, hob, hkb⟩, hb''⟩ := hcase
          simp only [abs, hinp, h2o, hob, h2i, hb'', Option.map_some, Option.map_none]
          simp [itemOf, hkb]
        · rw [if_neg hn] at hcase ⊢
          obtain ⟨hob, b, hb'', hkb⟩ := hcase
          simp only [abs, hinp, h2o, hob, h1o, h2i, hb'', Option.map_some, Option.map_none]
          simp [hkb]

/-! ### the loop refines the abstract loop -/

theorem batcherLoop_refines (n : Nat) {w : World} {x : Nat} (hwf : Wf w x)
    (hne : InputNonempty w x) :
    Wf (batcherLoop n w x) x ∧ InputNonempty (batcherLoop n w x) x ∧
    ((batcherLoop n w x).dev x).bsize = (w.dev x).bsize ∧
    abs (batcherLoop n w x) x = BSt.loop (w.dev x).bsize n (abs w x) := by
  induction n generalizing w with
  | zero => exact ⟨hwf, hne, rfl, rfl⟩
  | succ n ih =>
    obtain ⟨h1, h2, h3, h4⟩ := batcherStep_refines hwf hne
    obtain ⟨i1, i2, i3, i4⟩ := ih h1 h2
    rw [batcherLoop_succ]
    refine ⟨i1, i2, i3.trans h3, ?_⟩
    rw [i4, h3, h4]; rfl

/-! ### facts about the abstract machine -/

/-- Abstract well-formedness: no batch under construction in single mode, no empty input batch. -/
def BSt.Ok (bs : Option Nat) (s : BSt) : Prop :=
  (bs = none → s.prog = none) ∧ s.inp ≠ some (.batch [])

theorem abs_ok {w : World} {x : Nat} (hwf : Wf w x) (hne : InputNonempty w x) :
    (abs w x).Ok (w.dev x).bsize := by
  refine ⟨fun h => by simp [abs, hwf.single_noprog h], ?_⟩
  cases hp : (w.dev x).part with
  | none => simp [abs, hp]
  | some p =>
    have := hne p (by simp [hp])
    simp only [abs, hp, Option.map_some, itemOf]
    split <;> simp_all

theorem Item.take_leaves {it : Item} {t : Nat} {r : Option Item} (h : it.take = some (t, r)) :
    it.leaves = t :: optLeaves r ∧ r ≠ some (.batch []) := by
  cases it with
  | single p => simp [Item.take] at h; obtain ⟨rfl, rfl⟩ := h; simp [Item.leaves, optLeaves]
  | batch l =>
    cases l with
    | nil => simp [Item.take] at h
    | cons k rest =>
      simp only [Item.take, Option.some.injEq, Prod.mk.injEq] at h
      obtain ⟨rfl, rfl⟩ := h
      cases rest <;> simp [Item.leaves, optLeaves]

theorem Item.take_isSome {it : Item} (h : it ≠ .batch []) : ∃ t r, it.take = some (t, r) := by
  cases it with
  | single p => exact ⟨_, _, rfl⟩
  | batch l =>
    cases l with
    | nil => exact absurd rfl h
    | cons k rest => exact ⟨_, _, rfl⟩

/-- The effect of one productive abstract step, in one statement. -/
theorem BSt.step_cases {bs : Option Nat} {s : BSt} (hok : s.Ok bs) :
    (s.step bs = s ∧ (s.out.isSome ∨ s.inp = none)) ∨
    ∃ it t r, s.out = none ∧ s.inp = some it ∧ it.take = some (t, r) ∧
      ((bs = none ∧ s.step bs = { out := some (.single t), prog := s.prog, inp := r }) ∨
       (∃ n, bs = some n ∧ (s.prog.getD [] ++ [t]).length ≥ n ∧
          s.step bs = { out := some (.batch (s.prog.getD [] ++ [t])), prog := none, inp := r }) ∨
       (∃ n, bs = some n ∧ (s.prog.getD [] ++ [t]).length < n ∧
          s.step bs = { out := none, prog := some (s.prog.getD [] ++ [t]), inp := r })) := by
  by_cases hstop : s.out.isSome ∨ s.inp = none
  · exact Or.inl ⟨step_stopped bs hstop, hstop⟩
  · right
    have ho : s.out = none := by
      cases h : s.out with
      | none => rfl
      | some o => exact absurd (Or.inl (by simp [h])) hstop
    obtain ⟨it, hi⟩ : ∃ it, s.inp = some it := by
      cases h : s.inp with
      | none => exact absurd (Or.inr h) hstop
      | some it => exact ⟨it, rfl⟩
    obtain ⟨t, r, ht⟩ := Item.take_isSome (it := it) (fun h => hok.2 (by rw [hi, h]))
    refine ⟨it, t, r, ho, hi, ht, ?_⟩
    cases bs with
    | none => left; simp [BSt.step, ho, hi, ht]
    | some n =>
      right
      by_cases hn : (s.prog.getD [] ++ [t]).length ≥ n
      · left; exact ⟨n, rfl, hn, by simp only [BSt.step, ho, hi, ht]; rw [if_pos hn]⟩
      · right; exact ⟨n, rfl, Nat.lt_of_not_le hn, by simp only [BSt.step, ho, hi, ht]; rw [if_neg hn]⟩

theorem BSt.step_ok {bs : Option Nat} {s : BSt} (hok : s.Ok bs) : (s.step bs).Ok bs := by
  rcases BSt.step_cases hok with ⟨h, _⟩ | ⟨it, t, r, ho, hi, ht, h⟩
  · rw [h]; exact hok
  · have hr := (Item.take_leaves ht).2
    rcases h with ⟨hb, h⟩ | ⟨n, hb, _, h⟩ | ⟨n, hb, _, h⟩ <;> rw [h]
    · exact ⟨hok.1, hr⟩
    · exact ⟨fun _ => rfl, hr⟩
    · exact ⟨fun h' => by simp [hb] at h', hr⟩

theorem BSt.step_seq {bs : Option Nat} {s : BSt} (hok : s.Ok bs) : (s.step bs).seq = s.seq := by
  rcases BSt.step_cases hok with ⟨h, _⟩ | ⟨it, t, r, ho, hi, ht, h⟩
  · rw [h]
  · have hl := (Item.take_leaves ht).1
    rcases h with ⟨hb, h⟩ | ⟨n, hb, _, h⟩ | ⟨n, hb, _, h⟩ <;> rw [h] <;>
      simp [BSt.seq, ho, hi, hl]
    simp [hok.1 hb]

theorem BSt.loop_ok {bs : Option Nat} (n : Nat) {s : BSt} (hok : s.Ok bs) : (BSt.loop bs n s).Ok bs := by
  induction n generalizing s with
  | zero => exact hok
  | succ n ih => exact ih (BSt.step_ok hok)

theorem BSt.loop_seq {bs : Option Nat} (n : Nat) {s : BSt} (hok : s.Ok bs) :
    (BSt.loop bs n s).seq = s.seq := by
  induction n generalizing s with
  | zero => rfl
  | succ n ih => exact (ih (BSt.step_ok hok)).trans (BSt.step_seq hok)

theorem BSt.loop_stopped {bs : Option Nat} (n : Nat) {s : BSt} (h : s.out.isSome ∨ s.inp = none) :
    BSt.loop bs n s = s := by
  induction n with
  | zero => rfl
  | succ n ih => rw [BSt.loop, step_stopped bs h, ih]

def BSt.inpLen (s : BSt) : Nat := (optLeaves s.inp).length

/-- With fuel at least the number of input leaves the abstract loop has stopped by itself. -/
theorem BSt.loop_done {bs : Option Nat} (n : Nat) {s : BSt} (hok : s.Ok bs) (hn : s.inpLen ≤ n) :
    (BSt.loop bs n s).out.isSome ∨ (BSt.loop bs n s).inp = none := by
  induction n generalizing s with
  | zero =>
    right
    show s.inp = none
    cases hi : s.inp with
    | none => rfl
    | some it =>
      exfalso
      obtain ⟨t, r, ht⟩ := Item.take_isSome (it := it) (fun h => hok.2 (by rw [hi, h]))
      have := (Item.take_leaves ht).1
      simp [BSt.inpLen, hi, this] at hn
  | succ n ih =>
    rw [BSt.loop]
    rcases BSt.step_cases hok with ⟨h, hs⟩ | ⟨it, t, r, ho, hi, ht, h⟩
    · rw [h, BSt.loop_stopped n hs]; exact hs
    · apply ih (BSt.step_ok hok)
      have hl := (Item.take_leaves ht).1
      have : (s.step bs).inp = r := by
        rcases h with ⟨_, h⟩ | ⟨_, _, _, h⟩ | ⟨_, _, _, h⟩ <;> rw [h]
      simp only [BSt.inpLen, this, hi] at hn ⊢
      cases r <;> simp_all <;> omega

/-- Batch mode: sizes. -/
def BSt.Sized (n : Nat) (s : BSt) : Prop :=
  (s.prog.getD []).length < n ∧ (s.out = none ∨ ∃ l, s.out = some (.batch l) ∧ l.length = n)

theorem BSt.step_sized {n : Nat} {s : BSt} (hok : s.Ok (some n)) (h : s.Sized n) :
    (s.step (some n)).Sized n := by
  rcases BSt.step_cases hok with ⟨e, _⟩ | ⟨it, t, r, ho, hi, ht, e⟩
  · rw [e]; exact h
  · rcases e with ⟨hb, _⟩ | ⟨m, hb, hm, e⟩ | ⟨m, hb, hm, e⟩
    · simp at hb
    · obtain rfl : n = m := by simpa using hb
      rw [e]
      refine ⟨by have := h.1; simp; omega, Or.inr ⟨_, rfl, ?_⟩⟩
      have := h.1
      simp at hm ⊢; omega
    · obtain rfl : n = m := by simpa using hb
      rw [e]
      exact ⟨by simpa using hm, Or.inl rfl⟩

theorem BSt.loop_sized {n : Nat} (f : Nat) {s : BSt} (hok : s.Ok (some n)) (h : s.Sized n) :
    (BSt.loop (some n) f s).Sized n := by
  induction f generalizing s with
  | zero => exact h
  | succ f ih => exact ih (BSt.step_ok hok) (BSt.step_sized hok h)

/-- Single mode: the loop performs at most one productive step, which puts the FIRST leaf of the
input into the output. -/
theorem BSt.loop_single (f : Nat) {s : BSt} (hok : s.Ok none) :
    BSt.loop none f s = s ∨
    ∃ it t r, s.out = none ∧ s.inp = some it ∧ it.take = some (t, r) ∧
      BSt.loop none f s = { out := some (.single t), prog := none, inp := r } := by
  cases f with
  | zero => exact Or.inl rfl
  | succ f =>
    rw [BSt.loop]
    rcases BSt.step_cases hok with ⟨e, hs⟩ | ⟨it, t, r, ho, hi, ht, e⟩
    · left; rw [e, BSt.loop_stopped f hs]
    · right
      rcases e with ⟨_, e⟩ | ⟨m, hb, _⟩ | ⟨m, hb, _⟩
      · refine ⟨it, t, r, ho, hi, ht, ?_⟩
        rw [e, BSt.loop_stopped f (Or.inl rfl), hok.1 rfl]
      · simp at hb
      · simp at hb

/-! ### frame: what the loop does not touch (no well-formedness needed) -/

/-- `w` differs from `w0` at most in the three slots of device `x`, in the `kids` of the part in
the input slot and of the shell in the in-progress slot, and in one freshly created shell. -/
structure Frame (w0 w : World) (x : Nat) : Prop where
  others : ∀ y, y ≠ x → w.dev y = w0.dev y
  devs_length : w.devs.length = w0.devs.length
  self : ∃ a b c, w.dev x = { w0.dev x with part := a, output := b, inprog := c }
  rest : w.noDevsParts = w0.noDevsParts
  parts_le : w0.parts.length ≤ w.parts.length
  parts_old : ∀ q, q < w0.parts.length → (w0.dev x).part ≠ some q → (w0.dev x).inprog ≠ some q →
    w.part q = w0.part q
  parts_fields : ∀ q, q < w0.parts.length →
    ({ w.part q with kids := none } : PartRec) = { w0.part q with kids := none }
  part_slot : ∀ p, (w.dev x).part = some p → (w0.dev x).part = some p
  prog_slot : ∀ b, (w.dev x).inprog = some b → (w0.dev x).inprog = some b ∨ w0.parts.length ≤ b

theorem Frame.refl (w : World) (x : Nat) : Frame w w x :=
  ⟨fun _ _ => rfl, rfl, ⟨_, _, _, rfl⟩, rfl, Nat.le_refl _, fun _ _ _ _ => rfl, fun _ _ => rfl,
    fun _ h => h, fun _ h => Or.inl h⟩

theorem Frame.trans {w0 w1 w2 : World} {x : Nat} (h1 : Frame w0 w1 x) (h2 : Frame w1 w2 x) :
    Frame w0 w2 x := by
  refine ⟨fun y hy => (h2.others y hy).trans (h1.others y hy), h2.devs_length.trans h1.devs_length,
    ?_, h2.rest.trans h1.rest, Nat.le_trans h1.parts_le h2.parts_le, ?_, ?_,
    fun p hp => h1.part_slot p (h2.part_slot p hp), ?_⟩
  · obtain ⟨a, b, c, e1⟩ := h1.self
    obtain ⟨a', b', c', e2⟩ := h2.self
    exact ⟨a', b', c', by rw [e2, e1]⟩
  · intro q hq hp hb
    have hq1 : q < w1.parts.length := Nat.lt_of_lt_of_le hq h1.parts_le
    rw [h2.parts_old q hq1 (fun h => hp (h1.part_slot q h)) ?_, h1.parts_old q hq hp hb]
    intro h
    rcases h1.prog_slot q h with h | h
    · exact hb h
    · omega
  · intro q hq
    rw [h2.parts_fields q (Nat.lt_of_lt_of_le hq h1.parts_le), h1.parts_fields q hq]
  · intro b hb
    rcases h2.prog_slot b hb with h | h
    · exact h1.prog_slot b h
    · exact Or.inr (Nat.le_trans h1.parts_le h)

/-- A change of the three slots of `x` only. -/
theorem Frame.modDev (w : World) (x : Nat) (f : Dev → Dev)
    (hf : ∃ a b c, f (w.dev x) = { w.dev x with part := a, output := b, inprog := c })
    (hp : ∀ p, (f (w.dev x)).part = some p → (w.dev x).part = some p)
    (hb : ∀ b, (f (w.dev x)).inprog = some b → (w.dev x).inprog = some b ∨ w.parts.length ≤ b) :
    Frame w (w.modDev x f) x := by
  by_cases hx : x < w.devs.length
  · refine ⟨fun y hy => dev_modDev_ne (Ne.symm hy), by simp, ?_, rfl, by simp,
      fun _ _ _ _ => rfl, fun _ _ => rfl, ?_, ?_⟩
    · rw [dev_modDev_same hx]; exact hf
    · rw [dev_modDev_same hx]; exact hp
    · rw [dev_modDev_same hx]; simpa using hb
  · rw [modDev_out_of_range (Nat.not_lt.1 hx)]; exact Frame.refl w x

/-- A change of the `kids` of the part in the input or in-progress slot. -/
theorem Frame.modPart (w : World) (x p : Nat) (l : PartRec → Option (List Nat))
    (hp : (w.dev x).part = some p ∨ (w.dev x).inprog = some p) :
    Frame w (w.modPart p (fun r => { r with kids := l r })) x := by
  refine ⟨fun _ _ => rfl, rfl, ⟨_, _, _, rfl⟩, rfl, by simp, ?_, ?_, fun _ h => h,
    fun _ h => Or.inl h⟩
  · intro q _ h1 h2
    apply part_modPart_ne
    rintro rfl
    rcases hp with h | h
    · exact h1 h
    · exact h2 h
  · intro q _
    rw [part_modPart]; split
    · next h => rw [h.1]
    · rfl

theorem takeInput_frame (w : World) (x p : Nat) (hp : (w.dev x).part = some p) :
    Frame w (takeInput w x p).1 x ∧ (takeInput w x p).1.parts.length = w.parts.length ∧
    ((takeInput w x p).1.dev x).inprog = (w.dev x).inprog ∧
    ((takeInput w x p).1.dev x).output = (w.dev x).output := by
  have hx : x < w.devs.length := lt_of_part_isSome (by simp [hp])
  have hclear : ∀ w' : World, (w'.dev x).part = some p → Frame w' (w'.modDev x (fun d => { d with part := none })) x :=
    fun w' _ => Frame.modDev w' x _ ⟨_, _, _, rfl⟩ (by simp) (fun b h => Or.inl h)
  unfold takeInput
  split
  · next k rest hk =>
    have h1 := Frame.modPart w x p (fun _ => some rest) (Or.inl hp)
    dsimp only
    split
    · exact ⟨h1.trans (hclear _ hp), by simp, by simp [dev_modDev, hx], by simp [dev_modDev, hx]⟩
    · exact ⟨h1, by simp, rfl, rfl⟩
  · exact ⟨hclear w hp, by simp, by simp [dev_modDev, hx], by simp [dev_modDev, hx]⟩

/-- Creating the shell of a new batch. -/
theorem Frame.newShell (w : World) (x : Nat) (r : PartRec) :
    Frame w ((w.newPart r).1.modDev x (fun d => { d with inprog := some w.parts.length })) x := by
  by_cases hx : x < w.devs.length
  · have hx' : x < (w.newPart r).1.devs.length := hx
    refine ⟨fun y hy => dev_modDev_ne (Ne.symm hy), by simp, ?_, rfl, by simp, ?_, ?_, ?_, ?_⟩
    · rw [dev_modDev_same hx']; exact ⟨_, _, _, rfl⟩
    · intro q hq _ _; exact part_newPart_old hq
    · intro q hq; rw [part_modDev, part_newPart_old hq]
    · rw [dev_modDev_same hx']; exact fun _ h => h
    · rw [dev_modDev_same hx']; intro b hb; right; simp at hb; omega
  · rw [modDev_out_of_range (by simpa using Nat.not_lt.1 hx)]
    exact ⟨fun _ _ => rfl, rfl, ⟨_, _, _, rfl⟩, rfl, by simp,
      fun q hq _ _ => part_newPart_old hq, fun q hq => by rw [part_newPart_old hq],
      fun _ h => h, fun _ h => Or.inl h⟩

def appendKid (w : World) (b t : Nat) : World :=
  w.modPart b (fun r => { r with kids := some (r.kids.getD [] ++ [t]) })

def closeBatch (w : World) (x b : Nat) : World :=
  w.modDev x (fun d => { d with output := some b, inprog := none })

def openShell (w : World) (x : Nat) : World :=
  (w.newPart { quality := 0, value := 0, kids := some [] }).1.modDev x
    (fun d => { d with inprog := some w.parts.length })

theorem addOutput_single {w : World} {x : Nat} (t : Nat) (hbs : (w.dev x).bsize = none) :
    addOutput w x t = w.modDev x (fun d => { d with output := some t }) := by
  simp only [addOutput, hbs]

theorem addOutput_prog {w : World} {x n b : Nat} (t : Nat) (hbs : (w.dev x).bsize = some n)
    (hb : (w.dev x).inprog = some b) :
    addOutput w x t =
      if (((appendKid w b t).part b).kids.getD []).length ≥ n then closeBatch (appendKid w b t) x b
      else appendKid w b t := by
  simp only [addOutput, hbs, hb]; rfl

theorem addOutput_fresh {w : World} {x n : Nat} (t : Nat) (hbs : (w.dev x).bsize = some n)
    (hb : (w.dev x).inprog = none) :
    addOutput w x t =
      if (((appendKid (openShell w x) w.parts.length t).part w.parts.length).kids.getD []).length ≥ n
      then closeBatch (appendKid (openShell w x) w.parts.length t) x w.parts.length
      else appendKid (openShell w x) w.parts.length t := by
  simp only [addOutput, hbs, hb]; rfl

theorem addOutput_frame (w : World) (x t : Nat) (hx : x < w.devs.length) :
    Frame w (addOutput w x t) x ∧
    ((addOutput w x t).parts.length = w.parts.length ∨
      ((w.dev x).inprog = none ∧ (addOutput w x t).parts.length = w.parts.length + 1 ∧
       (((addOutput w x t).dev x).inprog.isSome ∨ ((addOutput w x t).dev x).output.isSome) ∧
       ((addOutput w x t).part w.parts.length).kids.isSome ∧ (w.dev x).bsize.isSome)) ∧
    ((w.dev x).inprog.isSome →
      ((addOutput w x t).dev x).inprog.isSome ∨ ((addOutput w x t).dev x).output.isSome) := by
  have hclose : ∀ (w' : World) (b : Nat), Frame w' (closeBatch w' x b) x := fun w' b =>
    Frame.modDev w' x _ ⟨_, _, _, rfl⟩ (fun _ h => h) (by simp)
  cases hbs : (w.dev x).bsize with
  | none =>
    rw [addOutput_single t hbs]
    exact ⟨Frame.modDev w x _ ⟨_, _, _, rfl⟩ (fun _ h => h) (fun _ h => Or.inl h), Or.inl (by simp),
      fun _ => Or.inr (by rw [dev_modDev_same hx]; rfl)⟩
  | some n =>
    cases hb : (w.dev x).inprog with
    | some b =>
      rw [addOutput_prog t hbs hb]
      have h1 : Frame w (appendKid w b t) x :=
        Frame.modPart w x b (fun r => some (r.kids.getD [] ++ [t])) (Or.inr hb)
      split
      · refine ⟨h1.trans (hclose _ b), Or.inl (by simp [closeBatch, appendKid]), fun _ => Or.inr ?_⟩
        unfold closeBatch; rw [dev_modDev_same (by simpa [appendKid] using hx)]; rfl
      · refine ⟨h1, Or.inl (by simp [appendKid]), fun _ => Or.inl ?_⟩
        unfold appendKid; rw [dev_modPart, hb]; rfl
    | none =>
      rw [addOutput_fresh t hbs hb]
      have h0 : Frame w (openShell w x) x := Frame.newShell w x _
      have hx' : x < (w.newPart { quality := 0, value := 0, kids := some [] }).1.devs.length := hx
      have hb0 : ((openShell w x).dev x).inprog = some w.parts.length := by
        unfold openShell; rw [dev_modDev_same hx']
      have hL : (openShell w x).parts.length = w.parts.length + 1 := by simp [openShell]
      have h1 : Frame (openShell w x) (appendKid (openShell w x) w.parts.length t) x :=
        Frame.modPart _ x w.parts.length (fun r => some (r.kids.getD [] ++ [t])) (Or.inr hb0)
      have hk : ((appendKid (openShell w x) w.parts.length t).part w.parts.length).kids.isSome := by
        unfold appendKid; rw [part_modPart_same (by omega)]; rfl
      have hL2 : (appendKid (openShell w x) w.parts.length t).parts.length = w.parts.length + 1 := by
        simp [appendKid, hL]
      have hxa : x < (appendKid (openShell w x) w.parts.length t).devs.length := by
        simp [appendKid, openShell, hx]
      split
      · refine ⟨(h0.trans h1).trans (hclose _ _), Or.inr ⟨rfl, by simpa [closeBatch] using hL2,
          Or.inr ?_, ?_, rfl⟩, fun h => by simp at h⟩
        · unfold closeBatch; rw [dev_modDev_same hxa]; rfl
        · unfold closeBatch; rw [part_modDev]; exact hk
      · refine ⟨h0.trans h1, Or.inr ⟨rfl, hL2, Or.inl ?_, hk, rfl⟩, fun h => by simp at h⟩
        unfold appendKid; rw [dev_modPart, hb0]; rfl

/-- One iteration: frame, and a new part is created only when there was no shell; afterwards there
is a shell or an output. -/
theorem batcherStep_frame (w : World) (x : Nat) :
    Frame w (batcherStep w x) x ∧
    ((batcherStep w x).parts.length = w.parts.length ∨
      ((w.dev x).inprog = none ∧ (w.dev x).bsize.isSome ∧
       (batcherStep w x).parts.length = w.parts.length + 1 ∧
       (((batcherStep w x).dev x).inprog.isSome ∨ ((batcherStep w x).dev x).output.isSome))) ∧
    ((w.dev x).inprog.isSome →
      ((batcherStep w x).dev x).inprog.isSome ∨ ((batcherStep w x).dev x).output.isSome) := by
  by_cases hstop : (w.dev x).output.isSome ∨ (w.dev x).part = none
  · rw [batcherStep_stopped hstop]; exact ⟨Frame.refl w x, Or.inl rfl, fun h => Or.inl h⟩
  · have ho : (w.dev x).output = none := by
      cases h : (w.dev x).output with
      | none => rfl
      | some o => exact absurd (Or.inl (by simp [h])) hstop
    obtain ⟨p, hp⟩ : ∃ p, (w.dev x).part = some p := by
      cases h : (w.dev x).part with
      | none => exact absurd (Or.inr h) hstop
      | some p => exact ⟨p, rfl⟩
    have hx : x < w.devs.length := lt_of_part_isSome (by simp [hp])
    have hstep : batcherStep w x = addOutput (takeInput w x p).1 x (takeInput w x p).2 := by
      simp [batcherStep, ho, hp]
    rw [hstep]
    obtain ⟨f1, hl1, hi1, _⟩ := takeInput_frame w x p hp
    have hbs1 : ((takeInput w x p).1.dev x).bsize = (w.dev x).bsize := by
      obtain ⟨a, b, c, e⟩ := f1.self; rw [e]
    obtain ⟨f2, hl2, hi2⟩ := addOutput_frame (takeInput w x p).1 x (takeInput w x p).2
      (f1.devs_length ▸ hx)
    refine ⟨f1.trans f2, ?_, ?_⟩
    · rcases hl2 with h | ⟨h1, h2, h3, _, h4⟩
      · exact Or.inl (h.trans hl1)
      · exact Or.inr ⟨hi1 ▸ h1, hbs1 ▸ h4, hl1 ▸ h2, h3⟩
    · intro h; exact hi2 (hi1 ▸ h)

theorem batcherLoop_frame (n : Nat) (w : World) (x : Nat) : Frame w (batcherLoop n w x) x := by
  induction n generalizing w with
  | zero => exact Frame.refl w x
  | succ n ih => rw [batcherLoop_succ]; exact (batcherStep_frame w x).1.trans (ih _)

/-- Growth invariant: at most one part (the shell of a new batch) is created. -/
theorem batcherLoop_grow (n : Nat) (w0 w : World) (x : Nat)
    (h : w.parts.length = w0.parts.length ∨
      (w.parts.length = w0.parts.length + 1 ∧ ((w.dev x).inprog.isSome ∨ (w.dev x).output.isSome))) :
    (batcherLoop n w x).parts.length = w0.parts.length ∨
      ((batcherLoop n w x).parts.length = w0.parts.length + 1 ∧
        (((batcherLoop n w x).dev x).inprog.isSome ∨ ((batcherLoop n w x).dev x).output.isSome)) := by
  induction n generalizing w with
  | zero => exact h
  | succ n ih =>
    rw [batcherLoop_succ]
    apply ih
    obtain ⟨_, hg, hi⟩ := batcherStep_frame w x
    rcases h with h | ⟨h, hf⟩
    · rcases hg with hg | ⟨_, _, hg, hf⟩
      · exact Or.inl (hg.trans h)
      · exact Or.inr ⟨by omega, hf⟩
    · rcases hf with hf | hf
      · rcases hg with hg | ⟨hn, _, _, _⟩
        · exact Or.inr ⟨by omega, hi hf⟩
        · simp [hn] at hf
      · rw [batcherStep_stopped (Or.inl hf)]; exact Or.inr ⟨h, Or.inr hf⟩

/-- No part is created when a shell exists already or the batcher emits single parts. -/
theorem batcherLoop_no_growth (n : Nat) (w : World) (x : Nat)
    (h : (w.dev x).inprog.isSome ∨ (w.dev x).bsize = none) :
    (batcherLoop n w x).parts.length = w.parts.length := by
  rcases h with h | h
  · have aux : ∀ (n : Nat) (w : World), ((w.dev x).inprog.isSome ∨ (w.dev x).output.isSome) →
        (batcherLoop n w x).parts.length = w.parts.length := by
      intro n
      induction n with
      | zero => intro w _; rfl
      | succ n ih =>
        intro w h
        rcases h with h | h
        · rw [batcherLoop_succ]
          obtain ⟨_, hg, hi⟩ := batcherStep_frame w x
          rw [ih _ (hi h)]
          rcases hg with hg | ⟨hn, _⟩
          · exact hg
          · simp [hn] at h
        · rw [batcherLoop_stopped (Or.inl h)]
    exact aux n w (Or.inl h)
  · induction n generalizing w with
    | zero => rfl
    | succ n ih =>
      rw [batcherLoop_succ]
      obtain ⟨fr, hg, _⟩ := batcherStep_frame w x
      have hb : ((batcherStep w x).dev x).bsize = none := by
        obtain ⟨a, b, c, e⟩ := fr.self; rw [e]; exact h
      rw [ih _ hb]
      rcases hg with hg | ⟨_, hs, _⟩
      · exact hg
      · simp [h] at hs

theorem batcherLoop_add (n k : Nat) (w : World) (x : Nat) :
    batcherLoop (n + k) w x = batcherLoop k (batcherLoop n w x) x := by
  induction n generalizing w with
  | zero => simp [batcherLoop]
  | succ n ih => rw [Nat.add_right_comm, batcherLoop_succ, batcherLoop_succ, ih]

/-! ### the batcher's view of a world -/

/-- `w'` looks the same as `w` to batcher `x`: same slots and size, same `kids` of every part, same
number of parts. -/
structure SameView (w w' : World) (x : Nat) : Prop where
  kind : (w'.dev x).kind = (w.dev x).kind
  part : (w'.dev x).part = (w.dev x).part
  output : (w'.dev x).output = (w.dev x).output
  inprog : (w'.dev x).inprog = (w.dev x).inprog
  bsize : (w'.dev x).bsize = (w.dev x).bsize
  kids : ∀ q, (w'.part q).kids = (w.part q).kids
  len : w'.parts.length = w.parts.length

theorem SameView.refl (w : World) (x : Nat) : SameView w w x :=
  ⟨rfl, rfl, rfl, rfl, rfl, fun _ => rfl, rfl⟩

theorem SameView.trans {w1 w2 w3 : World} {x : Nat} (h1 : SameView w1 w2 x) (h2 : SameView w2 w3 x) :
    SameView w1 w3 x :=
  ⟨h2.kind.trans h1.kind, h2.part.trans h1.part, h2.output.trans h1.output, h2.inprog.trans h1.inprog,
    h2.bsize.trans h1.bsize, fun q => (h2.kids q).trans (h1.kids q), h2.len.trans h1.len⟩

theorem SameView.of_core {w w' : World} (h : w'.core = w.core) (x : Nat) : SameView w w' x :=
  ⟨core_eq_dev_kind h x, core_eq_dev_part h x, core_eq_dev_output h x, core_eq_dev_inprog h x, core_eq_dev_bsize h x,
    fun q => by rw [core_eq_part h], by rw [core_eq_parts h]⟩

theorem SameView.leavesOf {w w' : World} {x : Nat} (h : SameView w w' x) (p : Nat) :
    w'.leavesOf p = w.leavesOf p := by
  unfold World.leavesOf; rw [h.kids]

theorem SameView.itemOf {w w' : World} {x : Nat} (h : SameView w w' x) (p : Nat) :
    itemOf w' p = itemOf w p := by
  unfold C17.itemOf; rw [h.kids]

theorem SameView.abs {w w' : World} {x : Nat} (h : SameView w w' x) : abs w' x = abs w x := by
  unfold C17.abs
  rw [h.part, h.output, h.inprog]
  simp only [h.kids, funext (h.itemOf)]

theorem SameView.seqOf {w w' : World} {x : Nat} (h : SameView w w' x) : seqOf w' x = seqOf w x := by
  rw [← seq_abs, ← seq_abs, h.abs]

theorem SameView.wf {w w' : World} {x : Nat} (h : SameView w w' x) (hwf : Wf w x) : Wf w' x := by
  refine ⟨?_, ?_, ?_, ?_⟩
  · rw [h.inprog, h.len]; exact hwf.prog_valid
  · rw [h.inprog, h.part]; exact hwf.prog_ne_input
  · rw [h.inprog, h.bsize]; exact hwf.single_noprog
  · rw [h.bsize, h.part]; simp only [h.kids]; exact hwf.single_leaves

theorem SameView.inputNonempty {w w' : World} {x : Nat} (h : SameView w w' x)
    (hne : InputNonempty w x) : InputNonempty w' x := by
  unfold InputNonempty; rw [h.part]; simp only [h.kids]; exact hne

theorem SameView.addHist (w : World) (p d x : Nat) : SameView w (w.addHist p d) x :=
  ⟨by rw [dev_addHist], by rw [dev_addHist], by rw [dev_addHist], by rw [dev_addHist],
    by rw [dev_addHist], fun q => addHist_part_kids w p d q, addHist_parts_length w p d⟩

theorem SameView.applyPartCb (w : World) (x p : Nat) (c : PartCb) (y : Nat) :
    SameView w (w.applyPartCb x p c) y :=
  ⟨applyPartCb_dev_field Dev.kind (fun _ _ _ => rfl) w x p c y,
    applyPartCb_dev_field Dev.part (fun _ _ _ => rfl) w x p c y,
    applyPartCb_dev_field Dev.output (fun _ _ _ => rfl) w x p c y,
    applyPartCb_dev_field Dev.inprog (fun _ _ _ => rfl) w x p c y,
    applyPartCb_dev_field Dev.bsize (fun _ _ _ => rfl) w x p c y,
    fun q => applyPartCb_part_kids w x p c q, applyPartCb_parts_length w x p c⟩

theorem SameView.foldl_applyPartCb (l : List PartCb) (w : World) (x p y : Nat) :
    SameView w (l.foldl (fun w c => w.applyPartCb x p c) w) y := by
  induction l generalizing w with
  | nil => exact SameView.refl w y
  | cons c l ih => exact (SameView.applyPartCb w x p c y).trans (ih _)

/-! ### `tryMove` on a batcher -/

theorem operational_batcher {w : World} {x : Nat} (hk : (w.dev x).kind = .batcher) :
    w.operational x = true := by
  unfold operational; rw [hk]

/-- The three things `tryMove` can do on a batcher. -/
theorem tryMove_batcher {w : World} {x : Nat} (hk : (w.dev x).kind = .batcher) :
    (w.tryMove x = w ∧ ((w.dev x).part = none ∨ (w.dev x).output.isSome)) ∨
    (∃ p, (w.dev x).part = some p ∧ (w.dev x).output = none ∧ (w.part p).kids = some [] ∧
      w.tryMove x = w.modDev x (fun d => { d with part := none })) ∨
    (∃ p, (w.dev x).part = some p ∧ (w.dev x).output = none ∧ (w.part p).kids ≠ some [] ∧
      w.tryMove x =
        if ((batcherLoop (w.leafCount p + 2) w x).dev x).output.isSome
        then (batcherLoop (w.leafCount p + 2) w x).schedulePass x 0
        else batcherLoop (w.leafCount p + 2) w x) := by
  unfold tryMove
  simp only [hk, operational_batcher hk]
  cases hp : (w.dev x).part with
  | none => left; simp
  | some p =>
    cases ho : (w.dev x).output with
    | some o => left; simp
    | none =>
      right
      cases hkids : (w.part p).kids with
      | none => right; exact ⟨p, rfl, rfl, by simp [hkids], by simp [hkids]⟩
      | some l =>
        cases l with
        | nil => left; exact ⟨p, rfl, rfl, hkids, by simp [World.modDev, hkids, hk, ho]⟩
        | cons k r => right; exact ⟨p, rfl, rfl, by simp [hkids], by simp [hkids]⟩

end C17
end SimProc
