/-
C15W / C16W — machinery, part 1: the observable key of a world and the abstract transition system
`KStep` of everything the simulator can do to it.

`key w` keeps exactly what the record / counter / value invariants talk about: the environment
(clock and event queue), the data log, per device the fields `kind`, `genBatch`, `bsize`,
`produced`, `costProduced`, `recvCount`, `recvValue`, `level`, `val`, the ghost log `delivered`,
the pools of the resource manager, the values of the maintainers, and the flag `pl` ("no part is a
batch").

`KStep ph k k'` is the reflexive-transitive closure of the "sites" at which the library changes
the key: an operation on the event queue, a plain record stamped with the clock, a faithful
resource-manager call, a part received (sink / buffer / other), a buffer release, a supply by a
source, the cost of a work order, the creation of a batch (only if some device is set up for it),
and the resets of `initialize`.  `ph : Phase` says which of these a piece of code may use
(`mv`, `sup`, `cst`, `ini`); `Phase.run` allows everything but the resets, `Phase.init` only the
resets, `Phase.flow` only hand-overs, `Phase.quiet` none.
Part 2 (`C15WPass.lean`, `C15WWorld.lean`) shows that every function of the model is a `KStep` on
keys; part 3 (`C15WInv.lean`, `C15WCount.lean`) proves the invariants by induction on `KStep`;
part 4 (`C15WReach.lean`) lifts them to every reachable state; `C16WSteps.lean` derives the frames
(who may change what) and the one-step amounts.
-/
import SimProc.Proofs.C15Lemmas
import SimProc.Props.C01
import SimProc.Props.C16
import Lean

namespace SimProc
namespace C15W
open World FloorCoreL C15 RM
open Lean Elab Tactic Meta

/-! ### keys -/

/-- What the invariants read of a device. -/
structure DKey where
  kind : Kind
  /-- the two parameters that make a device create batches (never changed) -/
  genBatch : Int
  bsize : Option Nat
  produced : Int
  costProduced : Int
  recvCount : Int
  recvValue : Int
  level : Nat
  val : AssetVal
deriving DecidableEq, Repr

def dkey (d : Dev) : DKey :=
  ⟨d.kind, d.genBatch, d.bsize, d.produced, d.costProduced, d.recvCount, d.recvValue, d.level, d.val⟩

instance : Inhabited DKey := ⟨dkey default⟩

theorem dkey_default : dkey default = default := rfl

/-- What the invariants read of a world. -/
structure WKey where
  env : Env
  recs : List Rec
  devs : List DKey
  delivered : List Nat
  pools : List (Nat × Int × Int)
  rmInited : Bool
  mvals : List AssetVal
  /-- every part is a leaf (no batch exists) -/
  pl : Bool

namespace WKey
def now (k : WKey) : Int := k.env.now
def dev (k : WKey) (x : Nat) : DKey := k.devs.getD x default
def mval (k : WKey) (m : Nat) : AssetVal := k.mvals.getD m default
def setDev (k : WKey) (x : Nat) (d : DKey) : WKey := { k with devs := k.devs.set x d }
def addRecs (k : WKey) (l : List Rec) : WKey := { k with recs := k.recs ++ l }
end WKey

def key (w : World) : WKey :=
  ⟨w.env, w.recs, w.devs.map dkey, w.delivered, w.rm.pools, w.rm.inited, w.maints.map (·.m.val),
   w.parts.all (fun r => r.kids.isNone)⟩

@[simp] theorem key_now (w : World) : (key w).now = w.now := rfl
@[simp] theorem key_recs (w : World) : (key w).recs = w.recs := rfl
@[simp] theorem key_env (w : World) : (key w).env = w.env := rfl
@[simp] theorem key_delivered (w : World) : (key w).delivered = w.delivered := rfl
@[simp] theorem key_devs_length (w : World) : (key w).devs.length = w.devs.length := by simp [key]

theorem key_dev (w : World) (x : Nat) : (key w).dev x = dkey (w.dev x) := by
  unfold WKey.dev key World.dev
  rw [← dkey_default]
  exact getD_map dkey w.devs x default

theorem key_mval (w : World) (m : Nat) : (key w).mval m = (w.maint m).val := by
  unfold WKey.mval key World.maint
  exact getD_map (fun mw : MaintW => mw.m.val) w.maints m default

/-! ### records -/

def Rec.time : Rec → Int
  | .resUpdate _ t _ _ => t
  | .level _ t _ => t
  | .received _ t _ _ _ => t
  | .produced _ t _ _ _ => t
  | .failure _ t _ => t
  | .supplied _ t _ => t
  | .workOrder _ _ t _ _ _ => t
  | .schedUpdate _ t _ => t

/-- Records whose appearance is tied to no counter, level or pool. -/
def isPlain : Rec → Bool
  | .produced .. => true
  | .failure .. => true
  | .workOrder .. => true
  | .schedUpdate .. => true
  | _ => false

/-! ### resource-manager calls -/

/-- What a call of the resource manager does to pools and log. -/
structure RMok (a b : RM) (recs : List ResRec) : Prop where
  inited : b.inited = a.inited
  faithful : a.inited = true → Faithful a b recs
  silent : a.inited = false → recs = []
  nodup : (a.pools.map (·.1)).Nodup → (b.pools.map (·.1)).Nodup
  /-- a pool that appears is recorded -/
  covers : a.inited = true → ∀ r, (b.lookup r).isSome → (a.lookup r).isSome ∨ (lastFor recs r).isSome

theorem lookup_congr {a b : RM} (h : b.pools = a.pools) (r : Nat) : b.lookup r = a.lookup r := by
  unfold RM.lookup; rw [h]

theorem RMok.refl (a : RM) : RMok a a [] :=
  ⟨rfl, fun _ => Faithful.refl a, fun _ => rfl, id, fun _ _ h => Or.inl h⟩

theorem RMok.of_pools {a b : RM} (hp : b.pools = a.pools) (hi : b.inited = a.inited) : RMok a b [] :=
  ⟨hi, fun _ => (Faithful.refl a).congr hp, fun _ => rfl, fun h => by rw [hp]; exact h,
   fun _ r h => Or.inl (by rw [← lookup_congr hp r]; exact h)⟩

theorem RMok.congr {a b b' : RM} {l : List ResRec} (h : RMok a b l) (hp : b'.pools = b.pools)
    (hi : b'.inited = b.inited) : RMok a b' l :=
  ⟨hi.trans h.inited, fun x => (h.faithful x).congr hp, h.silent, fun x => by rw [hp]; exact h.nodup x,
   fun x r hr => h.covers x r (by rw [← lookup_congr hp r]; exact hr)⟩

theorem recOf_not_inited (rm : RM) (r : Nat) (h : rm.inited = false) : rm.recOf r = [] := by
  unfold RM.recOf; simp [h]

theorem take_silent (rm : RM) (req : Req) (h : rm.inited = false) : (rm.take req).2 = [] := by
  induction req generalizing rm with
  | nil => rfl
  | cons p rest ih =>
    obtain ⟨r, a⟩ := p
    rw [RM.take]
    split
    · exact ih rm h
    · have h1 : (rm.setPool r (rm.usage r + a, rm.capacity r)).inited = false := by
        rw [setPool_inited]; exact h
      simp only [recOf_not_inited _ _ h1, ih _ h1, List.append_nil]

theorem lastFor_recOf (rm : RM) (r : Nat) (h : rm.inited = true) : (lastFor (rm.recOf r) r).isSome := by
  unfold RM.recOf lastFor; simp [h]

theorem take_cons_snd (rm : RM) (r : Nat) (a : Int) (rest : Req) :
    (rm.take ((r, a) :: rest)).2 =
      if a = 0 then (rm.take rest).2
      else (rm.setPool r (rm.usage r + a, rm.capacity r)).recOf r ++
        ((rm.setPool r (rm.usage r + a, rm.capacity r)).take rest).2 := by
  rw [RM.take]
  by_cases h : a = 0 <;> simp [h]

theorem take_covers (rm : RM) (req : Req) (h : rm.inited = true) (r' : Nat)
    (hr : ((rm.take req).1.lookup r').isSome) :
    (rm.lookup r').isSome ∨ (lastFor (rm.take req).2 r').isSome := by
  induction req generalizing rm with
  | nil => exact Or.inl hr
  | cons p rest ih =>
    obtain ⟨r, a⟩ := p
    rw [take_cons] at hr
    rw [take_cons_snd]
    split at hr
    · rename_i h0
      rw [if_pos h0]
      exact ih rm h hr
    · rename_i h0
      rw [if_neg h0]
      have h1 : (rm.setPool r (rm.usage r + a, rm.capacity r)).inited = true := by
        rw [setPool_inited]; exact h
      rw [lastFor_append]
      rcases ih _ h1 hr with h2 | h2
      · rw [lookup_setPool] at h2
        split at h2
        · rename_i e
          subst e
          right
          cases e2 : lastFor ((rm.setPool r' (rm.usage r' + a, rm.capacity r')).take rest).2 r' with
          | some x => simp
          | none => simpa using lastFor_recOf _ r' h1
        · exact Or.inl h2
      · right
        cases e2 : lastFor ((rm.setPool r (rm.usage r + a, rm.capacity r)).take rest).2 r' with
        | some x => simp
        | none => rw [e2] at h2; cases h2

theorem RMok.take (rm : RM) (req : Req) : RMok rm (rm.take req).1 (rm.take req).2 :=
  ⟨take_inited rm req, Faithful.take rm req, take_silent rm req, take_keys_nodup rm req,
   fun h r hr => take_covers rm req h r hr⟩

theorem RMok.credit (rm : RM) (req : Req) : RMok rm (rm.credit req).1 (rm.credit req).2 := by
  rw [credit_eq_take]; exact RMok.take rm _

theorem RMok.setPool (rm : RM) (r : Nat) (v : Int × Int) :
    RMok rm (rm.setPool r v) ((rm.setPool r v).recOf r) :=
  ⟨setPool_inited rm r v, Faithful.setPool rm r v,
   fun h => recOf_not_inited _ _ (by rw [setPool_inited]; exact h), setPool_keys_nodup rm r v,
   fun h r' hr => by
     rw [lookup_setPool] at hr
     split at hr
     · rename_i e; subst e
       exact Or.inr (lastFor_recOf _ r' (by rw [setPool_inited]; exact h))
     · exact Or.inl hr⟩

theorem RMok.add (rm : RM) (r : Nat) (amt : Int) : RMok rm (rm.add r amt).1 (rm.add r amt).2.2.1 := by
  unfold RM.add
  split
  · exact RMok.refl rm
  · split
    · split
      · exact RMok.refl rm
      · exact RMok.setPool rm r _
    · split
      · exact RMok.refl rm
      · exact RMok.setPool rm r _

theorem RMok.reserve (rm : RM) (req : Req) :
    RMok rm (rm.reserve req).1 (rm.reserve req).2.2.2 := by
  rw [reserve_eq]
  split
  · exact RMok.refl rm
  · split
    · exact (RMok.take rm req).congr rfl rfl
    · exact RMok.refl rm

theorem RMok.release (rm : RM) (id : Nat) (part : Option Req) :
    RMok rm (rm.release id part).1 (rm.release id part).2.2.1 := by
  unfold RM.release
  split
  · exact RMok.refl rm
  · split
    · exact (RMok.credit rm _).congr rfl rfl
    · split
      · exact (RMok.credit rm _).congr rfl rfl
      · exact RMok.refl rm

theorem RMok.merge (rm : RM) (a b : Nat) : RMok rm (rm.merge a b).1 [] := by
  unfold RM.merge
  split
  · split
    · exact RMok.refl rm
    · exact RMok.of_pools rfl rfl
  · exact RMok.refl rm
  · exact RMok.refl rm

theorem RMok.register (rm : RM) (req : Req) (cb : Cb) : RMok rm (rm.register req cb).1 [] :=
  RMok.of_pools rfl rfl

/-! ### the transition system -/

/-- What a piece of code is allowed to do to the key (beyond queue operations, plain records and
resource-manager calls): `mv` — hand parts over (receive and release sites); `sup` — let a source
supply; `cst` — charge a maintainer; `ini` — the resets of `initialize`. -/
structure Phase where
  mv : Bool
  sup : Bool
  cst : Bool
  ini : Bool
deriving DecidableEq, Repr

namespace Phase
/-- inside an event -/
def run : Phase := ⟨true, true, true, false⟩
/-- inside `initialize` -/
def init : Phase := ⟨false, false, false, true⟩
/-- inside a hand-over -/
def flow : Phase := ⟨true, false, false, false⟩
/-- the functions that touch neither counters, levels nor values -/
def quiet : Phase := ⟨false, false, false, false⟩
/-- parts may move -/
def moves (ph : Phase) : Prop := ph.mv = true
/-- `ph` allows no more than `ph'` -/
def le (ph ph' : Phase) : Prop :=
  (ph.mv = true → ph'.mv = true) ∧ (ph.sup = true → ph'.sup = true) ∧
  (ph.cst = true → ph'.cst = true) ∧ (ph.ini = true → ph'.ini = true)
end Phase

/-- No device is set up to create batches. -/
def NoBatchK (k : WKey) : Prop := ∀ x, (k.dev x).genBatch = 0 ∧ (k.dev x).bsize = none

/-- The sites at which the library changes the key. -/
inductive KStep (ph : Phase) : WKey → WKey → Prop where
  | refl (k : WKey) : KStep ph k k
  | trans {a b c : WKey} : KStep ph a b → KStep ph b c → KStep ph a c
  /-- an operation on the event queue other than `step`: the clock does not move -/
  | env (k : WKey) (op : EnvOp) (h : op ≠ .step) :
      KStep ph k { k with env := (k.env.apply Arith.exact op).1 }
  /-- a record that belongs to no counter, stamped with the clock -/
  | plain (k : WKey) (r : Rec) (hp : isPlain r = true) (ht : Rec.time r = k.now) :
      KStep ph k (k.addRecs [r])
  /-- a call of the resource manager: its records, stamped, and the new pools -/
  | rm (k : WKey) (a b : RM) (recs : List ResRec) (ha : a.pools = k.pools)
      (hi : a.inited = k.rmInited) (h : RMok a b recs) :
      KStep ph k { k with pools := b.pools, recs := k.recs ++ stamp k.now recs }
  /-- a sink accepts a part with `n` leaves of value `v` -/
  | recvSink (k : WKey) (x p : Nat) (q v : Int) (lv : List Nat) (hph : ph.moves)
      (hx : x < k.devs.length) (hk : (k.dev x).kind = .sink) (hl : k.pl = true → lv.length = 1) :
      KStep ph k
        { k with
          devs := k.devs.set x { k.dev x with
            recvCount := (k.dev x).recvCount + lv.length
            recvValue := (k.dev x).recvValue + v
            val := (k.dev x).val.addValue lblCollected k.now v }
          delivered := k.delivered ++ lv
          recs := k.recs ++ [Rec.received x k.now p q v] }
  /-- a buffer accepts a part with `n` leaves -/
  | recvBuf (k : WKey) (x p n : Nat) (q v : Int) (hph : ph.moves)
      (hx : x < k.devs.length) (hk : (k.dev x).kind = .buffer) :
      KStep ph k
        { k with
          devs := k.devs.set x { k.dev x with level := (k.dev x).level + n }
          recs := k.recs ++ [Rec.level x k.now ((k.dev x).level + n), Rec.received x k.now p q v] }
  /-- any other device accepts a part -/
  | recvOther (k : WKey) (x p : Nat) (q v : Int) (hph : ph.moves)
      (hk1 : (k.dev x).kind ≠ .sink) (hk2 : (k.dev x).kind ≠ .buffer) :
      KStep ph k (k.addRecs [Rec.received x k.now p q v])
  /-- a buffer releases a part with `n` leaves -/
  | release (k : WKey) (x n : Nat) (hph : ph.moves) (hx : x < k.devs.length)
      (hk : (k.dev x).kind = .buffer) :
      KStep ph k
        { k with
          devs := k.devs.set x { k.dev x with level := (k.dev x).level - n }
          recs := k.recs ++ [Rec.level x k.now ((k.dev x).level - n)] }
  /-- a source supplies part `p` of value `v` -/
  | supply (k : WKey) (x p : Nat) (v : Int) (hph : ph.sup = true)
      (hx : x < k.devs.length) (hk : (k.dev x).kind = .source) :
      KStep ph k
        { k with
          devs := k.devs.set x { k.dev x with
            produced := (k.dev x).produced + 1
            costProduced := (k.dev x).costProduced + v
            val := (k.dev x).val.addCost lblSupplied k.now v }
          recs := k.recs ++ [Rec.supplied x k.now p] }
  /-- a maintainer starts a work order of cost `c` -/
  | maintCost (k : WKey) (m : Nat) (c : Int) (hph : ph.cst = true) :
      KStep ph k { k with mvals := k.mvals.set m ((k.mval m).addCost lblWorkOrder k.now c) }
  /-- a device that is set up to create batches creates (or consumes) one -/
  | plSet (k : WKey) (b : Bool) (h : ¬ NoBatchK k) : KStep ph k { k with pl := b }
  /-- `initialize`: the resource manager -/
  | rmInit (k : WKey) (hph : ph.ini = true) (hi : k.rmInited = false) :
      KStep ph k
        { k with
          rmInited := true
          recs := k.recs ++ stamp k.now (k.pools.map (fun p => ⟨p.1, p.2.1, p.2.2⟩)) }
  /-- `initialize`: a device -/
  | devReset (k : WKey) (x : Nat) (hph : ph.ini = true) :
      KStep ph k { k with devs := k.devs.set x { k.dev x with val := (k.dev x).val.reset } }
  /-- `initialize`: a maintainer -/
  | maintReset (k : WKey) (m : Nat) (hph : ph.ini = true) :
      KStep ph k { k with mvals := k.mvals.set m (k.mval m).reset }

variable {ph : Phase}

theorem KStep.cast {k k1 k2 : WKey} (h : KStep ph k k1) (e : k1 = k2) : KStep ph k k2 := e ▸ h

theorem getD_set {α} (l : List α) (x y : Nat) (a d : α) :
    (l.set x a).getD y d = if x = y ∧ x < l.length then a else l.getD y d := by
  by_cases h : x = y
  · subst h
    by_cases hl : x < l.length
    · simp [hl, List.getD_eq_getElem?_getD]
    · simp [hl, List.getD_eq_getElem?_getD]
  · simp [h, List.getD_eq_getElem?_getD, List.getElem?_set_ne h]

theorem addValue_init (a : AssetVal) (l : Nat) (t v : Int) : (a.addValue l t v).init = a.init := by
  unfold AssetVal.addValue; split <;> rfl

/-- What no step changes: the number of devices, their kinds and starting values. -/
theorem KStep.static {k k' : WKey} (h : KStep ph k k') :
    k'.devs.length = k.devs.length ∧ k'.mvals.length = k.mvals.length ∧
    (∀ x, (k'.dev x).kind = (k.dev x).kind ∧ (k'.dev x).val.init = (k.dev x).val.init) ∧
    (∀ m, (k'.mval m).init = (k.mval m).init) := by
  induction h with
  | refl k => exact ⟨rfl, rfl, fun _ => ⟨rfl, rfl⟩, fun _ => rfl⟩
  | trans _ _ ih1 ih2 =>
    exact ⟨ih2.1.trans ih1.1, ih2.2.1.trans ih1.2.1,
      fun x => ⟨(ih2.2.2.1 x).1.trans (ih1.2.2.1 x).1, (ih2.2.2.1 x).2.trans (ih1.2.2.1 x).2⟩,
      fun m => (ih2.2.2.2 m).trans (ih1.2.2.2 m)⟩
  | env k op h => exact ⟨rfl, rfl, fun _ => ⟨rfl, rfl⟩, fun _ => rfl⟩
  | plain k r hp ht => exact ⟨rfl, rfl, fun _ => ⟨rfl, rfl⟩, fun _ => rfl⟩
  | rm k a b recs ha hi h => exact ⟨rfl, rfl, fun _ => ⟨rfl, rfl⟩, fun _ => rfl⟩
  | recvOther k x p q v hph hk1 hk2 => exact ⟨rfl, rfl, fun _ => ⟨rfl, rfl⟩, fun _ => rfl⟩
  | rmInit k hph hi => exact ⟨rfl, rfl, fun _ => ⟨rfl, rfl⟩, fun _ => rfl⟩
  | plSet k b h => exact ⟨rfl, rfl, fun _ => ⟨rfl, rfl⟩, fun _ => rfl⟩
  | maintCost k m c hph =>
    refine ⟨rfl, by simp, fun _ => ⟨rfl, rfl⟩, fun m' => ?_⟩
    simp only [WKey.mval, getD_set]
    split
    · rename_i h; rw [← h.1]; exact addValue_init _ _ _ _
    · rfl
  | maintReset k m hph =>
    refine ⟨rfl, by simp, fun _ => ⟨rfl, rfl⟩, fun m' => ?_⟩
    simp only [WKey.mval, getD_set]
    split
    · rename_i h; rw [← h.1]; rfl
    · rfl
  | _ =>
    refine ⟨by simp, rfl, fun y => ?_, fun _ => rfl⟩
    simp only [WKey.dev, getD_set]
    split
    · rename_i h; rw [← h.1]
      first
        | exact ⟨rfl, rfl⟩
        | exact ⟨rfl, addValue_init _ _ _ _⟩
    · exact ⟨rfl, rfl⟩

/-- More permissions, more steps. -/
theorem KStep.mono {ph ph' : Phase} (hle : ph.le ph') {k k' : WKey} (h : KStep ph k k') : KStep ph' k k' := by
  induction h with
  | refl k => exact .refl k
  | trans _ _ ih1 ih2 => exact .trans ih1 ih2
  | env k op h => exact .env k op h
  | plain k r hp ht => exact .plain k r hp ht
  | rm k a b recs ha hi h => exact .rm k a b recs ha hi h
  | recvSink k x p q v lv hph hx hk hl => exact .recvSink k x p q v lv (hle.1 hph) hx hk hl
  | plSet k b h => exact .plSet k b h
  | recvBuf k x p n q v hph hx hk => exact .recvBuf k x p n q v (hle.1 hph) hx hk
  | recvOther k x p q v hph hk1 hk2 => exact .recvOther k x p q v (hle.1 hph) hk1 hk2
  | release k x n hph hx hk => exact .release k x n (hle.1 hph) hx hk
  | supply k x p v hph hx hk => exact .supply k x p v (hle.2.1 hph) hx hk
  | maintCost k m c hph => exact .maintCost k m c (hle.2.2.1 hph)
  | rmInit k hph hi => exact .rmInit k (hle.2.2.2 hph) hi
  | devReset k x hph => exact .devReset k x (hle.2.2.2 hph)
  | maintReset k m hph => exact .maintReset k m (hle.2.2.2 hph)

theorem Phase.quiet_le (ph : Phase) : Phase.quiet.le ph := by
  unfold Phase.le
  refine ⟨?_, ?_, ?_, ?_⟩ <;> intro h <;> cases h

/-- `f w` is a `KStep` away from `w`. -/
def KS (ph : Phase) (w w' : World) : Prop := KStep ph (key w) (key w')

theorem KS.refl (w : World) : KS ph w w := KStep.refl _
theorem KS.trans {a b c : World} (h1 : KS ph a b) (h2 : KS ph b c) : KS ph a c := KStep.trans h1 h2

theorem KS.of_key {w w' : World} (h : key w' = key w) : KS ph w w' := by
  unfold KS; rw [h]; exact KStep.refl _

theorem KS.trans_key {a b c : World} (h1 : KS ph a b) (h : key c = key b) : KS ph a c :=
  h1.trans (KS.of_key h)

theorem KS.foldl {α} (g : World → α → World) (l : List α) (w : World)
    (h : ∀ w a, KS ph w (g w a)) : KS ph w (l.foldl g w) := by
  induction l generalizing w with
  | nil => exact KS.refl w
  | cons a l ih => exact (h w a).trans (ih _)

theorem KS.of_fst_eq {α} {w w' : World} {e : World × α} {b : α} (he : KS ph w e.1)
    (h : e = (w', b)) : KS ph w w' := by
  subst h; exact he

/-! ### primitives -/

theorem key_setErr (w : World) (m : String) : key (w.setErr m) = key w := by
  unfold setErr; split <;> rfl

theorem KS_setErr (w : World) (m : String) : KS ph w (w.setErr m) := KS.of_key (key_setErr w m)
theorem KS_addRes (w : World) (r : Res) : KS ph w (w.addRes r) := KS.of_key rfl
theorem all_set_of_eq {α} (g : α → Bool) (l : List α) (i : Nat) (a d : α) (h : g a = g (l.getD i d)) :
    (l.set i a).all g = l.all g := by
  have e : ∀ l' : List α, l'.all g = (l'.map g).all id := fun l' => by
    rw [List.all_map]; rfl
  rw [e, e, map_set_of_eq g l i a d h]

theorem key_modPart (w : World) (p : Nat) (f : PartRec → PartRec)
    (h : (f (w.part p)).kids.isNone = (w.part p).kids.isNone) : key (w.modPart p f) = key w := by
  unfold key World.modPart
  simp only
  rw [all_set_of_eq (fun r : PartRec => r.kids.isNone) w.parts p _ default h]

theorem key_newPart (w : World) (r : PartRec) (h : r.kids = none) : key (w.newPart r).1 = key w := by
  unfold key World.newPart
  simp [h]

theorem KS_modPart (w : World) (p : Nat) (f : PartRec → PartRec)
    (h : (f (w.part p)).kids.isNone = (w.part p).kids.isNone) : KS ph w (w.modPart p f) :=
  KS.of_key (key_modPart w p f h)
theorem KS_newPart (w : World) (r : PartRec) (h : r.kids = none) : KS ph w (w.newPart r).1 :=
  KS.of_key (key_newPart w r h)

/-- The key without the flag `pl`. -/
def keyNP (w : World) : WKey := { key w with pl := true }

/-- Everything but `pl` is unchanged, and `pl` is unchanged when no device creates batches. -/
theorem KS_of_NP {w w' : World} (h1 : keyNP w' = keyNP w)
    (h2 : NoBatchK (key w) → (key w').pl = (key w).pl) : KS ph w w' := by
  have e : key w' = { key w with pl := (key w').pl } := by
    have a1 := congrArg WKey.env h1
    have a2 := congrArg WKey.recs h1
    have a3 := congrArg WKey.devs h1
    have a4 := congrArg WKey.delivered h1
    have a5 := congrArg WKey.pools h1
    have a6 := congrArg WKey.rmInited h1
    have a7 := congrArg WKey.mvals h1
    simp only [keyNP] at a1 a2 a3 a4 a5 a6 a7
    cases hk : key w'
    rw [hk] at a1 a2 a3 a4 a5 a6 a7
    simp only at a1 a2 a3 a4 a5 a6 a7
    subst a1 a2 a3 a4 a5 a6 a7
    rfl
  by_cases hb : NoBatchK (key w)
  · apply KS.of_key
    rw [e, h2 hb]
  · unfold KS
    rw [e]
    exact KStep.plSet (key w) _ hb

theorem keyNP_of_key {w w' : World} (h : key w' = key w) : keyNP w' = keyNP w := by
  unfold keyNP; rw [h]


theorem key_setDev (w : World) (x : Nat) (d : Dev) (h : dkey d = dkey (w.dev x)) :
    key (w.setDev x d) = key w := by
  unfold key World.setDev
  simp only
  rw [map_set_of_eq dkey w.devs x d default h]

theorem KS_setDev (w : World) (x : Nat) (d : Dev) (h : dkey d = dkey (w.dev x)) :
    KS ph w (w.setDev x d) := KS.of_key (key_setDev w x d h)

theorem KS_modDev (w : World) (x : Nat) (f : Dev → Dev) (h : dkey (f (w.dev x)) = dkey (w.dev x)) :
    KS ph w (w.modDev x f) := KS_setDev w x _ h

theorem KS_envOp (w : World) (op : EnvOp) (h : op ≠ .step) : KS ph w (w.envOp op) :=
  KStep.env (key w) op h

theorem KS_sched (w : World) (t a : Int) (act : Action) (p : Int) : KS ph w (w.sched t a act p).1 := by
  have h := KStep.env (ph := ph) (key w)
    (.sched t a act.toNat p (weightOf w.seed w.wmod t a act.toNat p)) (by intro h; cases h)
  unfold World.sched
  dsimp only
  split
  · rename_i e heq
    unfold KS
    have : (key w).env.apply Arith.exact
        (.sched t a act.toNat p (weightOf w.seed w.wmod t a act.toNat p)) = (e, EnvOut.ok) := heq
    rw [this] at h
    exact h
  · rename_i hne
    -- rejected: the environment is unchanged
    exact KS.refl w

theorem KS_schedLib (w : World) (t a : Int) (act : Action) (p : Int) :
    KS ph w (w.schedLib t a act p) := by
  have h := KS_sched (ph := ph) w t a act p
  unfold schedLib
  generalize w.sched t a act p = s at h ⊢
  obtain ⟨w', r⟩ := s
  cases r <;> first | exact h | exact h.trans (KS_setErr _ _)

theorem KS_addRec (w : World) (r : Rec) (hp : isPlain r = true) (ht : Rec.time r = w.now) :
    KS ph w (w.addRec r) := KStep.plain (key w) r hp ht

theorem key_foldl_resUpdate (recs : List ResRec) (v : World) :
    key (recs.foldl (fun w r => w.addRec (.resUpdate r.res w.now r.inUse r.cap)) v) =
      { key v with recs := v.recs ++ stamp v.now recs } := by
  induction recs generalizing v with
  | nil => simp [stamp, key]
  | cons r recs ih =>
    rw [List.foldl_cons, ih]
    simp [stamp, key, World.addRec, World.now]

/-- A resource-manager call followed by `rmEffects`. -/
theorem KS_rmStep (w : World) (rm' : RM) (recs : List ResRec) (chk : Bool) (h : RMok w.rm rm' recs) :
    KS ph w (({ w with rm := rm' } : World).rmEffects recs chk) := by
  have h1 : KS ph w (recs.foldl (fun w r => w.addRec (.resUpdate r.res w.now r.inUse r.cap))
      ({ w with rm := rm' } : World)) := by
    unfold KS
    rw [key_foldl_resUpdate]
    have := KStep.rm (ph := ph) (key w) w.rm rm' recs rfl rfl h
    have e : ({ key ({ w with rm := rm' } : World) with
        recs := ({ w with rm := rm' } : World).recs ++ stamp ({ w with rm := rm' } : World).now recs } : WKey) =
        { key w with pools := rm'.pools, recs := (key w).recs ++ stamp (key w).now recs } := by
      unfold key
      simp only [h.inited]
      rfl
    rw [e]
    exact this
  unfold rmEffects
  dsimp only
  split
  · exact h1.trans (KS_schedLib _ _ _ _ _)
  · exact h1

end C15W
end SimProc
