/-
C03Z — several groups (in sequence, re-entrant, nested): the static typing of a topology by group
contexts, and the typing of group-path stacks.

* `cx cl x`         : the context of device `x` — the ids of the groups it is inside, outermost first
                      (a certificate `cl : List (List Nat)`, one entry per device; `ctxInfer` computes
                      one);
* `TS t c cz s`     : the stack `s` is typed for the context `cz`: reading it from the top, each entry
                      `g` is a group path, `cz = c g ++ [group g]`, and the rest is typed for `c g` —
                      a SUFFIX typing (the empty stack is typed for every context);
* `base c cz s`     : the context below the stack;
* `Typed cl w`      : the wiring respects the contexts (`TypedAt`), and every batcher stands at nesting
                      depth ≤ 1 (`BatShallow`; e.g. the world is `Flat` — no nesting — or has no
                      batcher, `NoBat`);
* `gchain_ts`       : a hand-over chain (`C08W.GChain`) carries a typed stack to a typed stack;
* `consS_of_ts`     : a typed stack meets, at every group output an offer can reach, the output of the
                      group of its innermost path (`C03W.consS`).
-/
import SimProc.Proofs.C03WDefs
import SimProc.Proofs.C08WWorld

namespace SimProc
namespace C03Z
open World C02V C08L C08W C03W

/-! ### typed stacks -/

/-- typing of a stack given top first -/
def tsR (t : Topo) (c : Nat → List Nat) : List Nat → List Nat → Prop
  | _, [] => True
  | cz, g :: r => t.kind g = .gpath ∧ cz = c g ++ [t.group g] ∧ tsR t c (c g) r

instance tsR.dec (t : Topo) (c : Nat → List Nat) : ∀ (cz r : List Nat), Decidable (tsR t c cz r)
  | _, [] => isTrue trivial
  | cz, g :: r =>
    have := tsR.dec t c (c g) r
    by unfold tsR; infer_instance

/-- **The stack `s` (innermost group path last) is typed for the context `cz`.** -/
def TS (t : Topo) (c : Nat → List Nat) (cz s : List Nat) : Prop := tsR t c cz s.reverse

instance (t : Topo) (c : Nat → List Nat) (cz s : List Nat) : Decidable (TS t c cz s) := by
  unfold TS; infer_instance

/-- the context below the stack, given top first -/
def baseR (c : Nat → List Nat) : List Nat → List Nat → List Nat
  | cz, [] => cz
  | _, g :: r => baseR c (c g) r

/-- the context in which the bottom entry of the stack was entered -/
def base (c : Nat → List Nat) (cz s : List Nat) : List Nat := baseR c cz s.reverse

variable {t : Topo} {c : Nat → List Nat}

@[simp] theorem ts_nil (cz : List Nat) : TS t c cz [] := trivial

theorem ts_snoc (cz s : List Nat) (g : Nat) :
    TS t c cz (s ++ [g]) ↔ t.kind g = .gpath ∧ cz = c g ++ [t.group g] ∧ TS t c (c g) s := by
  unfold TS
  rw [List.reverse_append]
  exact Iff.rfl

@[simp] theorem base_nil (cz : List Nat) : base c cz [] = cz := rfl

theorem base_snoc (cz s : List Nat) (g : Nat) : base c cz (s ++ [g]) = base c (c g) s := by
  unfold base
  rw [List.reverse_append]
  rfl

theorem snoc_cases (s : List Nat) : s = [] ∨ ∃ s' g, s = s' ++ [g] := by
  rcases List.eq_nil_or_concat s with h | ⟨l, b, h⟩
  · exact Or.inl h
  · exact Or.inr ⟨l, b, by rw [h, List.concat_eq_append]⟩

/-- the typing of a stack reads kinds and group ids only -/
theorem tsR_congr {t t' : Topo} (hk : ∀ g, t'.kind g = t.kind g) (hg : ∀ g, t'.group g = t.group g) :
    ∀ (r cz : List Nat), tsR t' c cz r ↔ tsR t c cz r := by
  intro r
  induction r with
  | nil => intro cz; exact Iff.rfl
  | cons g r ih =>
    intro cz
    unfold tsR
    rw [hk, hg, ih]

theorem ts_congr {t t' : Topo} (hk : ∀ g, t'.kind g = t.kind g) (hg : ∀ g, t'.group g = t.group g)
    (cz s : List Nat) : TS t' c cz s ↔ TS t c cz s := tsR_congr hk hg _ _

/-- only the empty stack is typed for the empty context -/
theorem ts_ctx_nil {s : List Nat} (h : TS t c [] s) : s = [] := by
  rcases snoc_cases s with rfl | ⟨s', g, rfl⟩
  · rfl
  · rw [ts_snoc] at h
    have := congrArg List.length h.2.1
    simp at this

/-- every entry of a typed stack is a group path -/
theorem ts_paths : ∀ (n : Nat) (cz s : List Nat), s.length = n → TS t c cz s →
    ∀ g ∈ s, t.kind g = .gpath := by
  intro n
  induction n with
  | zero =>
    intro cz s hl _ g hg
    rw [List.length_eq_zero_iff.mp hl] at hg; cases hg
  | succ n ih =>
    intro cz s hl h g hg
    rcases snoc_cases s with rfl | ⟨s', g', rfl⟩
    · cases hg
    · rw [ts_snoc] at h
      rcases List.mem_append.mp hg with hg | hg
      · exact ih (c g') s' (by simpa using hl) h.2.2 g hg
      · rw [List.mem_singleton] at hg; rw [hg]; exact h.1

/-- **In a flat context the typing of a kid relative to the context below the stack of its batch is
its typing for the context itself.** -/
theorem ts_flat {cz sq sk : List Nat} (hf : cz.length ≤ 1) (hq : TS t c cz sq)
    (hk : TS t c (base c cz sq) sk) : TS t c cz sk := by
  rcases snoc_cases sq with rfl | ⟨s', g, rfl⟩
  · exact hk
  · rw [ts_snoc] at hq
    obtain ⟨_, h2, h3⟩ := hq
    have hcg : c g = [] := by
      have := congrArg List.length h2
      simp only [List.length_append, List.length_cons, List.length_nil] at this
      exact List.length_eq_zero_iff.mp (by omega)
    rw [hcg] at h3
    have hs' := ts_ctx_nil h3
    subst hs'
    rw [base_snoc, base_nil, hcg] at hk
    rw [ts_ctx_nil hk]
    exact ts_nil _

/-! ### the static typing of a topology -/

/-- the wiring respects the contexts: a downstream connection stays in the context (for a group
path: the devices behind the group are in the context of the path), the input device of the group
of a group path is one level deeper -/
structure TypT (t : Topo) (c : Nat → List Nat) : Prop where
  down : ∀ x y, y ∈ t.down x → c y = c x
  gin : ∀ x, t.kind x = .gpath → c (t.gin (t.group x)) = c x ++ [t.group x]

/-- **A hand-over chain carries a typed stack to a typed stack**, and the context below the stack
does not change. -/
theorem gchain_ts (hT : TypT t c) {y : Nat} {s C s' : List Nat} (h : GChain t y s C s')
    (hs : TS t c (c y) s) :
    ∃ C0 z, C = C0 ++ [z] ∧ TS t c (c z) s' ∧ base c (c z) s' = base c (c y) s := by
  induction h with
  | slot y s hk => exact ⟨[], y, rfl, hs, rfl⟩
  | gate y s y' c0 s' hk hy _ ih =>
    rw [← hT.down y y' hy] at hs ⊢
    obtain ⟨C0, z, rfl, h1, h2⟩ := ih hs
    exact ⟨y :: C0, z, rfl, h1, h2⟩
  | ginput y s y' c0 s' hk hy _ ih =>
    rw [← hT.down y y' hy] at hs ⊢
    exact ih hs
  | gpath y s c0 s' hk _ ih =>
    have h1 : TS t c (c (t.gin (t.group y))) (s ++ [y]) := by
      rw [ts_snoc]; exact ⟨hk, hT.gin y hk, hs⟩
    obtain ⟨C0, z, rfl, h2, h3⟩ := ih h1
    refine ⟨y :: C0, z, rfl, h2, ?_⟩
    rw [h3, hT.gin y hk, base_snoc]
  | goutput y s g y' c0 s' hk hy _ ih =>
    rw [ts_snoc] at hs
    obtain ⟨_, h2, h3⟩ := hs
    have h4 : TS t c (c y') s := by rw [hT.down g y' hy]; exact h3
    obtain ⟨C0, z, rfl, h5, h6⟩ := ih h4
    refine ⟨C0, z, rfl, h5, ?_⟩
    rw [h6, base_snoc, hT.down g y' hy]

/-- the last device of a chain -/
theorem gchain_ts_last (hT : TypT t c) {y z : Nat} {s C s' : List Nat}
    (h : GChain t y s (C ++ [z]) s') (hs : TS t c (c y) s) :
    TS t c (c z) s' ∧ base c (c z) s' = base c (c y) s := by
  obtain ⟨C0, z0, he, h1, h2⟩ := gchain_ts hT h hs
  have := List.append_inj' he rfl
  have hz : z = z0 := by simpa using this.2
  subst hz
  exact ⟨h1, h2⟩

/-! ### the certificate -/

/-- the context of device `x` according to the certificate -/
def cx (cl : List (List Nat)) (x : Nat) : List Nat := cl.getD x []

/-- the conditions on the wiring of device `x` -/
def TypedAt (cl : List (List Nat)) (w : World) (x : Nat) : Prop :=
  (∀ y ∈ (w.dev x).down, cx cl y = cx cl x) ∧
  ((w.dev x).kind = .gpath → cx cl (groupIn w x) = cx cl x ++ [(w.dev x).group]) ∧
  ((w.dev x).kind = .goutput →
    (cx cl x).getLast? = some (w.dev x).group ∧ groupOut w x = x)

instance (cl : List (List Nat)) (w : World) (x : Nat) : Decidable (TypedAt cl w x) := by
  unfold TypedAt; infer_instance

/-- no nesting: every context has at most one entry -/
def Flat (cl : List (List Nat)) : Prop := ∀ l ∈ cl, l.length ≤ 1

instance (cl : List (List Nat)) : Decidable (Flat cl) := by unfold Flat; infer_instance

/-- no batcher (decidable form) -/
def NoBat (w : World) : Prop := ∀ d ∈ w.devs, d.kind ≠ .batcher

instance (w : World) : Decidable (NoBat w) := by unfold NoBat; infer_instance

/-- every batcher stands at nesting depth at most one (outside all groups, or inside a group that is
not nested in another one) -/
def BatShallow (cl : List (List Nat)) (w : World) : Prop :=
  ∀ x ∈ List.range w.devs.length, (w.dev x).kind = .batcher → (cx cl x).length ≤ 1

instance (cl : List (List Nat)) (w : World) : Decidable (BatShallow cl w) := by
  unfold BatShallow; infer_instance

/-- **The typing of a topology by group contexts**: every device's wiring respects the contexts of
the certificate `cl`; a group output is the output of its group and stands in a context that ends
with its group; and every batcher stands at nesting depth at most one (`BatShallow`: in particular
every flat world and every world without batchers qualifies). -/
def Typed (cl : List (List Nat)) (w : World) : Prop :=
  (∀ x ∈ List.range w.devs.length, TypedAt cl w x) ∧ BatShallow cl w

instance (cl : List (List Nat)) (w : World) : Decidable (Typed cl w) := by unfold Typed; infer_instance

theorem Flat.cx {cl : List (List Nat)} (h : Flat cl) (x : Nat) : (cx cl x).length ≤ 1 := by
  unfold C03Z.cx
  rw [List.getD_eq_getElem?_getD]
  cases hp : cl[x]? with
  | none => simp
  | some l => exact h l (List.mem_of_getElem? hp)

theorem NoBat.noBatcher {w : World} (h : NoBat w) : NoBatcher w := by
  intro x
  rcases dev_mem_or_default w x with hm | hd
  · exact h _ hm
  · rw [hd]; decide

theorem batShallow_of_flat {cl : List (List Nat)} (h : Flat cl) (w : World) : BatShallow cl w :=
  fun x _ _ => h.cx x

theorem batShallow_of_noBat {cl : List (List Nat)} {w : World} (h : NoBat w) : BatShallow cl w :=
  fun x _ hk => absurd hk (h.noBatcher x)

/-- `BatShallow` without the bound on the device index -/
theorem BatShallow.at {cl : List (List Nat)} {w : World} (h : BatShallow cl w) (x : Nat)
    (hk : (w.dev x).kind = .batcher) : (cx cl x).length ≤ 1 := by
  by_cases hx : x < w.devs.length
  · exact h x (List.mem_range.mpr hx) hk
  · rw [dev_of_length_le (Nat.le_of_not_lt hx)] at hk; cases hk

theorem typedAt_default (cl : List (List Nat)) (w : World) {x : Nat} (hx : w.devs.length ≤ x) :
    TypedAt cl w x := by
  unfold TypedAt
  rw [dev_of_length_le hx]
  refine ⟨fun y hy => ?_, fun h => ?_, fun h => ?_⟩
  · cases hy
  · cases h
  · cases h

theorem Typed.at {cl : List (List Nat)} {w : World} (h : Typed cl w) (x : Nat) : TypedAt cl w x := by
  by_cases hx : x < w.devs.length
  · exact h.1 x (List.mem_range.mpr hx)
  · exact typedAt_default cl w (Nat.le_of_not_lt hx)

theorem groupIn_topo (w : World) (x : Nat) : (topo w).gin ((topo w).group x) = groupIn w x := rfl

theorem Typed.typT {cl : List (List Nat)} {w : World} (h : Typed cl w) : TypT (topo w) (cx cl) :=
  ⟨fun x y hy => (h.at x).1 y hy, fun x hk => (h.at x).2.1 hk⟩

/-- `Typed` reads kinds, downstream lists, group ids and the group table only -/
theorem Typed.congr {cl : List (List Nat)} {w w' : World} (h : Typed cl w)
    (hl : w'.devs.length = w.devs.length)
    (hk : ∀ x, (w'.dev x).kind = (w.dev x).kind) (hd : ∀ x, (w'.dev x).down = (w.dev x).down)
    (hg : ∀ x, (w'.dev x).group = (w.dev x).group) (hgr : w'.groups = w.groups) : Typed cl w' := by
  refine ⟨fun x hx => ?_, fun x hx hkx => h.2 x (by rw [← hl]; exact hx) (by rw [← hk]; exact hkx)⟩
  have := h.1 x (by rw [← hl]; exact hx)
  unfold TypedAt groupIn groupOut at this ⊢
  rw [hk, hd, hg, hgr]
  exact this

/-! ### typed stacks meet the right group outputs -/

/-- **A typed stack is consistent** (`C03W.consS`): at every group output that an offer to `x` can
reach, the innermost group path of the stack at that point is a path of that output's group. -/
theorem consS_of_ts {cl : List (List Nat)} {w : World} (h : Typed cl w) : ∀ f x stk,
    TS (topo w) (cx cl) (cx cl x) stk → consS f w x stk = true := by
  intro f
  induction f with
  | zero => intro x stk _; rfl
  | succ f ih =>
    intro x stk hs
    unfold consS
    have hx := h.at x
    cases hk : (w.dev x).kind <;> simp only []
    case gate =>
      exact List.all_eq_true.mpr (fun y hy => ih y stk (by rw [hx.1 y hy]; exact hs))
    case ginput =>
      exact List.all_eq_true.mpr (fun y hy => ih y stk (by rw [hx.1 y hy]; exact hs))
    case gpath =>
      refine ih _ _ ?_
      rw [ts_snoc]
      exact ⟨hk, hx.2.1 hk, hs⟩
    case goutput =>
      cases hl : stk.getLast? with
      | none => rfl
      | some g =>
        simp only []
        obtain ⟨s', rfl⟩ := List.getLast?_eq_some_iff.mp hl
        rw [ts_snoc] at hs
        obtain ⟨hg, h2, h3⟩ := hs
        obtain ⟨h4, h5⟩ := hx.2.2 hk
        have hgg : (w.dev g).group = (w.dev x).group := by
          rw [h2, List.getLast?_append, List.getLast?_singleton] at h4
          have h4' : (topo w).group g = (w.dev x).group := by simpa using h4
          exact h4'
        have hgo : groupOut w g = x := by
          unfold groupOut at h5 ⊢
          rw [hgg]; exact h5
        have hg' : (w.dev g).kind = .gpath := hg
        rw [hg', hgo]
        simp only [beq_self_eq_true, Bool.true_and, List.dropLast_concat]
        exact List.all_eq_true.mpr (fun y hy => ih y s' (by rw [(h.at g).1 y hy]; exact h3))

/-! ### a certificate computed from the wiring -/

/-- one round of propagation: every device tells its downstream devices (a group path also the
input device of its group) their context -/
def ctxRound (w : World) (cl : List (List Nat)) : List (List Nat) :=
  (List.range w.devs.length).foldl (fun cl x =>
    let cl := (w.dev x).down.foldl (fun cl y => cl.set y (cx cl x)) cl
    if (w.dev x).kind = .gpath then cl.set (groupIn w x) (cx cl x ++ [(w.dev x).group]) else cl) cl

/-- **A certificate computed from the wiring** (contexts propagated from the devices without
upstream neighbour, as many rounds as there are devices).  Nothing is claimed about it: whether it
is a typing is decided by `Typed (ctxInfer w) w`. -/
def ctxInfer (w : World) : List (List Nat) :=
  (List.range w.devs.length).foldl (fun cl _ => ctxRound w cl) (List.replicate w.devs.length [])

end C03Z
end SimProc
