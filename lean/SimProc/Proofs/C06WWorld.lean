/-
C06W (closed-world timer invariant), part 6: scripted operations, the actions of events, `step`,
`runLoop`, `simulateInit`.
-/
import SimProc.Proofs.C06WPass
import SimProc.Proofs.StaticWorld
namespace SimProc
namespace C06W
open World FloorCoreL
open C02V (Reach st GiveOK Static SR HasBad badAct OpStatic ScriptsStatic TopoOK)

/-! ### the static conditions -/

/-- maintenance targets that are devices are processors -/
def TargetsProc (w : World) : Prop :=
  ∀ t ∈ w.targets, ∀ d, t.dev = some d → (w.dev d).kind = .processor

/-- scripts do not pause, resume or cancel the events of a device directly -/
def OpNoPause (w : World) : Op → Prop
  | .pause a => ∀ x, x < w.devs.length → (w.dev x).aid ≠ a
  | .unpause a => ∀ x, x < w.devs.length → (w.dev x).aid ≠ a
  | .cancel a => ∀ x, x < w.devs.length → (w.dev x).aid ≠ a
  | _ => True

def ScriptsNoPause (w : World) : Prop := ∀ l ∈ w.scripts, ∀ op ∈ l, OpNoPause w op

/-- the devices that are not processors -/
def np (w : World) : Nat → Prop := fun d => (w.dev d).kind ≠ .processor

/-- no failure of a device that is not a processor is pending or paused -/
def NoBadFail (w : World) : Prop := ¬ HasBad (badAct (np w)) w

/-- The closed-world invariant. -/
structure WI (w : World) : Prop where
  fi : FI w
  st : Static w
  tp : TargetsProc w
  nps : ScriptsNoPause w
  nf : NoBadFail w

/-- What a function of `Model/World.lean` does, as far as the invariant is concerned. -/
structure WS (w w' : World) : Prop where
  good : Good w w'
  sr : SR (fun d => (w.dev d).kind = .sink) w w'
  nf : HasBad (badAct (np w)) w' = HasBad (badAct (np w)) w

theorem np_of_ka {w w' : World} (hka : ∀ y, (w'.dev y).kind = (w.dev y).kind ∧ (w'.dev y).aid = (w.dev y).aid) :
    np w' = np w := by
  funext d; unfold np; rw [(hka d).1]

theorem sinks_of_ka {w w' : World}
    (hka : ∀ y, (w'.dev y).kind = (w.dev y).kind ∧ (w'.dev y).aid = (w.dev y).aid) :
    (fun d => (w'.dev d).kind = .sink) = (fun d => (w.dev d).kind = .sink) := by
  funext d; rw [(hka d).1]

theorem WS.refl {w : World} (h : FI w) : WS w w := ⟨Good.refl h, SR.refl _ w, rfl⟩

theorem WS.trans {a b c : World} (h1 : WS a b) (h2 : WS b c) : WS a c := by
  refine ⟨h1.good.trans h2.good, h1.sr.trans ?_, ?_⟩
  · have := h2.sr; rw [sinks_of_ka h1.good.2.ka] at this; exact this
  · have := h2.nf; rw [np_of_ka h1.good.2.ka] at this; exact this.trans h1.nf

theorem opNoPause_of_ka {w w' : World} (hl : w'.devs.length = w.devs.length)
    (hka : ∀ y, (w'.dev y).kind = (w.dev y).kind ∧ (w'.dev y).aid = (w.dev y).aid) (op : Op)
    (h : OpNoPause w op) : OpNoPause w' op := by
  cases op <;> simp only [OpNoPause] at h ⊢
  all_goals (intro x hx; rw [(hka x).2]; exact h x (hl ▸ hx))

theorem WI.of_ws {w w' : World} (h : WI w) (s : WS w w') : WI w' := by
  have hk := s.good.2
  refine ⟨s.good.1, h.st.of_sr s.sr, ?_, ?_, ?_⟩
  · intro t ht d hd
    rw [(hk.ka d).1]
    have : t.dev ∈ w'.targets.map (·.dev) := List.mem_map.mpr ⟨t, ht, rfl⟩
    rw [hk.tg] at this
    obtain ⟨t0, ht0, e0⟩ := List.mem_map.mp this
    exact h.tp t0 ht0 d (e0.trans hd)
  · intro l hl op hop
    rw [s.sr.2.1] at hl
    exact opNoPause_of_ka hk.len hk.ka op (h.nps l hl op hop)
  · unfold NoBadFail
    rw [np_of_ka hk.ka, s.nf]; exact h.nf

/-- the static part of the invariant is carried along any `WS` step -/
theorem wi_of_ws {w w' : World} (hst : Static w) (htp : TargetsProc w) (hnps : ScriptsNoPause w)
    (hnf : NoBadFail w) (s : WS w w') : WI w' := by
  have hk := s.good.2
  refine ⟨s.good.1, hst.of_sr s.sr, ?_, ?_, ?_⟩
  · intro t ht d hd
    rw [(hk.ka d).1]
    have : t.dev ∈ w'.targets.map (·.dev) := List.mem_map.mpr ⟨t, ht, rfl⟩
    rw [hk.tg] at this
    obtain ⟨t0, ht0, e0⟩ := List.mem_map.mp this
    exact htp t0 ht0 d (e0.trans hd)
  · intro l hl op hop
    rw [s.sr.2.1] at hl
    exact opNoPause_of_ka hk.len hk.ka op (hnps l hl op hop)
  · unfold NoBadFail
    rw [np_of_ka hk.ka, s.nf]; exact hnf

theorem WI.stat {w : World} (h : WI w) : C02V.Stat (fun d => (w.dev d).kind = .sink) w :=
  ⟨fun _ => Iff.rfl, h.st.1⟩

/-- A full frame at the world level (given the two projections that `Fr` does not see). -/
theorem WS.of_fr {w w' : World} (h : FI w) (f : Fr None_ w w')
    (sr : SR (fun d => (w.dev d).kind = .sink) w w')
    (nf : HasBad (badAct (np w)) w' = HasBad (badAct (np w)) w) : WS w w' := ⟨f.good h, sr, nf⟩

/-! ### scripted operations -/

/-- Pausing, resuming or cancelling the events of an asset that is not a device. -/
theorem fr_envop_other {w : World} (h : FI w) (a : Int)
    (ha : ∀ x, x < w.devs.length → (w.dev x).aid ≠ a) (op : EnvOp)
    (hop : op = .pause a ∨ op = .unpause a ∨ op = .cancel a) : Fr None_ w (w.envOp op) := by
  have hoa : ∀ y, (w.dev y).kind ≠ .source → ∀ e ∈ finE w.env y ++ finP w.env y, e.asset ≠ a := by
    intro y hk
    have ht := h.timer y hk
    by_cases hyl : y < w.devs.length
    · intro e he
      rw [ht.asset e he]
      exact ha y hyl
    · have hd : w.dev y = default := dev_of_length_le (Nat.le_of_not_lt hyl)
      have := ht.idle (by rw [hd]; rfl)
      rw [this.1, this.2]
      intro e he; cases he
  refine ⟨?_, ?_, rfl, fun _ => ⟨rfl, rfl⟩, fun _ _ => rfl, ?_, rfl, fun hei => hei.apply op, id⟩
  · rcases hop with rfl | rfl | rfl <;> rfl
  · rcases hop with rfl | rfl | rfl <;> exact Nat.le_refl _
  · intro y hk
    rcases hop with rfl | rfl | rfl
    · exact fin_pause_other (hoa y hk)
    · exact fin_unpause_other _ (hoa y hk)
    · exact fin_cancel_other (hoa y hk)

theorem fr_setVar {X : Nat → Prop} (w : World) (k : Nat) (v : Option Nat) : Fr X w (w.setVar k v) :=
  fr_of_fields rfl rfl rfl rfl
fr_lemma2 fr_setVar

theorem fr_modMaint {X : Nat → Prop} (w : World) (m : Nat) (f : Maint → Maint) : Fr X w (w.modMaint m f) :=
  fr_of_fields rfl rfl rfl rfl
fr_lemma2 fr_modMaint

theorem fr_startOrders {X : Nat → Prop} (w : World) (m : Nat) (l : List Order) :
    Fr X w (w.startOrders m l) := by
  unfold World.startOrders; fr_auto
fr_lemma2 fr_startOrders

theorem fr_schedUpdate {X : Nat → Prop} (w : World) (s : Nat) (b : Bool) : Fr X w (w.schedUpdate s b) := by
  unfold World.schedUpdate; fr_auto
fr_lemma2 fr_schedUpdate

theorem fr_periodicSense {X : Nat → Prop} (w : World) (s : Nat) : Fr X w (w.periodicSense s) := by
  unfold World.periodicSense; fr_auto
fr_lemma1 fr_periodicSense

macro_rules | `(tactic| frs) => `(tactic| first
  | refine Fr.trans ?_ (fr_sched _ _ _ _ _ (by intro y e; cases e))
  | exact fr_sched _ _ _ _ _ (by intro y e; cases e))

theorem good_applyOp {w : World} (h : WI w) (op : Op) (h1 : OpStatic w op) (h2 : OpNoPause w op) :
    Good w (w.applyOp op).1 := by
  cases op
  case rewire d ups => exact absurd h1 id
  case create s => exact absurd h1 id
  case pause a => exact (fr_envop_other h.fi a h2 _ (Or.inl rfl)).good h.fi
  case unpause a => exact (fr_envop_other h.fi a h2 _ (Or.inr (Or.inl rfl))).good h.fi
  case cancel a => exact (fr_envop_other h.fi a h2 _ (Or.inr (Or.inr rfl))).good h.fi
  case shutdown d =>
    simp only [World.applyOp]
    split
    · exact Good.refl h.fi
    · rename_i hk
      exact (loc_shutdown h.fi (by simpa using hk)).good h.fi
  case restore d =>
    simp only [World.applyOp]
    split
    · exact Good.refl h.fi
    · rename_i hk
      exact (loc_restoreDev h.fi (by simpa using hk)).good h.fi
  case setParams tgt tag dur need cost =>
    refine Fr.good ?_ h.fi
    simp only [World.applyOp]
    refine fr_of_fields rfl rfl rfl ?_
    show List.map (·.dev) (w.targets.set tgt _) = _
    apply map_set_of_eq (d := default)
    rfl
  all_goals (refine Fr.good ?_ h.fi; unfold World.applyOp; fr_auto)

theorem hb_applyOp_np (w : World) (op : Op) (h : OpStatic w op) :
    HasBad (badAct (np w)) (w.applyOp op).1 = HasBad (badAct (np w)) w := by
  cases op
  case rewire d ups => exact absurd h id
  case create s => exact absurd h id
  case schedFail d t =>
    simp only [World.applyOp]
    split
    · rfl
    · rename_i hk
      exact C02V.hb_sched _ _ _ _ _ _ (C02V.not_bad_fail (np w) d (fun hd => hd (by simpa using hk)))
  case schedFailRel d t =>
    simp only [World.applyOp]
    split
    · rfl
    · rename_i hk
      exact C02V.hb_sched _ _ _ _ _ _ (C02V.not_bad_fail (np w) d (fun hd => hd (by simpa using hk)))
  all_goals (unfold World.applyOp; frame')

theorem ws_applyOp {w : World} (h : WI w) (op : Op) (h1 : OpStatic w op) (h2 : OpNoPause w op) :
    WS w (w.applyOp op).1 :=
  ⟨good_applyOp h op h1 h2, C02V.sr_applyOp _ w op h.stat.1 h1, hb_applyOp_np w op h1⟩

theorem ws_addRes {w : World} (h : FI w) (r : Res) : WS w (w.addRes r) :=
  ⟨(fr_addRes (X := None_) w r).good h, ⟨rfl, rfl, rfl⟩, rfl⟩

theorem ws_applyOps (ops : List Op) : ∀ (w : World), WI w →
    (∀ op ∈ ops, OpStatic w op ∧ OpNoPause w op) → WS w (w.applyOps ops) := by
  induction ops with
  | nil => intro w h _; exact WS.refl h.fi
  | cons op ops ih =>
    intro w h hok
    unfold World.applyOps
    simp only [List.foldl_cons]
    have ho := hok op (List.mem_cons_self ..)
    have s1 := ws_applyOp h op ho.1 ho.2
    have s2 : WS w ((w.applyOp op).1.addRes (w.applyOp op).2) :=
      s1.trans (ws_addRes (h.of_ws s1).fi _)
    have h' := h.of_ws s2
    have := ih _ h' (fun o hm =>
      have hoo := hok o (List.mem_cons_of_mem _ hm)
      ⟨C02V.opStatic_of_tv s2.sr.1 o hoo.1, opNoPause_of_ka s2.good.2.len s2.good.2.ka o hoo.2⟩)
    unfold World.applyOps at this
    exact s2.trans this

theorem ws_runScript {w : World} (h : WI w) (k : Nat) : WS w (w.runScript k) := by
  unfold World.runScript
  apply ws_applyOps _ w h
  intro op hop
  by_cases hk : k < w.scripts.length
  · have : w.scripts.getD k [] = w.scripts[k] := by simp [List.getD_eq_getElem?_getD, hk]
    rw [this] at hop
    exact ⟨h.st.1 _ (List.getElem_mem hk) op hop, h.nps _ (List.getElem_mem hk) op hop⟩
  · have : w.scripts.getD k [] = [] := by simp [List.getD_eq_getElem?_getD, Nat.le_of_not_lt hk]
    rw [this] at hop; cases hop

theorem WS.of_floor {w w' : World} (g : Good w w') (h1 : st w' = st w) (h2 : w'.scripts = w.scripts)
    (h3 : ∀ sk, HasBad (badAct sk) w' = HasBad (badAct sk) w) : WS w w' :=
  ⟨g, SR.of_st h1 h2 (h3 _), h3 _⟩

theorem ws_erase {w : World} (h : FI w) (i : Nat) : WS w (scanOps.erase w i) :=
  ⟨(fr_of_fields (X := None_) (w := w) (w' := scanOps.erase w i) rfl rfl rfl rfl).good h,
    ⟨rfl, rfl, rfl⟩, rfl⟩

theorem ws_scan (n : Nat) : ∀ (w : World) (i : Nat), WI w → WS w (scanWaiting scanOps n w i) := by
  induction n with
  | zero => intro w i h; exact WS.refl h.fi
  | succ n ih =>
    intro w i h
    unfold scanWaiting
    split
    · exact WS.refl h.fi
    · split
      · rename_i req cb _ _
        have s1 : WS w (scanOps.erase (scanOps.call w cb req) i) := by
          cases cb with
          | script k =>
            have s0 := ws_addRes h.fi (.cb k)
            have s1 := s0.trans (ws_runScript (h.of_ws s0) k)
            exact s1.trans (ws_erase (h.of_ws s1).fi i)
          | proc d =>
            have s0 : WS w (w.procResourceCb d) :=
              WS.of_floor ((fr_procResourceCb (X := None_) w d).good h.fi) (C02V.st_procResourceCb w d)
                (C02V.scr_procResourceCb w d) (fun sk => C02V.hb_procResourceCb sk w d)
            exact s0.trans (ws_erase (h.of_ws s0).fi i)
        exact s1.trans (ih _ _ (h.of_ws s1))
      · exact ih _ _ h

theorem ws_rmCheck {w : World} (h : WI w) : WS w w.rmCheck := ws_scan _ _ _ h

theorem targets_dev_proc {w : World} (h : WI w) {tgt d : Nat}
    (ht : (w.targets.getD tgt default).dev = some d) : (w.dev d).kind = .processor := by
  by_cases hl : tgt < w.targets.length
  · have : w.targets.getD tgt default = w.targets[tgt] := by simp [List.getD_eq_getElem?_getD, hl]
    rw [this] at ht
    exact h.tp _ (List.getElem_mem hl) d ht
  · have : w.targets.getD tgt default = default := by
      simp [List.getD_eq_getElem?_getD, Nat.le_of_not_lt hl]
    rw [this] at ht; cases ht

theorem ws_hookStart {w : World} (h : WI w) (tgt : Nat) (tag : Int) : WS w (w.hookStart tgt tag) := by
  have s0 := ws_addRes h.fi (.hook true tgt tag)
  have h0 := h.of_ws s0
  unfold World.hookStart
  simp only []
  split
  · rename_i d hd
    have hk : ((w.addRes (.hook true tgt tag)).dev d).kind = .processor := targets_dev_proc h hd
    exact s0.trans (WS.of_floor ((loc_shutdown h0.fi hk).good h0.fi) (C02V.st_shutdownDev ..)
      (C02V.scr_shutdownDev ..) (fun sk => C02V.hb_shutdownDev sk ..))
  · split
    · exact s0.trans (ws_runScript h0 _)
    · exact s0

theorem ws_hookEnd {w : World} (h : WI w) (tgt : Nat) (tag : Int) : WS w (w.hookEnd tgt tag) := by
  have s0 := ws_addRes h.fi (.hook false tgt tag)
  have h0 := h.of_ws s0
  unfold World.hookEnd
  simp only []
  split
  · rename_i d hd
    have hk : ((w.addRes (.hook false tgt tag)).dev d).kind = .processor := targets_dev_proc h hd
    exact s0.trans (WS.of_floor ((loc_restoreDev h0.fi hk).good h0.fi) (C02V.st_restoreDev ..)
      (C02V.scr_restoreDev ..) (fun sk => C02V.hb_restoreDev sk ..))
  · split
    · exact s0.trans (ws_runScript h0 _)
    · exact s0

theorem ws_schedLib {w : World} (h : FI w) (t a : Int) (act : Action) (p : Int)
    (hnf : ∀ d, act ≠ .fail d) (hnfin : ∀ y, act ≠ .finishCycle y) : WS w (w.schedLib t a act p) :=
  WS.of_floor ((fr_schedLib (X := None_) w t a act p (fun y e => absurd e (hnfin y))).good h)
    (C02V.st_schedLib ..) (C02V.scr_schedLib ..)
    (fun sk => C02V.hb_schedLib _ _ _ _ _ _ (C02V.not_bad_of_not_fail sk _ hnf))

theorem ws_setErr {w : World} (h : FI w) (m : String) (hm : allowedErrs.contains m = true) :
    WS w (w.setErr m) :=
  WS.of_floor ((fr_setErr (X := None_) w m hm).good h) (C02V.st_setErr ..) (C02V.scr_setErr ..)
    (fun _ => C02V.hb_setErr ..)

theorem ws_plain {w w' : World} (h : FI w) (hd : w'.devs = w.devs) (he : w'.env = w.env)
    (herr : w'.error = w.error) (htg : w'.targets = w.targets) (hs : w'.scripts = w.scripts)
    (hg : w'.groups = w.groups) : WS w w' := by
  refine ⟨(fr_of_fields (X := None_) hd he herr (by rw [htg])).good h, ⟨?_, hs, ?_⟩, ?_⟩
  · unfold C02V.tv C02V.st; rw [hd, hg]
  · unfold HasBad; rw [he]
  · unfold HasBad; rw [he]

theorem ws_startWork {w : World} (h : WI w) (m seq : Nat) : WS w (w.startWork m seq) := by
  have key : ∀ w' : World, WS w w' → ∀ t g a b d,
      WS w ((w'.hookStart t g).schedLib a b (.finishWork m seq) d) := fun w' s t g a b d =>
    let s1 := s.trans (ws_hookStart (h.of_ws s) t g)
    s1.trans (ws_schedLib (h.of_ws s1).fi a b _ d (by intro d e; cases e) (by intro y e; cases e))
  unfold World.startWork
  split
  · exact ws_setErr h.fi _ (by decide)
  · simp only []
    refine key _ ?_ _ _ _ _ _
    exact ws_plain h.fi rfl rfl rfl rfl rfl rfl

theorem ws_startOrders {w : World} (h : FI w) (m : Nat) (l : List Order) : WS w (w.startOrders m l) :=
  WS.of_floor ((fr_startOrders (X := None_) w m l).good h) (C02V.st_startOrders ..)
    (C02V.scr_startOrders ..) (fun sk => C02V.hb_startOrders sk ..)

theorem ws_finishWork {w : World} (h : WI w) (m seq : Nat) : WS w (w.finishWork m seq) := by
  have key : ∀ w' : World, WS w w' → ∀ w'' : World, WS w' w'' → ∀ m l,
      WS w (w''.startOrders m l) := fun w' s w'' s' m l =>
    let s1 := s.trans s'
    s1.trans (ws_startOrders (h.of_ws s1).fi m l)
  unfold World.finishWork
  split
  · exact ws_setErr h.fi _ (by decide)
  · simp only []
    rename_i o _
    refine key _ (ws_hookEnd h o.target o.tag) _ ?_ _ _
    exact ws_plain (h.of_ws (ws_hookEnd h o.target o.tag)).fi rfl rfl rfl rfl rfl rfl

/-! ### the actions of events -/

/-- Every action except the finish event of a device (which needs the popped event, see
`step`). -/
theorem ws_exec {w : World} (h : WI w) (a : Action) (hfin : ∀ d, a ≠ .finishCycle d)
    (hfail : ∀ d, a = .fail d → (w.dev d).kind = .processor) : WS w (w.exec a) := by
  cases a with
  | terminate => exact WS.refl h.fi
  | script k => exact ws_runScript h k
  | finishCycle d => exact absurd rfl (hfin d)
  | passPart d =>
    exact ⟨good_passPart w d h.fi (h.st.2.1 d),
      ⟨C02V.tv_passPart w d, C02V.scr_passPart w d, C02V.hb_passPart _ w d⟩, C02V.hb_passPart _ w d⟩
  | fail d =>
    exact WS.of_floor ((loc_failDev h.fi (hfail d rfl)).good h.fi) (C02V.st_failDev w d)
      (C02V.scr_failDev w d) (fun sk => C02V.hb_failDev sk w d)
  | releaseIfIdle d =>
    exact WS.of_floor ((fr_releaseIfIdle (X := None_) w d).good h.fi) (C02V.st_releaseIfIdle w d)
      (C02V.scr_releaseIfIdle w d) (fun sk => C02V.hb_releaseIfIdle sk w d)
  | rmCheck => exact ws_rmCheck h
  | startWork m o => exact ws_startWork h m o
  | finishWork m o => exact ws_finishWork h m o
  | schedUpdate s =>
    exact WS.of_floor ((fr_schedUpdate (X := None_) w s true).good h.fi) (C02V.st_schedUpdate w s true)
      (C02V.scr_schedUpdate w s true) (fun sk => C02V.hb_schedUpdate sk w s true)
  | periodicSense s =>
    exact WS.of_floor ((fr_periodicSense (X := None_) w s).good h.fi) (C02V.st_periodicSense w s)
      (C02V.scr_periodicSense w s) (fun sk => C02V.hb_periodicSense sk w s)
  | unknown n => exact ws_setErr h.fi _ (by decide)

/-! ### `step` -/

theorem isFin_true {x : Nat} {e : Event} : isFin x e = true ↔ e.live = true ∧ e.act = finAct x := by
  simp [isFin]

/-- What popping the next event does: either it is the live finish event of a timing device `x`,
which is then in the `Mid` state, or the invariant still holds. -/
theorem pop_cases {w : World} (h : WI w) {e : Event} {env' : Env} (henv : w.env.step = some (e, env')) :
    (∃ x, e.live = true ∧ e.act = finAct x ∧ Mid ({ w with env := env' } : World) x) ∨
    (FI ({ w with env := env' } : World) ∧
      ∀ x, e.live = true → e.act = finAct x → (w.dev x).kind = .source) := by
  have hei : EI env' := h.fi.ei.step henv
  by_cases hc : ∃ x, (w.dev x).kind ≠ .source ∧ isFin x e = true
  · left
    obtain ⟨x, hk, hf⟩ := hc
    obtain ⟨hl, ha⟩ := isFin_true.mp hf
    refine ⟨x, hl, ha, ?_⟩
    have ht := h.fi.timer x hk
    obtain ⟨hE, hP, _, _⟩ := fin_step henv x
    rw [hf] at hE
    simp only [if_true] at hE
    -- the device is busy and operational
    cases hp : (tdm (w.dev x)).part with
    | none =>
      have := (ht.idle hp).1
      rw [hE] at this; cases this
    | some p =>
      obtain ⟨ho, hb⟩ := ht.busy p hp
      have hop : opT (tdm (w.dev x)) = true := by
        cases hop : opT (tdm (w.dev x)) with
        | true => rfl
        | false =>
          rw [hop] at hb
          have := hb.1
          rw [hE] at this; cases this
      rw [hop] at hb
      simp only [if_true] at hb
      have hE' : finE env' x = [] := by
        have := hb.1
        rw [hE] at this
        simpa using this
      have hT : isT (w.dev x).kind = true := by
        cases hT : isT (w.dev x).kind with
        | true => rfl
        | false => simp [tdm, hT] at hp
      have hpart : (w.dev x).part = some p := by rw [← tdm_part hT]; exact hp
      have hout : (w.dev x).output = none := by rw [← tdm_output hT]; exact ho
      have hopw : w.operational x = true := by rw [operational_eq]; exact hop
      refine ⟨?_, h.fi.aids, hei, h.fi.err, C02V.lt_of_part hpart, hT,
        (show (w.dev x).part.isSome = true by rw [hpart]; rfl), hout, hopw,
        ⟨hE', hP.trans hb.2⟩, ?_⟩
      · intro y hy hky
        have hty := h.fi.timer y hky
        obtain ⟨hEy, hPy, _, _⟩ := fin_step henv y
        have hfy : isFin y e = false := by
          cases hfy : isFin y e with
          | false => rfl
          | true =>
            have := (isFin_true.mp hfy).2
            rw [ha] at this
            exact absurd (finAct_inj this).symm hy
        rw [hfy] at hEy
        simp only [Bool.false_eq_true, if_false] at hEy
        exact hty.congr rfl hEy.symm hPy
      · intro hkp
        have hup := (ht.up hkp).1
        rw [opT_proc (show (tdm (w.dev x)).kind = .processor from hkp)] at hop
        exact hup.mpr (by simpa using hop)
  · right
    have hno : ∀ y, (w.dev y).kind ≠ .source → isFin y e = false := by
      intro y hk
      cases hfy : isFin y e with
      | false => rfl
      | true => exact absurd ⟨y, hk, hfy⟩ hc
    refine ⟨⟨?_, h.fi.aids, hei, h.fi.err⟩, ?_⟩
    · intro y hk
      obtain ⟨hEy, hPy, _, _⟩ := fin_step henv y
      rw [hno y hk] at hEy
      simp only [Bool.false_eq_true, if_false] at hEy
      exact (h.fi.timer y hk).congr rfl hEy.symm hPy
    · intro x hl ha
      cases hk : (w.dev x).kind
      case source => rfl
      all_goals
        have := hno x (by rw [hk]; decide)
        rw [isFin_true.mpr ⟨hl, ha⟩] at this
        cases this

theorem mem_events_of_step {s s' : Env} {e : Event} (h : s.step = some (e, s')) : e ∈ s.events := by
  obtain ⟨es, he, _⟩ := Env.step_some.mp h
  rw [he]; exact List.mem_cons_self ..

theorem si_pop {w : World} (h : WI w) {e : Event} {env' : Env} (henv : w.env.step = some (e, env')) :
    Static ({ w with env := env' } : World) ∧ TargetsProc ({ w with env := env' } : World) ∧
    ScriptsNoPause ({ w with env := env' } : World) ∧ NoBadFail ({ w with env := env' } : World) := by
  refine ⟨C02V.static_pop w e env' h.st henv, h.tp, h.nps, ?_⟩
  intro hb
  apply h.nf
  obtain ⟨n, hn, hbad⟩ := hb
  refine ⟨n, ?_, hbad⟩
  obtain ⟨es, he, rfl⟩ := Env.step_some.mp henv
  rw [C02V.mem_acts] at hn ⊢
  obtain ⟨x, hx, rfl⟩ := hn
  refine ⟨x, ?_, rfl⟩
  rw [he]
  rcases hx with hx | hx
  · exact Or.inl (List.mem_cons_of_mem _ hx)
  · exact Or.inr hx

/-- One step of the event loop: the invariant is preserved; and the action of the popped event
relates the world after the pop to the world after the step by `Keep`. -/
theorem step_spec {w w' : World} {e : Event} (h : WI w) (hst : w.step = some (e, w')) :
    ∃ env', w.env.step = some (e, env') ∧ WI w' ∧ Keep ({ w with env := env' } : World) w' := by
  unfold World.step at hst
  split at hst
  · cases hst
  · rename_i e' env' henv
    simp only [Option.some.injEq, Prod.mk.injEq] at hst
    obtain ⟨rfl, rfl⟩ := hst
    refine ⟨env', henv, ?_⟩
    obtain ⟨s1, s2, s3, s4⟩ := si_pop h henv
    rcases pop_cases h henv with ⟨x, hl, ha, hm⟩ | ⟨hfi, hsrc⟩
    · -- the finish event of a timing device
      rw [if_pos hl, ha, ofNat_finAct]
      have loc := loc_finishCycle hm
      have ws : WS ({ w with env := env' } : World) (({ w with env := env' } : World).finishCycle x) :=
        WS.of_floor ⟨loc.fi_of_mid hm, loc.keep⟩ (C02V.st_finishCycle _ x) (C02V.scr_finishCycle _ x)
          (fun sk => C02V.hb_finishCycle sk _ x)
      exact ⟨wi_of_ws s1 s2 s3 s4 ws, loc.keep⟩
    · have h1 : WI ({ w with env := env' } : World) := ⟨hfi, s1, s2, s3, s4⟩
      split
      · rename_i hl
        have ws : WS ({ w with env := env' } : World)
            (({ w with env := env' } : World).exec (Action.ofNat e'.act)) := by
          by_cases hc : ∃ d, Action.ofNat e'.act = .finishCycle d
          · obtain ⟨d, hd⟩ := hc
            rw [hd]
            have hk : (w.dev d).kind = .source := hsrc d hl (ofNat_finish hd)
            exact WS.of_floor ((fr_finishCycle_source (X := None_) ({ w with env := env' } : World) d hk).good hfi)
              (C02V.st_finishCycle _ d) (C02V.scr_finishCycle _ d) (fun sk => C02V.hb_finishCycle sk _ d)
          · refine ws_exec h1 _ (fun d hd => hc ⟨d, hd⟩) ?_
            intro d hd
            cases hk : (w.dev d).kind
            case processor => exact hk
            all_goals
              exfalso
              apply h.nf
              refine ⟨e'.act, ?_, d, hd, ?_⟩
              · rw [C02V.mem_acts]; exact ⟨e', Or.inl (mem_events_of_step henv), rfl⟩
              · show (w.dev d).kind ≠ .processor
                rw [hk]; decide
        exact ⟨h1.of_ws ws, ws.good.2⟩
      · exact ⟨h1, Keep.refl _⟩

theorem wi_step {w w' : World} {e : Event} (h : WI w) (hst : w.step = some (e, w')) : WI w' := by
  obtain ⟨_, _, h', _⟩ := step_spec h hst
  exact h'

theorem wi_runLoop (n : Nat) : ∀ (w : World), WI w → WI (runLoop n w) := by
  induction n with
  | zero => intro w h; exact h.of_ws (ws_setErr h.fi "fuel" (by decide))
  | succ n ih =>
    intro w h
    unfold runLoop
    split
    · split
      · exact h
      · rename_i e w' hst
        exact ih w' (wi_step h hst)
    · exact h

/-! ### initialisation -/

/-- all processors are operational with an open uptime interval (as constructed) -/
def ProcsUp (w : World) : Prop :=
  ∀ x, (w.dev x).kind = .processor → (w.dev x).lastRestore.isSome = true

theorem ProcsUp.of_fr {w w' : World} (h : ProcsUp w) (f : Fr None_ w w') : ProcsUp w' := by
  intro x hk
  have := congrArg TD.lr (f.tdm_eq x)
  exact this.trans (h x (by rw [← f.kind]; exact hk))

theorem fr_initDev {w : World} (x : Nat) (hp : ProcsUp w) : Fr None_ w (w.initDev x) := by
  have f0 : Fr None_ w (w.modDev x (fun d => { d with inited := true, val := d.val.reset })) :=
    fr_modDev_same _ _ _ rfl
  have hp0 := hp.of_fr f0
  unfold World.initDev
  simp only []
  split
  · exact f0
  · exact f0
  · exact f0
  · exact f0
  · -- processor
    rename_i hk
    have f1 := f0.trans (fr_setWaiting (X := None_) _ x true true)
    refine f1.trans (fr_modDev_same _ _ _ ?_)
    have hl := hp.of_fr f1 x (by rw [f1.kind, ← f0.kind]; exact hk)
    simp only [tdm]
    rw [hl]; rfl
  · rename_i hk
    have f1 := f0.trans (fr_setWaiting (X := None_) _ x true true)
    exact f1.trans (fr_scheduleFinish_source _ x (by rw [f1.kind, ← f0.kind]; exact hk))
  · exact f0.trans (fr_setWaiting _ x true true)

theorem fr_initAsset {w : World} (a : AssetRef) (hp : ProcsUp w) : Fr None_ w (w.initAsset a) := by
  cases a with
  | dev d => exact fr_initDev d hp
  | maint m => exact fr_of_fields rfl rfl rfl rfl
  | sched s => exact fr_schedUpdate w s false
  | sensor s =>
    unfold World.initAsset
    dsimp only
    split
    · refine Fr.trans ?_ (fr_schedLib _ _ _ _ _ (by intro y e; cases e))
      exact fr_of_fields rfl rfl rfl rfl
    · split
      · refine Fr.trans ?_ (fr_modDev_same _ _ _ rfl)
        exact fr_of_fields rfl rfl rfl rfl
      · exact fr_of_fields rfl rfl rfl rfl
  | cms c => exact Fr.refl _ _

theorem fr_simulateInit {w : World} (hp : ProcsUp w) : Fr None_ w w.simulateInit := by
  have key : ∀ (l : List AssetRef) (w0 : World), ProcsUp w0 →
      Fr None_ w0 (l.foldl (fun w a => w.initAsset a) w0) := by
    intro l
    induction l with
    | nil => intro w0 _; exact Fr.refl _ _
    | cons a l ih =>
      intro w0 h0
      have f1 := fr_initAsset a h0
      exact f1.trans (ih _ (h0.of_fr f1))
  unfold World.simulateInit
  split
  · exact Fr.refl _ _
  · simp only []
    have f0 : Fr None_ w (({ w with rm := w.rm.init.1 } : World).rmEffects w.rm.init.2.1 w.rm.init.2.2) :=
      (fr_of_fields (X := None_) (w := w) (w' := { w with rm := w.rm.init.1 }) rfl rfl rfl rfl).trans
        (fr_rmEffects _ _ _)
    generalize (({ w with rm := w.rm.init.1 } : World).rmEffects w.rm.init.2.1 w.rm.init.2.2) = w0 at f0 ⊢
    refine Fr.trans (b := List.foldl (fun w a => w.initAsset a) w0 w0.assets) ?_
      (fr_of_fields rfl rfl rfl rfl)
    exact f0.trans (key _ _ (hp.of_fr f0))

theorem wi_simulateInit {w : World} (h : WI w) (hp : ProcsUp w) : WI w.simulateInit :=
  h.of_ws ⟨(fr_simulateInit hp).good h.fi, C02V.sr_simulateInit _ w, (C02V.sr_simulateInit _ w).2.2⟩

end C06W
end SimProc
