/-
C15W / C16W — machinery, part 3: the invariants of keys, by induction on `KStep`.
-/
import SimProc.Proofs.C15WWorld

namespace SimProc
namespace C15W
open World FloorCoreL C15 RM
variable {ph : Phase}
set_option linter.unusedSimpArgs false

/-! ### list-of-records helpers -/

def countSup (recs : List Rec) (x : Nat) : Nat := (recs.filter (isSupplied x)).length

theorem countSup_append (l₁ l₂ : List Rec) (x : Nat) :
    countSup (l₁ ++ l₂) x = countSup l₁ x + countSup l₂ x := by
  simp [countSup, List.filter_append]

theorem countSup_of_nosup (l : List Rec) (x : Nat) (h : ∀ r ∈ l, isSup r = false) : countSup l x = 0 := by
  unfold countSup; rw [filter_isSupplied_nosup x l h]; rfl

theorem isSup_stamp (t : Int) (recs : List ResRec) : ∀ r ∈ stamp t recs, isSup r = false := by
  intro r hr
  obtain ⟨a, _, rfl⟩ := List.mem_map.1 hr
  rfl

theorem isSup_of_plain {r : Rec} (h : isPlain r = true) : isSup r = false := by
  cases r <;> simp_all [isPlain, isSup]

/-- A field of the devices after one device was overwritten with a device that agrees on it. -/
theorem dev_set_same {α} (f : DKey → α) (l : List DKey) (x y : Nat) (d : DKey)
    (h : f d = f (l.getD x default)) : f ((l.set x d).getD y default) = f (l.getD y default) := by
  rw [getD_set]
  split
  · rename_i hc; rw [h, hc.1]
  · rfl

/-! ### 1. the counter of a source = the number of its `supplied_new_part` records -/

def SupInv (k : WKey) : Prop := ∀ x, (k.dev x).produced = countSup k.recs x

theorem countSup_stamp (t : Int) (recs : List ResRec) (x : Nat) : countSup (stamp t recs) x = 0 :=
  countSup_of_nosup _ x (isSup_stamp _ _)

theorem countSup_plain {r : Rec} (h : isPlain r = true) (x : Nat) : countSup [r] x = 0 :=
  countSup_of_nosup _ x (by simpa using isSup_of_plain h)

theorem SupInv.step {k k' : WKey} (h : KStep ph k k') (hi : SupInv k) : SupInv k' := by
  induction h with
  | refl k => exact hi
  | trans _ _ ih1 ih2 => exact ih2 (ih1 hi)
  | supply k x p v hph hx hk =>
    intro y
    have := hi y
    simp only [WKey.dev, getD_set, countSup_append] at this ⊢
    by_cases hxy : x = y
    · subst hxy
      have e : countSup [Rec.supplied x k.now p] x = 1 := by simp [countSup, isSupplied]
      rw [if_pos ⟨rfl, hx⟩, e]
      show (k.devs.getD x default).produced + 1 = _
      omega
    · have e : countSup [Rec.supplied x k.now p] y = 0 := by simp [countSup, isSupplied, hxy]
      rw [if_neg (fun h => hxy h.1), e]
      omega
  | plain k r hp ht =>
    intro y
    have := hi y
    simp only [WKey.dev, WKey.addRecs, countSup_append, countSup_plain hp] at this ⊢
    simpa using this
  | _ =>
    intro y
    have := hi y
    simp only [WKey.dev, WKey.addRecs, getD_set, countSup_append, countSup_stamp] at this ⊢
    try split
    all_goals simp_all [countSup, isSupplied]

/-- Lifting an invariant of keys from steps to runs of the event loop. -/
theorem KRun.preserve {I : WKey → Prop} (hs : ∀ {k k'}, KStep .run k k' → I k → I k')
    (he : ∀ (k : WKey) (e : Env), I k → I { k with env := e }) {k k' : WKey} (h : KRun k k')
    (hi : I k) : I k' := by
  induction h with
  | refl k => exact hi
  | trans _ _ ih1 ih2 => exact ih2 (ih1 hi)
  | act h => exact hs h hi
  | pop k => exact he k _ hi

/-! ### 3. the last `level` record of a device is its level -/

def LevelInvK (k : WKey) : Prop := ∀ y, (lastLevel k.recs y).getD 0 = (k.dev y).level

theorem lastLevel_stamp (t : Int) (recs : List ResRec) (y : Nat) : lastLevel (stamp t recs) y = none :=
  lastLevel_of_noLevel _ (by
    intro r hr
    obtain ⟨a, _, rfl⟩ := List.mem_map.1 hr
    rfl) y

theorem lastLevel_plain {r : Rec} (h : isPlain r = true) (y : Nat) : lastLevel [r] y = none :=
  lastLevel_of_noLevel _ (by
    intro r' hr
    simp only [List.mem_singleton] at hr
    subst hr
    cases r' <;> simp_all [isPlain, isLevel]) y

theorem LevelInvK.step {k k' : WKey} (h : KStep ph k k') (hi : LevelInvK k) : LevelInvK k' := by
  induction h with
  | refl k => exact hi
  | trans _ _ ih1 ih2 => exact ih2 (ih1 hi)
  | plain k r hp ht =>
    intro y
    have := hi y
    simp only [WKey.dev, WKey.addRecs, lastLevel_append, lastLevel_plain hp] at this ⊢
    simpa using this
  | _ =>
    intro y
    have := hi y
    simp only [WKey.dev, WKey.addRecs, getD_set, lastLevel_append, lastLevel_stamp] at this ⊢
    try split
    all_goals simp_all [lastLevel]

/-! ### 6. every value bookkeeping satisfies `C16.VInv` -/

def ValInv (k : WKey) : Prop := (∀ y, C16.VInv (k.dev y).val) ∧ ∀ m, C16.VInv (k.mval m)

theorem vinv_addValue (a : AssetVal) (l : Nat) (t v : Int) (h : C16.VInv a) : C16.VInv (a.addValue l t v) :=
  C16.vinv_apply a (.addValue l t v) h

theorem vinv_addCost (a : AssetVal) (l : Nat) (t v : Int) (h : C16.VInv a) : C16.VInv (a.addCost l t v) :=
  C16.vinv_apply a (.addCost l t v) h

theorem vinv_reset (a : AssetVal) (h : C16.VInv a) : C16.VInv a.reset := C16.vinv_apply a .reset h

theorem ValInv.step {k k' : WKey} (h : KStep ph k k') (hi : ValInv k) : ValInv k' := by
  induction h with
  | refl k => exact hi
  | trans _ _ ih1 ih2 => exact ih2 (ih1 hi)
  | _ =>
    refine ⟨fun y => ?_, fun m' => ?_⟩
    · have := hi.1 y
      simp only [WKey.dev, WKey.addRecs, WKey.mval, getD_set] at this ⊢
      try split
      all_goals first
        | exact this
        | exact hi.1 _
        | exact vinv_addValue _ _ _ _ (hi.1 _)
        | exact vinv_addCost _ _ _ _ (hi.1 _)
        | exact vinv_reset _ (hi.1 _)
    · have := hi.2 m'
      simp only [WKey.dev, WKey.addRecs, WKey.mval, getD_set] at this ⊢
      try split
      all_goals first
        | exact this
        | exact vinv_addCost _ _ _ _ (hi.2 _)
        | exact vinv_reset _ (hi.2 _)

/-! ### 7. the value of a source / a sink / a maintainer -/

theorem addValue_value (a : AssetVal) (l : Nat) (t v : Int) : (a.addValue l t v).value = a.value + v := by
  unfold AssetVal.addValue
  split
  · rename_i h; simp at h; subst h; simp
  · rfl

theorem addCost_value (a : AssetVal) (l : Nat) (t v : Int) : (a.addCost l t v).value = a.value - v := by
  unfold AssetVal.addCost; rw [addValue_value]; omega

theorem addCost_init (a : AssetVal) (l : Nat) (t v : Int) : (a.addCost l t v).init = a.init :=
  addValue_init _ _ _ _

/-- Before the first event: nothing supplied, nothing collected, every value at its start. -/
def ZeroInv (k : WKey) : Prop :=
  ∀ y, (k.dev y).costProduced = 0 ∧ (k.dev y).recvValue = 0 ∧ (k.dev y).val.value = (k.dev y).val.init

theorem ZeroInv.step {k k' : WKey} (h : KStep .init k k') (hi : ZeroInv k) : ZeroInv k' := by
  induction h with
  | refl k => exact hi
  | trans _ _ ih1 ih2 => exact ih2 (ih1 hi)
  | recvSink k x p q v lv hph => cases hph
  | recvBuf k x p n q v hph => cases hph
  | release k x n hph => cases hph
  | supply k x p v hph => cases hph
  | _ =>
    intro y
    have := hi y
    simp only [WKey.dev, WKey.addRecs, getD_set] at this ⊢
    try split
    all_goals first
      | exact this
      | exact ⟨(hi _).1, (hi _).2.1, rfl⟩

/-- The value of every device is its starting value minus the cost of what it supplied plus the
value of what it collected; only sources supply, only sinks collect. -/
def ValueInv (k : WKey) : Prop :=
  ∀ y, (k.dev y).val.value = (k.dev y).val.init - (k.dev y).costProduced + (k.dev y).recvValue ∧
    ((k.dev y).kind ≠ .source → (k.dev y).costProduced = 0) ∧
    ((k.dev y).kind ≠ .sink → (k.dev y).recvValue = 0)

theorem ZeroInv.valueInv {k : WKey} (h : ZeroInv k) : ValueInv k := by
  intro y
  obtain ⟨h1, h2, h3⟩ := h y
  exact ⟨by omega, fun _ => h1, fun _ => h2⟩

theorem ValueInv.step {k k' : WKey} (h : KStep .run k k') (hi : ValueInv k) : ValueInv k' := by
  induction h with
  | refl k => exact hi
  | trans _ _ ih1 ih2 => exact ih2 (ih1 hi)
  | rmInit k hph => cases hph
  | devReset k x hph => cases hph
  | maintReset k m hph => cases hph
  | recvSink k x p q v lv hph hx hk =>
    intro y
    have := hi y
    simp only [WKey.dev, getD_set] at this hk ⊢
    split
    · rename_i hc
      have hx' := hi x
      simp only [WKey.dev] at hx'
      refine ⟨?_, ?_, ?_⟩
      · rw [addValue_value, addValue_init]; have := hx'.1; dsimp only; omega
      · exact hx'.2.1
      · intro hn; exact absurd hk hn
    · exact this
  | supply k x p v hph hx hk =>
    intro y
    have := hi y
    simp only [WKey.dev, getD_set] at this hk ⊢
    split
    · rename_i hc
      have hx' := hi x
      simp only [WKey.dev] at hx'
      refine ⟨?_, ?_, ?_⟩
      · rw [addCost_value, addCost_init]; have := hx'.1; dsimp only; omega
      · intro hn; exact absurd hk hn
      · exact hx'.2.2
    · exact this
  | _ =>
    intro y
    have := hi y
    simp only [WKey.dev, WKey.addRecs, getD_set] at this ⊢
    try split
    all_goals first
      | exact this
      | exact hi _

/-! ### the labels of the value histories -/

theorem mem_addValue_hist {a : AssetVal} {l : Nat} {t v : Int} {e : VEntry}
    (h : e ∈ (a.addValue l t v).hist) : e ∈ a.hist ∨ (e.label = l ∧ e.time = t ∧ e.delta = v) := by
  unfold AssetVal.addValue at h
  split at h
  · exact Or.inl h
  · rcases List.mem_append.1 h with h | h
    · exact Or.inl h
    · simp only [List.mem_singleton] at h
      subst h
      exact Or.inr ⟨rfl, rfl, rfl⟩

theorem mem_addCost_hist {a : AssetVal} {l : Nat} {t v : Int} {e : VEntry}
    (h : e ∈ (a.addCost l t v).hist) : e ∈ a.hist ∨ (e.label = l ∧ e.time = t ∧ e.delta = -v) :=
  mem_addValue_hist h

/-- Every entry of a value history was written by the site that belongs to the asset: a source's
by a supply, a sink's by a receipt, a maintainer's by the start of a work order. -/
def LabelInv (k : WKey) : Prop :=
  (∀ y, ∀ e ∈ (k.dev y).val.hist,
    ((k.dev y).kind = .source ∧ e.label = lblSupplied) ∨ ((k.dev y).kind = .sink ∧ e.label = lblCollected)) ∧
  ∀ m, ∀ e ∈ (k.mval m).hist, e.label = lblWorkOrder

theorem LabelInv.step {k k' : WKey} (h : KStep ph k k') (hi : LabelInv k) : LabelInv k' := by
  induction h with
  | refl k => exact hi
  | trans _ _ ih1 ih2 => exact ih2 (ih1 hi)
  | recvSink k x p q v lv hph hx hk =>
    refine ⟨fun y => ?_, hi.2⟩
    have := hi.1 y
    simp only [WKey.dev, getD_set] at this hk ⊢
    split
    · intro e he
      rcases mem_addValue_hist he with h | h
      · exact hi.1 x e h
      · exact Or.inr ⟨hk, h.1⟩
    · exact this
  | supply k x p v hph hx hk =>
    refine ⟨fun y => ?_, hi.2⟩
    have := hi.1 y
    simp only [WKey.dev, getD_set] at this hk ⊢
    split
    · intro e he
      rcases mem_addCost_hist he with h | h
      · exact hi.1 x e h
      · exact Or.inl ⟨hk, h.1⟩
    · exact this
  | maintCost k m c hph =>
    refine ⟨hi.1, fun m' => ?_⟩
    have := hi.2 m'
    simp only [WKey.mval, getD_set] at this ⊢
    split
    · intro e he
      rcases mem_addCost_hist he with h | h
      · exact hi.2 m e h
      · exact h.1
    · exact this
  | maintReset k m hph =>
    refine ⟨hi.1, fun m' => ?_⟩
    have := hi.2 m'
    simp only [WKey.mval, getD_set] at this ⊢
    split
    · intro e he; cases he
    · exact this
  | devReset k x hph =>
    refine ⟨fun y => ?_, hi.2⟩
    have := hi.1 y
    simp only [WKey.dev, getD_set] at this ⊢
    split
    · intro e he; cases he
    · exact this
  | _ =>
    refine ⟨fun y => ?_, hi.2⟩
    have := hi.1 y
    simp only [WKey.dev, WKey.addRecs, getD_set] at this ⊢
    try split
    all_goals first
      | exact this
      | exact hi.1 _

/-! ### 2. the counters of the sinks add up to the delivered parts -/

theorem sum_map_set (f : DKey → Int) (l : List DKey) (x : Nat) (d : DKey) (hx : x < l.length) :
    ((l.set x d).map f).sum = (l.map f).sum - f (l.getD x default) + f d := by
  induction l generalizing x with
  | nil => cases hx
  | cons a l ih =>
    cases x with
    | zero => simp [List.getD_eq_getElem?_getD]; omega
    | succ x =>
      have := ih x (by simpa using hx)
      simp only [List.set_cons_succ, List.map_cons, List.sum_cons, this]
      simp [List.getD_eq_getElem?_getD]; omega

def recvTotal (k : WKey) : Int := (k.devs.map (·.recvCount)).sum

def DelivInv (k : WKey) : Prop :=
  recvTotal k = k.delivered.length ∧ ∀ y, (k.dev y).kind ≠ .sink → (k.dev y).recvCount = 0

theorem DelivInv.step {k k' : WKey} (h : KStep ph k k') (hi : DelivInv k) : DelivInv k' := by
  induction h with
  | refl k => exact hi
  | trans _ _ ih1 ih2 => exact ih2 (ih1 hi)
  | recvSink k x p q v lv hph hx hk =>
    refine ⟨?_, fun y => ?_⟩
    · have := hi.1
      simp only [recvTotal] at this ⊢
      rw [sum_map_set _ _ _ _ hx]
      simp only [WKey.dev, List.length_append] at this ⊢
      omega
    · have := hi.2 y
      simp only [WKey.dev, getD_set] at this hk ⊢
      split
      · intro hn; exact absurd hk hn
      · exact this
  | _ =>
    refine ⟨?_, fun y => ?_⟩
    · have := hi.1
      simp only [recvTotal, WKey.addRecs] at this ⊢
      first
        | exact this
        | (refine (congrArg List.sum (map_set_of_eq (fun x : DKey => x.recvCount) _ _ _ default ?_)).trans this; rfl)
    · have := hi.2 y
      simp only [WKey.dev, WKey.addRecs, getD_set] at this ⊢
      try split
      all_goals first
        | exact this
        | exact hi.2 _

/-! the value collected by a sink is the sum of the values in its `received_part` records -/

def recvSum (recs : List Rec) (x : Nat) : Int :=
  (recs.filterMap (fun r => match r with
    | .received d _ _ _ v => if d = x then some v else none
    | _ => none)).sum

theorem recvSum_append (l₁ l₂ : List Rec) (x : Nat) :
    recvSum (l₁ ++ l₂) x = recvSum l₁ x + recvSum l₂ x := by
  simp [recvSum, List.filterMap_append, List.sum_append]

theorem recvSum_stamp (t : Int) (recs : List ResRec) (x : Nat) : recvSum (stamp t recs) x = 0 := by
  unfold recvSum stamp
  induction recs with
  | nil => rfl
  | cons a l ih => simpa using ih

theorem recvSum_plain {r : Rec} (h : isPlain r = true) (x : Nat) : recvSum [r] x = 0 := by
  cases r <;> simp_all [isPlain, recvSum]

def RecvValInv (k : WKey) : Prop :=
  ∀ y, (k.dev y).kind = .sink → (k.dev y).recvValue = recvSum k.recs y

theorem RecvValInv.step {k k' : WKey} (h : KStep ph k k') (hi : RecvValInv k) : RecvValInv k' := by
  induction h with
  | refl k => exact hi
  | trans _ _ ih1 ih2 => exact ih2 (ih1 hi)
  | plain k r hp ht =>
    intro y
    have := hi y
    simp only [WKey.dev, WKey.addRecs, recvSum_append, recvSum_plain hp] at this ⊢
    simpa using this
  | recvSink k x p q v lv hph hx hk =>
    intro y
    have := hi y
    simp only [WKey.dev, getD_set, recvSum_append] at this hk ⊢
    by_cases hxy : x = y
    · subst hxy
      rw [if_pos ⟨rfl, hx⟩]
      intro _
      have e : recvSum [Rec.received x k.now p q v] x = v := by simp [recvSum]
      rw [e]
      have := this hk
      dsimp only
      omega
    · rw [if_neg (fun h => hxy h.1)]
      have e : recvSum [Rec.received x k.now p q v] y = 0 := by simp [recvSum, hxy]
      rw [e]
      intro hs
      have := this hs
      omega
  | recvBuf k x p n q v hph hx hk =>
    intro y
    have := hi y
    simp only [WKey.dev, getD_set, recvSum_append] at this hk ⊢
    by_cases hxy : x = y
    · subst hxy
      rw [if_pos ⟨rfl, hx⟩]
      intro hs
      rw [hk] at hs; cases hs
    · rw [if_neg (fun h => hxy h.1)]
      have e : recvSum [Rec.level x k.now ((k.devs.getD x default).level + n), Rec.received x k.now p q v] y = 0 := by
        simp [recvSum, hxy]
      rw [e]
      intro hs
      have := this hs
      omega
  | recvOther k x p q v hph hk1 hk2 =>
    intro y
    have := hi y
    simp only [WKey.dev, WKey.addRecs, recvSum_append] at this hk1 ⊢
    intro hs
    have hxy : x ≠ y := by intro e; subst e; exact hk1 hs
    have e : recvSum [Rec.received x k.now p q v] y = 0 := by simp [recvSum, hxy]
    rw [e]
    have := this hs
    omega
  | _ =>
    intro y
    have := hi y
    simp only [WKey.dev, WKey.addRecs, getD_set, recvSum_append, recvSum_stamp] at this ⊢
    try split
    all_goals simp_all [recvSum]

/-! ### 4. the last `resource_update` record of a resource is its pool -/

def rmOf (k : WKey) : RM := { pools := k.pools, inited := k.rmInited }

theorem usage_congr {a b : RM} (h : a.pools = b.pools) (r : Nat) :
    a.usage r = b.usage r ∧ a.capacity r = b.capacity r := by
  unfold RM.usage RM.capacity RM.lookup; rw [h]; exact ⟨rfl, rfl⟩

theorem lastResUpdate_append (l₁ l₂ : List Rec) (r : Nat) :
    lastResUpdate (l₁ ++ l₂) r = (lastResUpdate l₂ r).or (lastResUpdate l₁ r) := by
  unfold lastResUpdate
  rw [List.filterMap_append, List.getLast?_append]

theorem lastResUpdate_plain {x : Rec} (h : isPlain x = true) (r : Nat) : lastResUpdate [x] r = none := by
  cases x <;> simp_all [isPlain, lastResUpdate]

/-- With distinct keys, the records of `initialize` show every pool. -/
theorem lastFor_pools (pools : List (Nat × Int × Int)) (hn : (pools.map (·.1)).Nodup) (r : Nat) :
    (lastFor (pools.map (fun p => (⟨p.1, p.2.1, p.2.2⟩ : ResRec))) r).map (fun x => (x.inUse, x.cap)) =
      (pools.find? (fun p => p.1 == r)).map (·.2) := by
  induction pools with
  | nil => rfl
  | cons a l ih =>
    obtain ⟨r', u, c⟩ := a
    simp only [List.map_cons, List.nodup_cons] at hn
    have ih' := ih hn.2
    by_cases hr : r' = r
    · subst hr
      have hnone : (l.map (fun p => (⟨p.1, p.2.1, p.2.2⟩ : ResRec))).filter (fun x => x.res == r') = [] := by
        rw [List.filter_eq_nil_iff]
        intro x hx
        obtain ⟨p, hp, rfl⟩ := List.mem_map.1 hx
        simp only [beq_iff_eq]
        intro he
        exact hn.1 (List.mem_map.2 ⟨p, hp, he⟩)
      simp [lastFor, hnone]
    · have h1 : (r' == r) = false := by simpa using hr
      simp only [lastFor, List.map_cons, List.filter_cons, h1, List.find?_cons] at ih' ⊢
      exact ih'

def ResInv (k : WKey) : Prop :=
  (k.pools.map (·.1)).Nodup ∧
  (k.rmInited = true →
    ∀ r, (lastResUpdate k.recs r).getD (0, 0) = ((rmOf k).usage r, (rmOf k).capacity r)) ∧
  (k.rmInited = false → ∀ r, lastResUpdate k.recs r = none)

theorem ResInv.step {k k' : WKey} (h : KStep ph k k') (hi : ResInv k) : ResInv k' := by
  induction h with
  | refl k => exact hi
  | trans _ _ ih1 ih2 => exact ih2 (ih1 hi)
  | rm k a b recs ha hia h =>
    refine ⟨h.nodup (ha ▸ hi.1), fun hin r => ?_, fun hin r => ?_⟩
    · have h2 := hi.2.1 hin
      have hf := h.faithful (hia.trans hin)
      have hb := usage_congr (a := rmOf { k with pools := b.pools, recs := k.recs ++ stamp k.now recs })
        (b := b) rfl r
      have hak := usage_congr (a := a) (b := rmOf k) ha r
      rw [hb.1, hb.2]
      show (lastResUpdate (k.recs ++ stamp k.now recs) r).getD (0, 0) = _
      rw [lastResUpdate_append, lastResUpdate_stamp]
      have hfr := hf r
      cases e : lastFor recs r with
      | none =>
        rw [e] at hfr
        simp only [Option.map_none, Option.none_or]
        rw [h2 r, ← hak.1, ← hak.2]
        exact hfr.symm
      | some x =>
        rw [e] at hfr
        simp only at hfr
        subst hfr
        rfl
    · have hs := h.silent (hia.trans hin)
      subst hs
      show lastResUpdate (k.recs ++ stamp k.now []) r = none
      simpa [stamp] using hi.2.2 hin r
  | rmInit k hph hin =>
    refine ⟨hi.1, fun _ r => ?_, fun h => by cases h⟩
    show (lastResUpdate (k.recs ++ stamp k.now _) r).getD (0, 0) = _
    rw [lastResUpdate_append, lastResUpdate_stamp, hi.2.2 hin r, Option.or_none, lastFor_pools _ hi.1 r]
    show _ = ((((k.pools.find? (fun p => p.1 == r)).map (·.2)).map (·.1)).getD 0,
      (((k.pools.find? (fun p => p.1 == r)).map (·.2)).map (·.2)).getD 0)
    cases (k.pools.find? (fun p => p.1 == r)) <;> rfl
  | plain k r hp ht =>
    refine ⟨hi.1, fun hin r' => ?_, fun hin r' => ?_⟩
    · show (lastResUpdate (k.recs ++ [r]) r').getD (0, 0) = _
      rw [lastResUpdate_append, lastResUpdate_plain hp, Option.none_or]
      exact hi.2.1 hin r'
    · show lastResUpdate (k.recs ++ [r]) r' = none
      rw [lastResUpdate_append, lastResUpdate_plain hp, Option.none_or]
      exact hi.2.2 hin r'
  | _ =>
    refine ⟨hi.1, fun hin r' => ?_, fun hin r' => ?_⟩
    · have := hi.2.1 hin r'
      simp only [WKey.addRecs, lastResUpdate_append] at this ⊢
      first
        | exact this
        | simpa [lastResUpdate] using this
    · have := hi.2.2 hin r'
      simp only [WKey.addRecs, lastResUpdate_append] at this ⊢
      first
        | exact this
        | simpa [lastResUpdate] using this

/-- Once the manager is initialised, every resource that has a pool has a record. -/
def HasRecInv (k : WKey) : Prop :=
  (k.pools.map (·.1)).Nodup ∧
  (k.rmInited = true → ∀ r, ((rmOf k).lookup r).isSome → (lastResUpdate k.recs r).isSome)

theorem HasRecInv.step {k k' : WKey} (h : KStep ph k k') (hi : HasRecInv k) : HasRecInv k' := by
  induction h with
  | refl k => exact hi
  | trans _ _ ih1 ih2 => exact ih2 (ih1 hi)
  | rm k a b recs ha hia h =>
    refine ⟨h.nodup (ha ▸ hi.1), fun hin r hr => ?_⟩
    have hr' : (b.lookup r).isSome := hr
    show (lastResUpdate (k.recs ++ stamp k.now recs) r).isSome
    rw [lastResUpdate_append, lastResUpdate_stamp]
    rcases h.covers (hia.trans hin) r hr' with h1 | h1
    · have : ((rmOf k).lookup r).isSome := by
        rw [lookup_congr (a := a) (b := rmOf k) ha.symm]; exact h1
      have := hi.2 hin r this
      cases lastFor recs r with
      | none => simpa using this
      | some x => simp
    · cases e : lastFor recs r with
      | none => rw [e] at h1; cases h1
      | some x => simp
  | rmInit k hph hin =>
    refine ⟨hi.1, fun _ r hr => ?_⟩
    show (lastResUpdate (k.recs ++ stamp k.now _) r).isSome
    rw [lastResUpdate_append, lastResUpdate_stamp]
    have := lastFor_pools k.pools hi.1 r
    have hr' : ((k.pools.find? (fun p => p.1 == r)).map (·.2)).isSome := hr
    rw [← this] at hr'
    cases e : lastFor (k.pools.map (fun p => (⟨p.1, p.2.1, p.2.2⟩ : ResRec))) r with
    | none => rw [e] at hr'; cases hr'
    | some x => simp
  | plain k r hp ht =>
    refine ⟨hi.1, fun hin r' hr => ?_⟩
    show (lastResUpdate (k.recs ++ [r]) r').isSome
    rw [lastResUpdate_append, lastResUpdate_plain hp, Option.none_or]
    exact hi.2 hin r' hr
  | _ =>
    refine ⟨hi.1, fun hin r' hr => ?_⟩
    have := hi.2 hin r' hr
    simp only [WKey.addRecs, lastResUpdate_append] at this ⊢
    first
      | exact this
      | simpa [lastResUpdate] using this

/-! ### 5. records are stamped with the clock; the log is sorted by time -/

/-- Same clock; the log is extended by records stamped with it. -/
def Stamped (k k' : WKey) : Prop :=
  k'.now = k.now ∧ ∃ l, k'.recs = k.recs ++ l ∧ ∀ r ∈ l, Rec.time r = k.now

theorem Stamped.refl (k : WKey) : Stamped k k := ⟨rfl, [], by simp, by simp⟩

theorem Stamped.trans {a b c : WKey} (h1 : Stamped a b) (h2 : Stamped b c) : Stamped a c := by
  obtain ⟨n1, l1, e1, t1⟩ := h1
  obtain ⟨n2, l2, e2, t2⟩ := h2
  refine ⟨n2.trans n1, l1 ++ l2, by rw [e2, e1, List.append_assoc], ?_⟩
  intro r hr
  rcases List.mem_append.1 hr with h | h
  · exact t1 r h
  · rw [← n1]; exact t2 r h

theorem time_stamp (t : Int) (recs : List ResRec) : ∀ r ∈ stamp t recs, Rec.time r = t := by
  intro r hr
  obtain ⟨a, _, rfl⟩ := List.mem_map.1 hr
  rfl

theorem KStep.stamped {k k' : WKey} (h : KStep ph k k') : Stamped k k' := by
  induction h with
  | refl k => exact Stamped.refl k
  | trans _ _ ih1 ih2 => exact ih1.trans ih2
  | env k op h =>
    exact ⟨C01.now_apply_ne_step Arith.exact k.env op h, [], by simp, by simp⟩
  | plain k r hp ht => exact ⟨rfl, [r], rfl, by simpa using ht⟩
  | rm k a b recs ha hi h => exact ⟨rfl, _, rfl, time_stamp _ _⟩
  | rmInit k hph hi => exact ⟨rfl, _, rfl, time_stamp _ _⟩
  | recvOther k x p q v hph hk1 hk2 => exact ⟨rfl, [_], rfl, by simp [Rec.time]⟩
  | maintCost k m c hph => exact ⟨rfl, [], by simp, by simp⟩
  | maintReset k m hph => exact ⟨rfl, [], by simp, by simp⟩
  | devReset k x hph => exact ⟨rfl, [], by simp, by simp⟩
  | plSet k b h => exact ⟨rfl, [], by simp, by simp⟩
  | _ => exact ⟨rfl, _, rfl, by simp [Rec.time]⟩

/-- The queue invariant of C01 holds for the environment. -/
theorem envInv_step {k k' : WKey} (h : KStep ph k k') (hi : C01.Inv k.env) : C01.Inv k'.env := by
  induction h with
  | trans _ _ ih1 ih2 => exact ih2 (ih1 hi)
  | env k op h => exact C01.inv_apply Arith.exact op hi
  | _ => exact hi

def Sorted (l : List Rec) : Prop := l.Pairwise (fun a b => Rec.time a ≤ Rec.time b)

/-- The queue invariant, every record is stamped with a time that has passed, the log is sorted. -/
def TimeInv (k : WKey) : Prop :=
  C01.Inv k.env ∧ (∀ r ∈ k.recs, Rec.time r ≤ k.now) ∧ Sorted k.recs

theorem sorted_const (l : List Rec) (t : Int) (h : ∀ r ∈ l, Rec.time r = t) : Sorted l := by
  induction l with
  | nil => exact List.Pairwise.nil
  | cons a l ih =>
    refine List.Pairwise.cons ?_ (ih (fun r hr => h r (List.mem_cons_of_mem _ hr)))
    intro b hb
    rw [h a (List.mem_cons_self ..), h b (List.mem_cons_of_mem _ hb)]
    exact Int.le_refl _

theorem TimeInv.step {k k' : WKey} (h : KStep ph k k') (hi : TimeInv k) : TimeInv k' := by
  obtain ⟨hn, l, e, ht⟩ := h.stamped
  refine ⟨envInv_step h hi.1, ?_, ?_⟩
  · intro r hr
    rw [e] at hr
    rw [hn]
    rcases List.mem_append.1 hr with h1 | h1
    · exact hi.2.1 r h1
    · rw [ht r h1]; exact Int.le_refl _
  · unfold Sorted
    rw [e, List.pairwise_append]
    refine ⟨hi.2.2, sorted_const l _ ht, ?_⟩
    intro a ha b hb
    rw [ht b hb]
    exact hi.2.1 a ha

theorem TimeInv.pop (k : WKey) (hi : TimeInv k) :
    TimeInv { k with env := (k.env.apply Arith.exact .step).1 } := by
  refine ⟨C01.inv_apply Arith.exact .step hi.1, ?_, hi.2.2⟩
  intro r hr
  exact Int.le_trans (hi.2.1 r hr) (C01.clock_mono_apply Arith.exact .step hi.1)

theorem TimeInv.run {k k' : WKey} (h : KRun k k') (hi : TimeInv k) : TimeInv k' := by
  induction h with
  | refl k => exact hi
  | trans _ _ ih1 ih2 => exact ih2 (ih1 hi)
  | act h => exact TimeInv.step h hi
  | pop k => exact TimeInv.pop k hi

end C15W
end SimProc
