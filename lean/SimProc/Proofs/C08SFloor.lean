/-
C08S — the idle clock is exact.  Part 2: `Clk X w (f w)` for the functions of `Model/Floor.lean`
(`Stamp` for the notification functions).
-/
import SimProc.Proofs.C08SDefs
import SimProc.Proofs.FloorSt

namespace SimProc
namespace C08S
open World FloorCoreL

/-! ### the view of a device with free slots -/

theorem free_of_slots {d : Dev} (h : (d.part.isNone && d.output.isNone) = true) :
    (cv d).free = true := by
  unfold CV.free cv
  cases isS d.kind <;> simp_all

theorem slots_of_free {d : Dev} (hk : isS d.kind = true) (h : (cv d).free = true) :
    d.part = none ∧ d.output = none := by
  unfold CV.free cv at h
  simp only [hk, if_true, Bool.and_eq_true, Option.isNone_iff_eq_none] at h
  exact h

theorem cv_part {d : Dev} (hk : isS d.kind = true) : (cv d).part = d.part := by simp [cv, hk]
theorem cv_output {d : Dev} (hk : isS d.kind = true) : (cv d).output = d.output := by simp [cv, hk]

/-! ### notifications: only idle clocks are started -/

section notif
variable (w : World)

/-- `_set_waiting_for_part(True)` of a device whose slots are free (or that is not a single-slot
device). -/
theorem Stamp_setWaiting_true (x : Nat)
    (h : isS (w.dev x).kind = true → (cv (w.dev x)).free = true) :
    Stamp w (w.setWaiting x true false) := by
  unfold World.setWaiting
  simp only [Bool.not_true, Bool.false_eq_true, if_false, Bool.not_false, Bool.and_true]
  split
  · exact Stamp.refl w
  · next hs =>
    split
    · refine ⟨rfl, by simp, fun y => ?_⟩
      rw [dev_setDev]
      split
      · next hxy =>
        rw [← hxy.1]
        refine Or.inr ⟨?_, h, rfl⟩
        cases hsn : (w.dev x).since with
        | none => exact hsn
        | some t => rw [hsn] at hs; simp at hs
      · exact Or.inl rfl
    · exact Stamp.refl w

theorem Stamp_schedulePass (x : Nat) (o : Int) : Stamp w (w.schedulePass x o) := by
  unfold World.schedulePass
  dsimp only
  split
  · exact Stamp.refl w
  · refine Stamp.trans ?_ (Stamp_schedLib _ _ _ _ _)
    exact Stamp_setDev_same w x _ rfl

theorem Stamp_notify_aux (f : Nat) :
    ∀ (w : World) (x : Nat), Stamp w (notifyUp f w x) ∧ Stamp w (spaceAvail f w x) := by
  induction f with
  | zero =>
    intro w x
    exact ⟨by unfold notifyUp; exact Stamp_setErr _ _, by unfold spaceAvail; exact Stamp_setErr _ _⟩
  | succ f ih =>
    intro w x
    have hup : ∀ (w : World) (l : List Nat), Stamp w (l.foldl (fun w u => spaceAvail f w u) w) :=
      fun w l => Stamp.foldl _ l w (fun w a => (ih w a).2)
    have hnu : ∀ (w : World) (l : List Nat), Stamp w (l.foldl (fun w u => notifyUp f w u) w) :=
      fun w l => Stamp.foldl _ l w (fun w a => (ih w a).1)
    have h1 : Stamp w (notifyUp (f + 1) w x) := by
      unfold notifyUp
      simp only []
      split
      all_goals first
        | exact hnu _ _
        | exact hup _ _
        | (split   -- devices with one slot
           · exact (Stamp_setWaiting_true w x (fun _ => free_of_slots (by assumption))).trans (hup _ _)
           · exact hup _ _)
        | (rename_i hk   -- buffer
           repeat' split
           all_goals first
             | exact Stamp.refl _
             | exact (Stamp_setWaiting_true w x (fun h => by rw [hk] at h; cases h)).trans (hup _ _))
    refine ⟨h1, ?_⟩
    unfold spaceAvail
    simp only []
    repeat' split
    all_goals first
      | exact Stamp.refl _ | exact (ih w x).1 | exact (ih _ _).2 | exact Stamp_schedulePass ..

theorem Stamp_notifyUp (f : Nat) (x : Nat) : Stamp w (notifyUp f w x) := (Stamp_notify_aux f w x).1
theorem Stamp_spaceAvail (f : Nat) (x : Nat) : Stamp w (spaceAvail f w x) := (Stamp_notify_aux f w x).2
theorem Stamp_notify (x : Nat) : Stamp w (w.notify x) := Stamp_notifyUp w _ x
theorem Stamp_spaceAvailable (x : Nat) : Stamp w (w.spaceAvailable x) := Stamp_spaceAvail w _ x

/-- After `notify x` the clock of an initialised single-slot device `x` with free slots runs. -/
theorem notify_since (x : Nat) (hk : isS (w.dev x).kind = true) (hi : (w.dev x).inited = true)
    (hp : (w.dev x).part = none) (ho : (w.dev x).output = none) :
    ((w.notify x).dev x).since.isSome = true := by
  have hx : x < w.devs.length := by
    apply Nat.lt_of_not_le
    intro h
    rw [dev_of_length_le h] at hi
    cases hi
  -- the first step of the notification stamps the clock
  have key : ∀ w1 : World, Stamp (w.setWaiting x true false) w1 → (w1.dev x).since.isSome = true := by
    intro w1 hs
    have h0 : ((w.setWaiting x true false).dev x).since.isSome = true := by
      unfold World.setWaiting
      dsimp only
      cases hsn : (w.dev x).since with
      | some t => simp [hsn]
      | none => simp [hi, dev_setDev_same hx]
    cases hsn : ((w.setWaiting x true false).dev x).since with
    | none => rw [hsn] at h0; cases h0
    | some t => rw [hs.since_some hsn]; rfl
  show ((notifyUp (2 * w.devs.length + 2 + 1) w x).dev x).since.isSome = true
  rw [notifyUp]
  simp only [hp, ho, Option.isNone_none, Bool.and_self, if_true]
  cases hkk : (w.dev x).kind <;> rw [hkk] at hk <;> first | cases hk | skip
  all_goals
    simp only []
    exact key _ (Stamp.foldl _ _ _ (fun w a => Stamp_spaceAvail w _ a))

end notif

section floor
variable {X : Nat → Prop} (w : World)

theorem Clk_schedulePass (x : Nat) (o : Int) : Clk X w (w.schedulePass x o) := (Stamp_schedulePass w x o).clk
clk_lemma2 Clk_schedulePass
theorem Clk_notify (x : Nat) : Clk X w (w.notify x) := (Stamp_notify w x).clk
clk_lemma1 Clk_notify
theorem Clk_spaceAvailable (x : Nat) : Clk X w (w.spaceAvailable x) := (Stamp_spaceAvailable w x).clk
clk_lemma1 Clk_spaceAvailable

/-! ### functions that do not touch slots or clocks -/

theorem Clk_releaseReserved (x : Nat) : Clk X w (w.releaseReserved x) := by
  unfold World.releaseReserved; clk_auto
clk_lemma1 Clk_releaseReserved

theorem Clk_procAcquire (x : Nat) : Clk X w (w.procAcquire x).1 := by
  unfold World.procAcquire; clk_auto
clk_lemma1 Clk_procAcquire

theorem Clk_applyPartCb (x p : Nat) (c : PartCb) : Clk X w (w.applyPartCb x p c) := by
  rw [applyPartCb_eq]; unfold cbDev; clk_auto
clk_lemma3 Clk_applyPartCb

theorem Clk_addHist (p d : Nat) : Clk X w (w.addHist p d) := by
  unfold World.addHist; clk_auto
clk_lemma2 Clk_addHist

theorem Clk_dropHist (p : Nat) : Clk X w (w.dropHist p) := by
  unfold World.dropHist; clk_auto
clk_lemma1 Clk_dropHist

theorem Clk_senseOutput (s p : Nat) : Clk X w (w.senseOutput s p) := by
  unfold World.senseOutput; clk_auto
clk_lemma2 Clk_senseOutput

theorem Clk_setBlock (x : Nat) (b : Bool) : Clk X w (w.setBlock x b) := by
  unfold World.setBlock; clk_auto
clk_lemma2 Clk_setBlock

theorem Clk_adjustParts (x : Nat) (v : Int) : Clk X w (w.adjustParts x v) := by
  unfold World.adjustParts; clk_auto
clk_lemma2 Clk_adjustParts

theorem Clk_procResourceCb (x : Nat) : Clk X w (w.procResourceCb x) := by
  unfold World.procResourceCb; clk_auto
clk_lemma1 Clk_procResourceCb

theorem Clk_releaseIfIdle (x : Nat) : Clk X w (w.releaseIfIdle x) := by
  unfold World.releaseIfIdle; clk_auto
clk_lemma1 Clk_releaseIfIdle

theorem Clk_genPart (x : Nat) : Clk X w (w.genPart x).1 := by
  cases h : ((w.dev x).genBatch == 0)
  · rw [C02V.genPart_batch w x h]; exact Clk.of_devs rfl rfl
  · rw [C02V.genPart_leaf w x h]; exact Clk.of_devs rfl rfl

end floor

/-! ### what single updates of a device record do to its clock view -/

section pd
variable {X : Prop} {now : Int}

/-- the part in process moves to the output slot -/
theorem PD_move {d : Dev} {p : Nat} (hp : d.part = some p) :
    PD X now (cv d) (cv { d with output := some p, part := none }) := by
  cases hk : isS d.kind with
  | false => exact PD.of_eq (cv_eq_of_mask hk rfl rfl rfl rfl)
  | true =>
    refine ⟨⟨⟨rfl, rfl, Or.inl rfl, ?_⟩, ?_⟩, ?_⟩
    · intro _ _ hf
      simp [CV.free, cv, hk] at hf
    · intro hs _ t ht
      have := (hs hk t ht).1
      simp [CV.free, cv, hk, hp] at this
    · intro _ _ _ _ hf
      simp [CV.free, cv, hk] at hf

/-- a part is accepted: the input slot is filled and the clock stopped -/
theorem PD_accept (d : Dev) (p : Nat) :
    PD X now (cv d) (cv { d with part := some p, since := none }) := by
  refine ⟨⟨⟨rfl, rfl, Or.inr (Or.inl rfl), ?_⟩, ?_⟩, ?_⟩
  · intro _ hm hf
    have hk : isS d.kind = true := isS_of_isM hm
    simp [CV.free, cv, hk] at hf
  · intro _ _ t ht
    cases ht
  · intro _ hk _ _ hf
    have hk : isS d.kind = true := hk
    simp [CV.free, cv, hk] at hf

/-- a slot is emptied (completeness may be lost until the notification that follows) -/
theorem PDs_release_output (d : Dev) (hX : isM d.kind = true → X) :
    PDs X now (cv d) (cv { d with output := none }) := by
  refine ⟨⟨rfl, rfl, Or.inl rfl, fun hnx hm _ => absurd (hX hm) hnx⟩, ?_⟩
  intro hs hk t ht
  have hk : isS d.kind = true := hk
  obtain ⟨hf, hle⟩ := hs hk t ht
  refine ⟨?_, hle⟩
  simp [CV.free, cv, hk] at hf ⊢
  exact hf.1

theorem PDs_release_part (d : Dev) (hX : isM d.kind = true → X) :
    PDs X now (cv d) (cv { d with part := none }) := by
  refine ⟨⟨rfl, rfl, Or.inl rfl, fun hnx hm _ => absurd (hX hm) hnx⟩, ?_⟩
  intro hs hk t ht
  have hk : isS d.kind = true := hk
  obtain ⟨hf, hle⟩ := hs hk t ht
  refine ⟨?_, hle⟩
  simp [CV.free, cv, hk] at hf ⊢
  exact hf.2

/-- a shutdown: the flag is set, the clock stopped -/
theorem PD_stop (d : Dev) (hX : isM d.kind = true → X) (d' : Dev) (h1 : d'.kind = d.kind)
    (h2 : d'.inited = d.inited) (h3 : d'.shutDown = true) (h4 : d'.since = none)
    (_h5 : d'.part = d.part) (_h6 : d'.output = d.output) : PD X now (cv d) (cv d') := by
  refine ⟨⟨⟨h1, h2, Or.inr (Or.inl h4), fun hnx hm _ => absurd (hX hm) hnx⟩, ?_⟩, ?_⟩
  · intro _ _ t ht
    have : d'.since = some t := ht
    rw [h4] at this; cases this
  · intro _ _ _ hsd _
    have : d'.shutDown = false := hsd
    rw [h3] at this; cases this

/-- a restore: only the flag changes (completeness is re-established by the notification) -/
theorem PDs_flag (d d' : Dev) (h1 : d'.kind = d.kind) (h2 : d'.inited = d.inited)
    (h4 : d'.since = d.since) (h5 : d'.part = d.part) (h6 : d'.output = d.output) :
    PDs X now (cv d) (cv d') := by
  have hp : (cv d').part = (cv d).part := by simp [cv, h1, h5]
  have ho : (cv d').output = (cv d).output := by simp [cv, h1, h6]
  have hf : (cv d').free = (cv d).free := by unfold CV.free; rw [hp, ho]
  refine ⟨⟨h1, h2, Or.inl h4, ?_⟩, ?_⟩
  · intro _ _ hfr
    rw [hf] at hfr
    exact ⟨hfr, fun t ht => by show d'.since = some t; rw [h4]; exact ht⟩
  · intro hs hk t ht
    have hk' : isS d.kind = true := by rw [← h1]; exact hk
    have ht' : d.since = some t := by rw [← h4]; exact ht
    rw [hf]
    exact hs hk' t ht'

end pd

/-! ### steps after which completeness has to be re-established at one device -/

/-- `Clk` except that completeness of device `x` may be lost. -/
structure Pre (X : Nat → Prop) (x : Nat) (w w' : World) : Prop where
  now : w'.now = w.now
  len : w'.devs.length = w.devs.length
  dev : ∀ y, PDs (X y) w.now (cv (w.dev y)) (cv (w'.dev y))
  compl : ∀ y, y ≠ x → Complete (cv (w.dev y)) → Complete (cv (w'.dev y))

theorem Clk.pre {X : Nat → Prop} {w w' : World} (h : Clk X w w') (x : Nat) : Pre X x w w' :=
  ⟨h.now, h.len, fun y => (h.dev y).toPDs, fun y _ => (h.dev y).compl⟩

theorem Pre.trans {X : Nat → Prop} {x : Nat} {a b c : World} (h1 : Pre X x a b) (h2 : Pre X x b c) :
    Pre X x a c :=
  ⟨h2.now.trans h1.now, h2.len.trans h1.len, fun y => (h1.dev y).trans (h1.now ▸ h2.dev y),
    fun y hy hc => h2.compl y hy (h1.compl y hy hc)⟩

theorem Pre.close {X : Nat → Prop} {x : Nat} {w w' : World} (h : Pre X x w w')
    (hc : Complete (cv (w'.dev x))) : Clk X w w' :=
  ⟨h.now, h.len, fun y => ⟨h.dev y, fun hcy => by
    by_cases hy : y = x
    · subst hy; exact hc
    · exact h.compl y hy hcy⟩⟩

theorem Pre.kind {X : Nat → Prop} {x : Nat} {w w' : World} (h : Pre X x w w') (y : Nat) :
    (w'.dev y).kind = (w.dev y).kind := (h.dev y).kind

theorem Pre_setDev {X : Nat → Prop} (w : World) (x : Nat) (d : Dev)
    (h : PDs (X x) w.now (cv (w.dev x)) (cv d)) : Pre X x w (w.setDev x d) := by
  refine ⟨rfl, by simp, fun y => ?_, fun y hy hc => ?_⟩
  · rw [dev_setDev]
    split
    · next hxy => rw [← hxy.1]; exact h
    · exact PDs.refl _ _ _
  · rw [dev_setDev_ne (Ne.symm hy)]; exact hc

/-- A device index out of range reads the default device, which is not initialised. -/
theorem complete_of_ge {w : World} {x : Nat} (h : w.devs.length ≤ x) : Complete (cv (w.dev x)) := by
  rw [dev_of_length_le h]
  intro _ hi
  cases hi

section floor2
variable {X : Nat → Prop} (w : World)

/-! ### the end of a cycle -/

theorem Clk_finishCycleHandler (x : Nat) : Clk X w (w.finishCycleHandler x) := by
  unfold World.finishCycleHandler
  dsimp only
  split
  · clk_auto
  · split
    · clk_auto
    · next p hp =>
      split
      · clk_auto
      · refine Clk.trans ?_ (Clk_schedulePass _ _ _)
        exact Clk_setDev w x _ (PD_move hp)
clk_lemma1 Clk_finishCycleHandler

/-- **A slot is emptied and the upstream devices are told**: the clock of `x` is started when both
slots are free now. -/
theorem Clk_release_notify (x : Nat) (hX : isM (w.dev x).kind = true → X x) :
    Clk X w ((w.modDev x (fun d => { d with output := none })).notify x) := by
  have h1 : Pre X x w (w.modDev x (fun d => { d with output := none })) :=
    Pre_setDev w x _ (PDs_release_output _ hX)
  have hS := Stamp_notify (w.modDev x (fun d => { d with output := none })) x
  refine (h1.trans ((hS.clk (X := X)).pre x)).close ?_
  intro hk hi _ hf
  obtain ⟨e1, e2, _, e4, e5⟩ := hS.fields x
  generalize hW : w.modDev x (fun d => { d with output := none }) = W at *
  have hk1 : isS (W.dev x).kind = true := by
    have : (cv ((W.notify x).dev x)).kind = (W.dev x).kind := e1
    rw [← this]; exact hk
  have hi1 : (W.dev x).inited = true := by
    have : (cv ((W.notify x).dev x)).inited = (W.dev x).inited := e2
    rw [← this]; exact hi
  have hf1 : (cv (W.dev x)).free = true := by
    unfold CV.free at hf ⊢
    rw [← e4, ← e5]; exact hf
  obtain ⟨hp, ho⟩ := slots_of_free hk1 hf1
  exact notify_since W x hk1 hi1 hp ho

theorem Clk_genPart' (x : Nat) : Clk X w (w.genPart x).1 := Clk_genPart w x

theorem finishCycle_source_eq (x : Nat) (hk : (w.dev x).kind = .source) :
    w.finishCycle x =
      (if (w.dev x).output.isNone then
        ((w.genPart x).1.modDev x (fun d => { d with output := some (w.genPart x).2 })).addHist
          (w.genPart x).2 x
       else w).schedulePass x 0 := by
  unfold World.finishCycle
  simp only [hk]

theorem Clk_finishCycle_source (x : Nat) (hk : (w.dev x).kind = .source) :
    Clk X w (w.finishCycle x) := by
  rw [finishCycle_source_eq w x hk]
  refine Clk.trans ?_ (Clk_schedulePass _ _ _)
  split
  · have h1 : Clk X w (w.genPart x).1 := Clk_genPart w x
    generalize w.genPart x = g at h1 ⊢
    obtain ⟨w1, p⟩ := g
    have hT : isS (w1.dev x).kind = false := by rw [h1.kind, hk]; rfl
    have h2 : Clk X w1 (w1.modDev x (fun d => { d with output := some p })) :=
      Clk_modDev_mask w1 x _ hT (fun _ => ⟨rfl, rfl, rfl, rfl⟩)
    exact (h1.trans h2).trans (Clk_addHist _ _ _)
  · exact Clk.refl _ _

theorem Clk_finishCycle (x : Nat) : Clk X w (w.finishCycle x) := by
  cases hk : (w.dev x).kind
  case source => exact Clk_finishCycle_source w x hk
  case sink =>
    unfold World.finishCycle
    simp only [hk]
    refine Clk.trans (Clk_finishCycleHandler w x) (Clk_release_notify _ x ?_)
    intro h
    rw [(Clk_finishCycleHandler (X := X) w x).kind x, hk] at h
    cases h
  all_goals
    unfold World.finishCycle
    simp only [hk]
    clk_auto
clk_lemma1 Clk_finishCycle

theorem Clk_scheduleFinish (x : Nat) : Clk X w (w.scheduleFinish x) := by
  unfold World.scheduleFinish
  clk_auto
clk_lemma1 Clk_scheduleFinish

end floor2

end C08S
end SimProc
