/-
C03W — the primitive steps of the induction: transfer lemma, `setDev`, environment-only steps,
parts-only steps, exemption / discharge, `schedulePass`, `notify`, pause / cancel / unpause, pop.
-/
import SimProc.Proofs.C03WAcc

namespace SimProc
namespace C03W
open World FloorCoreL C03

/-! ### small helpers -/

theorem partsLeaf_of_kids {w : World} (h : ∀ p, (w.part p).kids = none) : PartsLeaf w := by
  intro r hr
  obtain ⟨i, hi, rfl⟩ := List.getElem_of_mem hr
  have := h i
  unfold World.part at this
  rw [List.getD_eq_getElem?_getD, List.getElem?_eq_getElem hi] at this
  exact this

theorem fuel_of_len {w w' : World} (h : w'.devs.length = w.devs.length) : w'.fuel = w.fuel := by
  unfold World.fuel; rw [h]

theorem att_mono {w w' : World} {d : Nat} (hev : ∀ e ∈ w.env.events, e ∈ w'.env.events)
    (haid : (w'.dev d).aid = (w.dev d).aid)
    (hdue : dueD w.now (w.dev d) ≤ dueD w'.now (w'.dev d)) (h : Att w d) : Att w' d := by
  obtain ⟨e, he, h1, h2, h3, h4⟩ := h
  exact ⟨e, hev e he, h1, by rw [haid]; exact h2, h3, Int.le_trans h4 hdue⟩

theorem evOK_of {w w' : World} (h : EvOK w) (hk : ∀ d, (w'.dev d).kind = (w.dev d).kind)
    (ha : ∀ n ∈ C02V.acts w'.env, n ∈ C02V.acts w.env ∨
      ∀ d, Action.ofNat n = .fail d → (w.dev d).kind = .processor) : EvOK w' := by
  intro n hn d hd
  rw [hk]
  rcases ha n hn with h1 | h1
  · exact h n h1 d hd
  · exact h1 d hd

theorem attrs_of_parts {w w' : World} (h : w'.parts = w.parts) (p : Nat) : attrs w' p = attrs w p := by
  unfold attrs partValue leafCount part; rw [h]

theorem StkOK.frame {w w' : World} (h : StkOK w) (hp : w'.parts = w.parts)
    (hk : ∀ d, (w'.dev d).kind = (w.dev d).kind) : StkOK w' :=
  h.map hk (fun h2 q g hg => by rw [part_congr hp] at hg; exact h2 q g hg)

/-! ### the transfer lemma -/

theorem G.transfer {E N A E' N' A' : List Nat} {w w' : World} (h : G E N A w)
    (hsw : sw w' = sw w) (hpl : NoBatch w → PartsLeaf w')
    (hinv : C01.Inv w'.env) (hnow : w'.now = w.now) (hev : EvOK w') (hvalid : HeldValid w')
    (hkv : KidsValid w') (hstk : StkOK w') (hwr : WR w') (hA : ∀ x ∈ A', (w.dev x).kind = .batcher)
    (hacc : ∀ n y, y ∉ N' → (A'.contains y || accB n (w'.dev y)) = true →
      y ∉ N ∧ (A.contains y || accB n (w.dev y)) = true)
    (hhold : ∀ d p, holdsD (w'.dev d) = some p → d ∉ E' →
      Att w' d ∨ (holdsD (w.dev d) = some p ∧ d ∉ E ∧ attrs w' p = attrs w p ∧
        (Att w d → Att w' d) ∧
        ((w.dev d).waitingDS = true → (w'.dev d).waitingDS = true ∨ Att w' d))) :
    G E' N' A' w' := by
  refine ⟨h.sc.of_sw hsw, fun hb => hpl ((noBatch_of_sw hsw).mp hb), hinv,
    by rw [hnow]; exact h.now0, hev, hvalid, hkv, hstk, hwr,
    fun x hx => by rw [sw_kind hsw]; exact hA x hx, ?_⟩
  intro d p hd hdE
  rcases hhold d p hd hdE with ha | ⟨hd0, hdE0, hat, hatt, hfl⟩
  · exact Or.inl ha
  · rcases h.wake d p hd0 hdE0 with ha | hb
    · exact Or.inl (hatt ha)
    · rcases hfl hb.1 with hf | ha
      · refine Or.inr ⟨hf, fun y hy => ?_⟩
        rw [sw_down hsw] at hy
        cases hh : wouldAcceptN w'.fuel w' N' A' y p with
        | false => rfl
        | true =>
          rw [fuel_of_len (sw_len hsw)] at hh
          have := wouldAcceptN_mono (w := w) (w' := w') (N := N) (N' := N') (A := A) (A' := A')
            (p := p) (TopoEq.of_sw hsw)
            (gatePred_attrs hat) (stack_attrs hat)
            (fun z hz hc => by
              rw [accM_eq, leafCount_attrs hat] at hc
              rw [accM_eq]
              exact hacc _ z hz hc) _ _ hh
          rw [hb.2 y hy] at this; cases this
      · exact Or.inl ha

/-! ### `setDev` -/

theorem sw_setDev (w : World) (x : Nat) (d' : Dev) (hs : stat1 d' = stat1 (w.dev x)) :
    sw (w.setDev x d') = sw w := by
  unfold sw World.setDev
  simp only []
  rw [map_set_of_eq stat1 w.devs x d' default hs]

theorem heldValid_setDev {w : World} (h : HeldValid w) (x : Nat) (d' : Dev)
    (hv : ∀ p ∈ heldL d', p < w.parts.length) : HeldValid (w.setDev x d') := by
  intro d hd p hp
  unfold World.setDev at hd
  simp only [] at hd
  rcases List.mem_or_eq_of_mem_set hd with hd | hd
  · exact h d hd p hp
  · subst hd; exact hv p hp

theorem G.setDev {E N A E' N' : List Nat} {w : World} (h : G E N A w) (x : Nat) (d' : Dev)
    (hs : stat1 d' = stat1 (w.dev x)) (hv : ∀ p ∈ heldL d', p < w.parts.length)
    (hE : ∀ y ∈ E, y ∈ E') (hN : ∀ y ∈ N, y ∈ N')
    (hacc : x ∈ N' ∨ x ∈ A ∨ ∀ n, accB n d' = true → accB n (w.dev x) = true)
    (hhold : x ∈ E' ∨ ∀ p, holdsD d' = some p → holdsD (w.dev x) = some p ∧
      dueD w.now (w.dev x) ≤ dueD w.now d' ∧ ((w.dev x).waitingDS = true → d'.waitingDS = true))
    (hfl : d'.waitingRes = true → (w.dev x).waitingRes = true ∨
      ∃ req, d'.resReq = some req ∧ (req, Cb.proc x) ∈ w.rm.waiting := by intro h; exact Or.inl h) :
    G E' N' A (w.setDev x d') := by
  by_cases hx : x < w.devs.length
  · have hsw := sw_setDev w x d' hs
    refine h.transfer hsw h.pl h.inv rfl ?_ (heldValid_setDev h.valid x d' hv) h.kv
      (h.stk.frame rfl (sw_kind hsw))
      (h.wr.frame hsw (fun _ he => he) (fun _ he => Or.inl he) (fun y hy => by
        rw [dev_setDev] at hy ⊢
        split at hy
        · next hc =>
          rw [if_pos hc, ← hc.1]
          exact hfl hy
        · next hc => rw [if_neg hc]; exact Or.inl hy)) h.aok ?_ ?_
    · exact evOK_of h.ev (fun d => sw_kind hsw d) (fun n hn => Or.inl hn)
    · intro n y hy ha
      rw [dev_setDev] at ha
      split at ha
      · next hc =>
        obtain ⟨rfl, _⟩ := hc
        rcases hacc with hacc | hacc | hacc
        · exact absurd hacc hy
        · refine ⟨fun hc => hy (hN _ hc), ?_⟩
          have : A.contains x = true := by simpa using hacc
          rw [this]; rfl
        · refine ⟨fun hc => hy (hN _ hc), ?_⟩
          rw [Bool.or_eq_true] at ha ⊢
          exact ha.imp id (hacc n)
      · exact ⟨fun hc => hy (hN _ hc), ha⟩
    · intro d p hd hdE
      refine Or.inr ?_
      rw [dev_setDev] at hd
      split at hd
      · next hc =>
        obtain ⟨rfl, _⟩ := hc
        rcases hhold with hhold | hhold
        · exact absurd hhold hdE
        · obtain ⟨h1, h2, h3⟩ := hhold p hd
          refine ⟨h1, fun hc => hdE (hE _ hc), rfl, ?_, ?_⟩
          · exact att_mono (fun e he => he) (sw_aid hsw x)
              (by rw [dev_setDev_same hx]; exact h2)
          · intro hf; left; rw [dev_setDev_same hx]; exact h3 hf
      · next hc =>
        have hne : (w.setDev x d').dev d = w.dev d := by
          rw [dev_setDev]; rw [if_neg hc]
        refine ⟨hd, fun hc => hdE (hE _ hc), rfl, ?_, ?_⟩
        · exact att_mono (fun e he => he) (by rw [hne]) (by rw [hne]; exact Int.le_refl _)
        · intro hf; left; rw [hne]; exact hf
  · rw [dev_setDev_out_of_range (Nat.le_of_not_lt hx)]
    exact h.mono hE hN (fun _ hy => hy)

theorem G.modDev {E N A E' N' : List Nat} {w : World} (h : G E N A w) (x : Nat) (f : Dev → Dev)
    (hs : stat1 (f (w.dev x)) = stat1 (w.dev x)) (hv : ∀ p ∈ heldL (f (w.dev x)), p < w.parts.length)
    (hE : ∀ y ∈ E, y ∈ E') (hN : ∀ y ∈ N, y ∈ N')
    (hacc : x ∈ N' ∨ x ∈ A ∨ ∀ n, accB n (f (w.dev x)) = true → accB n (w.dev x) = true)
    (hhold : x ∈ E' ∨ ∀ p, holdsD (f (w.dev x)) = some p → holdsD (w.dev x) = some p ∧
      dueD w.now (w.dev x) ≤ dueD w.now (f (w.dev x)) ∧
      ((w.dev x).waitingDS = true → (f (w.dev x)).waitingDS = true))
    (hfl : (f (w.dev x)).waitingRes = true → (w.dev x).waitingRes = true ∨
      ∃ req, (f (w.dev x)).resReq = some req ∧ (req, Cb.proc x) ∈ w.rm.waiting := by
        intro h; exact Or.inl h) :
    G E' N' A (w.modDev x f) :=
  h.setDev x _ hs hv hE hN hacc hhold hfl

/-- A device update that touches neither the slots nor anything acceptance depends on. -/
theorem G.setDev_irrel {E N A : List Nat} {w : World} (h : G E N A w) (x : Nat) (d' : Dev)
    (hs : stat1 d' = stat1 (w.dev x)) (hh : heldL d' = heldL (w.dev x))
    (ha : ∀ n, accB n d' = accB n (w.dev x)) (ho : holdsD d' = holdsD (w.dev x))
    (hd : ∀ n, dueD n d' = dueD n (w.dev x)) (hf : d'.waitingDS = (w.dev x).waitingDS)
    (hfl : d'.waitingRes = true → (w.dev x).waitingRes = true ∨
      ∃ req, d'.resReq = some req ∧ (req, Cb.proc x) ∈ w.rm.waiting := by intro h; exact Or.inl h) :
    G E N A (w.setDev x d') :=
  h.setDev x d' hs (fun p hp => h.valid.dev x p (by rw [← hh]; exact hp)) (fun _ h => h)
    (fun _ h => h) (Or.inr (Or.inr (fun n => by rw [ha]; exact id)))
    (Or.inr (fun p hp => ⟨by rw [← ho]; exact hp, by rw [hd]; exact Int.le_refl _,
      by rw [hf]; exact id⟩)) hfl

/-! ### steps that only touch the environment / the logs / other tables -/

theorem G.envWR {E N A : List Nat} {w w' : World} (h : G E N A w) (hd : w'.devs = w.devs)
    (hp : w'.parts = w.parts) (hsw : sw w' = sw w) (hinv : C01.Inv w'.env)
    (hnow : w'.now = w.now) (hevs : ∀ e ∈ w.env.events, e ∈ w'.env.events)
    (ha : ∀ n ∈ C02V.acts w'.env, n ∈ C02V.acts w.env ∨
      ∀ d, Action.ofNat n = .fail d → (w.dev d).kind = .processor)
    (hwr : WR w') :
    G E N A w' := by
  have hdev : ∀ y, w'.dev y = w.dev y := fun y => dev_congr hd y
  refine h.transfer hsw (fun hb => by unfold PartsLeaf; rw [hp]; exact h.pl hb) hinv hnow
    (evOK_of h.ev (fun d => by rw [hdev]) ha)
    (by unfold HeldValid; rw [hd, hp]; exact h.valid)
    (by unfold KidsValid; rw [hp]; exact h.kv)
    (h.stk.frame hp (fun d => by rw [hdev]))
    hwr h.aok
    (fun n y hy hacc => ⟨hy, by rw [← hdev]; exact hacc⟩) ?_
  intro d p hdp hdE
  refine Or.inr ⟨by rw [← hdev]; exact hdp, hdE, attrs_of_parts hp p, ?_, ?_⟩
  · exact att_mono hevs (by rw [hdev]) (by rw [hdev, hnow]; exact Int.le_refl _)
  · intro hf; left; rw [hdev]; exact hf

theorem G.env {E N A : List Nat} {w w' : World} (h : G E N A w) (hd : w'.devs = w.devs)
    (hp : w'.parts = w.parts) (hsw : sw w' = sw w) (hinv : C01.Inv w'.env)
    (hnow : w'.now = w.now) (hevs : ∀ e ∈ w.env.events, e ∈ w'.env.events)
    (ha : ∀ n ∈ C02V.acts w'.env, n ∈ C02V.acts w.env ∨
      ∀ d, Action.ofNat n = .fail d → (w.dev d).kind = .processor)
    (hold : ∀ e ∈ w.rm.waiting, e ∈ w'.rm.waiting := by exact fun _ he => he)
    (hnew : ∀ e ∈ w'.rm.waiting, e ∈ w.rm.waiting ∨ ∃ x, e.2 = Cb.proc x := by
      exact fun _ he => Or.inl he) :
    G E N A w' :=
  h.envWR hd hp hsw hinv hnow hevs ha
    (h.wr.frame hsw hold hnew (fun y hy => by rw [dev_congr hd] at hy; exact Or.inl hy))

theorem sw_of_fields {w w' : World} (hd : w'.devs = w.devs) (hs : w'.scripts = w.scripts)
    (ht : w'.targets.map (fun t => ({ dev := t.dev } : Target)) =
      w.targets.map (fun t => ({ dev := t.dev } : Target)))
    (hg : w'.groups = w.groups := by rfl) : sw w' = sw w := by
  unfold sw; rw [hd, hs, ht, hg]

theorem G.of_eq {E N A : List Nat} {w w' : World} (h : G E N A w) (hd : w'.devs = w.devs)
    (hp : w'.parts = w.parts) (he : w'.env = w.env) (hs : w'.scripts = w.scripts)
    (ht : w'.targets.map (fun t => ({ dev := t.dev } : Target)) =
      w.targets.map (fun t => ({ dev := t.dev } : Target)))
    (hold : ∀ e ∈ w.rm.waiting, e ∈ w'.rm.waiting := by exact fun _ he => he)
    (hnew : ∀ e ∈ w'.rm.waiting, e ∈ w.rm.waiting ∨ ∃ x, e.2 = Cb.proc x := by
      exact fun _ he => Or.inl he)
    (hg : w'.groups = w.groups := by rfl) : G E N A w' :=
  h.env hd hp (sw_of_fields hd hs ht hg) (by rw [he]; exact h.inv) (by unfold World.now; rw [he])
    (by rw [he]; exact fun _ h => h) (by rw [he]; exact fun _ h => Or.inl h) hold hnew

/-- only the resource manager changes -/
theorem G.withRmWR {E N A : List Nat} {w : World} (h : G E N A w) (rm : RM)
    (hwr : WR { w with rm := rm }) : G E N A { w with rm := rm } :=
  h.envWR rfl rfl rfl h.inv rfl (fun _ he => he) (fun _ hn => Or.inl hn) hwr

theorem setErr_groups (w : World) (m : String) : (w.setErr m).groups = w.groups := by
  unfold World.setErr; split <;> rfl

theorem G.setErr {E N A : List Nat} {w : World} (h : G E N A w) (m : String) : G E N A (w.setErr m) :=
  h.of_eq (setErr_devs w m) (setErr_parts w m) (C03.setErr_env w m) (setErr_scripts w m)
    (by rw [setErr_targets]) (by rw [setErr_rm]; exact fun _ he => he)
    (by rw [setErr_rm]; exact fun _ he => Or.inl he) (setErr_groups w m)

theorem G.addRec {E N A : List Nat} {w : World} (h : G E N A w) (r : Rec) : G E N A (w.addRec r) :=
  h.of_eq rfl rfl rfl rfl rfl

theorem G.addRes {E N A : List Nat} {w : World} (h : G E N A w) (r : Res) : G E N A (w.addRes r) :=
  h.of_eq rfl rfl rfl rfl rfl

theorem G.foldl {α} {E N A : List Nat} (g : World → α → World)
    (hg : ∀ w a, G E N A w → G E N A (g w a)) (l : List α) {w : World} (h : G E N A w) :
    G E N A (l.foldl g w) := by
  induction l generalizing w with
  | nil => exact h
  | cons a l ih => exact ih (hg w a h)

theorem G.schedLib {E N A : List Nat} {w : World} (h : G E N A w) (t asset : Int) (a : Action)
    (prio : Int) (ha : ∀ d, a = .fail d → (w.dev d).kind = .processor) :
    G E N A (w.schedLib t asset a prio) := by
  by_cases hle : w.now ≤ t
  · rw [schedLib_of_le w t asset a prio hle]
    have hs : w.env.schedule t asset a.toNat prio (weightOf w.seed w.wmod t asset a.toNat prio)
        = some (envWith w t asset a prio) := by
      rw [Env.schedule_some]; exact ⟨hle, rfl⟩
    refine h.env rfl rfl rfl (C01.inv_schedule h.inv hs) rfl
      (fun e he => (insort_sublist _ _).subset he) ?_
    intro n hn
    rw [C02V.acts_schedule hs] at hn
    rcases hn with rfl | hn
    · right
      intro d hd
      exact ha d (C02V.ofNat_toNat_fail a d hd)
    · exact Or.inl hn
  · rw [schedLib_of_lt w t asset a prio (Int.not_le.mp hle)]
    exact h.setErr _

end C03W
end SimProc
