/-
Which actions are waiting in the event queue (for the static closed-world theorem of C02): the
library never schedules the failure of a device by itself.
-/
import SimProc.Proofs.Views
import SimProc.Proofs.EnvLemmas
namespace SimProc
namespace C02V
open World

/-- the actions of the pending and paused events -/
def acts (s : Env) : List Nat := (s.events ++ s.paused).map (·.act)

/-- some pending or paused event has a bad action -/
def HasBad (bad : Nat → Prop) (w : World) : Prop := ∃ n ∈ acts w.env, bad n

theorem mem_acts (s : Env) (n : Nat) : n ∈ acts s ↔ ∃ e, (e ∈ s.events ∨ e ∈ s.paused) ∧ e.act = n := by
  simp only [acts, List.mem_map, List.mem_append]

theorem acts_schedule {s s' : Env} {t a : Int} {act : Nat} {p : Int} {w : Nat}
    (h : s.schedule t a act p w = some s') (n : Nat) : n ∈ acts s' ↔ n = act ∨ n ∈ acts s := by
  unfold Env.schedule at h
  split at h
  · cases h
  · cases h
    simp only [mem_acts, insort_mem]
    constructor
    · rintro ⟨e, (rfl | he) | he, rfl⟩
      · left; rfl
      · right; exact ⟨e, Or.inl he, rfl⟩
      · right; exact ⟨e, Or.inr he, rfl⟩
    · rintro (rfl | ⟨e, he | he, rfl⟩)
      · exact ⟨_, Or.inl (Or.inl rfl), rfl⟩
      · exact ⟨e, Or.inl (Or.inr he), rfl⟩
      · exact ⟨e, Or.inr he, rfl⟩

theorem acts_pause (s : Env) (a : Int) (n : Nat) : n ∈ acts (s.pause a) ↔ n ∈ acts s := by
  simp only [mem_acts, Env.pause, List.mem_filter, List.mem_append, List.mem_map]
  constructor
  · rintro ⟨e, (⟨he, _⟩ | he | ⟨e', ⟨he', _⟩, rfl⟩), rfl⟩
    · exact ⟨e, Or.inl he, rfl⟩
    · exact ⟨e, Or.inr he, rfl⟩
    · exact ⟨e', Or.inl he', rfl⟩
  · rintro ⟨e, he | he, rfl⟩
    · by_cases ha : e.asset == a
      · exact ⟨_, Or.inr (Or.inr ⟨e, ⟨he, ha⟩, rfl⟩), rfl⟩
      · exact ⟨e, Or.inl ⟨he, by simpa using ha⟩, rfl⟩
    · exact ⟨e, Or.inr (Or.inl he), rfl⟩

theorem acts_unpause (ar : Arith) (s : Env) (a : Int) (n : Nat) : n ∈ acts (s.unpause ar a) ↔ n ∈ acts s := by
  have key : ∀ (q l : List Event) (f : Event → Event) (y : Event),
      y ∈ l.foldl (fun q e => insort (f e) q) q ↔ (∃ e ∈ l, y = f e) ∨ y ∈ q := by
    intro q l f y
    induction l generalizing q with
    | nil => simp
    | cons e l ih =>
      simp only [List.foldl_cons, ih, insort_mem, List.mem_cons, exists_eq_or_imp]
      constructor
      · rintro (h | h | h)
        · exact Or.inl (Or.inr h)
        · exact Or.inl (Or.inl h)
        · exact Or.inr h
      · rintro ((h | h) | h)
        · exact Or.inr (Or.inl h)
        · exact Or.inl h
        · exact Or.inr (Or.inr h)
  simp only [mem_acts, Env.unpause, key, List.mem_filter]
  constructor
  · rintro ⟨e, ((⟨e', ⟨he', _⟩, rfl⟩ | he) | ⟨he, _⟩), rfl⟩
    · exact ⟨e', Or.inr he', rfl⟩
    · exact ⟨e, Or.inl he, rfl⟩
    · exact ⟨e, Or.inr he, rfl⟩
  · rintro ⟨e, he | he, rfl⟩
    · exact ⟨e, Or.inl (Or.inr he), rfl⟩
    · by_cases ha : e.asset == a
      · exact ⟨_, Or.inl (Or.inl ⟨e, ⟨he, ha⟩, rfl⟩), rfl⟩
      · exact ⟨e, Or.inr ⟨he, by simpa using ha⟩, rfl⟩

theorem cancelIf_act (a : Int) (e : Event) : (Event.cancelIf a e).act = e.act := by
  unfold Event.cancelIf; split <;> rfl

theorem acts_cancel (s : Env) (a : Int) : acts (s.cancel a) = acts s := by
  simp only [acts, Env.cancel, ← List.map_append, List.map_map, Function.comp_def, cancelIf_act]

/-! ### on worlds -/

section
variable (bad : Nat → Prop) (w : World)

theorem hb_sched (t a : Int) (act : Action) (p : Int) (h : ¬ bad act.toNat) :
    HasBad bad (w.sched t a act p).1 = HasBad bad w := by
  unfold World.sched
  simp only []
  split
  · rename_i e he
    simp only [Env.apply] at he
    split at he
    · cases he
    · rename_i s' hs
      cases he
      apply propext
      unfold HasBad
      simp only [acts_schedule hs]
      constructor
      · rintro ⟨n, rfl | hn, hb⟩
        · exact absurd hb h
        · exact ⟨n, hn, hb⟩
      · rintro ⟨n, hn, hb⟩; exact ⟨n, Or.inr hn, hb⟩
  · rfl

theorem hb_setErr (m : String) : HasBad bad (w.setErr m) = HasBad bad w := by
  unfold World.setErr; split <;> rfl

theorem hb_schedLib (t a : Int) (act : Action) (p : Int) (h : ¬ bad act.toNat) :
    HasBad bad (w.schedLib t a act p) = HasBad bad w := by
  have := hb_sched bad w t a act p h
  unfold World.schedLib
  split
  · simp_all
  · rw [hb_setErr]; simp_all

theorem hb_pause (a : Int) : HasBad bad (w.envOp (.pause a)) = HasBad bad w := by
  apply propext; unfold HasBad World.envOp; simp only [Env.apply, acts_pause]
theorem hb_unpause (a : Int) : HasBad bad (w.envOp (.unpause a)) = HasBad bad w := by
  apply propext; unfold HasBad World.envOp; simp only [Env.apply, acts_unpause]
theorem hb_cancel (a : Int) : HasBad bad (w.envOp (.cancel a)) = HasBad bad w := by
  unfold HasBad World.envOp; simp only [Env.apply, acts_cancel]

theorem hb_addRec (r : Rec) : HasBad bad (w.addRec r) = HasBad bad w := rfl
theorem hb_addRes (r : Res) : HasBad bad (w.addRes r) = HasBad bad w := rfl
theorem hb_setDev (x : Nat) (d : Dev) : HasBad bad (w.setDev x d) = HasBad bad w := rfl
theorem hb_modDev (x : Nat) (f : Dev → Dev) : HasBad bad (w.modDev x f) = HasBad bad w := rfl
theorem hb_modPart (p : Nat) (f : PartRec → PartRec) : HasBad bad (w.modPart p f) = HasBad bad w := rfl

end
end C02V
end SimProc
