/-
C03W with re-wiring — the static side.

* the envelope `envl w` (every connection that exists or that a script may add): what its devices
  look like, `EnvOK (sw w) ↔ EnvOK w`;
* sub-topologies (`TopoSub`): fewer connections ⇒ the controller conditions (`costLe`, `cReach`)
  still hold;
* `SC.intro` (the scope from its unwrapped clauses) and `SC.rewired`: a world that differs from a
  world of the scope by its wiring only, whose connections all lie in the envelope, is in the scope.
-/
import SimProc.Proofs.C03WPrim2

namespace SimProc
namespace C03W
open World FloorCoreL C03

/-! ### the envelope -/

theorem mem_rewEdges {s : List (List Op)} {u x : Nat} :
    (u, x) ∈ rewEdges s ↔ ∃ l ∈ s, ∃ ups, Op.rewire x ups ∈ l ∧ u ∈ ups := by
  unfold rewEdges
  simp only [List.mem_flatMap]
  constructor
  · rintro ⟨l, hl, op, hop, h⟩
    cases op <;> simp only [List.not_mem_nil] at h
    case rewire x' ups =>
      simp only [List.mem_map, Prod.mk.injEq] at h
      obtain ⟨u', hu', rfl, rfl⟩ := h
      exact ⟨l, hl, ups, hop, hu'⟩
  · rintro ⟨l, hl, ups, hop, hu⟩
    exact ⟨l, hl, _, hop, List.mem_map.mpr ⟨u, hu, rfl⟩⟩

theorem mem_extraDown {s : List (List Op)} {z x : Nat} :
    x ∈ extraDown s z ↔ (z, x) ∈ rewEdges s := by
  unfold extraDown
  simp only [List.mem_map, List.mem_filter, beq_iff_eq]
  constructor
  · rintro ⟨⟨a, b⟩, ⟨h1, h2⟩, h3⟩
    simp only at h2 h3
    subst h2; subst h3; exact h1
  · intro h; exact ⟨(z, x), ⟨h, rfl⟩, rfl⟩

theorem addDown_length (s : List (List Op)) : ∀ (l : List Dev) (i : Nat),
    (addDown s i l).length = l.length := by
  intro l
  induction l with
  | nil => intro i; rfl
  | cons d ds ih => intro i; simp [addDown, ih]

theorem addDown_getElem? (s : List (List Op)) : ∀ (l : List Dev) (i j : Nat),
    (addDown s i l)[j]? = l[j]?.map (fun d => { d with down := d.down ++ extraDown s (i + j) }) := by
  intro l
  induction l with
  | nil => intro i j; rfl
  | cons d ds ih =>
    intro i j
    cases j with
    | zero => simp [addDown]
    | succ j =>
      simp only [addDown, List.getElem?_cons_succ, ih]
      have : i + 1 + j = i + (j + 1) := by omega
      rw [this]

@[simp] theorem envl_devs_length (w : World) : (envl w).devs.length = w.devs.length := by
  simp [envl, addDown_length]

theorem envl_dev_lt {w : World} {z : Nat} (hz : z < w.devs.length) :
    (envl w).dev z = { w.dev z with down := (w.dev z).down ++ extraDown w.scripts z } := by
  unfold World.dev envl
  simp only [List.getD_eq_getElem?_getD, addDown_getElem?, List.getElem?_eq_getElem hz,
    Option.map_some, Option.getD_some, Nat.zero_add]

theorem envl_dev_ge {w : World} {z : Nat} (hz : w.devs.length ≤ z) : (envl w).dev z = default :=
  dev_of_length_le (by simpa using hz)

theorem envl_kind (w : World) (z : Nat) : ((envl w).dev z).kind = (w.dev z).kind := by
  by_cases hz : z < w.devs.length
  · rw [envl_dev_lt hz]
  · rw [envl_dev_ge (Nat.le_of_not_lt hz), dev_of_length_le (Nat.le_of_not_lt hz)]

theorem envl_group (w : World) (z : Nat) : ((envl w).dev z).group = (w.dev z).group := by
  by_cases hz : z < w.devs.length
  · rw [envl_dev_lt hz]
  · rw [envl_dev_ge (Nat.le_of_not_lt hz), dev_of_length_le (Nat.le_of_not_lt hz)]

theorem envl_pred (w : World) (z : Nat) : ((envl w).dev z).pred = (w.dev z).pred := by
  by_cases hz : z < w.devs.length
  · rw [envl_dev_lt hz]
  · rw [envl_dev_ge (Nat.le_of_not_lt hz), dev_of_length_le (Nat.le_of_not_lt hz)]

theorem envl_groups (w : World) : (envl w).groups = w.groups := rfl

theorem envl_down_lt {w : World} {z : Nat} (hz : z < w.devs.length) :
    ((envl w).dev z).down = (w.dev z).down ++ extraDown w.scripts z := by
  rw [envl_dev_lt hz]

theorem mem_envl_down_of_down {w : World} {z y : Nat} (h : y ∈ (w.dev z).down) :
    y ∈ ((envl w).dev z).down := by
  by_cases hz : z < w.devs.length
  · rw [envl_down_lt hz]; exact List.mem_append_left _ h
  · rw [dev_of_length_le (Nat.le_of_not_lt hz)] at h; cases h

theorem addDown_map_stat1 (s : List (List Op)) : ∀ (l : List Dev) (i : Nat),
    addDown s i (l.map stat1) = (addDown s i l).map stat1 := by
  intro l
  induction l with
  | nil => intro i; rfl
  | cons d ds ih => intro i; simp only [List.map_cons, addDown, ih]; rfl

theorem envl_sw (w : World) : envl (sw w) = sw (envl w) := by
  unfold envl sw
  simp only [addDown_map_stat1]

theorem envOK_sw (w : World) : EnvOK (sw w) ↔ EnvOK w := by
  unfold EnvOK
  simp only [envl_sw, sw_devs_length, costLe_sw, cReach_sw, sw_dev]
  rfl

/-! ### sub-topologies -/

/-- `w'` has the devices and groups of `w` and a subset of its connections -/
structure TopoSub (w w' : World) : Prop where
  kind : ∀ z, (w'.dev z).kind = (w.dev z).kind
  group : ∀ z, (w'.dev z).group = (w.dev z).group
  groups : w'.groups = w.groups
  down : ∀ z, ∀ y ∈ (w'.dev z).down, y ∈ (w.dev z).down

theorem TopoSub.refl (w : World) : TopoSub w w := ⟨fun _ => rfl, fun _ => rfl, rfl, fun _ _ h => h⟩

theorem TopoSub.trans {a b c : World} (h1 : TopoSub a b) (h2 : TopoSub b c) : TopoSub a c :=
  ⟨fun z => (h2.kind z).trans (h1.kind z), fun z => (h2.group z).trans (h1.group z),
    h2.groups.trans h1.groups, fun z y hy => h1.down z y (h2.down z y hy)⟩

theorem TopoSub.csucc {w w' : World} (h : TopoSub w w') (z : Nat) :
    ∀ y ∈ csucc w' z, y ∈ csucc w z := by
  intro y hy
  unfold C03W.csucc groupIn groupPaths at hy ⊢
  rw [h.kind, h.group, h.groups] at hy
  cases hk : (w.dev z).kind <;> simp only [hk] at hy ⊢
  case gate => exact h.down z y hy
  case ginput => exact h.down z y hy
  case gpath => exact hy
  case goutput =>
    obtain ⟨g, hg, hyg⟩ := List.mem_flatMap.mp hy
    exact List.mem_flatMap.mpr ⟨g, hg, h.down g y hyg⟩
  all_goals cases hy

theorem TopoSub.costLe {w w' : World} (h : TopoSub w w') : ∀ f b x,
    costLe f w b x = true → costLe f w' b x = true := by
  intro f
  induction f with
  | zero => intro b x hc; simp only [C03W.costLe, h.kind] at hc ⊢; exact hc
  | succ f ih =>
    intro b x hc
    simp only [C03W.costLe, h.kind, Bool.or_eq_true, Bool.and_eq_true, decide_eq_true_eq,
      List.all_eq_true] at hc ⊢
    rcases hc with hc | ⟨h1, h2⟩
    · exact Or.inl hc
    · exact Or.inr ⟨h1, fun z hz => ih _ z (h2 z (h.csucc x z hz))⟩

theorem TopoSub.cReach {w w' : World} (h : TopoSub w w') : ∀ f y x,
    cReach f w' y x = true → cReach f w y x = true := by
  intro f
  induction f with
  | zero => intro y x hc; exact hc
  | succ f ih =>
    intro y x hc
    simp only [C03W.cReach, h.kind, Bool.or_eq_true, Bool.and_eq_true, List.any_eq_true] at hc ⊢
    rcases hc with hc | ⟨h1, z, hz, h2⟩
    · exact Or.inl hc
    · exact Or.inr ⟨h1, z, h.csucc y z hz, ih z x h2⟩

theorem TopoSub.cReach_false {w w' : World} (h : TopoSub w w') {f y x : Nat}
    (hc : C03W.cReach f w y x = false) : C03W.cReach f w' y x = false := by
  cases hh : C03W.cReach f w' y x with
  | false => rfl
  | true => rw [h.cReach f y x hh] at hc; cases hc

/-- the envelope contains the world -/
theorem topoSub_envl (w : World) : TopoSub (envl w) w :=
  ⟨fun z => (envl_kind w z).symm, fun z => (envl_group w z).symm, rfl,
    fun _ _ h => mem_envl_down_of_down h⟩

/-- fewer connections, same scripts ⇒ smaller envelope -/
theorem topoSub_envl_envl {v w' : World} (hlen : w'.devs.length = v.devs.length)
    (hscr : w'.scripts = v.scripts) (hk : ∀ z, (w'.dev z).kind = (v.dev z).kind)
    (hg : ∀ z, (w'.dev z).group = (v.dev z).group) (hgr : w'.groups = v.groups)
    (hd : ∀ z, ∀ y ∈ (w'.dev z).down, y ∈ ((envl v).dev z).down) : TopoSub (envl v) (envl w') := by
  refine ⟨fun z => by rw [envl_kind, envl_kind, hk], fun z => by rw [envl_group, envl_group, hg],
    hgr, fun z y hy => ?_⟩
  by_cases hz : z < w'.devs.length
  · rw [envl_down_lt hz, hscr] at hy
    rcases List.mem_append.mp hy with hy | hy
    · exact hd z y hy
    · rw [envl_down_lt (by rw [← hlen]; exact hz)]; exact List.mem_append_right _ hy
  · rw [envl_dev_ge (Nat.le_of_not_lt hz)] at hy; cases hy

/-! ### the scope from its unwrapped clauses -/

theorem opSC_to_sw (w : World) (op : Op) (h : OpSC w op) : OpSC (sw w) op := by
  have key : ∀ a : Int, (∀ d ∈ w.devs, d.aid ≠ a) → ∀ d ∈ (sw w).devs, d.aid ≠ a := by
    intro a ha d hd hda
    simp only [sw, List.mem_map] at hd
    obtain ⟨d0, hd0, rfl⟩ := hd
    exact ha d0 hd0 hda
  cases op <;> simp only [OpSC] at h ⊢ <;>
    first | exact h | exact key _ h | (rw [hasRes_sw]; exact h) | exact (rewOK_sw w _ _).mpr h

theorem groupOK_sw (w : World) (x : Nat) : GroupOK (sw w) x ↔ GroupOK w x := by
  unfold GroupOK groupIn groupOut groupPaths
  simp only [sw_dev, sw_devs_length]
  rfl

theorem SC.intro {w : World}
    (hdev : ∀ x, x < w.devs.length → DevOKc (w.dev x))
    (hwir : ∀ x, x < w.devs.length → ∀ y ∈ (w.dev x).down, y < w.devs.length ∧ x ∈ (w.dev y).up)
    (haid : (w.devs.map (·.aid)).Nodup)
    (hgate : ∀ x, x < w.devs.length → costLe w.devs.length w (2 * w.devs.length + 1) x = true ∧
      (∀ y ∈ (w.dev x).down, cReach w.devs.length w y x = false) ∧ GroupOK w x)
    (htg : ∀ t ∈ w.targets, ∀ d, t.dev = some d → (w.dev d).kind = .processor)
    (hscr : ∀ l ∈ w.scripts, ∀ op ∈ l, OpSC w op)
    (henv : EnvOK w) : SC w := by
  unfold SC
  refine ⟨fun d hd => ?_, fun x hx y hy => ?_, ?_, fun x hx => ?_, fun t ht d hd => ?_,
    fun l hl op hop => opSC_to_sw w op (hscr l hl op hop), (envOK_sw w).mpr henv⟩
  · simp only [sw, List.mem_map] at hd
    obtain ⟨d0, hd0, rfl⟩ := hd
    obtain ⟨i, hi, rfl⟩ := List.getElem_of_mem hd0
    have := hdev i hi
    rw [dev_getElem hi] at this
    exact this
  · have hx' : x < w.devs.length := by simpa using hx
    rw [sw_dev] at hy
    have := hwir x hx' y hy
    simp only [sw_dev, sw_devs_length]
    exact this
  · simpa [sw, List.map_map, Function.comp_def, stat1] using haid
  · have hx' : x < w.devs.length := by simpa using hx
    obtain ⟨h1, h2, h3⟩ := hgate x hx'
    refine ⟨by rw [costLe_sw, sw_devs_length]; exact h1, fun y hy => ?_, (groupOK_sw w x).mpr h3⟩
    rw [sw_dev] at hy
    rw [cReach_sw, sw_devs_length]; exact h2 y hy
  · simp only [sw, List.mem_map] at ht
    obtain ⟨t0, ht0, rfl⟩ := ht
    rw [sw_dev]
    exact htg t0 ht0 d (by simpa using hd)

theorem SC.envOK {w : World} (h : SC w) : EnvOK w := (envOK_sw w).mp h.s.envl

theorem SC.aids {w : World} (h : SC w) : (w.devs.map (·.aid)).Nodup := by
  have := h.s.aids
  simpa [sw, List.map_map, Function.comp_def, stat1] using this

/-! ### a re-wired world is in the scope -/

/-- a device without its wiring and its dynamic state -/
def stat0 (d : Dev) : Dev := { stat1 d with up := [], down := [] }

theorem devs_map_congr {α} {v w' : World} (f : Dev → α) (hlen : w'.devs.length = v.devs.length)
    (h : ∀ z, f (w'.dev z) = f (v.dev z)) : w'.devs.map f = v.devs.map f := by
  apply List.ext_getElem
  · simp [hlen]
  · intro i h1 h2
    simp only [List.getElem_map]
    have h1' : i < w'.devs.length := by simpa using h1
    have h2' : i < v.devs.length := by simpa using h2
    have := h i
    rw [dev_getElem h1', dev_getElem h2'] at this
    exact this

section stat0
variable {d d' : Dev} (h : stat0 d' = stat0 d)
include h
theorem stat0_kind : d'.kind = d.kind := by have := congrArg Dev.kind h; exact this
theorem stat0_aid : d'.aid = d.aid := by have := congrArg Dev.aid h; exact this
theorem stat0_resReq : d'.resReq = d.resReq := by have := congrArg Dev.resReq h; exact this
theorem stat0_recvCbs : d'.recvCbs = d.recvCbs := by have := congrArg Dev.recvCbs h; exact this
theorem stat0_finCbs : d'.finCbs = d.finCbs := by have := congrArg Dev.finCbs h; exact this
theorem stat0_delay : d'.delay = d.delay := by have := congrArg Dev.delay h; exact this
theorem stat0_group : d'.group = d.group := by have := congrArg Dev.group h; exact this
theorem stat0_pred : d'.pred = d.pred := by have := congrArg Dev.pred h; exact this
theorem stat0_genBatch : d'.genBatch = d.genBatch := by have := congrArg Dev.genBatch h; exact this
theorem stat0_bsize : d'.bsize = d.bsize := by have := congrArg Dev.bsize h; exact this
end stat0

theorem hasRes_of_stat0 {v w' : World} (hlen : w'.devs.length = v.devs.length)
    (hst : ∀ z, stat0 (w'.dev z) = stat0 (v.dev z)) : hasRes w' = hasRes v := by
  have : w'.devs.map (·.resReq) = v.devs.map (·.resReq) :=
    devs_map_congr _ hlen (fun z => stat0_resReq (hst z))
  have key : ∀ u : World, hasRes u = (u.devs.map (·.resReq)).any (·.isSome) := by
    intro u; unfold hasRes; rw [List.any_map]; rfl
  rw [key, key, this]

theorem mem_devs_iff_dev {w : World} {d : Dev} : d ∈ w.devs ↔ ∃ z, z < w.devs.length ∧ w.dev z = d := by
  constructor
  · intro hd
    obtain ⟨i, hi, rfl⟩ := List.getElem_of_mem hd
    exact ⟨i, hi, dev_getElem hi⟩
  · rintro ⟨z, hz, rfl⟩; exact dev_mem hz

/-- **A world that differs from a world `v` of the scope by its wiring only is in the scope**,
provided: sources and group inputs have no upstream neighbour; every downstream connection has its
upstream counterpart and is in range; every connection lies in the envelope of `v`; a device that
some script re-wires is nobody's downstream neighbour twice. -/
theorem SC.rewired {v w' : World} (hs : SC v)
    (hlen : w'.devs.length = v.devs.length) (hscr : w'.scripts = v.scripts)
    (htg : w'.targets.map (·.dev) = v.targets.map (·.dev)) (hgr : w'.groups = v.groups)
    (hst : ∀ z, stat0 (w'.dev z) = stat0 (v.dev z))
    (hup : ∀ z, ((w'.dev z).kind = .source ∨ (w'.dev z).kind = .ginput) → (w'.dev z).up = [])
    (hsym : ∀ z, ∀ y ∈ (w'.dev z).down, y < w'.devs.length ∧ z ∈ (w'.dev y).up)
    (henv : ∀ z, ∀ y ∈ (w'.dev z).down, y ∈ ((envl v).dev z).down)
    (hcnt : ∀ l ∈ v.scripts, ∀ x ups, Op.rewire x ups ∈ l → ∀ z, (w'.dev z).down.count x ≤ 1) :
    SC w' := by
  have hk : ∀ z, (w'.dev z).kind = (v.dev z).kind := fun z => stat0_kind (hst z)
  have hg : ∀ z, (w'.dev z).group = (v.dev z).group := fun z => stat0_group (hst z)
  have hsub : TopoSub (envl v) w' := ⟨fun z => by rw [envl_kind, hk], fun z => by rw [envl_group, hg],
    hgr, henv⟩
  have hsub2 : TopoSub (envl v) (envl w') := topoSub_envl_envl hlen hscr hk hg hgr henv
  have henvv := hs.envOK
  have haids : w'.devs.map (·.aid) = v.devs.map (·.aid) :=
    devs_map_congr _ hlen (fun z => stat0_aid (hst z))
  refine SC.intro (fun x hx => ?_) (fun x _ y hy => hsym x y hy) (by rw [haids]; exact hs.aids)
    (fun x hx => ?_) (fun t ht d hd => ?_) (fun l hl op hop => ?_) ?_
  · -- devices
    obtain ⟨h1, h2, h3, h4, h5, _⟩ := hs.devOK x
    have e := hst x
    refine ⟨by rw [stat0_kind e]; exact h1, ?_, by rw [stat0_recvCbs e]; exact h3,
      by rw [stat0_finCbs e]; exact h4, by rw [stat0_kind e, stat0_delay e]; exact h5,
      fun hsrc => hup x (Or.inl hsrc)⟩
    unfold C03W.reqNN; rw [stat0_resReq e]; exact h2
  · -- controllers
    rw [hlen] at hx ⊢
    obtain ⟨h1, h2⟩ := henvv x (List.mem_range.mpr hx)
    refine ⟨hsub.costLe _ _ x h1, fun y hy => hsub.cReach_false (h2 y (henv x y hy)), ?_⟩
    have hgo := hs.groupOK hx
    unfold GroupOK groupIn groupOut groupPaths at hgo ⊢
    simp only [hk, hg, hgr, hlen]
    refine ⟨hgo.1, fun hgi => hup x (Or.inr (by rw [hk]; exact hgi))⟩
  · -- maintenance targets
    have hmem : t.dev ∈ w'.targets.map (·.dev) := List.mem_map.mpr ⟨t, ht, rfl⟩
    rw [htg] at hmem
    obtain ⟨t0, ht0, he⟩ := List.mem_map.mp hmem
    rw [hk]
    exact hs.target ht0 (by rw [he]; exact hd)
  · -- scripts
    rw [hscr] at hl
    have hop0 : OpSC v op := opSC_of_sw v op (hs.s.scripts l hl op hop)
    have key : ∀ a : Int, (∀ d ∈ v.devs, d.aid ≠ a) → ∀ d ∈ w'.devs, d.aid ≠ a := by
      intro a ha d hd hda
      have h1 : d.aid ∈ w'.devs.map (·.aid) := List.mem_map.mpr ⟨d, hd, rfl⟩
      rw [haids] at h1
      obtain ⟨d0, hd0, he⟩ := List.mem_map.mp h1
      exact ha d0 hd0 (he.trans hda)
    cases op <;> simp only [OpSC] at hop0 ⊢ <;>
      first | exact hop0 | exact key _ hop0 | (rw [hasRes_of_stat0 hlen hst]; exact hop0) | skip
    case rewire x ups =>
      obtain ⟨h1, h2, _⟩ := hop0
      refine ⟨by rw [hlen]; exact h1, by rw [hk]; exact h2, fun d hd => ?_⟩
      obtain ⟨z, _, rfl⟩ := mem_devs_iff_dev.mp hd
      exact hcnt l hl x ups hop z
  · -- the envelope
    intro x hx
    rw [hlen] at hx ⊢
    obtain ⟨h1, h2⟩ := henvv x hx
    exact ⟨hsub2.costLe _ _ x h1, fun y hy => hsub2.cReach_false (h2 y (hsub2.down x y hy))⟩

end C03W
end SimProc
