/-
C04 (general serial line) — layer 2: the run invariant (definitions, footprints, frame lemmas).
-/
import SimProc.Proofs.C04WRef

set_option linter.unusedSimpArgs false
set_option linter.unusedVariables false

namespace SimProc
namespace C04W
open World C04
open SS (Key key cls)

/-! ### modes, keys -/

/-- What a station is doing: nothing (`idle`), processing a part (`proc`, a FINISH event pending),
about to attempt a hand-over at time `t` (`ready t`, a PASS event pending), blocked by the
downstream station (`blocked`), or — the source — out of budget (`exhausted`). -/
inductive Mode where
  | idle | proc | ready (t : Int) | blocked | exhausted
deriving DecidableEq

def termKey (T : Int) : Key := (T, 4, -1, 0, false)

/-- The pending events of station `j`, given the number `xj` of parts that have left it. -/
def keysOf (L : Line) (j xj : Nat) : Mode → List Key
  | .proc => [(eI L j (xj + 1) + (stn L j).c, 32, (j : Int) + 1, 2 + 16 * j, false)]
  | .ready t => [(t, 28, (j : Int) + 1, 3 + 16 * j, false)]
  | _ => []

@[simp] theorem key_mkEv (P : Par) (uid : Nat) (t a : Int) (act : Action) (prio : Int) :
    key (mkEv P uid t a act prio) = (t, prio, a, act.toNat, false) := rfl

/-! ### the dynamic part of a device -/

structure Dyn where
  part : Option Nat
  output : Option Nat
  wds : Bool
  buf : List (Int × Nat)
  level : Nat
  produced : Int
  recvCount : Int

def dyn (d : Dev) : Dyn := ⟨d.part, d.output, d.waitingDS, d.buf, d.level, d.produced, d.recvCount⟩

/-- Slot contents of station `j` in terms of the counts (`xp` parts entered, `xj` left). -/
def Slots (L : Line) (j : Nat) (d : Dyn) (xp xj : Nat) (m : Mode) : Prop :=
  match kindOf L j with
  | .source => d.part = none ∧ (d.output.isSome = true ↔ m ≠ .proc) ∧ d.produced = (xj : Int)
  | .handler | .processor =>
      (d.part.isSome = true ↔ m = .proc) ∧ (d.output.isSome = true ↔ (m ≠ .proc ∧ m ≠ .idle))
  | .buffer => d.part = none ∧ d.output = none ∧ d.level = xp - xj ∧
      d.buf.map (·.1) = (List.range (xp - xj)).map (fun i => eI L j (xj + 1 + i))
  | .sink => (d.part.isSome = true ↔ m = .proc) ∧ d.output = none ∧ d.recvCount = (xp : Int)
  | _ => False

/-- The invariant of one station: `xp` parts have entered it, `xj` have left it, `xn` have left the
next station; all past departures happened at the reference's times; the mode's conditions. -/
structure PD (L : Line) (now : Int) (j : Nat) (d : Dyn) (xp xj xn : Nat) (m : Mode) : Prop where
  past : dI L j xj ≤ now
  le : 1 ≤ j → xj ≤ xp
  cap : 1 ≤ j → ∀ K, (stn L j).effCap = some K → xp ≤ xj + K
  idle : m = .idle → 1 ≤ j ∧ xp = xj
  nonidle : 1 ≤ j → m ≠ .idle → xj < xp
  procm : m = .proc → isBuf L j = false ∧ 0 < (stn L j).c
  readym : ∀ t, m = .ready t → j < L.n ∧ eI L j (xj + 1) + (stn L j).c ≤ t ∧ t ≤ dI L j (xj + 1)
  blockedm : m = .blocked → j < L.n ∧ eI L j (xj + 1) + (stn L j).c ≤ now ∧
    ∃ K, (stn L (j + 1)).effCap = some K ∧ xj = xn + K
  exhm : m = .exhausted → j = 0 ∧ ∃ B, L.budget = some B ∧ B ≤ xj
  wds : d.wds = true ↔ m = .blocked
  slots : Slots L j d xp xj m

/-- Entered count of station `j` (0 for the source, which has no upstream). -/
def xin (x : Nat → Nat) (j : Nat) : Nat := if j = 0 then 0 else x (j - 1)

/-- The entry times into device `j` logged so far. -/
def rtj (j : Nat) (recs : List Rec) : List Int :=
  recs.filterMap (fun r => match r with
    | .received d' t _ _ _ => if d' = j then some t else none
    | _ => none)

theorem entryTimes_W (P : Par) (s : S) (j : Nat) : entryTimes (W P s) j = rtj j s.recs := rfl

theorem rtj_append (j : Nat) (recs : List Rec) (r : Rec) : rtj j (recs ++ [r]) = rtj j recs ++ rtj j [r] := by
  simp [rtj, List.filterMap_append]

/-- Events belong to the terminate event or to a device of the line. -/
def Cov (L : Line) (e : Event) : Prop := e.asset = -1 ∨ ∃ j, j ≤ L.n ∧ e.asset = (j : Int) + 1

/-- The invariant of station `j` together with its events and log. -/
structure DI (P : Par) (s : S) (j : Nat) (xp xj xn : Nat) (m : Mode) : Prop where
  keys : cls ((j : Int) + 1) s.evs = keysOf P.L j xj m
  pd : PD P.L s.now j (dyn (dv s j)) xp xj xn m
  ent : 1 ≤ j → rtj j s.recs = (List.range xp).map (fun i => dI P.L (j - 1) (i + 1))
  plen : j = 0 → s.parts.length = xj + (if m = .proc then 0 else 1)

/-- The invariant of the run loop while the run has not terminated. -/
structure Inv (P : Par) (T : Int) (s : S) (x : Nat → Nat) (m : Nat → Mode) : Prop where
  good : Good P s
  sorted : SortedEv s.evs
  fut : ∀ e ∈ s.evs, s.now ≤ e.time
  cover : ∀ e ∈ s.evs, Cov P.L e
  nowT : s.now ≤ T
  term : s.term = false
  kT : cls (-1) s.evs = [termKey T]
  di : ∀ j, j ≤ P.L.n → DI P s j (xin x j) (x j) (x (j + 1)) (m j)
  bud : ∀ B, P.L.budget = some B → x 0 ≤ B

/-! ### footprints -/

/-- `s'` differs from `s` only in the devices of `H`, their events and log entries (and the clock,
the termination flag are unchanged). -/
structure Foot (L : Line) (H : List Nat) (s s' : S) : Prop where
  now : s'.now = s.now
  term : s'.term = s.term
  dvj : ∀ j, j ∉ H → dv s' j = dv s j
  kj : ∀ j, j ∉ H → cls ((j : Int) + 1) s'.evs = cls ((j : Int) + 1) s.evs
  kT : cls (-1) s'.evs = cls (-1) s.evs
  sorted : SortedEv s.evs → SortedEv s'.evs
  fut : (∀ e ∈ s.evs, s.now ≤ e.time) → ∀ e ∈ s'.evs, s.now ≤ e.time
  cover : (∀ e ∈ s.evs, Cov L e) → ∀ e ∈ s'.evs, Cov L e
  rt : ∀ j, j ∉ H → rtj j s'.recs = rtj j s.recs
  plen : 0 ∉ H → s'.parts.length = s.parts.length

theorem Foot.refl (L : Line) (H : List Nat) (s : S) : Foot L H s s :=
  ⟨rfl, rfl, fun _ _ => rfl, fun _ _ => rfl, rfl, id, id, id, fun _ _ => rfl, fun _ => rfl⟩

theorem Foot.trans {L : Line} {H : List Nat} {s s' s'' : S} (a : Foot L H s s') (b : Foot L H s' s'') :
    Foot L H s s'' where
  now := b.now.trans a.now
  term := b.term.trans a.term
  dvj := fun j hj => (b.dvj j hj).trans (a.dvj j hj)
  kj := fun j hj => (b.kj j hj).trans (a.kj j hj)
  kT := b.kT.trans a.kT
  sorted := fun h => b.sorted (a.sorted h)
  fut := fun h e he => by
    have := b.fut (fun e he => by rw [a.now]; exact a.fut h e he) e he
    rw [a.now] at this; exact this
  cover := fun h => b.cover (a.cover h)
  rt := fun j hj => (b.rt j hj).trans (a.rt j hj)
  plen := fun h => (b.plen h).trans (a.plen h)

theorem Foot.mono {L : Line} {H H' : List Nat} {s s' : S} (a : Foot L H s s') (h : ∀ j, j ∈ H → j ∈ H') :
    Foot L H' s s' where
  now := a.now
  term := a.term
  dvj := fun j hj => a.dvj j (fun hh => hj (h j hh))
  kj := fun j hj => a.kj j (fun hh => hj (h j hh))
  kT := a.kT
  sorted := a.sorted
  fut := a.fut
  cover := a.cover
  rt := fun j hj => a.rt j (fun hh => hj (h j hh))
  plen := fun h0 => a.plen (fun hh => h0 (h 0 hh))

theorem Foot.setD (L : Line) (s : S) (j : Nat) (d : Dev) : Foot L [j] s (setD s j d) where
  now := rfl
  term := rfl
  dvj := fun i hi => dv_setD_ne s j i d (by simpa using hi)
  kj := fun _ _ => rfl
  kT := rfl
  sorted := id
  fut := id
  cover := id
  rt := fun _ _ => rfl
  plen := fun _ => rfl

theorem Foot.push (P : Par) (s : S) (j : Nat) (t : Int) (act : Action) (prio : Int) (hj : j ≤ P.L.n)
    (ht : s.now ≤ t) : Foot P.L [j] s (push P s t ((j : Int) + 1) act prio) where
  now := rfl
  term := rfl
  dvj := fun _ _ => rfl
  kj := fun i hi => by
    have : i ≠ j := by simpa using hi
    exact SS.cls_insort_ne _ _ _ (by simp [mkEv]; omega)
  kT := SS.cls_insort_ne _ _ _ (by simp [mkEv]; omega)
  sorted := fun h => insort_sorted h
  fut := fun h e he => by
    rcases insort_mem.1 he with rfl | h'
    · exact ht
    · exact h e h'
  cover := fun h e he => by
    rcases insort_mem.1 he with rfl | h'
    · exact Or.inr ⟨j, hj, rfl⟩
    · exact h e h'
  rt := fun _ _ => rfl
  plen := fun _ => rfl

/-- A record that is not a `received_part` record of a device outside `H`. -/
def RecIn (H : List Nat) (r : Rec) : Prop :=
  match r with
  | .received d _ _ _ _ => d ∈ H
  | _ => True

theorem Foot.addR (L : Line) (H : List Nat) (s : S) (r : Rec) (hr : RecIn H r) : Foot L H s (addR s r) where
  now := rfl
  term := rfl
  dvj := fun _ _ => rfl
  kj := fun _ _ => rfl
  kT := rfl
  sorted := id
  fut := id
  cover := id
  rt := fun j hj => by
    show rtj j (s.recs ++ [r]) = _
    rw [rtj_append]
    cases r <;> simp [rtj]
    next d t p q v =>
      intro h; subst h; exact absurd hr hj
  plen := fun _ => rfl

theorem Foot.setParts (L : Line) (H : List Nat) (s : S) (ps : List PartRec) (h : ps.length = s.parts.length) :
    Foot L H s (setParts s ps) :=
  ⟨rfl, rfl, fun _ _ => rfl, fun _ _ => rfl, rfl, id, id, id, fun _ _ => rfl, fun _ => h⟩

theorem Foot.addDel (L : Line) (H : List Nat) (s : S) (p : Nat) : Foot L H s (addDel s p) :=
  ⟨rfl, rfl, fun _ _ => rfl, fun _ _ => rfl, rfl, id, id, id, fun _ _ => rfl, fun _ => rfl⟩

end C04W
end SimProc
