/-
C13W, part 7: a default work order on a processor — the START step shuts the machine down, the
FINISH step (exactly `duration` later) restores it; the life of the order along the run.
-/
import SimProc.Proofs.C13WRun
import SimProc.Props.C12W
namespace SimProc
namespace C13W
open World FloorCoreL C06W C06T

variable {x : Nat}

/-! ### the invariants along the run -/

theorem inv12_wAt {w : World} (hI : C12W.Inv w) (k : Nat) : C12W.Inv (wAt w k) := by
  induction k with
  | zero => exact hI
  | succ k ih =>
    cases hs : (wAt w k).step with
    | none => rw [wAt_succ_none hs]; exact ih
    | some q => rw [wAt_succ_some (e := q.1) (w' := q.2) hs]; exact C12W.inv_step ih hs

/-- which device a maintenance target stands for never changes -/
theorem tg_wAt {w : World} (h : WI w) (k : Nat) :
    (wAt w k).targets.map (·.dev) = w.targets.map (·.dev) := by
  induction k with
  | zero => rfl
  | succ k ih =>
    cases hs : (wAt w k).step with
    | none => rw [wAt_succ_none hs]; exact ih
    | some q =>
      rw [wAt_succ_some (e := q.1) (w' := q.2) hs]
      obtain ⟨env', _, _, hkeep⟩ := step_spec (wi_wAt h k) hs
      exact hkeep.tg.trans ih

theorem target_dev_of_map {w w' : World} (h : w'.targets.map (·.dev) = w.targets.map (·.dev))
    (t : Nat) : (w'.targets.getD t default).dev = (w.targets.getD t default).dev := by
  have e : ∀ l : List Target, (l.getD t default).dev = (l.map (·.dev)).getD t none := by
    intro l
    have := getD_map (fun tt : Target => tt.dev) l t default
    exact this.symm
  rw [e, e, h]

/-! ### the START step shuts the machine down, the FINISH step restores it -/

theorem startWork_shuts (w : World) (m s : Nat) (o : Order)
    (hf : (w.maint m).findActive s = some o)
    (ht : (w.targets.getD o.target default).dev = some x) (hx : x < w.devs.length) :
    ((w.startWork m s).dev x).shutDown = true := by
  rw [C12W.startWork_eq w m s o hf, pv_shutDown (pv_schedLib x _ _ _ _ _)]
  unfold World.hookStart
  dsimp only
  have ht' : ((((w.addRec (.workOrder 1 m w.now o.target o.tag o.info)).modMaint m
      (fun mm => mm.startCost w.now (w.targetParams o.target o.tag).2.2)).targets.getD o.target
      default).dev) = some x := ht
  simp only [ht']
  exact C13.shutdown_sets_flag _ false none hx

theorem finishWork_restores (w : World) (m s : Nat) (o : Order)
    (hf : (w.maint m).findActive s = some o)
    (ht : (w.targets.getD o.target default).dev = some x) :
    ((w.finishWork m s).dev x).shutDown = false := by
  rw [C12W.finishWork_eq w m s o hf]
  have h1 : pvw x ((((w.hookEnd o.target o.tag).modMaint m (fun _ =>
          { (w.hookEnd o.target o.tag).maint m with
            util := ((w.hookEnd o.target o.tag).maint m).util - o.needed,
            active := ((w.hookEnd o.target o.tag).maint m).active.erase o })).addRec
          (.workOrder 2 m (w.hookEnd o.target o.tag).now o.target o.tag o.info)).modMaint m (fun _ =>
        ((((w.hookEnd o.target o.tag).modMaint m (fun _ =>
          { (w.hookEnd o.target o.tag).maint m with
            util := ((w.hookEnd o.target o.tag).maint m).util - o.needed,
            active := ((w.hookEnd o.target o.tag).maint m).active.erase o })).addRec
          (.workOrder 2 m (w.hookEnd o.target o.tag).now o.target o.tag o.info)).maint m).tryWork.1)) =
      pvw x (w.hookEnd o.target o.tag) := by
    rw [pv_modMaint, pv_addRec _ _ _ rfl, pv_modMaint]
  rw [pv_shutDown (pv_startOrders x _ _ _), pv_shutDown h1]
  unfold World.hookEnd
  dsimp only
  simp only [ht]
  exact C13.restore_clears_flag _ x

/-! ### the life of an order -/

/-- order `o` of maintainer `m` is active and its FINISH event is pending for `T` -/
def LifeA (m : Nat) (o : Order) (T : Int) (w : World) : Prop :=
  o ∈ (w.maint m).active ∧ ∃ e ∈ w.env.events, C12W.ekey e = some (true, m, o.seq) ∧ e.time = T

/-- The life of an order goes on across every step that is not the execution of its FINISH
event. -/
theorem lifeA_step {w w' : World} {e : Event} (hI : C12W.Inv w) (hst : w.step = some (e, w'))
    {m : Nat} {o : Order} {T : Int} (hl : LifeA m o T w)
    (hne : C12W.ekey e ≠ some (true, m, o.seq)) : LifeA m o T w' := by
  obtain ⟨ho, e0, he0, hk0, ht0⟩ := hl
  obtain ⟨env', henv, hS1, g1, hmem, _, _, _⟩ := C12W.step_open hI.s hI.g hst
  obtain ⟨es, heq, henv'⟩ := Env.step_some.mp henv
  have he0' : e0 ∈ ({ w with env := env' } : World).env.events := by
    rw [heq] at he0
    rcases List.mem_cons.1 he0 with rfl | h1
    · exact absurd hk0 hne
    · subst henv'; exact h1
  have hm0 : C12W.isM e0 = true := (C12W.isM_true_iff e0).2 ⟨_, hk0⟩
  have ho1 : o ∈ (({ w with env := env' } : World).maint m).active := ho
  cases hk : C12W.ekey e with
  | none =>
    obtain ⟨env2, henv2, p⟩ := C12W.step_other hI.s hI.g hst hk
    rw [henv] at henv2
    simp only [Option.some.injEq, Prod.mk.injEq, true_and] at henv2
    subst henv2
    have g1' : C12W.G [] [] ({ w with env := env' } : World) := by
      have := g1; unfold C12W.flightX C12W.flightR at this; rw [hk] at this; exact this
    obtain ⟨l, hl⟩ := p.grow m
    exact ⟨by rw [hl]; exact List.mem_append_left _ ho1, e0, p.keep _ _ g1' e0 he0' hm0, hk0, ht0⟩
  | some key =>
    obtain ⟨f, m', s'⟩ := key
    cases f with
    | false =>
      obtain ⟨env2, henv2, _, _, _, o', sp⟩ := C12W.step_start hI.s hI.g hst hk
      rw [henv] at henv2
      simp only [Option.some.injEq, Prod.mk.injEq, true_and] at henv2
      subst henv2
      obtain ⟨l, hl⟩ := sp.grow m
      exact ⟨by rw [hl]; exact List.mem_append_left _ ho1, e0, sp.keep e0 he0' hm0, hk0, ht0⟩
    | true =>
      obtain ⟨env2, henv2, _, _, o', sp⟩ := C12W.step_finish hI.s hI.g hst hk
      rw [henv] at henv2
      simp only [Option.some.injEq, Prod.mk.injEq, true_and] at henv2
      subst henv2
      refine ⟨sp.stay m o ho1 ?_, e0, sp.keep e0 he0' hm0, hk0, ht0⟩
      intro hmm hss
      apply hne
      rw [hk, hmm, hss]

/-- a machine that is down stays down across every step that is not a control event (script,
resource check, maintainer event) -/
def ctlAct (a : Action) : Bool :=
  match a with
  | .script _ | .rmCheck | .startWork _ _ | .finishWork _ _ => true
  | _ => false

theorem stays_down {w w' : World} {e : Event} (h : WI w) (hk : (w.dev x).kind = .processor)
    (hst : w.step = some (e, w')) (hd : (w.dev x).shutDown = true)
    (hnc : ¬ (e.live = true ∧ ctlAct (Action.ofNat e.act) = true)) :
    (w'.dev x).shutDown = true := by
  obtain ⟨env', henv, sk⟩ := stepK (scriptsPlain_of_wi h) hk hst
  have hk1 : (({ w with env := env' } : World).dev x).kind = .processor := hk
  have hd1 : (({ w with env := env' } : World).dev x).shutDown = true := hd
  cases sk with
  | skipped hl hw => subst hw; exact hd
  | fail y hl ha hw =>
    subst hw
    have hky := (failed_of_step h hst hl ha).kind
    have hy : y < ({ w with env := env' } : World).devs.length := lt_of_processor hky
    by_cases hyx : y = x
    · subst hyx; exact (C13.fail_drops_input_only _ hy).2.2.1
    · rw [failDev_dev_ne_c13 _ hy (Ne.symm hyx)]; exact hd
  | finish y hl ha hw =>
    subst hw
    by_cases hyx : y = x
    · subst hyx
      have := (finish_at_zero h henv hl (ofNat_fin ha) (by rw [hk]; decide)).2.1
      simp [World.operational, hk, hd] at this
    · exact (pv_shutDown (pv_finishCycle x ({ w with env := env' } : World) y hyx)).trans hd
  | release y hl ha hw =>
    subst hw
    by_cases hyx : y = x
    · subst hyx
      exact (congrArg PV.shutDown (releaseIfIdle_pvd ({ w with env := env' } : World) y)).trans hd
    · exact (pv_shutDown (pv_releaseIfIdle x ({ w with env := env' } : World) y hyx)).trans hd
  | pass y hl ha hw mv => exact (pv_shutDown (mv.down_frame hk1 hd1)).trans hd1
  | ctl hl ha hw mv =>
    exfalso
    apply hnc
    refine ⟨hl, ?_⟩
    rcases ha with ⟨k, ha⟩ | ha | ⟨m, o, ha⟩ | ⟨m, o, ha⟩ <;> rw [ha] <;> rfl
  | other hl ha hpv => exact (pv_shutDown hpv).trans hd1

end C13W
end SimProc
