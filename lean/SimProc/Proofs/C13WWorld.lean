/-
C13W, part 4: scripted operations, the maintainer's events, the resource check and the other event
actions as sequences of machine moves of a fixed device `x`; one step of the event loop.
-/
import SimProc.Proofs.C13WMoves
import SimProc.Proofs.C06TWorld
namespace SimProc
namespace C13W
open World FloorCoreL

variable {x : Nat}

/-! ### scripts without `rewire` / `create` -/

def opPlain : Op → Prop
  | .rewire _ _ => False
  | .create _ => False
  | _ => True

instance : DecidablePred opPlain := fun op => by cases op <;> unfold opPlain <;> infer_instance

def ScriptsPlain (w : World) : Prop := ∀ l ∈ w.scripts, ∀ op ∈ l, opPlain op

instance (w : World) : Decidable (ScriptsPlain w) := by unfold ScriptsPlain; infer_instance

theorem opPlain_of_static {w : World} {op : Op} (h : C02V.OpStatic w op) : opPlain op := by
  cases op <;> first | trivial | exact h

theorem scriptsPlain_of_static {w : World} (h : C02V.ScriptsStatic w) : ScriptsPlain w :=
  fun l hl op hop => opPlain_of_static (h l hl op hop)

/-! ### more frames -/

section frames
variable (x) (w : World)

pv_lemma pv_sched

theorem pv_startOrders (m : Nat) (st : List Order) : pvw x (w.startOrders m st) = pvw x w := by
  unfold World.startOrders
  exact pv_foldl x _ _ _ (fun w o => pv_schedLib x w _ _ _ _)
pv_lemma pv_startOrders

theorem pv_modMaint (m : Nat) (f : Maint → Maint) : pvw x (w.modMaint m f) = pvw x w := rfl
pv_lemma pv_modMaint

theorem pv_setVar (h : Nat) (v : Option Nat) : pvw x (w.setVar h v) = pvw x w := rfl
pv_lemma pv_setVar

theorem pv_schedUpdate (s : Nat) (adv : Bool) : pvw x (w.schedUpdate s adv) = pvw x w := by
  unfold World.schedUpdate
  dsimp only
  split
  · rfl
  · rw [pv_schedLib, pv_foldl x _ _ _ (fun w o => pv_addRes x w _), pv_addRec _ _ _ rfl]; rfl

theorem pv_periodicSense (s : Nat) : pvw x (w.periodicSense s) = pvw x w := by
  unfold World.periodicSense
  dsimp only
  rw [pv_schedLib, pv_foldl x _ _ _ (fun w c => pv_addRes x w _)]; rfl

end frames

/-! ### scripted operations -/

theorem pm_shutdown (w : World) (d : Nat) :
    PMoves x False False True w (w.shutdownDev d false none) := by
  by_cases hd : d = x
  · subst hd; exact .one (.shutdown trivial)
  · exact .fr (pv_shutdownDev x w d false none hd)

theorem pm_restore (w : World) (d : Nat) : PMoves x False False True w (w.restoreDev d) := by
  by_cases hd : d = x
  · subst hd; exact .one (.restore trivial)
  · exact .fr (pv_restoreDev x w d hd)

theorem pm_applyOp (w : World) (op : Op) (hop : opPlain op) :
    PMoves x False False True w (w.applyOp op).1 := by
  cases op
  case rewire d ups => exact absurd hop id
  case create s => exact absurd hop id
  case shutdown d =>
    simp only [World.applyOp]
    split
    · exact .refl _
    · exact pm_shutdown w d
  case restore d =>
    simp only [World.applyOp]
    split
    · exact .refl _
    · exact pm_restore w d
  all_goals (refine .fr ?_; unfold World.applyOp; pv_auto)

theorem pm_applyOps (ops : List Op) : ∀ (w : World), (∀ op ∈ ops, opPlain op) →
    PMoves x False False True w (w.applyOps ops) := by
  induction ops with
  | nil => intro w _; exact .refl _
  | cons op ops ih =>
    intro w hok
    unfold World.applyOps
    simp only [List.foldl_cons]
    have m1 : PMoves x False False True w ((w.applyOp op).1.addRes (w.applyOp op).2) :=
      (pm_applyOp w op (hok op (List.mem_cons_self ..))).then_fr (pv_addRes ..)
    have := ih ((w.applyOp op).1.addRes (w.applyOp op).2) (fun o hm => hok o (List.mem_cons_of_mem _ hm))
    unfold World.applyOps at this
    exact m1.trans this

theorem pm_runScript (w : World) (k : Nat) (hs : ScriptsPlain w) :
    PMoves x False False True w (w.runScript k) := by
  unfold World.runScript
  apply pm_applyOps
  intro op hop
  by_cases hk : k < w.scripts.length
  · have : w.scripts.getD k [] = w.scripts[k] := by simp [List.getD_eq_getElem?_getD, hk]
    rw [this] at hop
    exact hs _ (List.getElem_mem hk) op hop
  · have : w.scripts.getD k [] = [] := by simp [List.getD_eq_getElem?_getD, Nat.le_of_not_lt hk]
    rw [this] at hop; cases hop

/-! ### scripts are never changed -/

theorem scripts_runScript (w : World) (k : Nat) : (w.runScript k).scripts = w.scripts :=
  C02V.scr_runScript w k

/-- moves, and the scripts are unchanged -/
structure PS (x : Nat) (w w' : World) : Prop where
  mv : PMoves x False False True w w'
  scr : w'.scripts = w.scripts

theorem PS.refl (w : World) : PS x w w := ⟨.refl _, rfl⟩
theorem PS.trans {a b c : World} (h1 : PS x a b) (h2 : PS x b c) : PS x a c :=
  ⟨h1.mv.trans h2.mv, h2.scr.trans h1.scr⟩

theorem ps_fr {w w' : World} (h : pvw x w' = pvw x w) (hs : w'.scripts = w.scripts) : PS x w w' :=
  ⟨.fr h, hs⟩

theorem ps_runScript (w : World) (k : Nat) (hs : ScriptsPlain w) : PS x w (w.runScript k) :=
  ⟨pm_runScript w k hs, scripts_runScript w k⟩

theorem ScriptsPlain.of_eq {w w' : World} (h : ScriptsPlain w) (e : w'.scripts = w.scripts) :
    ScriptsPlain w' := by
  intro l hl; rw [e] at hl; exact h l hl

theorem ps_scan (n : Nat) : ∀ (w : World) (i : Nat), ScriptsPlain w →
    PS x w (scanWaiting scanOps n w i) := by
  induction n with
  | zero => intro w i _; exact PS.refl _
  | succ n ih =>
    intro w i hs
    unfold scanWaiting
    split
    · exact PS.refl _
    · split
      · rename_i req cb _ _
        have s1 : PS x w (scanOps.erase (scanOps.call w cb req) i) := by
          cases cb with
          | script k =>
            have s0 : PS x w (w.addRes (.cb k)) := ps_fr (pv_addRes ..) rfl
            have s1 := s0.trans (ps_runScript (w.addRes (.cb k)) k (hs.of_eq rfl))
            exact s1.trans (ps_fr rfl rfl)
          | proc d =>
            have s0 : PS x w (w.procResourceCb d) :=
              ps_fr (pv_procResourceCb ..) (C02V.scr_procResourceCb w d)
            exact s0.trans (ps_fr rfl rfl)
        exact s1.trans (ih _ _ (hs.of_eq s1.scr))
      · exact ih _ _ hs

theorem ps_rmCheck (w : World) (hs : ScriptsPlain w) : PS x w w.rmCheck := ps_scan _ _ _ hs

theorem scr_schedLib' (w : World) (t a : Int) (act : Action) (p : Int) :
    (w.schedLib t a act p).scripts = w.scripts := C02V.scr_schedLib w t a act p

theorem ps_hookStart (w : World) (tgt : Nat) (tag : Int) (hs : ScriptsPlain w) :
    PS x w (w.hookStart tgt tag) := by
  have s0 : PS x w (w.addRes (.hook true tgt tag)) := ps_fr (pv_addRes ..) rfl
  have e : w.hookStart tgt tag = (match (w.targets.getD tgt default).dev with
      | some d => (w.addRes (.hook true tgt tag)).shutdownDev d false none
      | none => match (w.targets.getD tgt default).startScript with
        | some k => (w.addRes (.hook true tgt tag)).runScript k
        | none => w.addRes (.hook true tgt tag)) := rfl
  rw [e]
  split
  · exact s0.trans ⟨pm_shutdown _ _, C02V.scr_shutdownDev ..⟩
  · split
    · exact s0.trans (ps_runScript _ _ (hs.of_eq rfl))
    · exact s0

theorem ps_hookEnd (w : World) (tgt : Nat) (tag : Int) (hs : ScriptsPlain w) :
    PS x w (w.hookEnd tgt tag) := by
  have s0 : PS x w (w.addRes (.hook false tgt tag)) := ps_fr (pv_addRes ..) rfl
  have e : w.hookEnd tgt tag = (match (w.targets.getD tgt default).dev with
      | some d => (w.addRes (.hook false tgt tag)).restoreDev d
      | none => match (w.targets.getD tgt default).endScript with
        | some k => (w.addRes (.hook false tgt tag)).runScript k
        | none => w.addRes (.hook false tgt tag)) := rfl
  rw [e]
  split
  · exact s0.trans ⟨pm_restore _ _, C02V.scr_restoreDev ..⟩
  · split
    · exact s0.trans (ps_runScript _ _ (hs.of_eq rfl))
    · exact s0

theorem pm_startWork (w : World) (m seq : Nat) (hs : ScriptsPlain w) :
    PMoves x False False True w (w.startWork m seq) := by
  have key : ∀ w' : World, PS x w w' → ∀ t g a b d,
      PMoves x False False True w ((w'.hookStart t g).schedLib a b (.finishWork m seq) d) :=
    fun w' s t g a b d =>
      ((s.trans (ps_hookStart w' t g (hs.of_eq s.scr))).mv).then_fr (pv_schedLib ..)
  unfold World.startWork
  split
  · exact .fr (pv_setErr ..)
  · simp only []
    refine key _ ?_ _ _ _ _ _
    exact ps_fr (by rw [pv_modMaint, pv_addRec _ _ _ rfl]) rfl

theorem pm_finishWork (w : World) (m seq : Nat) (hs : ScriptsPlain w) :
    PMoves x False False True w (w.finishWork m seq) := by
  have key : ∀ w' : World, PMoves x False False True w w' → ∀ w'' : World, pvw x w'' = pvw x w' →
      ∀ m l, PMoves x False False True w (w''.startOrders m l) := fun w' s w'' s' m l =>
    (s.then_fr s').then_fr (pv_startOrders ..)
  unfold World.finishWork
  split
  · exact .fr (pv_setErr ..)
  · simp only []
    rename_i o _
    refine key _ (ps_hookEnd w o.target o.tag hs).mv _ ?_ _ _
    rw [pv_modMaint, pv_addRec _ _ _ rfl, pv_modMaint]

/-! ### the actions of events -/

/-- The control events: scripts, the resource check (script callbacks), the maintainer's events. -/
theorem pm_exec_ctl (w : World) (a : Action) (hs : ScriptsPlain w)
    (ha : (∃ k, a = .script k) ∨ a = .rmCheck ∨ (∃ m o, a = .startWork m o) ∨
      (∃ m o, a = .finishWork m o)) : PMoves x False False True w (w.exec a) := by
  rcases ha with ⟨k, rfl⟩ | rfl | ⟨m, o, rfl⟩ | ⟨m, o, rfl⟩
  · exact pm_runScript w k hs
  · exact (ps_rmCheck w hs).mv
  · exact pm_startWork w m o hs
  · exact pm_finishWork w m o hs

/-- The events that never touch a machine. -/
theorem pv_exec_other (w : World) (a : Action)
    (ha : a = .terminate ∨ (∃ s, a = .schedUpdate s) ∨ (∃ s, a = .periodicSense s) ∨
      (∃ n, a = .unknown n)) : pvw x (w.exec a) = pvw x w := by
  rcases ha with rfl | ⟨s, rfl⟩ | ⟨s, rfl⟩ | ⟨n, rfl⟩
  · rfl
  · exact pv_schedUpdate x w s true
  · exact pv_periodicSense x w s
  · exact pv_setErr ..

end C13W
end SimProc
