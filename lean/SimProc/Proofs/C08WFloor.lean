/-
C08W, part 5: the routing invariant on worlds (`Route`) and its preservation by the factory-floor
actions: the functions local to one device, the hand-over (`passHandler`, `bufferLoop`), `passPart`,
`failDev`, `initDev`.
-/
import SimProc.Proofs.C08WView
import SimProc.Proofs.C08WLocal
import SimProc.Proofs.C08WTop
import SimProc.Proofs.C08WQual
import SimProc.Proofs.FloorPass
namespace SimProc
namespace C08W
open World C02V C08L FloorCoreL C02V.SVBatchAux

def hiOf (w : World) (q : Nat) : List Nat := (w.part q).hist
def skOf (w : World) (q : Nat) : List Nat := (w.part q).stack

/-- There is no batcher. -/
def NoBatcher (w : World) : Prop := ∀ x, (w.dev x).kind ≠ .batcher

theorem NoBatcher.of_st {w w' : World} (h : NoBatcher w) (e : st w' = st w) : NoBatcher w' :=
  fun x => by rw [kind_of_st e]; exact h x

theorem NoBatcher.of_tv {w w' : World} (h : NoBatcher w) (e : tv w' = tv w) : NoBatcher w' :=
  fun x => by rw [kind_of_tv e]; exact h x

/-- "Gate `g` accepts part `q` now." -/
def accOf (w : World) (g q : Nat) : Prop := w.gatePred (w.dev g).pred q = true

/-- The routing invariant of a world (`nb` = "there is no batcher": then also the exact stacks of
the top-level leaves; `nc` = "no batcher and no value/quality-changing callback": then also every
gate in the history of a top-level leaf accepts it). -/
def RouteN (nb nc : Prop) (w : World) : Prop := RSV nb nc (sv w) (topo w) (hiOf w) (skOf w) (accOf w)

variable {nb nc : Prop}

theorem pred_of_pcv {w w' : World} (h : pcv w' = pcv w) (x : Nat) : (w'.dev x).pred = (w.dev x).pred :=
  congrArg (fun t => t.1) (pcv_dev h x)

theorem accOf_congr {w w' : World} (h3 : w'.parts = w.parts) (h4 : pcv w' = pcv w) :
    accOf w' = accOf w := by
  funext g q
  unfold accOf
  rw [gatePred_congr h3, pred_of_pcv h4]

/-- For a leaf, the verdict of a gate depends on the record of the leaf only. -/
theorem gatePred_leaf {w w' : World} {q : Nat} (h : w'.part q = w.part q)
    (hk : (w.part q).kids = none) (pr : Pred) : w'.gatePred pr q = w.gatePred pr q := by
  unfold gatePred partValue
  rw [h, hk]

theorem sv_kids_length (w : World) : (sv w).kids.length = w.parts.length := by simp [sv]

theorem sv_kids_get (w : World) {q : Nat} (hq : q < w.parts.length) :
    (sv w).kids[q]? = some (w.part q).kids := by
  simp [sv, World.part, List.getD_eq_getElem?_getD, hq]

/-! ### frames -/

theorem RouteN.of_frame {w w' : World} (h : RouteN nb nc w) (h1 : sv w' = sv w) (h2 : topo w' = topo w)
    (h3 : w'.parts = w.parts) (h4 : pcv w' = pcv w) : RouteN nb nc w' := by
  unfold RouteN at *
  rw [h1, h2]
  have e1 : hiOf w' = hiOf w := by funext q; unfold hiOf; rw [part_congr h3]
  have e2 : skOf w' = skOf w := by funext q; unfold skOf; rw [part_congr h3]
  rw [e1, e2, accOf_congr h3 h4]; exact h

theorem RouteN.of_frame_st {w w' : World} (h : RouteN nb nc w) (h1 : sv w' = sv w) (h2 : st w' = st w)
    (h3 : w'.parts = w.parts) (h4 : pcv w' = pcv w) : RouteN nb nc w' :=
  h.of_frame h1 (topo_of_st h2) h3 h4

/-! ### the functions local to one device -/

theorem newOK_of_HN {z n : Nat} {w0 w' : World}
    (hn : ∀ q, n ≤ q → q < w'.parts.length → NewW z ((w0.dev z).kind = .source) w' q) :
    ∀ q, n ≤ q → q < (sv w').kids.length →
      NewOK (topo w0) (hiOf w') (skOf w') (sv w').kids z q := by
  intro q hq1 hq2
  rw [sv_kids_length] at hq2
  obtain ⟨n1, n2⟩ := hn q hq1 hq2
  refine ⟨n1, ?_⟩
  rcases n2 with ⟨n2, n3⟩ | ⟨n2, n3⟩
  · exact Or.inl ⟨n2, n3⟩
  · refine Or.inr ⟨n2, ?_⟩
    rw [sv_kids_get w' hq2]
    cases hk : (w'.part q).kids with
    | none => rw [hk] at n3; cases n3
    | some l => exact ⟨l, rfl⟩

/-- Moves of device `z` that leave the old histories alone and create parts as `HN` says preserve
the invariant. -/
theorem accOf_px {w w' : World} (hpx : PX w w') (hpc : pcv w' = pcv w) :
    ∀ g q, q < (sv w).kids.length → (sv w).kids[q]? = some none → accOf w g q → accOf w' g q := by
  intro g q hq hk ha
  rw [sv_kids_length] at hq
  rw [sv_kids_get w hq] at hk
  have hk' : (w.part q).kids = none := Option.some.inj hk
  unfold accOf at *
  rw [pred_of_pcv hpc, gatePred_leaf (hpx.part hq) hk']
  exact ha

theorem RouteN.local {z : Nat} {w w' : World} (hI : InvW w) (h : RouteN nb nc w)
    (hs : Steps z (sv w) (sv w')) (htl : nb ∨ nc → TLV z (sv w) (sv w')) (ht : st w' = st w)
    (hn : HN z ((w.dev z).kind = .source) w w') (hpx : nc → PX w w') (hpc : pcv w' = pcv w) :
    RouteN nb nc w' := by
  unfold RouteN
  rw [topo_of_st ht]
  refine rsv_steps hs htl hI ?_ (by rw [sv_kids_length]; exact newOK_of_HN hn.nw)
  refine RSV.congr hI h ?_ (fun hc => accOf_px (hpx hc) hpc)
  intro q hq
  rw [sv_kids_length] at hq
  exact hn.hs.2 q hq

theorem route_finishCycle (w : World) (x : Nat) (hI : InvW w) (h : RouteN nb nc w)
    (hnc : nc → NoBatcher w ∧ NoCb w) : RouteN nb nc (w.finishCycle x) :=
  h.local hI (steps_finishCycle w x) (fun _ => tlv_finishCycle w x) (st_finishCycle w x) (HN.finishCycle w x)
    (fun hc => PX.finishCycle w x (hnc hc).2) (pcv_finishCycle w x)

theorem route_scheduleFinish (w : World) (x : Nat) (hI : InvW w) (h : RouteN nb nc w)
    (hnc : nc → NoBatcher w ∧ NoCb w) :
    RouteN nb nc (w.scheduleFinish x) :=
  h.local hI (steps_scheduleFinish w x) (fun _ => tlv_scheduleFinish w x) (st_scheduleFinish w x)
    (HN.scheduleFinish w x) (fun hc => PX.scheduleFinish w x (hnc hc).2) (pcv_scheduleFinish w x)

theorem route_tryMove (w : World) (x : Nat) (hI : InvW w) (h : RouteN nb nc w) (hnb : nb → NoBatcher w)
    (hnc : nc → NoBatcher w ∧ NoCb w) :
    RouteN nb nc (w.tryMove x) :=
  h.local hI (steps_tryMove w x (part_valid hI x))
    (fun hn => tlv_tryMove w x (hn.elim (fun h => hnb h x) (fun h => (hnc h).1 x))) (st_tryMove w x)
    (HN.tryMove w x) (fun hc => PX.tryMove w x (hnc hc).2 ((hnc hc).1 x)) (pcv_tryMove w x)

/-! ### the hand-over -/

/-- A chain reaches its last device in the sense of `Reach`. -/
theorem GChain.reach {t : ST} {y : Nat} {s C s' : List Nat} (h : GChain (topoOfST t) y s C s') :
    ∃ c z, C = c ++ [z] ∧ Reach t y z := by
  induction h with
  | slot y s hk => exact ⟨[], y, rfl, Reach.self y hk⟩
  | gate y s y' c s' hk hy _ ih =>
    obtain ⟨c0, z, rfl, hr⟩ := ih
    exact ⟨y :: c0, z, rfl, Reach.gate y y' z (Or.inl hk) hy hr⟩
  | ginput y s y' c s' hk hy _ ih =>
    obtain ⟨c0, z, rfl, hr⟩ := ih
    exact ⟨c0, z, rfl, Reach.gate y y' z (Or.inr hk) hy hr⟩
  | gpath y s c s' hk _ ih =>
    obtain ⟨c0, z, rfl, hr⟩ := ih
    exact ⟨y :: c0, z, rfl, Reach.gpath y z hk hr⟩
  | goutput y s g y' c s' hk hy _ ih =>
    obtain ⟨c0, z, rfl, hr⟩ := ih
    exact ⟨c0, z, rfl, Reach.goutput y g y' z hk hy hr⟩

theorem GChain.reach_last {w : World} {y z : Nat} {s c s' : List Nat}
    (h : GChain (topo w) y s (c ++ [z]) s') : Reach (st w) y z := by
  rw [topo_eq_st] at h
  obtain ⟨c0, z0, he, hr⟩ := h.reach
  have := List.append_inj' he rfl
  have hz : z = z0 := by simpa using this.2
  rw [hz]; exact hr

/-- The kids of a batch held by a device that is not a sink are pairwise different and different
from the batch. -/
theorem histIdxs_nodup {w : World} (hI : InvW w) {x p : Nat} (hx : x < w.devs.length)
    (hxs : (w.dev x).kind ≠ .sink) (hp : p ∈ (sdev (w.dev x)).held) :
    (histIdxs w.parts p).Nodup ∧ ∀ k ∈ (w.part p).kids.getD [], k < w.parts.length := by
  have hpv : p < w.parts.length := held_valid hI hx hp
  have hkp := sv_kids_get w hpv
  unfold C08L.histIdxs
  show (p :: ((w.part p).kids.getD [])).Nodup ∧ _
  cases hk : (w.part p).kids with
  | none => simp
  | some l =>
    rw [hk] at hkp
    simp only [Option.getD_some]
    have hleaf := hI.1.kidsLeaf p l hkp
    refine ⟨List.nodup_cons.2 ⟨?_, ?_⟩, ?_⟩
    · intro hpl
      have := hleaf p hpl
      rw [hkp] at this; simp at this
    · have hnd := mass_nodup hI.1
      simp only [SV.mass, inside_eq, List.nodup_append] at hnd
      obtain ⟨⟨hin, -, -⟩, -, -⟩ := hnd
      have hcn := nodup_flatMap_mem hin (List.mem_of_getElem? (sv_get w x hx))
      have hxs' : ¬ (sdev (w.dev x)).kind = .sink := hxs
      simp only [con, hxs', if_false] at hcn
      have := nodup_flatMap_mem hcn hp
      rw [lvs_batch hkp] at this
      exact this
    · intro k hk'
      have := kids_lt (hleaf k hk')
      rw [sv_kids_length] at this; exact this

theorem flatMap_replicate_one (C : List Nat) : C.flatMap (fun d => List.replicate 1 d) = C := by
  induction C with
  | nil => rfl
  | cons a C _ => simp [List.flatMap_cons]

theorem flatMap_replicate_zero (C : List Nat) : C.flatMap (fun d => List.replicate 0 d) = [] := by
  induction C with
  | nil => rfl
  | cons a C _ => simp [List.flatMap_cons]

theorem bumped_part {w w' : World} {p : Nat} {C s' : List Nat} (hb : Bumped w.parts w'.parts p C s')
    (q : Nat) (hq : q < w.parts.length) :
    (w'.part q).hist = (w.part q).hist ++
        C.flatMap (fun d => List.replicate ((histIdxs w.parts p).count q) d) ∧
      (w'.part q).stack = if q = p then s' else (w.part q).stack := by
  have := hb.getD q hq
  unfold World.part
  rw [this]
  by_cases hqp : q = p <;> simp [bumpRec, hqp]

/-- `Bumped` in terms of histories and stacks, in a conservative world. -/
theorem bumped_facts {w w' : World} {p : Nat} {C s' : List Nat}
    (hb : Bumped w.parts w'.parts p C s') (hp : p < w.parts.length)
    (hnd : (histIdxs w.parts p).Nodup) (hkv : ∀ k ∈ (w.part p).kids.getD [], k < w.parts.length) :
    (hiOf w' p = hiOf w p ++ C ∧ skOf w' p = s') ∧
    (∀ l, (sv w).kids[p]? = some (some l) → ∀ k ∈ l, hiOf w' k = hiOf w k ++ C) ∧
    (∀ q, q < (sv w).kids.length → q ≠ p → (∀ l, (sv w).kids[p]? = some (some l) → q ∉ l) →
      hiOf w' q = hiOf w q ∧ skOf w' q = skOf w q) := by
  have hidx : histIdxs w.parts p = p :: (w.part p).kids.getD [] := rfl
  refine ⟨?_, ?_, ?_⟩
  · obtain ⟨h1, h2⟩ := bumped_part hb p hp
    have : (histIdxs w.parts p).count p = 1 := by
      rw [hnd.count, if_pos (by rw [hidx]; exact List.mem_cons_self ..)]
    rw [this, flatMap_replicate_one] at h1
    exact ⟨h1, by unfold skOf; simpa using h2⟩
  · intro l hl k hk
    rw [sv_kids_get w hp] at hl
    have hl' : (w.part p).kids = some l := Option.some.inj hl
    have hkm : k ∈ (w.part p).kids.getD [] := by rw [hl']; exact hk
    obtain ⟨h1, _⟩ := bumped_part hb k (hkv k hkm)
    have : (histIdxs w.parts p).count k = 1 := by
      rw [hnd.count, if_pos (by rw [hidx]; exact List.mem_cons_of_mem _ hkm)]
    rw [this, flatMap_replicate_one] at h1
    exact h1
  · intro q hq hqp hql
    rw [sv_kids_length] at hq
    obtain ⟨h1, h2⟩ := bumped_part hb q hq
    have : (histIdxs w.parts p).count q = 0 := by
      rw [List.count_eq_zero, hidx]
      intro hm
      rcases List.mem_cons.1 hm with h | h
      · exact hqp h
      · cases hk : (w.part p).kids with
        | none => rw [hk] at h; simp at h
        | some l =>
          rw [hk] at h
          exact hql l (by rw [sv_kids_get w hp, hk]) h
    rw [this, flatMap_replicate_zero, List.append_nil] at h1
    exact ⟨h1, by unfold skOf; simpa [hqp] using h2⟩

theorem acceptPre_eq (w : World) (x p : Nat) : C02V.acceptPre w x p = C08L.acceptPre w x p := rfl

/-- One successful `givePart`, seen from the giver `x` whose slots without `p` are `s`. -/
theorem route_give (w w0 w1 : World) (x y p : Nat) (s : SDev) (hI : InvW w) (hR : RouteN nb nc w)
    (hnb : nb → NoBatcher w) (hnc : nc → NoBatcher w ∧ NoCb w)
    (hx : x < w.devs.length) (hk : (w.dev x).kind ≠ .sink) (hsk : s.kind = (w.dev x).kind)
    (hperm : (sdev (w.dev x)).held.Perm (p :: s.held))
    (hin : ∀ b, s.inprog = some b → (w.dev x).inprog = some b)
    (hq0 : Quiet w w0) (hp0 : w0.parts = w.parts) (hpc0 : pcv w0 = pcv w) (hy : y ∈ (w.dev x).down)
    (hreach : ∀ z, Reach (st w) y z → z < w.devs.length)
    (hg : givePart w0 y p = (w1, true)) :
    ((w.dev x).part = none ∧ (w.dev x).output = none ∧
      ((w.dev x).kind = .buffer →
        sv w1 = (sv w).setDev x { sdev (w.dev x) with buf := (sdev (w.dev x)).buf ++ [p] } ∧
        ∀ c : SV, c.kids = (sv w).kids →
          (∀ (z' : Nat) (d : SDev) (q : Nat), c.devs[z']? = some d → q ∈ d.held →
            (q = p ∧ z' = x) ∨ (q ≠ p ∧ ∃ d0 : SDev, (sv w).devs[z']? = some d0 ∧ q ∈ d0.held)) →
          RSV nb nc c (topo w) (hiOf w1) (skOf w1) (accOf w1))) ∨
    (Inv (mask (sv w1) x s) ∧ RSV nb nc (mask (sv w1) x s) (topo w) (hiOf w1) (skOf w1) (accOf w1) ∧
      sdev (w1.dev x) = sdev (w.dev x) ∧ w1.devs.length = w.devs.length) := by
  have hpx : p ∈ (sdev (w.dev x)).held := hperm.symm.subset (List.mem_cons_self ..)
  have hp : p < w.parts.length := held_valid hI hx hpx
  obtain ⟨z, c, s', wa, hC, hzk, hca, hw1, hq1, hb, hok0⟩ :=
    give_exact w0.fuel w0 y p w1 (by rw [hp0]; exact hp) hg
  have hok : ChainOK w p c := hok0.of_quiet hq0
  rw [hq0.topo, part_congr hp0] at hC
  have hzl : z < w.devs.length := hreach z hC.reach_last
  have hqa : Quiet w wa := hq0.trans hq1
  have hba : Bumped w.parts wa.parts p c s' := bumped_congr hb hp0.symm rfl
  have hzk' : isHandlerLike (wa.dev z).kind = true := by rw [hq1.kind]; exact hzk
  have hslots := canAccept_slots hzk' hca
  have hzp : (sdev (w.dev z)).part = none := by
    have := part_of_sv hqa.sv z; rw [hslots.1] at this; exact this.symm
  have hzo : (sdev (w.dev z)).output = none := by
    have := output_of_sv hqa.sv z; rw [hslots.2] at this; exact this.symm
  have hxl : x < wa.devs.length := by rw [devs_len_of_sv hqa.sv]; exact hx
  have hzla : z < wa.devs.length := by rw [devs_len_of_sv hqa.sv]; exact hzl
  have hpa : p < wa.parts.length := by rw [parts_len_of_sv hqa.sv]; exact hp
  -- the world in which `onReceived` starts
  have hsvb : sv (C02V.acceptPre wa z p) = accept (sv w) z p (sdev (w.dev z)) := by
    rw [sv_acceptPre, hqa.sv, sdev_of_sv hqa.sv]
  have hpb : (C02V.acceptPre wa z p).parts = (wa.addHist p z).parts := by
    rw [acceptPre_eq]; exact C08L.acceptPre_parts wa z p
  have hbb : Bumped w.parts (C02V.acceptPre wa z p).parts p (c ++ [z]) s' := by
    have h2 := bumped_addHist wa p z
    have hst : (wa.part p).stack = s' := by
      have := (bumped_part hba p hp).2; simpa using this
    rw [hst] at h2
    exact bumped_congr (hba.trans h2) rfl hpb
  obtain ⟨hnd, hkv⟩ := histIdxs_nodup hI hx hk hpx
  obtain ⟨fP, fK, fO⟩ := bumped_facts hbb hp hnd hkv
  have hlenb : (C02V.acceptPre wa z p).parts.length = w.parts.length := by
    have := hbb.length; exact this
  -- the receiver's own moves
  have hsteps : Steps z (accept (sv w) z p (sdev (w.dev z))) (sv w1) := by
    have := steps_acceptPart wa z p hzla hpa
    rw [hqa.sv, sdev_of_sv hqa.sv, ← hw1] at this
    exact this
  have hstb : st (C02V.acceptPre wa z p) = st w := by
    unfold C02V.acceptPre
    have : st wa = st w := hqa.st
    rw [← this]
    frame
  have hst1 : st w1 = st w := by rw [hw1, st_acceptPart]; exact hqa.st
  have hHN : HN z ((w.dev z).kind = .source) (C02V.acceptPre wa z p) w1 := by
    have := HN.onReceived (C02V.acceptPre wa z p) z p
    rw [← C02V.acceptPart_eq, ← hw1] at this
    exact this.weaken (fun h => (kind_of_st hstb z).symm.trans h)
  -- gate verdicts
  have hpc1 : pcv w1 = pcv w := by
    have := pcv_give w0 w0.fuel y p
    rw [show give w0.fuel w0 y p = givePart w0 y p from rfl, hg] at this
    exact this.trans hpc0
  have hpca : pcv wa = pcv w := by
    have := pcv_acceptPart wa z p
    rw [← hw1] at this
    exact this.symm.trans hpc1
  have hpcb : pcv (C02V.acceptPre wa z p) = pcv w := by
    have : pcv (C02V.acceptPre wa z p) = pcv wa := by unfold C02V.acceptPre; frame
    exact this.trans hpca
  have hgpb : ∀ pr q, (C02V.acceptPre wa z p).gatePred pr q = w.gatePred pr q := by
    intro pr q
    rw [gatePred_congr hpb, addHist_gatePred, hqa.gp]
  have haccb : ∀ g q, accOf w g q → accOf (C02V.acceptPre wa z p) g q := by
    intro g q ha
    unfold accOf at *
    rw [pred_of_pcv hpcb, hgpb]; exact ha
  have hkidsb : ∀ q, ((C02V.acceptPre wa z p).part q).kids = (w.part q).kids := fun q => hbb.kids q
  have hpx1 : nc → PX (C02V.acceptPre wa z p) w1 := by
    intro hc
    have := PX.onReceived (C02V.acceptPre wa z p) z p ((hnc hc).2.of_pcv hpcb)
      (by rw [kind_of_st hstb]; exact (hnc hc).1 z)
    rw [← C02V.acceptPart_eq, ← hw1] at this
    exact this
  have haccb1 : nc → ∀ g q, q < w.parts.length → (w.part q).kids = none →
      accOf (C02V.acceptPre wa z p) g q → accOf w1 g q := by
    intro hc g q hq hkq ha
    unfold accOf at *
    rw [pred_of_pcv (hpc1.trans hpcb.symm),
      gatePred_leaf ((hpx1 hc).part (by rw [hlenb]; exact hq)) (by rw [hkidsb]; exact hkq)]
    exact ha
  have hleafw : ∀ q, q < (sv w).kids.length → (sv w).kids[q]? = some none →
      q < w.parts.length ∧ (w.part q).kids = none := by
    intro q hq hkq
    rw [sv_kids_length] at hq
    rw [sv_kids_get w hq] at hkq
    exact ⟨hq, Option.some.inj hkq⟩
  -- histories after the receiver's moves
  have fP1 : hiOf w1 p = hiOf w p ++ (c ++ [z]) ∧ skOf w1 p = s' := by
    have := hHN.hs.2 p (by rw [hlenb]; exact hp)
    exact ⟨by unfold hiOf at fP ⊢; rw [this.1]; exact fP.1, by unfold skOf at fP ⊢; rw [this.2]; exact fP.2⟩
  have fK1 : ∀ l, (sv w).kids[p]? = some (some l) → ∀ k ∈ l, hiOf w1 k = hiOf w k ++ (c ++ [z]) := by
    intro l hl k hkl
    have hkv' : k < w.parts.length := by
      have := kids_lt (hI.1.kidsLeaf p l hl k hkl); rw [sv_kids_length] at this; exact this
    have := hHN.hs.2 k (by rw [hlenb]; exact hkv')
    unfold hiOf at *
    rw [this.1]; exact fK l hl k hkl
  have fO1 : ∀ q, q < (sv w).kids.length → q ≠ p → (∀ l, (sv w).kids[p]? = some (some l) → q ∉ l) →
      hiOf w1 q = hiOf w q ∧ skOf w1 q = skOf w q := by
    intro q hq hqp hql
    have hq' := hq
    rw [sv_kids_length] at hq'
    have := hHN.hs.2 q (by rw [hlenb]; exact hq')
    have f := fO q hq hqp hql
    unfold hiOf skOf at *
    exact ⟨by rw [this.1]; exact f.1, by rw [this.2]; exact f.2⟩
  have fS : ∀ q, q < (sv w).kids.length → q ≠ p →
      skOf (C02V.acceptPre wa z p) q = skOf w q := by
    intro q hq hqp
    rw [sv_kids_length] at hq
    have := (bumped_part hbb q hq).2
    unfold skOf
    rw [this, if_neg hqp]
  have fS1 : ∀ q, q < (sv w).kids.length → q ≠ p → skOf w1 q = skOf w q := by
    intro q hq hqp
    have hq' := hq
    rw [sv_kids_length] at hq'
    have := hHN.hs.2 q (by rw [hlenb]; exact hq')
    have f := fS q hq hqp
    unfold skOf at *
    rw [this.2]; exact f
  have hxs' : (sdev (w.dev x)).kind ≠ .sink := hk
  have hyt : y ∈ (topo w).down x := hy
  by_cases hne : x = z
  · subst hne
    left
    refine ⟨hzp, hzo, ?_⟩
    intro hkb
    have hsv1 : sv w1 = (sv w).setDev x { sdev (w.dev x) with buf := (sdev (w.dev x)).buf ++ [p] } := by
      have := sv_acceptPart_buffer wa x p hxl (by rw [hqa.kind]; exact hkb) hslots.1 hslots.2
      rw [hqa.sv, sdev_of_sv hqa.sv, ← hw1] at this
      exact this
    refine ⟨hsv1, ?_⟩
    intro c0 hk0 hs0
    exact rsv_bump hI hR (sv_get w x hx) hxs' hpx hyt hC fP1 fK1 fO1 fS1
      (fun hc g q hq hkq ha => haccb1 hc g q (hleafw q hq hkq).1 (hleafw q hq hkq).2 (haccb g q ha))
      (fun hc hkp g hg hkg =>
        haccb1 hc g p hp (hleafw p (by rw [sv_kids_length]; exact hp) hkp).2 (haccb g p (hok.gates g hg hkg)))
      hk0 hs0
  · right
    have hzg := sv_get w z hzl
    have hxg := sv_get w x hx
    have hInv1 : Inv (mask (accept (sv w) z p (sdev (w.dev z))) x s) :=
      inv_transfer hI hxg hzg hne hzp hxs' hsk hperm hin
    have hsm := hsteps.mask hne s
    have hnds : (p :: s.held).Nodup := hperm.nodup_iff.1 (held_nodup hI.1 (List.mem_of_getElem? hxg))
    -- the invariant right after the part has been taken over
    have hRb : RSV nb nc (mask (accept (sv w) z p (sdev (w.dev z))) x s) (topo w)
        (hiOf (C02V.acceptPre wa z p)) (skOf (C02V.acceptPre wa z p)) (accOf (C02V.acceptPre wa z p)) := by
      refine rsv_bump hI hR hxg hxs' hpx hyt hC fP fK fO fS
        (fun _ g q _ _ ha => haccb g q ha)
        (fun _ _ g hg hkg => haccb g p (hok.gates g hg hkg)) rfl ?_
      intro z' d q h0 hq
      simp only [mask, accept, SV.setDev] at h0
      have hzl' : z < (sv w).devs.length := (List.getElem?_eq_some_iff.1 hzg).1
      have hxl' : x < ((sv w).devs.set z { sdev (w.dev z) with part := some p }).length := by
        rw [List.length_set]; exact (List.getElem?_eq_some_iff.1 hxg).1
      by_cases hxz' : x = z'
      · subst hxz'
        rw [List.getElem?_set_self hxl'] at h0
        cases h0
        right
        refine ⟨?_, _, hxg, hperm.symm.subset (List.mem_cons_of_mem _ hq)⟩
        rintro rfl
        exact (List.nodup_cons.1 hnds).1 hq
      · rw [List.getElem?_set_ne hxz'] at h0
        by_cases hzz' : z = z'
        · subst hzz'
          rw [List.getElem?_set_self hzl'] at h0
          cases h0
          have hh : ({ sdev (w.dev z) with part := some p } : SDev).held = p :: (sdev (w.dev z)).held := by
            simp [SDev.held, hzp]
          rw [hh] at hq
          rcases List.mem_cons.1 hq with hqp | hq2
          · exact Or.inl ⟨hqp, rfl⟩
          · right
            refine ⟨?_, _, hzg, hq2⟩
            intro hqp
            rw [hqp] at hq2
            exact hne (held_unique hI.1 hxg hzg hpx hq2)
        · rw [List.getElem?_set_ne hzz'] at h0
          right
          refine ⟨?_, _, h0, hq⟩
          rintro rfl
          exact hxz' (held_unique hI.1 hxg h0 hpx hq)
    have hRb1 : RSV nb nc (mask (accept (sv w) z p (sdev (w.dev z))) x s) (topo w) (hiOf w1) (skOf w1)
        (accOf w1) := by
      refine RSV.congr hInv1 hRb ?_ (fun hc g q hq hkq ha =>
        haccb1 hc g q (hleafw q hq hkq).1 (hleafw q hq hkq).2 ha)
      intro q hq
      have hq' : q < (C02V.acceptPre wa z p).parts.length := by
        rw [hlenb, ← sv_kids_length]; exact hq
      exact hHN.hs.2 q hq'
    have hR1 : RSV nb nc (mask (sv w1) x s) (topo w) (hiOf w1) (skOf w1) (accOf w1) := by
      refine rsv_steps hsm ?_ hInv1 hRb1 ?_
      · intro hn
        have := tlv_acceptPart wa z p (by
          rw [hqa.kind]; exact hn.elim (fun h => hnb h z) (fun h => (hnc h).1 z))
        rw [hqa.sv, sdev_of_sv hqa.sv, ← hw1] at this
        exact this.mask hne s
      have := newOK_of_HN (n := (C02V.acceptPre wa z p).parts.length) hHN.nw
      intro q hq1 hq2
      exact this q (by rw [hlenb, ← sv_kids_length]; exact hq1) hq2
    have h3 : (sv w1).devs[x]? = some (sdev (w.dev x)) := by
      rw [hsteps.devs_ne hne]
      simp only [accept]
      rw [List.getElem?_set_ne (Ne.symm hne)]
      exact hxg
    have h4 : w1.devs.length = w.devs.length := by
      have := hsteps.length
      simpa [sv, accept] using this
    refine ⟨inv_steps hInv1 hsm, hR1, ?_, h4⟩
    have := sv_get w1 x (by rw [h4]; exact hx)
    rw [h3] at this
    exact (Option.some.inj this).symm

theorem RouteN.of_view {w1 w' : World} {a : SV} {t : Topo}
    (h : RSV nb nc a t (hiOf w1) (skOf w1) (accOf w1)) (h1 : sv w' = a) (h2 : topo w' = t)
    (h3 : w'.parts = w1.parts) (h4 : pcv w' = pcv w1) : RouteN nb nc w' := by
  unfold RouteN
  have e1 : hiOf w' = hiOf w1 := by funext q; unfold hiOf; rw [part_congr h3]
  have e2 : skOf w' = skOf w1 := by funext q; unfold skOf; rw [part_congr h3]
  rw [h1, h2, e1, e2, accOf_congr h3 h4]; exact h

theorem prefix_quiet' {w wm : World} {l : List Nat} {p : Nat}
    (h : tryList givePart w l p = (wm, false)) :
    Quiet w wm ∧ wm.parts = w.parts ∧ pcv wm = pcv w := by
  have hr := tryList_refused (g := givePart) (fun w y w' h => give_refused _ w y p w' h) h
  have hp := pcv_tryGive w l p
  rw [h] at hp
  exact ⟨Quiet.of_refused hr, hr.1, hp⟩

/-- A successful offer round, seen from the giver. -/
theorem route_handover (w : World) (x p : Nat) (l : List Nat) (s : SDev) (hI : InvW w) (hR : RouteN nb nc w)
    (hnb : nb → NoBatcher w) (hnc : nc → NoBatcher w ∧ NoCb w)
    (hx : x < w.devs.length) (hk : (w.dev x).kind ≠ .sink) (hsk : s.kind = (w.dev x).kind)
    (hperm : (sdev (w.dev x)).held.Perm (p :: s.held))
    (hin : ∀ b, s.inprog = some b → (w.dev x).inprog = some b)
    (hl : ∀ y ∈ l, y ∈ (w.dev x).down ∧ ∀ z, Reach (st w) y z → z < w.devs.length)
    (w1 : World) (hb : tryList givePart w l p = (w1, true)) :
    ((w.dev x).part = none ∧ (w.dev x).output = none ∧
      ((w.dev x).kind = .buffer →
        sv w1 = (sv w).setDev x { sdev (w.dev x) with buf := (sdev (w.dev x)).buf ++ [p] } ∧
        ∀ c : SV, c.kids = (sv w).kids →
          (∀ (z' : Nat) (d : SDev) (q : Nat), c.devs[z']? = some d → q ∈ d.held →
            (q = p ∧ z' = x) ∨ (q ≠ p ∧ ∃ d0 : SDev, (sv w).devs[z']? = some d0 ∧ q ∈ d0.held)) →
          RSV nb nc c (topo w) (hiOf w1) (skOf w1) (accOf w1))) ∨
    (Inv (mask (sv w1) x s) ∧ RSV nb nc (mask (sv w1) x s) (topo w) (hiOf w1) (skOf w1) (accOf w1) ∧
      sdev (w1.dev x) = sdev (w.dev x) ∧ w1.devs.length = w.devs.length) := by
  obtain ⟨l1, y, l2, wm, hl', h1, h2⟩ := tryList_true hb
  obtain ⟨hq, hparts, hpc⟩ := prefix_quiet' h1
  have hy := hl y (by rw [hl']; simp)
  exact route_give w wm w1 x y p s hI hR hnb hnc hx hk hsk hperm hin hq hparts hpc hy.1 hy.2 h2

theorem part_hist_frame {w w' : World} (h : w'.parts = w.parts) (q : Nat) :
    (w'.part q).hist = hiOf w q ∧ (w'.part q).stack = skOf w q := by
  unfold hiOf skOf; rw [part_congr h]; exact ⟨rfl, rfl⟩

theorem route_passHandler (w : World) (x : Nat) (hI : InvW w) (hR : RouteN nb nc w)
    (hnb : nb → NoBatcher w) (hnc : nc → NoBatcher w ∧ NoCb w)
    (hk : (w.dev x).kind ≠ .sink) (hg : GiveOK w x) : RouteN nb nc (w.passHandler x) := by
  unfold World.passHandler
  simp only []
  split
  · exact hR
  · split
    · exact hR
    · rename_i p hp
      have hx : x < w.devs.length := lt_of_output hp
      rcases hb : tryList givePart w (w.sortedDown x) p with ⟨w1, b⟩
      cases b with
      | false =>
        simp only []
        obtain ⟨hq, hparts, hpc⟩ := prefix_quiet' hb
        refine hR.of_frame_st ?_ ?_ ?_ ?_
        · refine Eq.trans (sv_modDev_same _ _ _ ?_) hq.sv; intro _; rfl
        · refine Eq.trans (st_modDev_same _ _ _ ?_) hq.st; intro _; rfl
        · rw [modDev_parts]; exact hparts
        · refine Eq.trans (pcv_modDev_same _ _ _ ?_) hpc; intro _; rfl
      | true =>
        simp only []
        have key := route_handover w x p (w.sortedDown x) { sdev (w.dev x) with output := none } hI hR hnb hnc hx hk
          rfl
          (by
            simp only [SDev.held, sdev, hp, Option.toList_some, Option.toList_none, List.append_nil,
              List.append_assoc, List.singleton_append]
            exact List.perm_middle)
          (fun b h => h)
          (fun y hy => ⟨(mem_sortedDown ..).1 hy, fun z hr => hg y ((mem_sortedDown ..).1 hy) z hr⟩)
          w1 hb
        have key := key.resolve_left (by rintro ⟨_, h, _⟩; rw [hp] at h; cases h)
        refine RouteN.of_view key.2.1 ?_ ?_ ?_ ?_
        · rw [sv_notify]
          unfold World.modDev
          rw [sv_setDev]
          have e : sdev { (w1.dev x) with output := none } = { sdev (w.dev x) with output := none } := by
            rw [← key.2.2.1]; rfl
          rw [e]; rfl
        · have : st w1 = st w := by
            have := st_tryGive w (w.sortedDown x) p; rw [hb] at this; exact this
          apply topo_of_st
          rw [st_notify]
          refine Eq.trans (st_modDev_same _ _ _ ?_) this; intro _; rfl
        · rw [notify_parts, modDev_parts]
        · rw [pcv_notify]; exact pcv_modDev_same _ _ _ (fun _ => rfl)

theorem route_bufferLoop (f : Nat) : ∀ (w : World) (x : Nat), InvW w → RouteN nb nc w →
    (nb → NoBatcher w) → (nc → NoBatcher w ∧ NoCb w) →
    (w.dev x).kind = .buffer → GiveOK w x → RouteN nb nc (bufferLoop f w x) := by
  induction f with
  | zero => intro w x _ h _ _ _ _; exact h
  | succ f ih =>
    intro w x hI hR hnb hnc hk hg
    unfold bufferLoop
    simp only []
    split
    · exact hR
    · rename_i t p rest hbuf
      have hx : x < w.devs.length := lt_of_buf (by rw [hbuf]; simp)
      have hbs : (sdev (w.dev x)).buf = p :: rest.map (·.2) := by simp [sdev, hbuf]
      split
      · exact hR
      · rcases hb : tryList givePart w (w.sortedDown x) p with ⟨w1, b⟩
        cases b with
        | false =>
          simp only []
          obtain ⟨hq, hparts, hpc⟩ := prefix_quiet' hb
          exact hR.of_frame_st hq.sv hq.st hparts hpc
        | true =>
          simp only []
          have hb2 : (tryList givePart w (w.sortedDown x) p).2 = true := by rw [hb]
          have hw1 : (tryList givePart w (w.sortedDown x) p).1 = w1 := by rw [hb]
          -- the conservation side, as in `inv_bufferLoop`
          have keyI := handover w x p (w.sortedDown x) { sdev (w.dev x) with buf := rest.map (·.2) } hI hx
            (by rw [hk]; decide) rfl
            (by simp only [SDev.held, sdev, hbuf, List.map_cons]; exact perm_buf ..)
            (fun b h => h)
            (fun y hy z hr => hg y ((mem_sortedDown ..).1 hy) z hr)
            hb2
          rw [hw1] at keyI
          have keyR := route_handover w x p (w.sortedDown x) { sdev (w.dev x) with buf := rest.map (·.2) }
            hI hR hnb hnc hx (by rw [hk]; decide) rfl
            (by simp only [SDev.held, sdev, hbuf, List.map_cons]; exact perm_buf ..)
            (fun b h => h)
            (fun y hy => ⟨(mem_sortedDown ..).1 hy, fun z hr => hg y ((mem_sortedDown ..).1 hy) z hr⟩)
            w1 hb
          have hst : st w1 = st w := by
            have := st_tryGive w (w.sortedDown x) p; rw [hb] at this; exact this
          have hxg := sv_get w x hx
          have hnd := held_nodup hI.1 (List.mem_of_getElem? hxg)
          -- the state after removing the head of the buffer
          have hfin : (InvW (w1.modDev x (fun d => { d with level := d.level - w.leafCount p, buf := d.buf.drop 1 })) ∧
              (w1.modDev x (fun d => { d with level := d.level - w.leafCount p, buf := d.buf.drop 1 })).devs.length =
                w.devs.length) ∧
              RouteN nb nc (w1.modDev x (fun d => { d with level := d.level - w.leafCount p, buf := d.buf.drop 1 })) := by
            have hsvf : sv (w1.modDev x (fun d => { d with level := d.level - w.leafCount p, buf := d.buf.drop 1 })) =
                (sv w1).setDev x { sdev (w1.dev x) with buf := (sdev (w1.dev x)).buf.drop 1 } := by
              unfold World.modDev; rw [sv_setDev, sdev_dropBuf]
            have htopo : topo (w1.modDev x (fun d => { d with level := d.level - w.leafCount p, buf := d.buf.drop 1 })) =
                topo w := by
              apply topo_of_st; rw [st_setBuf]; exact hst
            have hparts : (w1.modDev x (fun d => { d with level := d.level - w.leafCount p, buf := d.buf.drop 1 })).parts =
                w1.parts := modDev_parts ..
            have hpcf : pcv (w1.modDev x (fun d => { d with level := d.level - w.leafCount p, buf := d.buf.drop 1 })) =
                pcv w1 := pcv_modDev_same _ _ _ (fun _ => rfl)
            rcases keyI with ⟨hpn, hon, hself⟩ | ⟨hinv, hsd, hlen⟩
            · -- the buffer handed the part to itself: its content is rotated
              have hsv := hself hk
              have hlen : w1.devs.length = w.devs.length := by
                have := congrArg (fun a => a.devs.length) hsv
                simpa [sv, SV.setDev] using this
              have hd : sdev (w1.dev x) = { sdev (w.dev x) with buf := (sdev (w.dev x)).buf ++ [p] } := by
                have := congrArg (fun a => a.dev x) hsv
                simp only [sv_dev] at this
                rw [this]
                simp [SV.setDev, SV.dev, sv, hx]
              have hsvf' : sv (w1.modDev x (fun d => { d with level := d.level - w.leafCount p, buf := d.buf.drop 1 })) =
                  { devs := (sv w).devs.set x { sdev (w.dev x) with buf := ((sdev (w.dev x)).buf ++ [p]).drop 1 },
                    kids := (sv w).kids, gen := (sv w).gen, del := (sv w).del, lost := (sv w).lost } := by
                rw [hsvf, hsv, hd]
                simp only [SV.setDev, List.set_set]
              have hperm : (sdev (w.dev x)).held.Perm
                  ([] ++ (SDev.held { sdev (w.dev x) with buf := ((sdev (w.dev x)).buf ++ [p]).drop 1 })) := by
                simp only [SDev.held, hbs, List.nil_append, List.cons_append, List.drop_succ_cons, List.drop_zero]
                exact ((List.perm_append_singleton p _).symm.append_left _).append_right _
              refine ⟨⟨?_, by show (List.set _ _ _).length = _; rw [List.length_set]; exact hlen⟩, ?_⟩
              · unfold InvW; rw [hsvf']
                exact ⟨consV_rearr hI.1 _ _ [] hxg rfl hperm (Or.inr (by simp)),
                  extraV_rearr hI.2 _ _ [] hxg rfl hperm (fun b h => h)⟩
              · have keyR := keyR.resolve_right (by
                  rintro ⟨_, _, hsd, _⟩
                  have h1 := congrArg SDev.buf hsd
                  have h2 := congrArg SDev.buf hd
                  rw [h2] at h1
                  have := congrArg List.length h1
                  simp at this)
                obtain ⟨_, hall⟩ := keyR.2.2 hk
                refine RouteN.of_view (w1 := w1) (hall
                  { devs := (sv w).devs.set x { sdev (w.dev x) with buf := ((sdev (w.dev x)).buf ++ [p]).drop 1 },
                    kids := (sv w).kids, gen := (sv w).gen, del := (sv w).del, lost := (sv w).lost }
                  rfl ?_) hsvf' htopo hparts hpcf
                intro z' d q h0 hq
                simp only at h0
                have hxl' : x < (sv w).devs.length := (List.getElem?_eq_some_iff.1 hxg).1
                by_cases hxz : x = z'
                · subst hxz
                  rw [List.getElem?_set_self hxl'] at h0
                  cases h0
                  have hq' := hperm.symm.subset (by simpa using hq)
                  by_cases hqp : q = p
                  · exact Or.inl ⟨hqp, rfl⟩
                  · exact Or.inr ⟨hqp, _, hxg, hq'⟩
                · rw [List.getElem?_set_ne hxz] at h0
                  right
                  refine ⟨?_, _, h0, hq⟩
                  intro hqp
                  rw [hqp] at hq
                  exact hxz (held_unique hI.1 hxg h0 (by simp [SDev.held, hbs]) hq)
            · have hsvf' : sv (w1.modDev x (fun d => { d with level := d.level - w.leafCount p, buf := d.buf.drop 1 })) =
                  mask (sv w1) x { sdev (w.dev x) with buf := rest.map (·.2) } := by
                rw [hsvf, hsd, hbs]; rfl
              refine ⟨⟨?_, by show (List.set _ _ _).length = _; rw [List.length_set]; exact hlen⟩, ?_⟩
              · unfold InvW; rw [hsvf']; exact hinv
              · have keyR := keyR.resolve_left (by
                  rintro ⟨_, _, hself⟩
                  have hsv := (hself hk).1
                  have hd : sdev (w1.dev x) = { sdev (w.dev x) with buf := (sdev (w.dev x)).buf ++ [p] } := by
                    have := congrArg (fun a => a.dev x) hsv
                    simp only [sv_dev] at this
                    rw [this]
                    simp [SV.setDev, SV.dev, sv, hx]
                  have h1 := congrArg SDev.buf hsd
                  have h2 := congrArg SDev.buf hd
                  rw [h2] at h1
                  have := congrArg List.length h1
                  simp at this)
                exact RouteN.of_view keyR.2.1 hsvf' htopo hparts hpcf
          have hpc1 : pcv w1 = pcv w := by
            have := pcv_tryGive w (w.sortedDown x) p; rw [hb] at this; exact this
          have hstf : st ((w1.modDev x (fun d => { d with level := d.level - w.leafCount p, buf := d.buf.drop 1 })).addRec
              (.level x (w1.modDev x (fun d => { d with level := d.level - w.leafCount p, buf := d.buf.drop 1 })).now
                ((w1.modDev x (fun d => { d with level := d.level - w.leafCount p, buf := d.buf.drop 1 })).dev x).level)) =
              st w := by
            rw [st_addRec, st_setBuf, hst]
          apply ih
          · exact hfin.1.1.of_sv (sv_addRec ..)
          · exact hfin.2.of_frame_st (sv_addRec ..) (st_addRec ..) rfl (pcv_addRec ..)
          · exact fun hn => (hnb hn).of_st hstf
          · exact fun hn => ⟨(hnc hn).1.of_st hstf, (hnc hn).2.of_pcv (by
              rw [pcv_addRec]
              refine Eq.trans (pcv_modDev_same _ _ _ ?_) hpc1
              intro _; rfl)⟩
          · rw [kind_of_st hstf]; exact hk
          · exact hg.of_st hstf hfin.1.2

/-! ### `passPart`, `failDev`, `initDev` -/

theorem route_passPart_source (w : World) (x : Nat) (hI : InvW w) (hR : RouteN nb nc w)
    (hnb : nb → NoBatcher w) (hnc : nc → NoBatcher w ∧ NoCb w) (hg : GiveOK w x)
    (hk : (w.dev x).kind = .source) : RouteN nb nc (w.passPart x) := by
  have i1 := inv_passHandler w x hI (by rw [hk]; decide) hg
  have h1 := route_passHandler w x hI hR hnb hnc (by rw [hk]; decide) hg
  have hnc1 : nc → NoBatcher (w.passHandler x) ∧ NoCb (w.passHandler x) :=
    fun hn => ⟨(hnc hn).1.of_st (st_passHandler w x), (hnc hn).2.of_pcv (pcv_passHandler w x)⟩
  unfold World.passPart
  simp only [hk]
  repeat' split
  all_goals first
    | exact hR
    | exact h1
    | (refine route_scheduleFinish _ x ?_ ?_ ?_
       · refine i1.of_sv ?_
         rw [sv_addRec, sv_modDev_same]
         intro _; rfl
       · refine h1.of_frame ?_ ?_ ?_ ?_
         · rw [sv_addRec, sv_modDev_same]
           intro _; rfl
         · apply topo_of_tv
           rw [tv_of_st (st_addRec ..)]
           unfold World.modDev
           rw [tdevE_setDev]
           rfl
         · rfl
         · rw [pcv_addRec, pcv_modDev_same]
           intro _; rfl
       · intro hn
         refine ⟨(hnc1 hn).1.of_tv ?_, (hnc1 hn).2.of_pcv ?_⟩
         · rw [tv_of_st (st_addRec ..)]
           unfold World.modDev
           rw [tdevE_setDev]
           rfl
         · rw [pcv_addRec, pcv_modDev_same]
           intro _; rfl)

theorem route_passPart_buffer (w : World) (x : Nat) (hI : InvW w) (hR : RouteN nb nc w)
    (hnb : nb → NoBatcher w) (hnc : nc → NoBatcher w ∧ NoCb w) (hg : GiveOK w x)
    (hk : (w.dev x).kind = .buffer) : RouteN nb nc (w.passPart x) := by
  unfold World.passPart
  simp only [hk]
  have h1 := route_bufferLoop ((w.dev x).buf.length + 1) w x hI hR hnb hnc hk hg
  refine h1.of_frame_st ?_ ?_ ?_ ?_
  · rw [sv_notify]
    split
    · rfl
    · split
      · rw [sv_schedulePass]
      · rw [sv_setDev_same]; rfl
  · rw [st_notify]
    split
    · rfl
    · split
      · rw [st_schedulePass]
      · rw [st_setDev_same]; rfl
  · rw [notify_parts]
    split
    · rfl
    · split
      · rw [schedulePass_parts]
      · rfl
  · rw [pcv_notify]
    split
    · rfl
    · split
      · rw [pcv_schedulePass]
      · rw [pcv_setDev_same]; rfl

theorem route_passPart_batcher (w : World) (x : Nat) (hI : InvW w) (hR : RouteN nb nc w)
    (hnb : nb → NoBatcher w) (hnc : nc → NoBatcher w ∧ NoCb w) (hg : GiveOK w x)
    (hk : (w.dev x).kind = .batcher) : RouteN nb nc (w.passPart x) := by
  unfold World.passPart
  simp only [hk]
  have i1 := inv_passHandler w x hI (by rw [hk]; decide) hg
  have h1 := route_passHandler w x hI hR hnb hnc (by rw [hk]; decide) hg
  split
  · exact route_tryMove _ x i1 h1 (fun hn => (hnb hn).of_st (st_passHandler w x))
      (fun hn => ⟨(hnc hn).1.of_st (st_passHandler w x), (hnc hn).2.of_pcv (pcv_passHandler w x)⟩)
  · exact h1

theorem route_passPart (w : World) (x : Nat) (hI : InvW w) (hR : RouteN nb nc w)
    (hnb : nb → NoBatcher w) (hnc : nc → NoBatcher w ∧ NoCb w) (hg : GiveOK w x) :
    RouteN nb nc (w.passPart x) := by
  cases hk : (w.dev x).kind
  case source => exact route_passPart_source w x hI hR hnb hnc hg hk
  case buffer => exact route_passPart_buffer w x hI hR hnb hnc hg hk
  case batcher => exact route_passPart_batcher w x hI hR hnb hnc hg hk
  case sink => unfold World.passPart; simp only [hk]; exact hR
  all_goals
    unfold World.passPart
    simp only [hk]
    exact route_passHandler w x hI hR hnb hnc (by rw [hk]; decide) hg

theorem route_failDev (w : World) (x : Nat) (hR : RouteN nb nc w) : RouteN nb nc (w.failDev x) := by
  unfold RouteN at hR ⊢
  have ht : topo (w.failDev x) = topo w := topo_of_st (st_failDev w x)
  have hparts : (w.failDev x).parts = w.parts := by
    unfold World.failDev
    simp only []
    rw [show ∀ (w : World) (x : Nat) (f : Bool) (l : Option Nat), (w.shutdownDev x f l).parts = w.parts from
      fun w x f l => by unfold World.shutdownDev; dsimp only; repeat' split
                        all_goals simp [foldl_preserve World.parts _ _ _ (fun w k => addRes_parts w _)]]
    rw [addRec_parts, releaseReserved_parts, modDev_parts]
    split <;> rfl
  have e1 : hiOf (w.failDev x) = hiOf w := by funext q; unfold hiOf; rw [part_congr hparts]
  have e2 : skOf (w.failDev x) = skOf w := by funext q; unfold skOf; rw [part_congr hparts]
  rw [ht, e1, e2, accOf_congr hparts (pcv_failDev w x)]
  -- the slot view: the input slot of `x` is emptied
  have hsv : sv (w.failDev x) = { sv w with
      devs := (sv w).devs.set x { sdev (w.dev x) with part := none },
      lost := (sv (w.failDev x)).lost } := by
    unfold World.failDev
    simp only []
    rw [sv_shutdownDev, sv_addRec, sv_releaseReserved]
    unfold World.modDev
    rw [sv_setDev]
    split <;> rfl
  rw [hsv]
  refine hR.sub rfl ?_
  intro z d q h0 hq
  simp only at h0
  by_cases hxz : x = z
  · subst hxz
    by_cases hxl : x < (sv w).devs.length
    · rw [List.getElem?_set_self hxl] at h0
      cases h0
      have hx' : x < w.devs.length := by simpa [sv] using hxl
      exact ⟨_, sv_get w x hx', held_part_none _ q hq⟩
    · rw [List.getElem?_eq_none (by rw [List.length_set]; exact Nat.le_of_not_lt hxl)] at h0
      cases h0
  · rw [List.getElem?_set_ne hxz] at h0
    exact ⟨d, h0, hq⟩

end C08W
end SimProc
