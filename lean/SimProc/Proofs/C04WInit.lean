/-
C04 (general serial line) — the constructed and initialised world of a line in closed form, and the
invariant at the start of the run.
-/
import SimProc.Proofs.C04WLoop

set_option linter.unusedSimpArgs false
set_option linter.unusedVariables false

namespace SimProc
namespace C04W
open World C04
open SS (Key key cls)


/-! ### lists given by a function on indices -/

theorem getD_map_range {α : Type} [Inhabited α] (g : Nat → α) {m j : Nat} (h : j < m) :
    ((List.range m).map g).getD j default = g j := by
  simp [List.getD_eq_getElem?_getD, h]

theorem set_map_range {α : Type} (g : Nat → α) (m j : Nat) (v : α) :
    ((List.range m).map g).set j v = (List.range m).map (fun i => if i = j then v else g i) := by
  apply List.ext_getElem?
  intro i
  simp only [List.getElem?_set, List.getElem?_map, List.getElem?_range, List.length_map, List.length_range]
  by_cases hi : i < m
  · by_cases hij : j = i
    · subst hij; simp [hi]
    · have : ¬ i = j := fun h => hij h.symm
      simp [hi, hij, this]
  · by_cases hij : j = i
    · subst hij; simp [hi]
    · simp [hi, hij]

theorem map_range_congr {α : Type} {g g' : Nat → α} {m : Nat} (h : ∀ i, i < m → g i = g' i) :
    (List.range m).map g = (List.range m).map g' := by
  apply List.map_congr_left
  intro i hi
  exact h i (List.mem_range.1 hi)

theorem map_range_succ {α : Type} (g : Nat → α) (m : Nat) :
    (List.range (m + 1)).map g = (List.range m).map g ++ [g m] := by
  rw [List.range_succ, List.map_append]; rfl

/-! ### construction of the line's world -/

/-- Device `j` as constructed (`last`: no downstream device has been added yet). -/
def cdev (L : Line) (j : Nat) (last : Bool) : Dev :=
  { kind := kindOf L j, aid := (j : Int) + 1
    up := if j = 0 then [] else [j - 1]
    down := if last then [] else [j + 1]
    cycle := if isBuf L j then 0 else (stn L j).c
    delay := if isBuf L j then (stn L j).c else 0
    cap := if isBuf L j then (stn L j).cap else none
    maxParts := if j = 0 then L.budget.map Int.ofNat else none }

/-- The world after the devices `0 … k` have been constructed. -/
def bw (P : Par) (k : Nat) : World :=
  { seed := P.seed, wmod := P.wmod
    devs := (List.range (k + 1)).map (fun j => cdev P.L j (j == k))
    assets := (List.range (k + 1)).map AssetRef.dev }

/-- The constructor argument of device `j ≥ 1`. -/
def specDev (L : Line) (j : Nat) : Dev :=
  if j = L.n then { kind := .sink, up := [L.mids.length], cycle := L.cn }
  else (L.mids.getD (j - 1) default).toDev (j - 1)

theorem stn_mid (L : Line) {j : Nat} (h1 : 1 ≤ j) (hj : j < L.n) : stn L j = L.mids.getD (j - 1) default := by
  obtain ⟨i, rfl⟩ : ∃ i, j = i + 1 := ⟨j - 1, by omega⟩
  have hi : i < L.mids.length := by unfold Line.n at hj; omega
  simp [stn, Line.stations, List.getD_eq_getElem?_getD, List.getElem?_append_left hi]

/-- The constructed form of the argument. -/
theorem specDev_eq (L : Line) {j : Nat} (h1 : 1 ≤ j) (hj : j ≤ L.n) :
    { specDev L j with aid := (j : Int) + 1, up := [] } = { cdev L j true with up := [] } ∧
    (specDev L j).up = [j - 1] := by
  unfold specDev cdev
  by_cases hn : j = L.n
  · subst hn
    rw [if_pos rfl]
    have hb : isBuf L L.n = false := by unfold isBuf; rw [kindOf_n]; rfl
    have h0 : ¬ L.n = 0 := by omega
    have hlen : L.mids.length = L.n - 1 := by unfold Line.n; omega
    simp [kindOf_n, hb, h0, stn_n, hlen]
  · rw [if_neg hn]
    have hlt : j < L.n := by omega
    have h0 : ¬ j = 0 := by omega
    have hs := stn_mid L h1 hlt
    rw [← hs]
    unfold Station.toDev isBuf kindOf
    simp only [h0, hn, if_false]
    cases (stn L j).kind <;> simp

/-- A world under construction whose devices are given by a function. -/
def fw (P : Par) (m : Nat) (g : Nat → Dev) : World :=
  { seed := P.seed, wmod := P.wmod
    devs := (List.range m).map g
    assets := (List.range m).map AssetRef.dev }

theorem fw_dev (P : Par) (m : Nat) (g : Nat → Dev) {j : Nat} (h : j < m) : (fw P m g).dev j = g j :=
  getD_map_range g h

theorem fw_modDev (P : Par) (m : Nat) (g : Nat → Dev) {j : Nat} (h : j < m) (f : Dev → Dev) :
    (fw P m g).modDev j f = fw P m (fun i => if i = j then f (g j) else g i) := by
  unfold World.modDev World.setDev
  rw [fw_dev P m g h]
  unfold fw
  simp only [set_map_range]

theorem fw_congr (P : Par) (m : Nat) {g g' : Nat → Dev} (h : ∀ i, i < m → g i = g' i) :
    fw P m g = fw P m g' := by
  unfold fw; rw [map_range_congr h]

theorem bw_eq_fw (P : Par) (k : Nat) : bw P k = fw P (k + 1) (fun j => cdev P.L j (j == k)) := rfl

theorem addDev_unstarted (w : World) (d : Dev) (hk : d.kind ≠ .gpath)
    (h : (({ w with devs := w.devs ++ [{ ({ d with aid := w.assets.length + 1 } : Dev) with up := [] }],
                    assets := w.assets ++ [AssetRef.dev w.devs.length] } : World).rewire w.devs.length
            d.up).started = false) :
    w.addDev d =
      ({ w with devs := w.devs ++ [{ ({ d with aid := w.assets.length + 1 } : Dev) with up := [] }],
                assets := w.assets ++ [AssetRef.dev w.devs.length] } : World).rewire w.devs.length d.up := by
  have hk' : (d.kind == Kind.gpath) = false := by
    cases hd : d.kind <;> simp_all
  unfold World.addDev
  simp only [hk', Bool.false_eq_true, if_false]
  rw [if_neg]
  rw [h]; simp

/-- `set_upstream([u])` of a freshly constructed device `x`. -/
theorem rewire_fw (P : Par) (m : Nat) (g : Nat → Dev) {x u : Nat} (hx : x < m) (hu : u < m) (hne : u ≠ x)
    (h1 : (g x).since = none) (h2 : (g x).up = []) (h3 : (g u).down = []) (h4 : (g u).inited = false) :
    (fw P m g).rewire x [u] =
      fw P m (fun i => if i = u then { g u with down := [x] }
                       else if i = x then { g x with up := [u] } else g i) := by
  have hne' : ¬ x = u := fun h => hne h.symm
  unfold World.rewire
  simp only [fw_dev P m g hx, h1, h2, Option.isSome_none, Bool.and_false, Bool.false_and, Bool.false_eq_true,
    if_false, List.foldl_nil, fw_modDev P m g hx, List.foldl_cons]
  simp only [fw_dev, hu, hne, if_false, h3, List.contains_nil, Bool.false_eq_true, List.nil_append,
    fw_modDev, if_true, h4]

/-- Adding the device `k+1`. -/
theorem addDev_bw (P : Par) {k : Nat} (hk : k < P.L.n) :
    (bw P k).addDev (specDev P.L (k + 1)) = bw P (k + 1) := by
  obtain ⟨hspec, hup⟩ := specDev_eq P.L (by omega : 1 ≤ k + 1) (by omega : k + 1 ≤ P.L.n)
  have hkind : (specDev P.L (k + 1)).kind ≠ .gpath := by
    have : ({ specDev P.L (k + 1) with aid := ((k + 1 : Nat) : Int) + 1, up := [] } : Dev).kind =
        ({ cdev P.L (k + 1) true with up := [] } : Dev).kind := by rw [hspec]
    have h2 : (specDev P.L (k + 1)).kind = kindOf P.L (k + 1) := this
    rw [h2]
    rcases kindOf_cases P.L (k + 1) with h | h | h | h | h <;> rw [h] <;> simp
  rw [bw_eq_fw, bw_eq_fw]
  have hlen : (fw P (k + 1) (fun j => cdev P.L j (j == k))).devs.length = k + 1 := by simp [fw]
  have hlen2 : (fw P (k + 1) (fun j => cdev P.L j (j == k))).assets.length = k + 1 := by simp [fw]
  -- the world with the new device appended
  have happ : ({ fw P (k + 1) (fun j => cdev P.L j (j == k)) with
      devs := (fw P (k + 1) (fun j => cdev P.L j (j == k))).devs ++
        [{ ({ specDev P.L (k + 1) with
              aid := (fw P (k + 1) (fun j => cdev P.L j (j == k))).assets.length + 1 } : Dev) with up := [] }]
      assets := (fw P (k + 1) (fun j => cdev P.L j (j == k))).assets ++
        [AssetRef.dev (fw P (k + 1) (fun j => cdev P.L j (j == k))).devs.length] } : World) =
      fw P (k + 2) (fun j => if j = k + 1 then { cdev P.L (k + 1) true with up := [] }
        else cdev P.L j (j == k)) := by
    rw [hlen, hlen2]
    unfold fw
    simp only [map_range_succ (m := k + 1), if_true]
    congr 1
    · congr 1
      · exact map_range_congr (fun i hi => by simp [Nat.ne_of_lt hi])
      · rw [← hspec]
  have hrw : (fw P (k + 2) (fun j => if j = k + 1 then { cdev P.L (k + 1) true with up := [] }
        else cdev P.L j (j == k))).rewire (k + 1) [k] = fw P (k + 2) (fun j => cdev P.L j (j == k + 1)) := by
    rw [rewire_fw P (k + 2) _ (by omega : k + 1 < k + 2) (by omega : k < k + 2) (by omega)
      (by simp [cdev]) (by simp) (by simp [cdev]) (by simp [cdev])]
    apply fw_congr
    intro i hi
    by_cases h1 : i = k
    · subst h1; simp [cdev]
    · by_cases h2 : i = k + 1
      · subst h2; simp [cdev]
      · simp [h1, h2, cdev]
  have hup' : (specDev P.L (k + 1)).up = [k] := by rw [hup]; simp
  rw [addDev_unstarted _ _ hkind]
  · rw [happ, hlen, hup', hrw]
  · rw [happ, hlen, hup', hrw]; rfl

theorem addMids_bw (P : Par) (k : Nat) (rest : List Station) (hr : rest = P.L.mids.drop k)
    (hk : k ≤ P.L.mids.length) :
    addMids (bw P k) k rest = bw P P.L.mids.length := by
  induction rest generalizing k with
  | nil =>
    have : P.L.mids.length ≤ k := by
      have := congrArg List.length hr
      simp at this; omega
    have : k = P.L.mids.length := by omega
    subst this
    rfl
  | cons st rest ih =>
    have hlt : k < P.L.mids.length := by
      have := congrArg List.length hr
      simp at this; omega
    have hst : st = P.L.mids.getD k default ∧ rest = P.L.mids.drop (k + 1) := by
      have h1 : P.L.mids.drop k = P.L.mids[k] :: P.L.mids.drop (k + 1) := List.drop_eq_getElem_cons hlt
      rw [h1] at hr
      obtain ⟨a, b⟩ := List.cons.inj hr
      exact ⟨by rw [a]; simp [List.getD_eq_getElem?_getD, hlt], b⟩
    unfold addMids
    have hspec : specDev P.L (k + 1) = st.toDev k := by
      unfold specDev
      rw [if_neg (by unfold Line.n; omega), hst.1]
      rfl
    have : (bw P k).addAsset (.dev (st.toDev k)) = bw P (k + 1) := by
      show (bw P k).addDev _ = _
      rw [← hspec]
      exact addDev_bw P (by unfold Line.n; omega)
    rw [this]
    exact ih (k + 1) hst.2 (by omega)

theorem toWorld_eq (P : Par) : P.L.toWorld P.seed P.wmod = bw P P.L.n := by
  unfold Line.toWorld
  have h0 : ({ seed := P.seed, wmod := P.wmod } : World).addAsset
      (.dev { kind := .source, cycle := P.L.c0, maxParts := P.L.budget.map Int.ofNat }) = bw P 0 := by
    have hb : isBuf P.L 0 = false := by unfold isBuf; rw [kindOf_zero]; rfl
    simp [World.addAsset, World.addDev, World.rewire, bw, cdev, kindOf_zero, hb, stn_zero, World.dev,
      World.modDev, World.setDev, isHandlerLike]
  simp only [h0]
  rw [addMids_bw P 0 P.L.mids (by simp) (Nat.zero_le _)]
  have hspec : specDev P.L (P.L.mids.length + 1) =
      { kind := .sink, up := [P.L.mids.length], cycle := P.L.cn } := by
    unfold specDev
    rw [if_pos (by unfold Line.n; rfl)]
  show (bw P P.L.mids.length).addDev _ = _
  rw [← hspec]
  exact addDev_bw P (by unfold Line.n; omega)


/-! ### initialisation -/

/-- `initialize(env)` of a device other than the source (at time 0). -/
def initD (d : Dev) : Dev :=
  match d.kind with
  | .processor => { d with inited := true, val := d.val.reset, since := some 0, lastRestore := some 0 }
  | _ => { d with inited := true, val := d.val.reset, since := some 0 }

theorem setD_comm (s : S) {i j : Nat} (h : i ≠ j) (a b : Dev) :
    setD (setD s i a) j b = setD (setD s j b) i a := by
  simp [setD, List.set_comm _ _ h]

theorem setD_push (P : Par) (s : S) (t a : Int) (act : Action) (prio : Int) (j : Nat) (d : Dev) :
    setD (push P s t a act prio) j d = push P (setD s j d) t a act prio := rfl

/-- The state after the source has created its next part (before the hand-over is requested). -/
def genG (s : S) : S :=
  { setD s 0 { dv s 0 with output := some s.parts.length } with
    parts := SS.histAdd (s.parts ++ [{ quality := 1, value := 0 }]) s.parts.length 0
    gen := s.gen ++ [s.parts.length] }

theorem genS_eq (P : Par) (s : S) : genS P s = passS P (genG s) 0 0 := rfl

theorem setD_genG (s : S) {j : Nat} (hj : j ≠ 0) (d : Dev) : setD (genG s) j d = genG (setD s j d) := by
  have hd0 : dv (setD s j d) 0 = dv s 0 := dv_setD_ne s j 0 d (Ne.symm hj)
  unfold genG
  rw [hd0]
  cases s with
  | mk now evs term uid recs parts gen del ds started =>
    simp only [setD, S.mk.injEq, true_and, and_true]
    exact List.set_comm _ _ (Ne.symm hj)

theorem setD_passS (P : Par) (s : S) {j : Nat} (hj : j ≠ 0) (d : Dev) (off : Int) :
    setD (passS P s 0 off) j d = passS P (setD s j d) 0 off := by
  have hd0 : dv (setD s j d) 0 = dv s 0 := dv_setD_ne s j 0 d (Ne.symm hj)
  unfold passS
  rw [hd0, setD_push, setD_comm _ (Ne.symm hj)]
  rfl

theorem setD_schedFin0S (P : Par) (s : S) {j : Nat} (hj : j ≠ 0) (d : Dev) :
    setD (schedFin0S P s) j d = schedFin0S P (setD s j d) := by
  have hd0 : dv (setD s j d) 0 = dv s 0 := dv_setD_ne s j 0 d (Ne.symm hj)
  unfold schedFin0S
  rw [hd0]
  split
  · rw [genS_eq, genS_eq, setD_passS P _ hj, setD_genG _ hj]
  · rfl

theorem dv_schedFin0S_ne (P : Par) (s : S) {j : Nat} (hj : j ≠ 0) : dv (schedFin0S P s) j = dv s j := by
  unfold schedFin0S
  split
  · rw [genS_eq, dv_passS_ne _ _ _ _ _ hj]
    unfold genG
    show dv (setD s 0 _) j = _
    exact dv_setD_ne _ _ _ _ hj
  · rfl

@[simp] theorem schedFin0S_len (P : Par) (s : S) : (schedFin0S P s).ds.length = s.ds.length := by
  unfold schedFin0S
  split
  · rw [genS_eq, passS_len]; simp [genG]
  · rfl

@[simp] theorem schedFin0S_now (P : Par) (s : S) : (schedFin0S P s).now = s.now := by
  unfold schedFin0S
  split <;> rfl

/-- `initialize(env)` of a handler, processor, buffer or sink. -/
theorem W_initDev_mid (P : Par) (s : S) (j : Nat) (hj : j < s.ds.length) (h0 : s.now = 0)
    (hk : (dv s j).kind = .handler ∨ (dv s j).kind = .processor ∨ (dv s j).kind = .buffer ∨
      (dv s j).kind = .sink) :
    (W P s).initDev j = W P (setD s j (initD (dv s j))) := by
  unfold initDev initD setWaiting
  rcases hk with hk | hk | hk | hk <;>
    simp only [W_modDev, W_dev, dv_setD_same, hj, hk, W_setDev, setD_setD, W_now, setD_now, h0, setD_len,
      Bool.not_true, Bool.false_eq_true, if_false, Bool.and_false, if_true]

/-- `initialize(env)` of the source: its first cycle is scheduled. -/
theorem W_initDev_source (P : Par) (s : S) (hj : 0 < s.ds.length) (h0 : s.now = 0)
    (hk : (dv s 0).kind = .source) :
    (W P s).initDev 0 =
      (W P (setD s 0 { dv s 0 with inited := true, val := (dv s 0).val.reset, since := some 0 })).scheduleFinish 0 := by
  unfold initDev setWaiting
  simp only [W_modDev, W_dev, dv_setD_same, hj, hk, W_setDev, setD_setD, W_now, setD_now, h0, setD_len,
    Bool.not_true, Bool.false_eq_true, if_false, Bool.and_false, if_true]

/-- `_schedule_finish_cycle()` of the source, needing only the source's own static fields (used
while the other devices are not yet initialised). -/
theorem W_scheduleFinish_source' (P : Par) (s : S) (hL : P.L.WF) (hf : DevFacts P.L 0 (dv s 0))
    (hlt : 0 < s.ds.length) (hok : SS.PartsOK s.parts) (h0 : 0 ≤ s.now) (ho : (dv s 0).output = none) :
    (W P s).scheduleFinish 0 = W P (schedFin0S P s) := by
  have hk : (dv s 0).kind = .source := by rw [hf.kind]; exact kindOf_zero _
  have hc : 0 ≤ (dv s 0).cycle := by
    rw [hf.cycle]; unfold isBuf; rw [kindOf_zero]; exact (stn_wf hL (Nat.zero_le _)).1
  have hct : (W P s).cycleTime 0 = (dv s 0).cycle := by
    unfold cycleTime
    rw [W_dev, hk]
  have hneg : (if (dv s 0).cycle < 0 then 0 else (dv s 0).cycle) = (dv s 0).cycle := if_neg (by omega)
  unfold scheduleFinish schedFin0S
  simp only [hct, W_dev, hf.offset, Int.add_zero, W_setDev, dev_offset_self _ hf.offset, setD_self,
    hneg, W_now]
  split
  · exact W_finishCycle_source P s hk ho hf.genBatch hf.genQuality hf.genValue hok h0 hlt
  · exact W_schedLib P s _ _ _ _ (by omega)

/-- Device `j` after construction and initialisation (before the source's first cycle). -/
def idev (L : Line) (j : Nat) : Dev :=
  { kind := kindOf L j, aid := (j : Int) + 1
    up := if j = 0 then [] else [j - 1]
    down := if j = L.n then [] else [j + 1]
    inited := true
    cycle := if isBuf L j then 0 else (stn L j).c
    delay := if isBuf L j then (stn L j).c else 0
    cap := if isBuf L j then (stn L j).cap else none
    maxParts := if j = 0 then L.budget.map Int.ofNat else none
    since := some 0 }

theorem sview_idev (L : Line) (j : Nat) : sview (idev L j) = refSV L j := rfl

theorem initD_cdev (L : Line) {j : Nat} (h1 : 1 ≤ j) (hj : j ≤ L.n) : initD (cdev L j (j == L.n)) = idev L j := by
  unfold initD cdev idev
  have : (j == L.n) = decide (j = L.n) := rfl
  rcases kindOf_cases L j with h | h | h | h | h
  · have := (kindOf_source_iff L j hj).1 h; omega
  all_goals
    simp only [h]
    by_cases hn : j = L.n <;> simp [hn, AssetVal.reset]

/-- The state after the devices `0 … k` have been initialised (the source's first cycle apart). -/
def sI (P : Par) (k : Nat) : S :=
  { ds := (List.range (P.L.n + 1)).map (fun j => if j ≤ k then idev P.L j else cdev P.L j (j == P.L.n))
    started := false }

theorem dv_sI (P : Par) (k : Nat) {j : Nat} (hj : j ≤ P.L.n) :
    dv (sI P k) j = if j ≤ k then idev P.L j else cdev P.L j (j == P.L.n) :=
  getD_map_range _ (by omega)

theorem setD_sI (P : Par) (k : Nat) (hk : k < P.L.n) :
    setD (sI P k) (k + 1) (initD (dv (sI P k) (k + 1))) = sI P (k + 1) := by
  rw [dv_sI P k (by omega), if_neg (by omega), initD_cdev P.L (by omega) (by omega)]
  unfold setD sI
  simp only [set_map_range]
  congr 1
  apply map_range_congr
  intro i hi
  by_cases h : i = k + 1
  · subst h; simp
  · by_cases h2 : i ≤ k
    · have : i ≤ k + 1 := by omega
      simp [h, h2, this]
    · have : ¬ i ≤ k + 1 := by omega
      simp [h, h2, this]

/-- The constructed world, in the form `W P s` (not yet started). -/
def sC (P : Par) : S :=
  { ds := (List.range (P.L.n + 1)).map (fun j => cdev P.L j (j == P.L.n)), started := false }

theorem setD_sC (P : Par) :
    setD (sC P) 0 { dv (sC P) 0 with inited := true, val := (dv (sC P) 0).val.reset, since := some 0 } =
      sI P 0 := by
  have hn := n_pos P.L
  have hd : dv (sC P) 0 = cdev P.L 0 (0 == P.L.n) := getD_map_range _ (by omega)
  rw [hd]
  unfold setD sC sI
  simp only [set_map_range]
  congr 1
  apply map_range_congr
  intro i hi
  by_cases h : i = 0
  · subst h
    have : ¬ (0 = P.L.n) := by omega
    simp [cdev, idev, AssetVal.reset, this]
  · have : ¬ i ≤ 0 := by omega
    simp [h, this]

theorem init_fold (P : Par) (hL : P.L.WF) (k : Nat) (hk : k ≤ P.L.n) :
    ((List.range (k + 1)).map AssetRef.dev).foldl (fun w a => w.initAsset a) (W P (sC P)) =
      W P (schedFin0S P (sI P k)) := by
  have hn := n_pos P.L
  induction k with
  | zero =>
    show (W P (sC P)).initDev 0 = _
    have hlen : 0 < (sC P).ds.length := by simp [sC]
    have hd : dv (sC P) 0 = cdev P.L 0 (0 == P.L.n) := getD_map_range _ (by omega)
    rw [W_initDev_source P (sC P) hlen rfl (by rw [hd]; simp [cdev, kindOf_zero]), setD_sC]
    have hd0 : dv (sI P 0) 0 = idev P.L 0 := by rw [dv_sI P 0 (by omega)]; simp
    refine W_scheduleFinish_source' P _ hL ?_ (by simp [sI]) SS.PartsOK_nil (Int.le_refl _) ?_
    · rw [hd0]; exact StatDev.facts (sview_idev P.L 0)
    · rw [hd0]; rfl
  | succ k ih =>
    rw [List.range_succ, List.map_append, List.foldl_append, ih (by omega)]
    show (W P (schedFin0S P (sI P k))).initDev (k + 1) = _
    have hne : k + 1 ≠ 0 := by omega
    have hd : dv (schedFin0S P (sI P k)) (k + 1) = cdev P.L (k + 1) (k + 1 == P.L.n) := by
      rw [dv_schedFin0S_ne P _ hne, dv_sI P k (by omega), if_neg (by omega)]
    rw [W_initDev_mid P _ (k + 1) (by simp [sI]; omega) (by simp [sI]) ?_, setD_schedFin0S P _ hne,
      dv_schedFin0S_ne P _ hne, setD_sI P k (by omega)]
    rw [hd]
    show kindOf P.L (k + 1) = _ ∨ _
    rcases kindOf_cases P.L (k + 1) with h | h | h | h | h
    · have := (kindOf_source_iff P.L (k + 1) hk).1 h; omega
    · exact Or.inl h
    · exact Or.inr (Or.inl h)
    · exact Or.inr (Or.inr (Or.inl h))
    · exact Or.inr (Or.inr (Or.inr h))

/-- The initialised state before the source's first cycle is scheduled. -/
def sInit (P : Par) : S :=
  { ds := (List.range (P.L.n + 1)).map (idev P.L) }

theorem schedFin0S_started (P : Par) (s : S) (b : Bool) :
    { schedFin0S P s with started := b } = schedFin0S P { s with started := b } := by
  unfold schedFin0S
  show _ = if (dv s 0).cycle ≤ 0 then _ else _
  split <;> rfl

/-- **The initialised world of a line**, in closed form. -/
theorem W_init (P : Par) (hL : P.L.WF) :
    (P.L.toWorld P.seed P.wmod).simulateInit = W P (schedFin0S P (sInit P)) := by
  rw [toWorld_eq]
  have h1 : (bw P P.L.n).simulateInit =
      { ((List.range (P.L.n + 1)).map AssetRef.dev).foldl (fun w a => w.initAsset a) (W P (sC P)) with
        started := true } := by
    simp [World.simulateInit, bw, RM.init, World.rmEffects, W, sC]
  rw [h1, init_fold P hL P.L.n (Nat.le_refl _)]
  show W P { schedFin0S P (sI P P.L.n) with started := true } = _
  rw [schedFin0S_started]
  congr 2
  unfold sI sInit
  simp only [S.mk.injEq, true_and, and_true]
  apply map_range_congr
  intro i hi
  rw [if_pos (by omega)]


/-! ### the invariant at the start of the run -/

theorem dv_sInit (P : Par) {j : Nat} (hj : j ≤ P.L.n) : dv (sInit P) j = idev P.L j :=
  getD_map_range _ (by omega)

theorem good_sInit (P : Par) : Good P (sInit P) := by
  refine ⟨⟨by simp [sInit], fun j hj => ?_⟩, SS.PartsOK_nil, Int.le_refl _⟩
  show StatDev P.L j (dv (sInit P) j)
  rw [dv_sInit P hj]
  exact sview_idev P.L j

/-- Initial counts and modes. -/
def x0 : Nat → Nat := fun _ => 0
def m0 (P : Par) : Nat → Mode :=
  fun j => if j = 0 then (if 0 < (stn P.L 0).c then .proc else .ready 0) else .idle

/-- The invariant of station `j` after initialisation. -/
theorem di_init (P : Par) (hL : P.L.WF) {j : Nat} (hj : j ≤ P.L.n) :
    DI P (schedFin0S P (sInit P)) j 0 0 0 (m0 P j) := by
  have hG := good_sInit P
  by_cases h0 : j = 0
  · subst h0
    have := restart_spec (P := P) (s := sInit P) hG hL (k := 0) (xn := 0) rfl
      (by rw [dv_sInit P hj]; rfl) (by rw [dv_sInit P hj]; rfl) (by rw [dv_sInit P hj]; rfl)
      (by rw [dv_sInit P hj]; rfl) (by simp; rfl) rfl
    have hnow : (sInit P).now = 0 := rfl
    rw [hnow] at this
    simpa [m0] using this
  · have hm : m0 P j = .idle := by simp [m0, h0]
    rw [hm]
    have F := Foot.schedFin0S hG hL
    have hd : dv (schedFin0S P (sInit P)) j = idev P.L j := by
      rw [F.dvj j (by simpa using h0), dv_sInit P hj]
    refine ⟨by rw [F.kj j (by simpa using h0)]; rfl, ?_, fun _ => by rw [F.rt j (by simpa using h0)]; rfl,
      fun h => absurd h h0⟩
    rw [hd, schedFin0S_now]
    refine { past := (by simp; exact Int.le_refl _), le := fun _ => Nat.le_refl _,
             cap := fun _ K _ => Nat.zero_le _, idle := fun _ => ⟨by omega, rfl⟩,
             nonidle := fun _ h => absurd rfl h, procm := (by intro h; cases h),
             readym := (by intro t h; cases h), blockedm := (by intro h; cases h),
             exhm := (by intro h; cases h), wds := (by simp [dyn, idev]), slots := ?_ }
    unfold Slots
    rcases kindOf_cases P.L j with h | h | h | h | h <;> rw [h] <;> simp [dyn, idev]
    have := (kindOf_source_iff P.L j hj).1 h
    omega

/-- The state when the run begins. -/
def sStart (P : Par) (T : Int) : S :=
  let s0 := schedFin0S P (sInit P)
  { s0 with term := false,
            evs := insort (mkEv P s0.uid (s0.now + T) (-1) .terminate pTerminate) s0.evs,
            uid := s0.uid + 1 }

theorem init_inv (P : Par) (hL : P.L.WF) (T : Int) (hT : 0 ≤ T) : Inv P T (sStart P T) x0 (m0 P) := by
  have hG := good_sInit P
  have F := Foot.schedFin0S hG hL
  have hG0 := hG.schedFin0S
  have hnow : (schedFin0S P (sInit P)).now = 0 := by rw [schedFin0S_now]; rfl
  have hsorted : SortedEv (schedFin0S P (sInit P)).evs := F.sorted List.Pairwise.nil
  have hfut : ∀ e ∈ (schedFin0S P (sInit P)).evs, (0 : Int) ≤ e.time :=
    fun e he => F.fut (fun e he => by simp [sInit] at he) e he
  have hcov : ∀ e ∈ (schedFin0S P (sInit P)).evs, Cov P.L e :=
    F.cover (fun e he => by simp [sInit] at he)
  have hkT : cls (-1) (schedFin0S P (sInit P)).evs = [] := by rw [F.kT]; rfl
  refine { good := ⟨hG0.stat, hG0.pok, hG0.now0⟩, sorted := insort_sorted hsorted, fut := ?_, cover := ?_,
           nowT := ?_, term := rfl, kT := ?_, di := ?_, bud := fun B _ => Nat.zero_le B }
  · intro e he
    show (schedFin0S P (sInit P)).now ≤ e.time
    rw [hnow]
    rcases insort_mem.1 he with rfl | h
    · show (0 : Int) ≤ (schedFin0S P (sInit P)).now + T
      rw [hnow]; omega
    · exact hfut e h
  · intro e he
    rcases insort_mem.1 he with rfl | h
    · exact Or.inl rfl
    · exact hcov e h
  · show (schedFin0S P (sInit P)).now ≤ T
    rw [hnow]; exact hT
  · show cls (-1) (insort _ _) = _
    rw [SS.cls_insort_eq (-1) _ _ rfl hkT, key_mkEv, hnow, Int.zero_add]
    rfl
  · intro j hj
    have d := di_init P hL hj
    have hx : xin x0 j = 0 := by unfold xin x0; split <;> rfl
    rw [hx]
    refine ⟨?_, d.pd, d.ent, d.plen⟩
    show cls ((j : Int) + 1) (insort _ _) = _
    rw [SS.cls_insort_ne _ _ _ (by simp [mkEv]; omega)]
    exact d.keys

/-- If the run cannot begin (negative horizon), nothing has happened. -/
theorem init_done (P : Par) (hL : P.L.WF) (T : Int) (hT : T < 0) : Done P T (schedFin0S P (sInit P)) := by
  have hG := good_sInit P
  have F := Foot.schedFin0S hG hL
  refine ⟨by rw [F.term]; rfl, x0, ?_, ?_, fun _ _ => Nat.zero_le _, fun j _ i hi => absurd hi (Nat.not_lt_zero _),
    fun _ _ B _ => Nat.zero_le B, fun j hj => Or.inr ?_⟩
  · intro j h1 hj
    rw [F.rt j (by simp; omega)]
    rfl
  · have hn := n_pos P.L
    rw [F.dvj _ (by simp; omega), dv_sInit P (Nat.le_refl _)]
    rfl
  · have := dI_nonneg P.L hL j (x0 j + 1)
    omega

/-- **The run of a serial line ends in a `Done` world** (if it completes). -/
theorem run_done (P : Par) (hL : P.L.WF) (T : Int) (f : Nat)
    (he : (runLine P.L P.seed P.wmod T f).error = none) :
    ∃ s', runLine P.L P.seed P.wmod T f = W P s' ∧ Done P T s' := by
  unfold runLine at he ⊢
  rw [W_init P hL] at he ⊢
  by_cases hT : 0 ≤ T
  · rw [W_runBegin_ok P _ T hT] at he ⊢
    exact run_loop hL f (sStart P T) (Or.inl ⟨_, _, init_inv P hL T hT⟩) he
  · rw [W_runBegin_neg P _ T (by omega)] at he ⊢
    exact run_loop hL f _ (Or.inr (init_done P hL T (by omega))) he

theorem sumTo_const (n c : Nat) : sumTo n (fun _ => c) = (n + 1) * c := by
  induction n with
  | zero => rw [sumTo_zero]; omega
  | succ n ih => rw [sumTo_succ, ih]; simp [Nat.add_mul]

/-- The measure at the start of the run. -/
theorem phi_init (P : Par) (B : Nat) : phi P B x0 (m0 P) ≤ 4 * B * (P.L.n + 1) + 2 := by
  unfold phi
  have h := sumTo_local1 (n := P.L.n) (f := fun _ => 4 * B) (g := wt B x0 (m0 P)) (a := 0) (Nat.zero_le _)
    (fun i _ hne => by simp [wt, x0, m0, hne, rank])
  rw [sumTo_const] at h
  have h0 : wt B x0 (m0 P) 0 ≤ 4 * B + 2 := by
    have := rank_le (m0 P 0)
    simp only [wt, x0]
    omega
  have : (P.L.n + 1) * (4 * B) = 4 * B * (P.L.n + 1) := Nat.mul_comm _ _
  omega

/-- **With a finite budget `B` the run of a serial line always completes**: `4 * B * (n + 1) + 4`
units of loop fuel suffice (`n + 1` = number of devices). -/
theorem run_completes (P : Par) (hL : P.L.WF) (T : Int) (f : Nat) (B : Nat) (hB : P.L.budget = some B)
    (hf : 4 * B * (P.L.n + 1) + 4 ≤ f) : (runLine P.L P.seed P.wmod T f).error = none := by
  unfold runLine
  rw [W_init P hL]
  by_cases hT : 0 ≤ T
  · rw [W_runBegin_ok P _ T hT]
    have := phi_init P B
    exact run_total hL hB f (sStart P T) _ _ (init_inv P hL T hT) (by omega)
  · rw [W_runBegin_neg P _ T (by omega)]
    have d := init_done P hL T (by omega)
    have hrun' : (W P (schedFin0S P (sInit P))).env.running = false := by
      show (!(schedFin0S P (sInit P)).evs.isEmpty && !(schedFin0S P (sInit P)).term) = false
      rw [d.term]; simp
    obtain ⟨f', rfl⟩ : ∃ f', f = f' + 1 := ⟨f - 1, by omega⟩
    have : runLoop (f' + 1) (W P (schedFin0S P (sInit P))) = W P (schedFin0S P (sInit P)) := by
      simp only [runLoop, hrun', Bool.false_eq_true, if_false]
    rw [this]
    rfl

end C04W
end SimProc
