/-
C01W — reachable worlds, histories of executed events, `run(d)` in the closed world, cancelled
events.  Everything here is a consequence of `Via` (Proofs/C01WFloor, C01WWorld) and of the
environment theorems of Props/C01 and Props/C07.
-/
import SimProc.Proofs.C01WWorld

namespace SimProc
namespace C01W
open World

/-! ### outputs of operation lists -/

/-- The events taken from the queue, in a list of outputs (in order). -/
def popped : List EnvOut → List Event
  | [] => []
  | .ran e :: os => e :: popped os
  | .skipped e :: os => e :: popped os
  | .ok :: os => popped os
  | .rejected :: os => popped os
  | .empty :: os => popped os

theorem popped_append (a b : List EnvOut) : popped (a ++ b) = popped a ++ popped b := by
  induction a with
  | nil => rfl
  | cons o os ih => cases o <;> simp [popped, ih]

theorem poppedUids_eq (os : List EnvOut) : C01.poppedUids os = (popped os).map Event.uid := by
  induction os with
  | nil => rfl
  | cons o os ih => cases o <;> simp [popped, C01.poppedUids, ih]

theorem popped_cons_nonpop {o : EnvOut} (os : List EnvOut) (h : o.isPop = false) :
    popped (o :: os) = popped os := by
  cases o <;> simp_all [popped, EnvOut.isPop]

theorem popped_lib (ar : Arith) (s : Env) (l : List EnvOp) (h : ∀ op ∈ l, LibOp op) :
    popped (s.applyAll ar l).2 = [] := by
  induction l generalizing s with
  | nil => rfl
  | cons op l ih =>
    rw [applyAll_cons_snd,
      popped_cons_nonpop _ (C01.apply_non_step ar s op (h op List.mem_cons_self).ne_step).1]
    exact ih _ (fun o ho => h o (List.mem_cons_of_mem _ ho))

theorem guarded_lib (ar : Arith) (s : Env) (l : List EnvOp) (h : ∀ op ∈ l, LibOp op) :
    C01.Guarded ar s l := by
  induction l generalizing s with
  | nil => exact True.intro
  | cons op l ih =>
    refine ⟨(h op List.mem_cons_self).userOp, fun e => absurd e (h op List.mem_cons_self).ne_step,
      ih _ (fun o ho => h o (List.mem_cons_of_mem _ ho))⟩

/-! ### what library operations keep -/

theorem lib_apply_terminated (s : Env) {op : EnvOp} (h : LibOp op) :
    (s.apply Arith.exact op).1.terminated = s.terminated := by
  cases op with
  | sched t a act p w =>
    simp only [Env.apply]
    cases hs : s.schedule t a act p w with
    | none => rfl
    | some s' => obtain ⟨_, rfl⟩ := Env.schedule_some.mp hs; rfl
  | pause a => rfl
  | unpause a => rfl
  | cancel a => rfl
  | step => exact False.elim h
  | runBegin d w => exact False.elim h

theorem lib_apply_userState (s : Env) {op : EnvOp} (h : LibOp op) (hu : C01.UserState s) :
    C01.UserState (s.apply Arith.exact op).1 := by
  cases op with
  | step => exact False.elim h
  | runBegin d w => exact False.elim h
  | sched t a act p w =>
    simp only [Env.apply]
    cases hs : s.schedule t a act p w with
    | none => exact hu
    | some s' =>
      obtain ⟨_, rfl⟩ := Env.schedule_some.mp hs
      intro e he
      simp only [List.mem_append] at he
      rcases he with he | he
      · rcases insort_mem.mp he with rfl | he
        · exact h
        · exact hu e (by simp [he])
      · exact hu e (by simp [he])
  | pause a =>
    intro e he
    simp only [Env.apply, Env.pause, List.mem_append, List.mem_filter, List.mem_map] at he
    rcases he with ⟨he, _⟩ | he | ⟨e0, ⟨he0, _⟩, rfl⟩
    · exact hu e (by simp [he])
    · exact hu e (by simp [he])
    · exact hu e0 (by simp [he0])
  | unpause a =>
    intro e he
    simp only [Env.apply, Env.unpause, foldl_insort_map, List.mem_append, List.mem_filter] at he
    rcases he with he | ⟨he, _⟩
    · rcases insortAll_mem.mp he with he | he
      · rcases List.mem_map.mp he with ⟨e0, he0, rfl⟩
        exact hu e0 (by simp [(List.mem_filter.mp he0).1])
      · exact hu e (by simp [he])
    · exact hu e (by simp [he])
  | cancel a =>
    intro e he
    simp only [Env.apply, Env.cancel, ← List.map_append] at he
    rcases List.mem_map.mp he with ⟨e0, he0, rfl⟩
    simpa using hu e0 he0

theorem Refines.now {s s' : Env} (h : Refines s s') : s'.now = s.now := by
  obtain ⟨l, hl, rfl⟩ := h
  induction l generalizing s with
  | nil => rfl
  | cons op l ih =>
    rw [applyAll_cons_fst, ih (fun o ho => hl o (List.mem_cons_of_mem _ ho)),
      C01.now_apply_ne_step _ _ _ (hl op List.mem_cons_self).ne_step]

theorem Refines.terminated {s s' : Env} (h : Refines s s') : s'.terminated = s.terminated := by
  obtain ⟨l, hl, rfl⟩ := h
  induction l generalizing s with
  | nil => rfl
  | cons op l ih =>
    rw [applyAll_cons_fst, ih (fun o ho => hl o (List.mem_cons_of_mem _ ho)),
      lib_apply_terminated _ (hl op List.mem_cons_self)]

theorem Refines.userState {s s' : Env} (h : Refines s s') (hu : C01.UserState s) :
    C01.UserState s' := by
  obtain ⟨l, hl, rfl⟩ := h
  induction l generalizing s with
  | nil => exact hu
  | cons op l ih =>
    rw [applyAll_cons_fst]
    exact ih (lib_apply_userState _ (hl op List.mem_cons_self) hu)
      (fun o ho => hl o (List.mem_cons_of_mem _ ho))

theorem Refines.inv {s s' : Env} (h : Refines s s') (hi : C01.Inv s) : C01.Inv s' := by
  obtain ⟨l, _, rfl⟩ := h
  exact C01.inv_applyAll _ _ hi

theorem Refines.pinv {s s' : Env} (h : Refines s s') (hi : C01.Inv s) (hp : C07.PInv s) :
    C07.PInv s' := by
  obtain ⟨l, _, rfl⟩ := h
  exact C07.pinv_applyAll _ hi hp

theorem Refines.runInv {s s' : Env} {T : Int} {tu : Nat} (h : Refines s s')
    (hr : C01.RunInv T tu s) : C01.RunInv T tu s' := by
  obtain ⟨l, hl, rfl⟩ := h
  exact C01.runInv_applyAll _ _ hr (guarded_lib _ _ _ hl)

theorem userState_step {s s' : Env} {e : Event} (hs : s.step = some (e, s'))
    (hu : C01.UserState s) : C01.UserState s' := by
  obtain ⟨es, heq, rfl⟩ := Env.step_some.mp hs
  intro e' he'
  refine hu e' ?_
  rw [heq]
  simp only [List.mem_append] at he' ⊢
  rcases he' with he' | he'
  · left; exact List.mem_cons_of_mem _ he'
  · right; exact he'

/-! ### histories -/

/-- The events popped by `runLoop`, in order. -/
def runEvents : Nat → World → List Event
  | 0, _ => []
  | f + 1, w =>
    if w.env.running then
      match w.step with
      | none => []
      | some (e, w') => e :: runEvents f w'
    else []

/-- What holds of a reachable world `w` with history `h` (the events popped so far):
the closed-world invariant; the environment is the empty environment after some list of
operations whose popped events are exactly `h`; the history is in nondecreasing time order and
lies in the past. -/
structure Hist (w : World) (h : List Event) : Prop where
  good : Good w
  ops : ∃ ops : List EnvOp, w.env = (({} : Env).applyAll Arith.exact ops).1 ∧
    popped (({} : Env).applyAll Arith.exact ops).2 = h
  sorted : h.Pairwise (fun a b => a.time ≤ b.time)
  past : ∀ e ∈ h, e.time ≤ w.now

theorem Hist.inv {w : World} {h : List Event} (hh : Hist w h) : C01.Inv w.env := by
  obtain ⟨ops, he, _⟩ := hh.ops
  rw [he]; exact C01.inv_reachable _ _

theorem Hist.pinv {w : World} {h : List Event} (hh : Hist w h) : C07.PInv w.env := by
  obtain ⟨ops, he, _⟩ := hh.ops
  rw [he]; exact C07.pinv_reachable _

theorem Hist.nodup {w : World} {h : List Event} (hh : Hist w h) : (h.map Event.uid).Nodup := by
  obtain ⟨ops, _, hp⟩ := hh.ops
  rw [← hp, ← poppedUids_eq]
  exact C01.popped_nodup _ _ C01.inv_init

theorem Hist.via {w w' : World} {h : List Event} (hh : Hist w h) (hv : Via w w') : Hist w' h := by
  obtain ⟨g', l, hl, he⟩ := hv hh.good
  obtain ⟨ops, ho, hp⟩ := hh.ops
  have hn : w'.now = w.now := Refines.now ⟨l, hl, he⟩
  refine ⟨g', ⟨ops ++ l, ?_, ?_⟩, hh.sorted, ?_⟩
  · rw [applyAll_append_fst, ← ho, he]
  · rw [applyAll_append_snd, popped_append, hp, popped_lib _ _ _ hl, List.append_nil]
  · intro e hm; rw [hn]; exact hh.past e hm

theorem Hist.setErr {w : World} {h : List Event} (hh : Hist w h) (m : String) :
    Hist (w.setErr m) h := hh.via (Via.of_EK (EK_setErr _ _))

theorem Hist.step {w w' : World} {h : List Event} {e : Event} (hh : Hist w h)
    (hs : w.step = some (e, w')) : Hist w' (h ++ [e]) := by
  obtain ⟨env1, hs1, hv, _, _⟩ := step_via hs
  refine Hist.via ?_ hv
  obtain ⟨ops, ho, hp⟩ := hh.ops
  have hc := C01.step_clock hh.inv hs1
  refine ⟨hh.good.with_env _, ⟨ops ++ [.step], ?_, ?_⟩, ?_, ?_⟩
  · rw [applyAll_append_fst, ← ho, applyAll_one, apply_step_some _ hs1]
  · rw [applyAll_append_snd, popped_append, hp, ← ho]
    show h ++ popped [(w.env.apply Arith.exact .step).2] = h ++ [e]
    rw [apply_step_some _ hs1]
    dsimp only
    split <;> rfl
  · rw [List.pairwise_append]
    refine ⟨hh.sorted, List.pairwise_singleton _ _, ?_⟩
    intro a ha b hb
    have hb' : b = e := by simpa using hb
    subst hb'
    have := hh.past a ha
    have h2 : w.now ≤ env1.now := hc.2
    have h3 : env1.now = b.time := hc.1
    omega
  · intro a ha
    show a.time ≤ env1.now
    rw [hc.1]
    rcases List.mem_append.1 ha with ha | ha
    · have := hh.past a ha
      have h2 : w.now ≤ env1.now := hc.2
      have h3 : env1.now = e.time := hc.1
      omega
    · have : a = e := by simpa using ha
      subst this; exact Int.le_refl _

theorem Hist.runBegin {w : World} {h : List Event} (hh : Hist w h) (d : Int) :
    Hist (w.runBegin d).1 h := by
  obtain ⟨ops, ho, hp⟩ := hh.ops
  have he := (runBegin_env w d).1
  generalize hwt : weightOf w.seed w.wmod (w.env.now + d) (-1) terminateAct pTerminate = wt at he
  have hne : EnvOp.runBegin d wt ≠ .step := by intro h; cases h
  have hn : (w.runBegin d).1.now = w.now := by
    show (w.runBegin d).1.env.now = w.env.now
    rw [he, C01.now_apply_ne_step _ _ _ hne]
  refine ⟨runBegin_good w d hh.good, ⟨ops ++ [.runBegin d wt], ?_, ?_⟩, hh.sorted, ?_⟩
  · rw [applyAll_append_fst, ← ho, applyAll_one, he]
  · rw [applyAll_append_snd, popped_append, hp, ← ho]
    show h ++ popped [(w.env.apply Arith.exact (.runBegin d wt)).2] = h
    rw [popped_cons_nonpop _ (C01.apply_non_step _ _ _ hne).1]
    simp [popped]
  · intro e hm; rw [hn]; exact hh.past e hm

theorem Hist.runLoop {w : World} {h : List Event} (hh : Hist w h) (n : Nat) :
    Hist (runLoop n w) (h ++ runEvents n w) := by
  induction n generalizing w h with
  | zero =>
    rw [World.runLoop, runEvents, List.append_nil]
    exact hh.setErr _
  | succ n ih =>
    rw [World.runLoop, runEvents]
    by_cases hr : w.env.running = true
    · rw [if_pos hr, if_pos hr]
      cases hs : w.step with
      | none => simpa using hh
      | some q =>
        obtain ⟨e, w'⟩ := q
        dsimp only
        have := ih (hh.step hs)
        rwa [List.append_assoc] at this
    · rw [if_neg hr, if_neg hr, List.append_nil]
      exact hh

/-! ### reachable worlds -/

/-- Worlds reachable from an initial world with an empty event queue (and any scripts, as long
as they issue only user operations) by constructing assets, external operations, re-wiring,
`System.simulate`'s initialisation, `Environment.run`'s beginning and loop, and single steps;
indexed by the history of the events popped so far. -/
inductive Reach : World → List Event → Prop
  | init (w : World) : w.env = {} → Good w → Reach w []
  | addAsset {w h} (spec : AssetSpec) : Reach w h → Reach (w.addAsset spec) h
  | applyOp {w h} (op : Op) : Reach w h → opUser op = true → Reach (w.applyOp op).1 h
  | rewire {w h} (x : Nat) (ups : List Nat) : Reach w h → Reach (w.rewire x ups) h
  | simulateInit {w h} : Reach w h → Reach w.simulateInit h
  | runBegin {w h} (d : Int) : Reach w h → Reach (w.runBegin d).1 h
  | step {w h w' e} : Reach w h → w.step = some (e, w') → Reach w' (h ++ [e])
  | runLoop {w h} (n : Nat) : Reach w h → Reach (World.runLoop n w) (h ++ runEvents n w)

theorem hist_init (w : World) (he : w.env = {}) (g : Good w) : Hist w [] :=
  ⟨g, ⟨[], by rw [he]; rfl, rfl⟩, List.Pairwise.nil, by intro e h; cases h⟩

theorem Reach.hist {w : World} {h : List Event} (hr : Reach w h) : Hist w h := by
  induction hr with
  | init w he g => exact hist_init w he g
  | addAsset spec _ ih => exact ih.via (Via_addAsset _ _)
  | applyOp op _ hu ih => exact ih.via (Via_applyOp _ _ hu)
  | rewire x ups _ ih => exact ih.via (Via_rewire _ _ _)
  | simulateInit _ ih => exact ih.via (Via_simulateInit _)
  | runBegin d _ ih => exact ih.runBegin d
  | step _ hs ih => exact ih.step hs
  | runLoop n _ ih => exact ih.runLoop n

/-- Convenient form of the `step` constructor for concrete worlds. -/
theorem Reach.step' {w : World} {h : List Event} (hr : Reach w h) (hs : w.step.isSome = true) :
    Reach (w.step.get hs).2 (h ++ [(w.step.get hs).1]) :=
  Reach.step hr (Option.some_get hs).symm

/-! ### a step, concretely -/

theorem step_now {w w' : World} {e : Event} (hi : C01.Inv w.env) (g : Good w)
    (hs : w.step = some (e, w')) : w'.now = e.time ∧ w.now ≤ w'.now := by
  obtain ⟨env1, hs1, hv, _, _⟩ := step_via hs
  have hc := C01.step_clock hi hs1
  have hn : w'.env.now = env1.now := Refines.now (hv (g.with_env _)).2
  exact ⟨hn.trans hc.1, by show w.env.now ≤ w'.env.now; rw [hn]; exact hc.2⟩

theorem runLoop_now {w : World} {h : List Event} (hh : Hist w h) (n : Nat) :
    w.now ≤ (World.runLoop n w).now := by
  induction n generalizing w h with
  | zero =>
    rw [World.runLoop]
    show w.env.now ≤ (w.setErr "fuel").env.now
    rw [EK_env (EK_setErr w "fuel")]
    exact Int.le_refl _
  | succ n ih =>
    rw [World.runLoop]
    split
    · split
      · exact Int.le_refl _
      · rename_i e w' hs
        exact Int.le_trans (step_now hh.inv hh.good hs).2 (ih (hh.step hs))
    · exact Int.le_refl _

/-! ### `run(d)` -/

theorem setErr_isSome (w : World) (m : String) : (w.setErr m).error.isSome = true := by
  unfold World.setErr
  split
  · rename_i h; simp [h]
  · rfl

theorem runLoop_not_running {w : World} (h : w.env.running = false) (n : Nat) :
    (World.runLoop n w).env = w.env := by
  cases n with
  | zero => rw [World.runLoop]; exact EK_env (EK_setErr _ _)
  | succ n => rw [World.runLoop]; simp [h]

theorem step_ne_none_of_running {w : World} (h : w.env.running = true) : w.step ≠ none := by
  intro hs
  unfold World.step at hs
  split at hs
  · rename_i hn
    unfold Env.step at hn
    unfold Env.running at h
    split at hn
    · rename_i he; simp [he] at h
    · cases hn
  · cases hs

theorem running_of_runInv {T : Int} {tu : Nat} {s : Env} (h : C01.RunInv T tu s)
    (ht : s.terminated = false) : s.running = true := by
  obtain ⟨⟨e, he, _⟩, _⟩ := h.running ht
  unfold Env.running
  cases hev : s.events with
  | nil => rw [hev] at he; cases he
  | cons a l => simp [ht]

/-- The run loop under the run invariant. -/
theorem runLoop_run {T : Int} {tu : Nat} (n : Nat) : ∀ (w : World), Good w → C01.RunInv T tu w.env →
    Good (World.runLoop n w) ∧ C01.RunInv T tu (World.runLoop n w).env ∧
    (∀ e ∈ runEvents n w, e.time ≤ T) ∧
    (w.env.terminated = false → (World.runLoop n w).env.terminated = true →
      ∀ e' ∈ (World.runLoop n w).env.events, T < e'.time) ∧
    ((World.runLoop n w).env.terminated = false → (World.runLoop n w).error.isSome = true) := by
  induction n with
  | zero =>
    intro w g hr
    rw [World.runLoop, runEvents]
    have he : (w.setErr "fuel").env = w.env := EK_env (EK_setErr _ _)
    refine ⟨g.of_EK (EK_setErr _ _), (by rw [he]; exact hr), (by intro e h; cases h), ?_,
      fun _ => setErr_isSome _ _⟩
    intro h1 h2; rw [he, h1] at h2; cases h2
  | succ n ih =>
    intro w g hr
    by_cases hrun : w.env.running = true
    · have hterm : w.env.terminated = false := by
        unfold Env.running at hrun
        simpa using (Bool.and_eq_true_iff.mp hrun).2
      cases hs : w.step with
      | none => exact absurd hs (step_ne_none_of_running hrun)
      | some q =>
        obtain ⟨e, w'⟩ := q
        have hL : World.runLoop (n + 1) w = World.runLoop n w' := by
          rw [World.runLoop, if_pos hrun, hs]
        have hE : runEvents (n + 1) w = e :: runEvents n w' := by
          rw [runEvents, if_pos hrun, hs]
        obtain ⟨env1, hs1, hv, _, hlive⟩ := step_via hs
        have hr1 : C01.RunInv T tu env1 := by
          have := C01.runInv_apply Arith.exact .step hr True.intro (fun _ => hterm)
          rwa [apply_step_some _ hs1] at this
        have hst := C01.run_step hr hterm hs1
        obtain ⟨g', href⟩ := hv (g.with_env _)
        have hr' : C01.RunInv T tu w'.env := href.runInv hr1
        obtain ⟨i1, i2, i3, i4, i5⟩ := ih w' g' hr'
        rw [hL, hE]
        refine ⟨i1, i2, ?_, ?_, i5⟩
        · intro a ha
          rcases List.mem_cons.1 ha with rfl | ha
          · exact hst.1
          · exact i3 a ha
        · intro _ hfin
          by_cases ht1 : env1.terminated = true
          · -- the terminating step: its action is the empty `terminate` action
            have hflag : (e.live && e.act == terminateAct) = true := by
              obtain ⟨es, _, rfl⟩ := Env.step_some.mp hs1
              simpa [hterm] using ht1
            have hl : e.live = true := (Bool.and_eq_true_iff.mp hflag).1
            have hact : e.act = terminateAct := by
              simpa using (Bool.and_eq_true_iff.mp hflag).2
            have hw' : w' = { w with env := env1 } := by
              rw [hlive hl, hact]; rfl
            have hnr : w'.env.running = false := by
              rw [hw']; unfold Env.running; simp [ht1]
            rw [runLoop_not_running hnr, hw']
            exact hst.2 ht1
          · have ht1' : env1.terminated = false := by simpa using ht1
            have : w'.env.terminated = false := by rw [href.terminated]; exact ht1'
            exact i4 this hfin
    · have hL : World.runLoop (n + 1) w = w := by rw [World.runLoop, if_neg hrun]
      have hE : runEvents (n + 1) w = [] := by rw [runEvents, if_neg hrun]
      rw [hL, hE]
      refine ⟨g, hr, (by intro e h; cases h), ?_, ?_⟩
      · intro h1 h2; rw [h1] at h2; cases h2
      · intro ht; exact absurd (running_of_runInv hr ht) hrun

theorem runBegin_ok {w w1 : World} {d : Int} (hb : w.runBegin d = (w1, .ok)) :
    ∃ wt, w.env.runBegin Arith.exact d wt = some w1.env ∧ EK w1 = (w1.env, (EK w).2) := by
  unfold World.runBegin at hb
  dsimp only at hb
  refine ⟨weightOf w.seed w.wmod (w.env.now + d) (-1) terminateAct pTerminate, ?_⟩
  split at hb
  · cases hb
  · rename_i e he
    cases hb
    exact ⟨he, rfl⟩

theorem runBegin_terminated {ar : Arith} {s s' : Env} {d : Int} {wt : Nat}
    (h : s.runBegin ar d wt = some s') : s'.terminated = false := by
  unfold Env.runBegin at h
  obtain ⟨_, rfl⟩ := Env.schedule_some.mp h
  rfl

/-- **`run(d)` in the closed world**, from a state of the invariant without stale terminate
events. -/
theorem run_world {w0 w1 : World} {d : Int} (g : Good w0) (hi : C01.Inv w0.env)
    (hu : C01.UserState w0.env) (hb : w0.runBegin d = (w1, .ok)) (n : Nat) :
    let T := w0.now + d
    let w2 := World.runLoop n w1
    Good w2 ∧ C01.RunInv T w0.env.nextUid w2.env ∧
    (∀ e ∈ runEvents n w1, e.time ≤ T) ∧
    (w2.env.terminated = true → w2.now = T ∧ ∀ e ∈ w2.env.events, T < e.time) ∧
    (w2.env.terminated = false → w2.now ≤ T ∧ w2.error.isSome = true) := by
  intro T w2
  obtain ⟨wt, hb1, hek⟩ := runBegin_ok hb
  have g1 : Good w1 := by
    refine ⟨?_, ?_⟩
    · unfold AidOK
      rw [show w1.devs.map (·.aid) = w0.devs.map (·.aid) from congrArg (fun q => q.2.1) hek]
      exact g.aid
    · unfold ScriptsUser
      rw [show w1.scripts = w0.scripts from congrArg (fun q => q.2.2) hek]
      exact g.scr
  have hr1 : C01.RunInv T w0.env.nextUid w1.env := C01.runInv_begin Arith.exact hi hu hb1
  have ht1 : w1.env.terminated = false := runBegin_terminated hb1
  obtain ⟨i1, i2, i3, i4, i5⟩ := runLoop_run n w1 g1 hr1
  refine ⟨i1, i2, i3, ?_, ?_⟩
  · intro ht
    exact ⟨(i2.done ht).1, i4 ht1 ht⟩
  · intro ht
    exact ⟨(i2.running ht).2, i5 ht⟩

/-- After a completed run no terminate event is left: the next run starts clean. -/
theorem userState_of_done {T : Int} {tu : Nat} {s : Env} (h : C01.RunInv T tu s)
    (ht : s.terminated = true) : C01.UserState s := by
  intro e he
  have hne : e.act ≠ terminateAct := by
    simp only [List.mem_append] at he
    rcases he with he' | he'
    · exact (h.done ht).2 e he'
    · exact h.pausedUser e he'
  exact ⟨hne, h.user e he hne⟩

/-- Worlds reachable when every run is carried through to its end (`runBegin` is only used
together with a `runLoop` that stops because the run was terminated). -/
inductive ReachI : World → List Event → Prop
  | init (w : World) : w.env = {} → Good w → ReachI w []
  | addAsset {w h} (spec : AssetSpec) : ReachI w h → ReachI (w.addAsset spec) h
  | applyOp {w h} (op : Op) : ReachI w h → opUser op = true → ReachI (w.applyOp op).1 h
  | rewire {w h} (x : Nat) (ups : List Nat) : ReachI w h → ReachI (w.rewire x ups) h
  | simulateInit {w h} : ReachI w h → ReachI w.simulateInit h
  | step {w h w' e} : ReachI w h → w.step = some (e, w') → ReachI w' (h ++ [e])
  | run {w h w1} (d : Int) (n : Nat) : ReachI w h → w.runBegin d = (w1, .ok) →
      (World.runLoop n w1).env.terminated = true →
      ReachI (World.runLoop n w1) (h ++ runEvents n w1)

theorem userState_via {w w' : World} (g : Good w) (hv : Via w w') (hu : C01.UserState w.env) :
    C01.UserState w'.env := (hv g).2.userState hu

theorem ReachI.spec {w : World} {h : List Event} (hr : ReachI w h) :
    Reach w h ∧ C01.UserState w.env := by
  induction hr with
  | init w he g =>
    refine ⟨Reach.init w he g, ?_⟩
    rw [he]; intro e h; cases h
  | addAsset spec _ ih =>
    exact ⟨ih.1.addAsset spec, userState_via ih.1.hist.good (Via_addAsset _ _) ih.2⟩
  | applyOp op _ hu ih =>
    exact ⟨ih.1.applyOp op hu, userState_via ih.1.hist.good (Via_applyOp _ _ hu) ih.2⟩
  | rewire x ups _ ih =>
    exact ⟨ih.1.rewire x ups, userState_via ih.1.hist.good (Via_rewire _ _ _) ih.2⟩
  | simulateInit _ ih =>
    exact ⟨ih.1.simulateInit, userState_via ih.1.hist.good (Via_simulateInit _) ih.2⟩
  | step _ hs ih =>
    refine ⟨ih.1.step hs, ?_⟩
    obtain ⟨env1, hs1, hv, _, _⟩ := step_via hs
    exact (hv (ih.1.hist.good.with_env _)).2.userState (userState_step hs1 ih.2)
  | @run w h w1 d n _ hb ht ih =>
    have hw1 : w1 = (w.runBegin d).1 := by rw [hb]
    refine ⟨?_, ?_⟩
    · rw [hw1]; exact (ih.1.runBegin d).runLoop n
    · have := run_world ih.1.hist.good ih.1.hist.inv ih.2 hb n
      exact userState_of_done this.2.1 ht

/-! ### the run loop as a guarded operation list (the formulation of `C01.run_spec`) -/

theorem guarded_append (ar : Arith) (s : Env) (l1 l2 : List EnvOp) (h1 : C01.Guarded ar s l1)
    (h2 : C01.Guarded ar (s.applyAll ar l1).1 l2) : C01.Guarded ar s (l1 ++ l2) := by
  induction l1 generalizing s with
  | nil => exact h2
  | cons op l1 ih => exact ⟨h1.1, h1.2.1, ih _ h1.2.2 h2⟩

/-- `runLoop` is a `C01.Guarded` list of environment operations: `step`s taken only while the run
is not terminated, interleaved with the library operations of the executed actions; its popped
events are `runEvents`. -/
theorem runLoop_guarded (n : Nat) : ∀ (w : World), Good w →
    ∃ ops : List EnvOp, C01.Guarded Arith.exact w.env ops ∧
      (World.runLoop n w).env = (w.env.applyAll Arith.exact ops).1 ∧
      popped (w.env.applyAll Arith.exact ops).2 = runEvents n w ∧ Good (World.runLoop n w) := by
  induction n with
  | zero =>
    intro w g
    refine ⟨[], True.intro, ?_, rfl, ?_⟩
    · rw [World.runLoop]; exact EK_env (EK_setErr _ _)
    · rw [World.runLoop]; exact g.of_EK (EK_setErr _ _)
  | succ n ih =>
    intro w g
    by_cases hrun : w.env.running = true
    · have hterm : w.env.terminated = false := by
        unfold Env.running at hrun
        simpa using (Bool.and_eq_true_iff.mp hrun).2
      cases hs : w.step with
      | none => exact absurd hs (step_ne_none_of_running hrun)
      | some q =>
        obtain ⟨e, w'⟩ := q
        have hL : World.runLoop (n + 1) w = World.runLoop n w' := by
          rw [World.runLoop, if_pos hrun, hs]
        have hE : runEvents (n + 1) w = e :: runEvents n w' := by
          rw [runEvents, if_pos hrun, hs]
        obtain ⟨env1, hs1, hv, _, _⟩ := step_via hs
        obtain ⟨g', l, hl, he⟩ := hv (g.with_env _)
        obtain ⟨ops', hg', he', hp', gfin⟩ := ih w' g'
        have hap : w.env.apply Arith.exact .step = (env1, if e.live then .ran e else .skipped e) :=
          apply_step_some _ hs1
        have he1 : (env1.applyAll Arith.exact l).1 = w'.env := he.symm
        refine ⟨.step :: (l ++ ops'), ⟨True.intro, fun _ => hterm, ?_⟩, ?_, ?_, hL ▸ gfin⟩
        · rw [hap]
          refine guarded_append _ _ _ _ (guarded_lib _ _ _ hl) ?_
          rw [he1]; exact hg'
        · rw [hL, applyAll_cons_fst, hap, applyAll_append_fst, he1]; exact he'
        · rw [hE, applyAll_cons_snd, hap, applyAll_append_snd, he1]
          dsimp only
          have hpl : popped (env1.applyAll Arith.exact l).2 = [] := popped_lib _ _ _ hl
          split <;> simp [popped, popped_append, hpl, hp']
    · refine ⟨[], True.intro, ?_, ?_, ?_⟩
      · rw [World.runLoop, if_neg hrun]; rfl
      · rw [runEvents, if_neg hrun]; rfl
      · rw [World.runLoop, if_neg hrun]; exact g

/-! ### cancelled events stay cancelled, over operation lists -/

theorem known_apply (s : Env) (op : EnvOp) (h : C01.Inv s) :
    s.nextUid ≤ (s.apply Arith.exact op).1.nextUid ∧
      ∀ u ∈ C01.known (s.apply Arith.exact op).1, u ∈ C01.known s ∨ s.nextUid ≤ u := by
  by_cases hst : op = .step
  · subst hst
    cases hs : s.step with
    | none =>
      rw [apply_step_none _ hs]
      exact ⟨Nat.le_refl _, fun u hu => Or.inl hu⟩
    | some q =>
      obtain ⟨e, s'⟩ := q
      rw [apply_step_some _ hs]
      have := C01.step_uid h hs
      exact ⟨Nat.le_of_eq this.2.2.1.symm, fun u hu => Or.inl (this.2.2.2 u hu)⟩
  · have := C01.apply_non_step Arith.exact s op hst
    exact ⟨this.2.1, this.2.2⟩

theorem known_applyAll (s : Env) (ops : List EnvOp) (h : C01.Inv s) :
    s.nextUid ≤ (s.applyAll Arith.exact ops).1.nextUid ∧
      ∀ u ∈ C01.known (s.applyAll Arith.exact ops).1, u ∈ C01.known s ∨ s.nextUid ≤ u := by
  induction ops generalizing s with
  | nil => exact ⟨Nat.le_refl _, fun u hu => Or.inl hu⟩
  | cons op ops ih =>
    rw [applyAll_cons_fst]
    have h1 := known_apply s op h
    have h2 := ih _ (C01.inv_apply Arith.exact op h)
    refine ⟨Nat.le_trans h1.1 h2.1, ?_⟩
    intro u hu
    rcases h2.2 u hu with hk | hk
    · exact h1.2 u hk
    · right; omega

/-- Once cancelled, always cancelled — over any list of operations. -/
theorem cancelled_stays_applyAll (s : Env) (ops : List EnvOp) (h : C01.Inv s) :
    ∀ e ∈ (s.applyAll Arith.exact ops).1.events ++ (s.applyAll Arith.exact ops).1.paused,
      e.uid ∈ C07.cancelledUids s → e.cancelled = true := by
  induction ops generalizing s with
  | nil =>
    intro e he hu
    unfold C07.cancelledUids at hu
    obtain ⟨e0, he0, hue0⟩ := List.mem_map.mp hu
    obtain ⟨he0m, he0c⟩ := List.mem_filter.mp he0
    have : e0 = e := eq_of_nodup_map Event.uid h.uids he0m he hue0
    subst this; exact he0c
  | cons op ops ih =>
    intro e he hu
    rw [applyAll_cons_fst] at he
    have hi1 := C01.inv_apply Arith.exact op h
    refine ih _ hi1 e he ?_
    -- the uid is still known after `op`, and still cancelled there
    have hk : e.uid ∈ C01.known ((s.apply Arith.exact op).1.applyAll Arith.exact ops).1 :=
      List.mem_map.mpr ⟨e, he, rfl⟩
    have hlt : e.uid < s.nextUid := by
      unfold C07.cancelledUids at hu
      obtain ⟨e0, he0, hue0⟩ := List.mem_map.mp hu
      have := h.fresh e0 (List.mem_filter.mp he0).1
      omega
    have h1 := known_apply s op h
    have hk1 : e.uid ∈ C01.known (s.apply Arith.exact op).1 := by
      rcases (known_applyAll _ ops hi1).2 _ hk with hk' | hk'
      · exact hk'
      · omega
    obtain ⟨e1, he1, hu1⟩ := List.mem_map.mp hk1
    have hc1 : e1.cancelled = true :=
      C07.cancelled_stays Arith.exact s op h e1 he1 (by rw [hu1]; exact hu)
    unfold C07.cancelledUids
    exact List.mem_map.mpr ⟨e1, List.mem_filter.mpr ⟨he1, hc1⟩, hu1⟩

theorem Refines.cancelled_stays {s s' : Env} (h : Refines s s') (hi : C01.Inv s) :
    ∀ e ∈ s'.events ++ s'.paused, e.uid ∈ C07.cancelledUids s → e.cancelled = true := by
  obtain ⟨l, _, rfl⟩ := h
  exact cancelled_stays_applyAll s l hi

end C01W
end SimProc
