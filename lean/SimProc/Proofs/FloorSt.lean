/-
The slot-changing functions of `Model/Floor.lean` keep the static view `st` and the scripts.
-/
import SimProc.Proofs.FloorFrame
namespace SimProc
namespace C02V
open World

/-- declare two frame lemmas (static view, scripts) as rewrite steps of `frame` -/
macro "frame_lemmas2" a:ident b:ident : command =>
  `(macro_rules | `(tactic| fr_step) => `(tactic| first | rw [$a:ident] | rw [$b:ident]))

/-! ### `genPart` -/

/-- The fold of `genPart` that creates the parts of a batch. -/
theorem genFold_eq (r : PartRec) (n : Nat) (w : World) (l : List Nat) :
    (List.range n).foldl (fun (acc : World × List Nat) _ =>
      ((acc.1.newPart r).1, acc.2 ++ [(acc.1.newPart r).2])) (w, l)
    = ({ w with parts := w.parts ++ List.replicate n r }, l ++ List.range' w.parts.length n) := by
  induction n with
  | zero => simp
  | succ n ih =>
    rw [List.range_succ, List.foldl_append, ih]
    simp only [List.foldl_cons, List.foldl_nil, World.newPart, List.length_append, List.length_replicate]
    congr 1
    · congr 1
      rw [List.append_assoc]; congr 1
      rw [List.replicate_succ']
    · rw [List.append_assoc, List.range'_concat]; simp

theorem genPart_leaf (w : World) (x : Nat) (h : ((w.dev x).genBatch == 0) = true) :
    w.genPart x = ({ w with parts := w.parts ++ [{ quality := (w.dev x).genQuality, value := (w.dev x).genValue }],
                            generated := w.generated ++ [w.parts.length] }, w.parts.length) := by
  unfold World.genPart; simp [h, World.newPart]

theorem genPart_batch (w : World) (x : Nat) (h : ((w.dev x).genBatch == 0) = false) :
    w.genPart x =
      ({ w with parts := w.parts ++ List.replicate (w.dev x).genBatch.toNat
                    { quality := (w.dev x).genQuality, value := (w.dev x).genValue } ++
                    [{ quality := 0, value := 0, kids := some (List.range' w.parts.length (w.dev x).genBatch.toNat) }],
                generated := w.generated ++ List.range' w.parts.length (w.dev x).genBatch.toNat },
        w.parts.length + (w.dev x).genBatch.toNat) := by
  unfold World.genPart
  simp only [h, Bool.false_eq_true, if_false]
  have := genFold_eq { quality := (w.dev x).genQuality, value := (w.dev x).genValue } (w.dev x).genBatch.toNat w []
  simp only [World.newPart] at this ⊢
  rw [this]
  simp

theorem st_genPart (w : World) (x : Nat) : st (w.genPart x).1 = st w := by
  cases h : ((w.dev x).genBatch == 0)
  · rw [genPart_batch w x h]; rfl
  · rw [genPart_leaf w x h]; rfl
theorem scr_genPart (w : World) (x : Nat) : (w.genPart x).1.scripts = w.scripts := by
  cases h : ((w.dev x).genBatch == 0)
  · rw [genPart_batch w x h]
  · rw [genPart_leaf w x h]
frame_lemmas2 st_genPart scr_genPart

section
variable (w : World)

theorem st_finishCycleHandler (x : Nat) : st (w.finishCycleHandler x) = st w := by
  unfold World.finishCycleHandler; frame
theorem scr_finishCycleHandler (x : Nat) : (w.finishCycleHandler x).scripts = w.scripts := by
  unfold World.finishCycleHandler; frame
frame_lemmas2 st_finishCycleHandler scr_finishCycleHandler

theorem st_finishCycle (x : Nat) : st (w.finishCycle x) = st w := by
  unfold World.finishCycle; frame
theorem scr_finishCycle (x : Nat) : (w.finishCycle x).scripts = w.scripts := by
  unfold World.finishCycle; frame
frame_lemmas2 st_finishCycle scr_finishCycle

theorem st_scheduleFinish (x : Nat) : st (w.scheduleFinish x) = st w := by
  unfold World.scheduleFinish; frame
theorem scr_scheduleFinish (x : Nat) : (w.scheduleFinish x).scripts = w.scripts := by
  unfold World.scheduleFinish; frame
frame_lemmas2 st_scheduleFinish scr_scheduleFinish

end

theorem st_newPart (w : World) (r : PartRec) : st (w.newPart r).1 = st w := rfl
theorem scr_newPart (w : World) (r : PartRec) : (w.newPart r).1.scripts = w.scripts := rfl
frame_lemmas2 st_newPart scr_newPart

/-! ### the batcher: one iteration of `batcherLoop`, in two halves -/

/-- `_get_part_from_input` -/
def batchGet (w : World) (x p : Nat) : World × Nat :=
  match (w.part p).kids with
  | some (k :: rest) =>
    let w := w.modPart p (fun r => { r with kids := some rest })
    let w := if rest.isEmpty then w.modDev x (fun d => { d with part := none }) else w
    (w, k)
  | _ => (w.modDev x (fun d => { d with part := none }), p)

/-- the shell of the batch under construction (created on demand) -/
def batchShell (w : World) (x : Nat) : World × Nat :=
  match (w.dev x).inprog with
  | some b => (w, b)
  | none =>
    let (w, b) := w.newPart { quality := 0, value := 0, kids := some [] }
    (w.modDev x (fun d => { d with inprog := some b }), b)

/-- `_add_part_to_output` -/
def batchAdd (w : World) (x t : Nat) : World :=
  match (w.dev x).bsize with
  | none => w.modDev x (fun d => { d with output := some t })
  | some n =>
    let w1 := (batchShell w x).1
    let b := (batchShell w x).2
    let w2 := w1.modPart b (fun r => { r with kids := some ((r.kids.getD []) ++ [t]) })
    if ((w2.part b).kids.getD []).length ≥ n then
      w2.modDev x (fun d => { d with output := some b, inprog := none })
    else w2

theorem batcherLoop_succ (f : Nat) (w : World) (x : Nat) :
    batcherLoop (f + 1) w x =
      match (w.dev x).output, (w.dev x).part with
      | none, some p => batcherLoop f (batchAdd (batchGet w x p).1 x (batchGet w x p).2) x
      | _, _ => w := by
  rfl

theorem st_batchGet (w : World) (x p : Nat) : st (batchGet w x p).1 = st w := by
  unfold batchGet; frame
theorem scr_batchGet (w : World) (x p : Nat) : (batchGet w x p).1.scripts = w.scripts := by
  unfold batchGet; frame
frame_lemmas2 st_batchGet scr_batchGet
theorem st_batchShell (w : World) (x : Nat) : st (batchShell w x).1 = st w := by
  unfold batchShell; frame
theorem scr_batchShell (w : World) (x : Nat) : (batchShell w x).1.scripts = w.scripts := by
  unfold batchShell; frame
frame_lemmas2 st_batchShell scr_batchShell
theorem st_batchAdd (w : World) (x t : Nat) : st (batchAdd w x t) = st w := by
  unfold batchAdd; frame
theorem scr_batchAdd (w : World) (x t : Nat) : (batchAdd w x t).scripts = w.scripts := by
  unfold batchAdd; frame
frame_lemmas2 st_batchAdd scr_batchAdd

theorem st_batcherLoop (f : Nat) : ∀ (w : World) (x : Nat), st (batcherLoop f w x) = st w := by
  induction f with
  | zero => intro w x; rfl
  | succ f ih =>
    intro w x; rw [batcherLoop_succ]
    split
    · rw [ih]; frame
    · rfl
theorem scr_batcherLoop (f : Nat) : ∀ (w : World) (x : Nat), (batcherLoop f w x).scripts = w.scripts := by
  induction f with
  | zero => intro w x; rfl
  | succ f ih =>
    intro w x; rw [batcherLoop_succ]
    split
    · rw [ih]; frame
    · rfl
frame_lemmas2 st_batcherLoop scr_batcherLoop

section
variable (w : World)

theorem st_tryMove (x : Nat) : st (w.tryMove x) = st w := by
  unfold World.tryMove; frame
theorem scr_tryMove (x : Nat) : (w.tryMove x).scripts = w.scripts := by
  unfold World.tryMove; frame
frame_lemmas2 st_tryMove scr_tryMove

theorem st_onReceived (x p : Nat) : st (w.onReceived x p) = st w := by
  unfold World.onReceived; frame
theorem scr_onReceived (x p : Nat) : (w.onReceived x p).scripts = w.scripts := by
  unfold World.onReceived; frame
frame_lemmas2 st_onReceived scr_onReceived

theorem st_acceptPart (x p : Nat) : st (w.acceptPart x p) = st w := by
  unfold World.acceptPart; frame
theorem scr_acceptPart (x p : Nat) : (w.acceptPart x p).scripts = w.scripts := by
  unfold World.acceptPart; frame
frame_lemmas2 st_acceptPart scr_acceptPart

end

/-! ### `give` -/

theorem tryList_proj {γ : Type} (π : World → γ) (g : World → Nat → Nat → World × Bool)
    (hg : ∀ w y p, π (g w y p).1 = π w) (l : List Nat) : ∀ (w : World) (p : Nat),
    π (tryList g w l p).1 = π w := by
  induction l with
  | nil => intro w p; rfl
  | cons y ys ih =>
    intro w p
    unfold tryList
    split
    · rename_i w' h; have := hg w y p; rw [h] at this; exact this
    · rename_i w' h; have := hg w y p; rw [h] at this; rw [ih]; exact this

theorem give_proj {γ : Type} (π : World → γ)
    (hAccept : ∀ w x p, π (acceptPart w x p) = π w)
    (hAcq : ∀ w x, π (procAcquire w x).1 = π w)
    (hErr : ∀ w m, π (setErr w m) = π w)
    (hAdd : ∀ w p x, π (addHist w p x) = π w)
    (hDrop : ∀ w p, π (dropHist w p) = π w)
    (hMod : ∀ w p f, π (modPart w p f) = π w) :
    ∀ (f : Nat) (w : World) (x p : Nat), π (give f w x p).1 = π w := by
  intro f
  induction f with
  | zero => intro w x p; exact hErr _ _
  | succ f ih =>
    intro w x p
    have hl : ∀ (w : World) (l : List Nat), π (tryList (give f) w l p).1 = π w :=
      fun w l => tryList_proj π (give f) ih l w p
    unfold give
    simp only []
    split
    iterate 5
      split
      · dsimp only; exact hAccept w x p
      · rfl
    all_goals
      repeat' split
      all_goals first
        | rfl
        | exact hErr _ _
        | exact hl _ _
        | (rename_i w' h
           have h2 := congrArg (fun r => π r.1) h
           simp only [ih, hl, hAcq, hAdd, hMod] at h2
           simp only [← h2, hDrop, hMod, hAccept])

theorem st_give (f : Nat) (w : World) (x p : Nat) : st (give f w x p).1 = st w :=
  give_proj st st_acceptPart st_procAcquire st_setErr st_addHist st_dropHist st_modPart f w x p
theorem scr_give (f : Nat) (w : World) (x p : Nat) : (give f w x p).1.scripts = w.scripts :=
  give_proj World.scripts scr_acceptPart scr_procAcquire scr_setErr scr_addHist scr_dropHist scr_modPart f w x p
theorem st_givePart (w : World) (x p : Nat) : st (givePart w x p).1 = st w := st_give ..
theorem scr_givePart (w : World) (x p : Nat) : (givePart w x p).1.scripts = w.scripts := scr_give ..
theorem st_tryGive (w : World) (l : List Nat) (p : Nat) : st (tryList givePart w l p).1 = st w :=
  tryList_proj st _ st_givePart l w p
theorem scr_tryGive (w : World) (l : List Nat) (p : Nat) : (tryList givePart w l p).1.scripts = w.scripts :=
  tryList_proj World.scripts _ scr_givePart l w p


theorem passHandler_proj {γ : Type} (π : World → γ)
    (hT : ∀ w l p, π (tryList givePart w l p).1 = π w)
    (hMo : ∀ w x, π (modDev w x (fun d => { d with output := none })) = π w)
    (hMw : ∀ w x, π (modDev w x (fun d => { d with waitingDS := true })) = π w)
    (hN : ∀ w x, π (notify w x) = π w)
    (w : World) (x : Nat) : π (w.passHandler x) = π w := by
  unfold World.passHandler
  simp only []
  repeat' split
  all_goals first
    | rfl
    | (rename_i w' h
       have h2 := congrArg (fun r => π r.1) h
       simp only [hT] at h2
       simp only [← h2, hMo, hMw, hN])

theorem st_passHandler (w : World) (x : Nat) : st (w.passHandler x) = st w :=
  passHandler_proj st st_tryGive (fun _ _ => st_modDev_same _ _ _ (fun _ => rfl))
    (fun _ _ => st_modDev_same _ _ _ (fun _ => rfl)) st_notify w x
theorem scr_passHandler (w : World) (x : Nat) : (w.passHandler x).scripts = w.scripts :=
  passHandler_proj World.scripts scr_tryGive (fun _ _ => rfl) (fun _ _ => rfl) scr_notify w x

theorem bufferLoop_proj {γ : Type} (π : World → γ)
    (hT : ∀ w l p, π (tryList givePart w l p).1 = π w)
    (hMod : ∀ w x (n : Nat), π (modDev w x (fun d => { d with level := d.level - n, buf := d.buf.drop 1 })) = π w)
    (hR : ∀ w r, π (addRec w r) = π w)
    (f : Nat) : ∀ (w : World) (x : Nat), π (bufferLoop f w x) = π w := by
  induction f with
  | zero => intro w x; rfl
  | succ f ih =>
    intro w x
    unfold bufferLoop
    simp only []
    repeat' split
    all_goals first
      | rfl
      | (rename_i w' h
         have h2 := congrArg (fun r => π r.1) h
         simp only [hT] at h2
         first
           | exact h2.symm
           | (rw [ih, hR]; exact (hMod w' x _).trans h2.symm))

theorem st_bufferLoop (f : Nat) (w : World) (x : Nat) : st (bufferLoop f w x) = st w :=
  bufferLoop_proj st st_tryGive (fun _ _ _ => st_modDev_same _ _ _ (fun _ => rfl)) st_addRec f w x
theorem scr_bufferLoop (f : Nat) (w : World) (x : Nat) : (bufferLoop f w x).scripts = w.scripts :=
  bufferLoop_proj World.scripts scr_tryGive (fun _ _ _ => rfl) scr_addRec f w x
frame_lemmas2 st_passHandler scr_passHandler
frame_lemmas2 st_bufferLoop scr_bufferLoop

section
variable (w : World)

theorem scr_passPart (x : Nat) : (w.passPart x).scripts = w.scripts := by
  unfold World.passPart; frame

theorem st_failDev (x : Nat) : st (w.failDev x) = st w := by
  unfold World.failDev; frame
theorem scr_failDev (x : Nat) : (w.failDev x).scripts = w.scripts := by
  unfold World.failDev; frame
frame_lemmas2 st_failDev scr_failDev

theorem st_initDev (x : Nat) : st (w.initDev x) = st w := by
  unfold World.initDev; frame
theorem scr_initDev (x : Nat) : (w.initDev x).scripts = w.scripts := by
  unfold World.initDev; frame
frame_lemmas2 st_initDev scr_initDev

end
end C02V
end SimProc
