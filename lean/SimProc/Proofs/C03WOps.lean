/-
C03W — failure, shutdown, restore, blocking, budget, initialisation of devices.
-/
import SimProc.Proofs.C03WPass
import SimProc.Proofs.C13Lemmas
import SimProc.Proofs.C11Lemmas
namespace SimProc
namespace C03W
open World FloorCoreL C03

theorem holdsD_shut {d : Dev} (hk : d.kind = .processor) (hs : d.shutDown = true) : holdsD d = none := by
  unfold holdsD; simp [hk, hs]

/-- no holder other than `x` has the asset id of `x` -/
theorem aid_ne_of_holder {E N A : List Nat} {w : World} (h : G E N A w) {x : Nat} (hx : x < w.devs.length)
    (hnx : holdsD (w.dev x) = none) :
    ∀ d p, holdsD (w.dev d) = some p → d ∉ E → (w.dev d).aid ≠ (w.dev x).aid := by
  intro d p hd _ he
  have := h.sc.aid_inj (holdsD_lt hd) hx he
  subst this
  rw [hnx] at hd; cases hd

theorem notMem_A_of_proc {E N A : List Nat} {w : World} (h : G E N A w) {x : Nat}
    (hk : (w.dev x).kind = .processor) : x ∉ A := fun hx => by
  have := h.aok x hx
  rw [hk] at this; cases this

theorem G.shutdownDevG {E N A : List Nat} {w : World} (h : G E N A w) (x : Nat)
    (hk : (w.dev x).kind = .processor) (isF : Bool) (lost : Option Nat) :
    G E N A (w.shutdownDev x isF lost) := by
  have hx : x < w.devs.length := kind_lt (by rw [hk]; decide)
  unfold World.shutdownDev
  dsimp only
  split
  · next hsd =>
    split
    · refine G.foldl _ (fun w k hw => hw.addRes _) _ ?_
      exact h.cancel _ (aid_ne_of_holder h hx (holdsD_shut hk hsd))
    · exact h
  · -- not yet shut down
    have h1 : G E N A (w.setDev x { w.dev x with shutDown := true }) := by
      refine h.setDev x _ rfl (fun q hq => h.valid.dev x q hq) (fun _ h => h) (fun _ h => h)
        (Or.inr (Or.inr (fun n => ?_))) (Or.inr ?_)
      · intro hacc
        rw [accB_false_of_shut (d := { w.dev x with shutDown := true }) rfl hk] at hacc
        cases hacc
      · intro q hq
        rw [holdsD_shut (d := { w.dev x with shutDown := true }) hk rfl] at hq
        cases hq
    have hd1 : (w.setDev x { w.dev x with shutDown := true }).dev x = { w.dev x with shutDown := true } :=
      dev_setDev_same hx
    generalize hw1 : w.setDev x { w.dev x with shutDown := true } = w1 at h1 hd1
    have hx1 : x < w1.devs.length := by rw [← hw1]; simpa using hx
    have hno := aid_ne_of_holder h1 hx1 (by rw [hd1]; exact holdsD_shut hk rfl)
    have haid : (w1.dev x).aid = (w.dev x).aid := by rw [hd1]
    have h2 : G E N A (if isF then w1.envOp (.cancel (w.dev x).aid) else w1.envOp (.pause (w.dev x).aid)) := by
      rw [← haid]
      split
      · exact h1.cancel _ hno
      · exact h1.pause _ hno
    generalize (if isF then w1.envOp (.cancel (w.dev x).aid) else w1.envOp (.pause (w.dev x).aid)) = w2 at h2
    refine G.foldl _ (fun w k hw => hw.addRes _) _ ?_
    apply G.setWaiting
    refine h2.setDev_irrel x _ ?_ ?_ ?_ ?_ ?_ ?_ ?_
    all_goals (split <;> first | rfl | (intro _; rfl) | exact fun hh => Or.inl hh)

theorem G.withLost {E N A : List Nat} {w : World} (h : G E N A w) (l : List Nat) :
    G E N A { w with lost := l } :=
  h.of_eq rfl rfl rfl rfl rfl

theorem G.failDevG {E N A : List Nat} {w : World} (h : G E N A w) (x : Nat)
    (hk : (w.dev x).kind = .processor) : G E N A (w.failDev x) := by
  have hx : x < w.devs.length := kind_lt (by rw [hk]; decide)
  rw [World.failDev_eq_c13]
  unfold World.failPre
  have h1 := h.withLost (w.lost ++ w.lostLeaves x)
  have hd1 : ({ w with lost := w.lost ++ w.lostLeaves x } : World).dev x = w.dev x := rfl
  have hl1 : ({ w with lost := w.lost ++ w.lostLeaves x } : World).devs.length = w.devs.length := rfl
  generalize ({ w with lost := w.lost ++ w.lostLeaves x } : World) = w1 at h1 hd1 hl1 ⊢
  have h2 : G E (x :: N) A (w1.modDev x (fun d => { d with part := none })) := by
    refine h1.modDev x _ rfl ?_ (fun _ h => h) (fun y hy => List.mem_cons_of_mem _ hy)
      (Or.inl (List.mem_cons_self ..)) (Or.inr (fun q hq => ⟨hq, Int.le_refl _, id⟩))
    intro q hq
    refine h1.valid.dev x q ?_
    rw [heldL_mem] at hq ⊢
    rcases hq with hq | hq | hq
    · cases hq
    · exact Or.inr (Or.inl hq)
    · exact Or.inr (Or.inr hq)
  have hk2 : ((w1.modDev x (fun d => { d with part := none })).dev x).kind = .processor := by
    rw [modDev_dev_field Dev.kind w1 x _ rfl x, hd1]; exact hk
  have hl2 : (w1.modDev x (fun d => { d with part := none })).devs.length = w.devs.length := by
    rw [modDev_devs_length]; exact hl1
  generalize w1.modDev x (fun d => { d with part := none }) = w2 at h2 hk2 hl2 ⊢
  have h3 := h2.releaseReserved x
  have hk3 : ((w2.releaseReserved x).dev x).kind = .processor := by
    rw [releaseReserved_dev_field Dev.kind (fun _ _ => rfl)]; exact hk2
  have hl3 : (w2.releaseReserved x).devs.length = w.devs.length := by
    rw [releaseReserved_devs_length]; exact hl2
  generalize w2.releaseReserved x = w3 at h3 hk3 hl3 ⊢
  have h4 := h3.addRec (.failure x w1.now (w.dev x).part)
  have hk4 : ((w3.addRec (.failure x w1.now (w.dev x).part)).dev x).kind = .processor := hk3
  have hl4 : (w3.addRec (.failure x w1.now (w.dev x).part)).devs.length = w.devs.length := hl3
  generalize w3.addRec (.failure x w1.now (w.dev x).part) = w4 at h4 hk4 hl4 ⊢
  have h5 := h4.shutdownDevG x hk4 true (w.dev x).part
  have hk5 : ((w4.shutdownDev x true (w.dev x).part).dev x).kind = .processor := by
    rw [kind_of_st (C02V.st_shutdownDev w4 x true _)]; exact hk4
  refine h5.discharge x (fun y hy => (List.mem_cons.mp hy).imp id id) (fun n => ?_)
    (notMem_A_of_proc h5 hk5)
  have hsd := World.shutdownDev_shutDown w4 x true (w.dev x).part (by rw [hl4]; exact hx)
  exact accB_false_of_shut hsd hk5 n

/-! ### restore -/

theorem G.restoreDevG {E N A : List Nat} {w : World} (h : G E N A w) (x : Nat)
    (hk : (w.dev x).kind = .processor) : G E N A (w.restoreDev x) := by
  have hx : x < w.devs.length := kind_lt (by rw [hk]; decide)
  unfold World.restoreDev
  dsimp only
  split
  · exact h
  · have h1 : G (x :: E) (x :: N) A (w.setDev x { w.dev x with shutDown := false, lastRestore := some w.now }) :=
      h.setDev x _ rfl (fun q hq => h.valid.dev x q hq) (fun y hy => List.mem_cons_of_mem _ hy)
        (fun y hy => List.mem_cons_of_mem _ hy) (Or.inl (List.mem_cons_self ..))
        (Or.inl (List.mem_cons_self ..))
    have h2 := h1.unpause (w.dev x).aid
    have hd2 : ((w.setDev x { w.dev x with shutDown := false, lastRestore := some w.now }).envOp
        (.unpause (w.dev x).aid)).dev x = { w.dev x with shutDown := false, lastRestore := some w.now } := by
      rw [dev_envOp, dev_setDev_same hx]
    have hl2 : ((w.setDev x { w.dev x with shutDown := false, lastRestore := some w.now }).envOp
        (.unpause (w.dev x).aid)).devs.length = w.devs.length := by simp [envOp]
    generalize (w.setDev x { w.dev x with shutDown := false, lastRestore := some w.now }).envOp
        (.unpause (w.dev x).aid) = w2 at h2 hd2 hl2
    have hx2 : x < w2.devs.length := by rw [hl2]; exact hx
    have hk2 : (w2.dev x).kind = .processor := by rw [hd2]; exact hk
    have h3 : G E N A (if (w2.dev x).output.isSome then w2.schedulePass x 0
        else if (w2.dev x).part.isNone then w2.notify x else w2) := by
      split
      · next ho =>
        have h3 : G E (x :: N) A (w2.schedulePass x 0) := G.schedulePassX h2
        have hk3 : ((w2.schedulePass x 0).dev x).kind = .processor := by
          rw [core_eq_dev_kind (schedulePass_core w2 x 0), hk2]
        refine h3.discharge x (fun y hy => (List.mem_cons.mp hy).imp id id) (fun n => ?_)
          (notMem_A_of_proc h3 hk3)
        obtain ⟨p, hp⟩ := Option.isSome_iff_exists.mp ho
        refine accB_false_of_output (p := p) ?_ ?_ n
        · rw [core_eq_dev_output (schedulePass_core w2 x 0)]; exact hp
        · rw [hk3]; rfl
      · next ho =>
        have hnh : ∀ q, holdsD (w2.dev x) ≠ some q := by
          intro q hq
          rw [holdsD_output (by rw [hk2]; decide) hq] at ho
          simp at ho
        have h3 : G E (x :: N) A w2 :=
          h2.unexempt x (fun y hy => (List.mem_cons.mp hy).imp id id) (fun q hq => absurd hq (hnh q))
        split
        · exact h3.notify x (fun y hy => (List.mem_cons.mp hy).imp id id)
        · next hp =>
          refine h3.discharge x (fun y hy => (List.mem_cons.mp hy).imp id id) (fun n => ?_)
            (notMem_A_of_proc h3 hk2)
          cases hpp : (w2.dev x).part with
          | none => rw [hpp] at hp; simp at hp
          | some p => exact accB_false_of_part hpp (by rw [hk2]; rfl) n
    generalize (if (w2.dev x).output.isSome then w2.schedulePass x 0
        else if (w2.dev x).part.isNone then w2.notify x else w2) = w3 at h3
    refine G.foldl _ (fun w k hw => hw.addRes _) _ ?_
    split
    · exact h3.modDev_irrel x _ rfl rfl (fun _ => rfl) rfl (fun _ => rfl) rfl
    · exact h3

theorem G.releaseIfIdleG {E N A : List Nat} {w : World} (h : G E N A w) (x : Nat) :
    G E N A (w.releaseIfIdle x) := by
  unfold World.releaseIfIdle
  split
  · exact h.releaseReserved x
  · exact h

theorem G.procResourceCbG {E N A : List Nat} {w : World} (h : G E N A w) (x : Nat) :
    G E N A (w.procResourceCb x) := by
  unfold World.procResourceCb
  have h1 : G E (x :: N) A (w.modDev x (fun d => { d with waitingRes := false })) :=
    h.modDev x _ rfl (fun q hq => h.valid.dev x q hq) (fun _ h => h)
      (fun y hy => List.mem_cons_of_mem _ hy) (Or.inl (List.mem_cons_self ..))
      (Or.inr (fun q hq => ⟨hq, Int.le_refl _, id⟩)) (fun hh => nomatch hh)
  exact h1.notify x (fun y hy => (List.mem_cons.mp hy).imp id id)

theorem G.setBlockG {E N A : List Nat} {w : World} (h : G E N A w) (x : Nat) (b : Bool)
    (hxA : x ∉ A) : G E N A (w.setBlock x b) := by
  unfold World.setBlock
  split
  · exact h
  · dsimp only
    by_cases hx : x < w.devs.length
    · have h1 : G E (x :: N) A (w.modDev x (fun d => { d with blockInput := b })) :=
        h.modDev x _ rfl (fun q hq => h.valid.dev x q hq) (fun _ h => h)
          (fun y hy => List.mem_cons_of_mem _ hy) (Or.inl (List.mem_cons_self ..))
          (Or.inr (fun q hq => ⟨hq, Int.le_refl _, id⟩))
      split
      · exact h1.notify x (fun y hy => (List.mem_cons.mp hy).imp id id)
      · next hb =>
        refine h1.discharge x (fun y hy => (List.mem_cons.mp hy).imp id id) (fun n => ?_) hxA
        have hbt : b = true := by simpa using hb
        subst hbt
        rw [dev_modDev_same hx]
        have : accB0 n { w.dev x with blockInput := true } = false := by
          unfold accB0
          cases (w.dev x).kind <;> simp
        unfold accB; rw [this]; rfl
    · rw [modDev_out_of_range (Nat.le_of_not_lt hx)]
      split
      · exact h.notify x (fun y hy => Or.inr hy)
      · exact h

theorem holdsD_maxParts (d : Dev) (m' : Option Int) (hb : budgetOK d = true) {q : Nat}
    (h : holdsD { d with maxParts := m' } = some q) : holdsD d = some q := by
  unfold holdsD at h ⊢
  cases hk : d.kind <;> simp only [hk] at h ⊢
  · rw [hb, if_pos rfl]
    split at h
    · exact h
    · cases h
  all_goals exact h

theorem G.adjustPartsG {E N A : List Nat} {w : World} (h : G E N A w) (x : Nat) (v : Int) :
    G E N A (w.adjustParts x v) := by
  unfold World.adjustParts
  dsimp only
  split
  · exact h
  · next m hm =>
    split
    · -- the budget was exhausted: new attempt
      apply G.schedulePassX
      exact h.setDev x _ rfl (fun q hq => h.valid.dev x q hq) (fun y hy => List.mem_cons_of_mem _ hy)
        (fun _ h => h) (Or.inr (Or.inr (fun _ => id))) (Or.inl (List.mem_cons_self ..))
    · next hne =>
      refine h.setDev x _ rfl (fun q hq => h.valid.dev x q hq) (fun _ h => h) (fun _ h => h)
        (Or.inr (Or.inr (fun _ => id))) (Or.inr ?_)
      intro q hq
      have hb : budgetOK (w.dev x) = true := by
        unfold budgetOK; rw [hm]
        simp only [decide_eq_true_eq] at hne ⊢
        omega
      exact ⟨holdsD_maxParts _ _ hb hq, Int.le_refl _, id⟩

theorem G.initDevG {E N A : List Nat} {w : World} (h : G E N A w) (x : Nat) :
    G E N A (w.initDev x) := by
  unfold World.initDev
  have h1 := h.modDev_irrel x (fun d => { d with inited := true, val := d.val.reset }) rfl rfl
    (fun _ => rfl) rfl (fun _ => rfl) rfl
  generalize w.modDev x (fun d => { d with inited := true, val := d.val.reset }) = w1 at h1
  dsimp only
  split
  · exact h1
  · exact h1
  · exact h1
  · exact h1
  · exact (h1.setWaiting x true true).modDev_irrel x _ rfl rfl (fun _ => rfl) rfl (fun _ => rfl) rfl
  · exact (h1.setWaiting x true true).scheduleFinish x
  · exact h1.setWaiting x true true

end C03W
end SimProc
