/-
C08W, part 3: the routing invariant on the slot view (`RouteV`), and its preservation by the moves
of one device (`routeV_steps`) and by a hand-over (`routeV_bump`).
-/
import SimProc.Proofs.C08WTopo
import SimProc.Proofs.SVInv
namespace SimProc
namespace C08W
open World C02V C02V.SVBatchAux

/-! ### the invariant -/

/-- A leaf part (held by `z`, directly or inside a batch): its history starts at a source, is a
walk along configured connections (stack-oblivious), and ends at `z`. -/
def GoodLeaf (t : Topo) (hi : Nat → List Nat) (z k : Nat) : Prop :=
  ∃ s h, hi k = s :: h ∧ t.kind s = .source ∧ WalkU t s h ∧ lastOf s h = z

/-- A batch held by `z`: its history — possibly without its origin `o` (the batcher that started
the batch does not sign it) — is a walk from `o` whose group-path bookkeeping, started with the
empty stack, yields exactly the stack of the batch; it ends at `z`. -/
def GoodBatch (t : Topo) (hi sk : Nat → List Nat) (z q : Nat) : Prop :=
  ∃ o h, (hi q = o :: h ∨ hi q = h) ∧ Walk t o [] h (sk q) ∧ lastOf o h = z

structure RouteV (a : SV) (t : Topo) (hi sk : Nat → List Nat) : Prop where
  leaf : ∀ z d q, a.devs[z]? = some d → q ∈ d.held → a.kids[q]? = some none → GoodLeaf t hi z q
  batch : ∀ z d q l, a.devs[z]? = some d → q ∈ d.held → a.kids[q]? = some (some l) →
    GoodBatch t hi sk z q
  kid : ∀ z d q l k, a.devs[z]? = some d → q ∈ d.held → a.kids[q]? = some (some l) → k ∈ l →
    GoodLeaf t hi z k

/-- What is known about a part created by device `z`. -/
def NewOK (t : Topo) (hi sk : Nat → List Nat) (K : List (Option (List Nat))) (z q : Nat) : Prop :=
  sk q = [] ∧ ((hi q = [z] ∧ t.kind z = .source) ∨ (hi q = [] ∧ ∃ l, K[q]? = some (some l)))

theorem NewOK.leaf {t : Topo} {hi sk : Nat → List Nat} {K : List (Option (List Nat))} {z q : Nat}
    (h : NewOK t hi sk K z q) (hl : K[q]? = some none) : GoodLeaf t hi z q := by
  rcases h.2 with ⟨h1, h2⟩ | ⟨_, l, h2⟩
  · exact ⟨z, [], h1, h2, WalkU.nil, rfl⟩
  · rw [hl] at h2; simp at h2

theorem NewOK.batch {t : Topo} {hi sk : Nat → List Nat} {K : List (Option (List Nat))} {z q : Nat}
    (h : NewOK t hi sk K z q) : GoodBatch t hi sk z q := by
  refine ⟨z, [], ?_, ?_, rfl⟩
  · rcases h.2 with ⟨h1, _⟩ | ⟨h1, _⟩
    · exact Or.inl h1
    · exact Or.inr h1
  · rw [h.1]; exact Walk.nil

/-! ### validity -/

theorem valid_held {a : SV} (h : Inv a) {z : Nat} {d : SDev} (hz : a.devs[z]? = some d) {q : Nat}
    (hq : q ∈ d.held) : q < a.kids.length :=
  h.1.heldValid d (List.mem_of_getElem? hz) q hq

theorem kids_cases {a : SV} {q : Nat} (hq : q < a.kids.length) :
    a.kids[q]? = some none ∨ ∃ l, a.kids[q]? = some (some l) := by
  rw [List.getElem?_eq_getElem hq]
  cases a.kids[q] with
  | none => exact Or.inl rfl
  | some l => exact Or.inr ⟨l, rfl⟩

/-- The invariant reads histories and stacks of existing parts only. -/
theorem RouteV.congr {a : SV} {t : Topo} {hi sk hi' sk' : Nat → List Nat} (hI : Inv a)
    (h : RouteV a t hi sk) (e : ∀ q, q < a.kids.length → hi' q = hi q ∧ sk' q = sk q) :
    RouteV a t hi' sk' := by
  refine ⟨?_, ?_, ?_⟩
  · intro z d q hz hq hk
    obtain ⟨s, h0, h1, h2, h3, h4⟩ := h.leaf z d q hz hq hk
    exact ⟨s, h0, by rw [(e q (valid_held hI hz hq)).1]; exact h1, h2, h3, h4⟩
  · intro z d q l hz hq hk
    obtain ⟨o, h0, h1, h2, h3⟩ := h.batch z d q l hz hq hk
    have := e q (valid_held hI hz hq)
    exact ⟨o, h0, by rw [this.1]; exact h1, by rw [this.2]; exact h2, h3⟩
  · intro z d q l k hz hq hk hkl
    obtain ⟨s, h0, h1, h2, h3, h4⟩ := h.kid z d q l k hz hq hk hkl
    have hkv : k < a.kids.length := kids_lt (hI.1.kidsLeaf q l hk k hkl)
    exact ⟨s, h0, by rw [(e k hkv).1]; exact h1, h2, h3, h4⟩

/-! ### uniqueness of leaf occurrences -/

/-- A leaf below a part held by a device that is not a sink occurs nowhere else. -/
theorem leafocc_unique {a : SV} (h : Inv a) {x z : Nat} {dx dz : SDev} (hx : a.devs[x]? = some dx)
    (hxs : dx.kind ≠ .sink) {p q k : Nat} (hp : p ∈ dx.held) (hkp : k ∈ lvs a.kids p)
    (hz : a.devs[z]? = some dz) (hq : q ∈ dz.held) (hkq : k ∈ lvs a.kids q) : x = z ∧ p = q := by
  have hnd := mass_nodup h.1
  simp only [SV.mass, inside_eq, List.nodup_append, List.mem_append, List.mem_flatMap] at hnd
  obtain ⟨⟨hin, -, hdis⟩, -, -⟩ := hnd
  have hmx := List.mem_of_getElem? hx
  have hmz := List.mem_of_getElem? hz
  have hkd : k ∈ con a.kids dx := by
    simp only [con, hxs, if_false, List.mem_flatMap]
    exact ⟨p, hp, hkp⟩
  by_cases hzs : dz.kind = .sink
  · have : k ∈ a.del := h.2.sinkDel dz hmz hzs q hq k (by rw [SVBatchAux.leaves_eq]; exact hkq)
    exact absurd rfl (hdis k ⟨dx, hmx, hkd⟩ k this)
  · have hkz : k ∈ con a.kids dz := by
      simp only [con, hzs, if_false, List.mem_flatMap]
      exact ⟨q, hq, hkq⟩
    have hxz : x = z := nodup_flatMap_idx hin hx hz hkd hkz
    subst hxz
    rw [hx] at hz
    cases hz
    have hcn := nodup_flatMap_mem hin hmx
    simp only [con, hxs, if_false] at hcn
    exact ⟨rfl, nodup_flatMap_inj hcn hp hq hkp hkq⟩

/-! ### holders only lost, kids untouched -/

theorem RouteV.sub {a c : SV} {t : Topo} {hi sk : Nat → List Nat} (h : RouteV a t hi sk)
    (hk : c.kids = a.kids)
    (hs : ∀ (z : Nat) (d : SDev) (q : Nat), c.devs[z]? = some d → q ∈ d.held →
      ∃ d0 : SDev, a.devs[z]? = some d0 ∧ q ∈ d0.held) :
    RouteV c t hi sk := by
  refine ⟨?_, ?_, ?_⟩
  · intro z d q hz hq hkq
    obtain ⟨d0, h0, h1⟩ := hs z d q hz hq
    exact h.leaf z d0 q h0 h1 (hk ▸ hkq)
  · intro z d q l hz hq hkq
    obtain ⟨d0, h0, h1⟩ := hs z d q hz hq
    exact h.batch z d0 q l h0 h1 (hk ▸ hkq)
  · intro z d q l k hz hq hkq hkl
    obtain ⟨d0, h0, h1⟩ := hs z d q hz hq
    exact h.kid z d0 q l k h0 h1 (hk ▸ hkq) hkl

/-! ### new parts appended to the table -/

theorem routeV_extend {a c : SV} {t : Topo} {hi sk : Nat → List Nat} {z : Nat}
    {more : List (Option (List Nat))} (hI : Inv a) (h : RouteV a t hi sk)
    (hk : c.kids = a.kids ++ more)
    (hs : ∀ (z' : Nat) (d : SDev) (q : Nat), c.devs[z']? = some d → q ∈ d.held →
      (∃ d0 : SDev, a.devs[z']? = some d0 ∧ q ∈ d0.held) ∨ (z' = z ∧ a.kids.length ≤ q))
    (hn : ∀ q, a.kids.length ≤ q → q < c.kids.length → NewOK t hi sk c.kids z q)
    (hkid : ∀ q l k, a.kids.length ≤ q → c.kids[q]? = some (some l) → k ∈ l →
      a.kids.length ≤ k ∧ c.kids[k]? = some none) :
    RouteV c t hi sk := by
  have hold : ∀ q, q < a.kids.length → c.kids[q]? = a.kids[q]? := by
    intro q hq; rw [hk, List.getElem?_append_left hq]
  refine ⟨?_, ?_, ?_⟩
  · intro z' d q hz hq hkq
    rcases hs z' d q hz hq with ⟨d0, h0, h1⟩ | ⟨rfl, hge⟩
    · exact h.leaf z' d0 q h0 h1 (by rw [← hold q (valid_held hI h0 h1)]; exact hkq)
    · exact (hn q hge (kids_lt hkq)).leaf hkq
  · intro z' d q l hz hq hkq
    rcases hs z' d q hz hq with ⟨d0, h0, h1⟩ | ⟨rfl, hge⟩
    · exact h.batch z' d0 q l h0 h1 (by rw [← hold q (valid_held hI h0 h1)]; exact hkq)
    · exact (hn q hge (kids_lt hkq)).batch
  · intro z' d q l k hz hq hkq hkl
    rcases hs z' d q hz hq with ⟨d0, h0, h1⟩ | ⟨rfl, hge⟩
    · exact h.kid z' d0 q l k h0 h1 (by rw [← hold q (valid_held hI h0 h1)]; exact hkq) hkl
    · obtain ⟨h1, h2⟩ := hkid q l k hge hkq hkl
      exact (hn k h1 (kids_lt h2)).leaf h2

/-! ### the slots of one device recombined -/

theorem routeV_recombine {a : SV} {t : Topo} {hi sk : Nat → List Nat} {z : Nat} {d d' : SDev}
    {K' : List (Option (List Nat))} {g dl lo : List Nat}
    (hI : Inv a) (h : RouteV a t hi sk) (hz : a.devs[z]? = some d)
    (hupd : KUpd d.held a.kids K')
    (htop : ∀ q ∈ d'.held, q ∈ d.held ∨ ∃ p0 l0, p0 ∈ d.held ∧ a.kids[p0]? = some (some l0) ∧ q ∈ l0)
    (hkid : ∀ q ∈ d'.held, ∀ l', K'[q]? = some (some l') → ∀ k ∈ l',
      (k ∈ d.held ∧ a.kids[k]? = some none) ∨
      ∃ p0 l0, p0 ∈ d.held ∧ a.kids[p0]? = some (some l0) ∧ k ∈ l0) :
    RouteV { devs := a.devs.set z d', kids := K', gen := g, del := dl, lost := lo } t hi sk := by
  have hzl : z < a.devs.length := (List.getElem?_eq_some_iff.1 hz).1
  -- a holder in the new view
  have hdev : ∀ z' d0, (a.devs.set z d')[z']? = some d0 →
      (z' = z ∧ d0 = d') ∨ (z' ≠ z ∧ a.devs[z']? = some d0) := by
    intro z' d0 h0
    by_cases hzz : z = z'
    · subst hzz
      rw [List.getElem?_set_self hzl] at h0
      exact Or.inl ⟨rfl, (Option.some.inj h0).symm⟩
    · rw [List.getElem?_set_ne hzz] at h0
      exact Or.inr ⟨fun e => hzz e.symm, h0⟩
  have hother : ∀ z' d0 q, z' ≠ z → a.devs[z']? = some d0 → q ∈ d0.held → K'[q]? = a.kids[q]? := by
    intro z' d0 q hne h0 hq
    apply hupd.same
    intro hqd
    exact hne (held_unique hI.1 h0 hz hq hqd)
  refine ⟨?_, ?_, ?_⟩
  · intro z' d0 q h0 hq hkq
    simp only at h0 hkq
    rcases hdev z' d0 h0 with ⟨rfl, rfl⟩ | ⟨hne, h0'⟩
    · rcases htop q hq with hqd | ⟨p0, l0, hp0, hl0, hql⟩
      · rcases kids_cases (valid_held hI hz hqd) with hk | ⟨l, hk⟩
        · exact h.leaf _ d q hz hqd hk
        · obtain ⟨l', hl'⟩ := hupd.batch q l hk
          rw [hl'] at hkq; simp at hkq
      · exact h.kid _ d p0 l0 q hz hp0 hl0 hql
    · exact h.leaf z' d0 q h0' hq (by rw [← hother z' d0 q hne h0' hq]; exact hkq)
  · intro z' d0 q l h0 hq hkq
    simp only at h0 hkq
    rcases hdev z' d0 h0 with ⟨rfl, rfl⟩ | ⟨hne, h0'⟩
    · rcases htop q hq with hqd | ⟨p0, l0, hp0, hl0, hql⟩
      · rcases kids_cases (valid_held hI hz hqd) with hk | ⟨l1, hk⟩
        · rw [hupd.leaf q hk] at hkq; simp at hkq
        · exact h.batch _ d q l1 hz hqd hk
      · have := hupd.leaf q (hI.1.kidsLeaf p0 l0 hl0 q hql)
        rw [this] at hkq; simp at hkq
    · exact h.batch z' d0 q l h0' hq (by rw [← hother z' d0 q hne h0' hq]; exact hkq)
  · intro z' d0 q l k h0 hq hkq hkl
    simp only at h0 hkq
    rcases hdev z' d0 h0 with ⟨rfl, rfl⟩ | ⟨hne, h0'⟩
    · rcases hkid q hq l hkq k hkl with ⟨hkd, hkleaf⟩ | ⟨p0, l0, hp0, hl0, hkl0⟩
      · exact h.leaf _ d k hz hkd hkleaf
      · exact h.kid _ d p0 l0 k hz hp0 hl0 hkl0
    · exact h.kid z' d0 q l k h0' hq (by rw [← hother z' d0 q hne h0' hq]; exact hkq) hkl

/-- `routeV_extend` for a device that put a new part into one of its slots. -/
theorem routeV_extend_set {a : SV} {t : Topo} {hi sk : Nat → List Nat} {z n : Nat} {d d' : SDev}
    {more : List (Option (List Nat))} {g dl lo : List Nat} (hI : Inv a) (h : RouteV a t hi sk)
    (hz : a.devs[z]? = some d) (hp : d'.held.Perm (n :: d.held)) (hn' : a.kids.length ≤ n)
    (hn : ∀ q, a.kids.length ≤ q → q < (a.kids ++ more).length → NewOK t hi sk (a.kids ++ more) z q)
    (hkid : ∀ q l k, a.kids.length ≤ q → (a.kids ++ more)[q]? = some (some l) → k ∈ l →
      a.kids.length ≤ k ∧ (a.kids ++ more)[k]? = some none) :
    RouteV { devs := a.devs.set z d', kids := a.kids ++ more, gen := g, del := dl, lost := lo }
      t hi sk := by
  have hzl : z < a.devs.length := (List.getElem?_eq_some_iff.1 hz).1
  refine routeV_extend (z := z) (more := more) hI h rfl ?_ hn hkid
  intro z' d0 q h0 hq
  simp only at h0
  by_cases hzz : z = z'
  · subst hzz
    rw [List.getElem?_set_self hzl] at h0
    cases h0
    rcases List.mem_cons.1 (hp.subset hq) with rfl | hq'
    · exact Or.inr ⟨rfl, hn'⟩
    · exact Or.inl ⟨d, hz, hq'⟩
  · rw [List.getElem?_set_ne hzz] at h0
    exact Or.inl ⟨d0, h0, hq⟩

/-! ### the moves of one device -/

theorem addKid_get {K : List (Option (List Nat))} {b t q : Nat} (h : q ≠ b) :
    (addKid K b t)[q]? = K[q]? := by
  unfold addKid; rw [List.getElem?_set_ne (fun e => h e.symm)]

/-- A leaf stays a leaf. -/
theorem move_leaf_stable {z : Nat} {b c : SV} (hm : Move z b c) (hI : Inv b) {q : Nat}
    (hq : b.kids[q]? = some none) : c.kids[q]? = some none := by
  cases hm with
  | rearr d d' r hz hk hp hr hi => exact hq
  | gen _ hg =>
    cases hg with
    | leaf d hz hk ho =>
      show (b.kids ++ [none])[q]? = some none
      rw [List.getElem?_append_left (kids_lt hq)]; exact hq
    | batch d n hz hk ho =>
      show (b.kids ++ List.replicate n none ++ [some _])[q]? = some none
      rw [List.append_assoc, List.getElem?_append_left (kids_lt hq)]; exact hq
  | shell d hz hi =>
    show (b.kids ++ [some []])[q]? = some none
    rw [List.getElem?_append_left (kids_lt hq)]; exact hq
  | kidOut d p k rest hz hk hp ho hkid =>
    show (b.kids.set p (some rest))[q]? = some none
    rw [List.getElem?_set_ne]; exact hq
    rintro rfl; rw [hkid] at hq; simp at hq
  | kidIn d p k rest b' hz hk hp hi hkid =>
    obtain ⟨lb, hlb⟩ := hI.2.inprogBatch d (List.mem_of_getElem? hz) b' hi
    show (addKid (b.kids.set p (some rest)) b' k)[q]? = some none
    rw [addKid_get (by rintro rfl; rw [hlb] at hq; simp at hq), List.getElem?_set_ne]; exact hq
    rintro rfl; rw [hkid] at hq; simp at hq
  | leafIn d p b' hz hk hp hi hkid =>
    obtain ⟨lb, hlb⟩ := hI.2.inprogBatch d (List.mem_of_getElem? hz) b' hi
    show (addKid b.kids b' p)[q]? = some none
    rw [addKid_get (by rintro rfl; rw [hlb] at hq; simp at hq)]; exact hq

theorem move_kids_mono {z : Nat} {b c : SV} (hm : Move z b c) : b.kids.length ≤ c.kids.length := by
  cases hm with
  | gen _ hg => cases hg <;> simp <;> omega
  | rearr => exact Nat.le_refl _
  | shell => simp
  | kidOut => simp
  | kidIn => simp [addKid]
  | leafIn => simp [addKid]

theorem kupd_refl (H : List Nat) (K : List (Option (List Nat))) : KUpd H K K :=
  ⟨rfl, fun _ _ => rfl, fun _ h => h, fun _ l h => ⟨l, h⟩⟩

theorem held_part_none (d : SDev) : ∀ q ∈ ({ d with part := none } : SDev).held, q ∈ d.held := by
  intro q hq
  simp only [SDev.held, Option.toList_none, List.nil_append, List.mem_append] at hq ⊢
  rcases hq with (hq | hq) | hq
  · exact Or.inl (Or.inl (Or.inr hq))
  · exact Or.inl (Or.inr hq)
  · exact Or.inr hq

theorem held_optP (d : SDev) (p : Nat) (rest : List Nat) (hp : d.part = some p) :
    ∀ q ∈ ({ d with part := if rest.isEmpty then none else some p } : SDev).held, q ∈ d.held := by
  intro q hq
  split at hq
  · exact held_part_none d q hq
  · have : ({ d with part := some p } : SDev) = d := by cases d; simp_all
    rw [this] at hq; exact hq

theorem routeV_move {z : Nat} {b c : SV} {t : Topo} {hi sk : Nat → List Nat} (hI : Inv b)
    (h : RouteV b t hi sk) (hm : Move z b c)
    (hn : ∀ q, b.kids.length ≤ q → q < c.kids.length → NewOK t hi sk c.kids z q) :
    RouteV c t hi sk := by
  cases hm with
  | rearr d d' r hz hk hp hr hi' =>
    refine routeV_recombine hI h hz (kupd_refl _ _) ?_ ?_
    · intro q hq; exact Or.inl (hp.symm.subset (List.mem_append_right _ hq))
    · intro q hq l' hl' k hk'
      exact Or.inr ⟨q, l', hp.symm.subset (List.mem_append_right _ hq), hl', hk'⟩
  | gen _ hg =>
    cases hg with
    | leaf d hz hk ho =>
      refine routeV_extend_set (more := [none]) hI h hz (held_output_perm d _ ho) (Nat.le_refl _) hn ?_
      intro q l k hq hl _
      exfalso
      rw [List.getElem?_append_right hq] at hl
      rcases Nat.eq_zero_or_pos (q - b.kids.length) with h3 | h3
      · simp [h3] at hl
      · have : ([none] : List (Option (List Nat)))[q - b.kids.length]? = none := by
          rw [List.getElem?_eq_none_iff]; simp; omega
        rw [this] at hl; simp at hl
    | batch d n hz hk ho =>
      have key := routeV_extend_set (g := b.gen ++ List.range' b.kids.length n) (dl := b.del) (lo := b.lost)
        (more := List.replicate n none ++ [some (List.range' b.kids.length n)]) hI h hz
        (held_output_perm d (b.kids.length + n) ho) (by omega)
        (by simpa [List.append_assoc] using hn) ?_
      · simpa [List.append_assoc] using key
      · intro q l k hq hl hk'
        have := getElem?_batch_some _ _ _ _ _ hq hl
        subst this
        rw [List.mem_range'_1] at hk'
        exact ⟨hk'.1, getElem?_batch_none _ _ _ _ hk'.1 hk'.2⟩
  | shell d hz hi' =>
    refine routeV_extend_set (more := [some []]) hI h hz (held_inprog_perm d _ hi') (Nat.le_refl _) hn ?_
    intro q l k hq hl hk'
    have := getElem?_shell_some _ _ _ hq hl
    subst this
    simp at hk'
  | kidOut d p k rest hz hk hp ho hkid =>
    have hpd : p ∈ d.held := by simp [SDev.held, hp]
    refine routeV_recombine hI h hz (kupd_set hpd hkid) ?_ ?_
    · intro q hq
      simp only [SDev.held, Option.toList_some, List.mem_append, List.mem_singleton] at hq
      rcases hq with ((hq | rfl) | hq) | hq
      · left
        split at hq
        · simp at hq
        · simp at hq; subst hq; exact hpd
      · exact Or.inr ⟨p, _, hpd, hkid, List.mem_cons_self ..⟩
      · left; simp [SDev.held, hq]
      · left; simp [SDev.held, hq]
    · intro q hq l' hl' k' hk'
      right
      by_cases hqp : q = p
      · subst hqp
        rw [List.getElem?_set_self (kids_lt hkid)] at hl'
        cases hl'
        exact ⟨q, k :: rest, hpd, hkid, List.mem_cons_of_mem _ hk'⟩
      · rw [List.getElem?_set_ne (fun e => hqp e.symm)] at hl'
        refine ⟨q, l', ?_, hl', hk'⟩
        simp only [SDev.held, Option.toList_some, List.mem_append, List.mem_singleton] at hq
        rcases hq with ((hq | rfl) | hq) | hq
        · split at hq
          · simp at hq
          · simp at hq; exact absurd hq hqp
        · have := hI.1.kidsLeaf p _ hkid q (List.mem_cons_self ..)
          rw [this] at hl'; simp at hl'
        · simp [SDev.held, hq]
        · simp [SDev.held, hq]
  | kidIn d p k rest b' hz hk hp hi' hkid =>
    have hpd : p ∈ d.held := by simp [SDev.held, hp]
    have hbd : b' ∈ d.held := by simp [SDev.held, hi']
    have hne : p ≠ b' := by
      have hnd := held_nodup hI.1 (List.mem_of_getElem? hz)
      intro e; subst e
      simp only [SDev.held, hp, hi', Option.toList_some] at hnd
      have := hnd
      simp [List.nodup_append] at this
    obtain ⟨lb, hlb⟩ := hI.2.inprogBatch d (List.mem_of_getElem? hz) b' hi'
    have hlb' : (b.kids.set p (some rest))[b']? = some (some lb) := by
      rw [List.getElem?_set_ne hne]; exact hlb
    have hK : addKid (b.kids.set p (some rest)) b' k = (b.kids.set p (some rest)).set b' (some (lb ++ [k])) :=
      addKid_eq hlb'
    refine routeV_recombine hI h hz ?_ ?_ ?_
    · rw [hK]; exact (kupd_set hpd hkid).trans (kupd_set hbd hlb')
    · intro q hq; exact Or.inl (held_optP d p rest hp q hq)
    · intro q hq l' hl' k' hk'
      right
      rw [hK] at hl'
      by_cases hqb : q = b'
      · subst hqb
        rw [List.getElem?_set_self (kids_lt hlb')] at hl'
        cases hl'
        rcases List.mem_append.1 hk' with hk' | hk'
        · exact ⟨q, lb, hbd, hlb, hk'⟩
        · have : k' = k := by simpa using hk'
          subst this
          exact ⟨p, k' :: rest, hpd, hkid, List.mem_cons_self ..⟩
      · rw [List.getElem?_set_ne (fun e => hqb e.symm)] at hl'
        by_cases hqp : q = p
        · subst hqp
          rw [List.getElem?_set_self (kids_lt hkid)] at hl'
          cases hl'
          exact ⟨q, k :: rest, hpd, hkid, List.mem_cons_of_mem _ hk'⟩
        · rw [List.getElem?_set_ne (fun e => hqp e.symm)] at hl'
          exact ⟨q, l', held_optP d p rest hp q hq, hl', hk'⟩
  | leafIn d p b' hz hk hp hi' hkid =>
    have hpd : p ∈ d.held := by simp [SDev.held, hp]
    have hbd : b' ∈ d.held := by simp [SDev.held, hi']
    obtain ⟨lb, hlb⟩ := hI.2.inprogBatch d (List.mem_of_getElem? hz) b' hi'
    have hK : addKid b.kids b' p = b.kids.set b' (some (lb ++ [p])) := addKid_eq hlb
    have hpleaf : b.kids[p]? = some none := by
      rcases kids_cases (valid_held hI hz hpd) with h1 | ⟨l, h1⟩
      · exact h1
      · simp [List.getD_eq_getElem?_getD, h1] at hkid
    refine routeV_recombine hI h hz ?_ ?_ ?_
    · rw [hK]; exact kupd_set hbd hlb
    · intro q hq; exact Or.inl (held_part_none d q hq)
    · intro q hq l' hl' k' hk'
      rw [hK] at hl'
      by_cases hqb : q = b'
      · subst hqb
        rw [List.getElem?_set_self (kids_lt hlb)] at hl'
        cases hl'
        rcases List.mem_append.1 hk' with hk' | hk'
        · exact Or.inr ⟨q, lb, hbd, hlb, hk'⟩
        · have : k' = p := by simpa using hk'
          subst this
          exact Or.inl ⟨hpd, hpleaf⟩
      · rw [List.getElem?_set_ne (fun e => hqb e.symm)] at hl'
        exact Or.inr ⟨q, l', held_part_none d q hq, hl', hk'⟩

/-- **The moves of one device preserve the routing invariant**, provided the parts created on the
way are as `NewOK` says. -/
theorem routeV_steps {z : Nat} {a a' : SV} {t : Topo} {hi sk : Nat → List Nat} (hs : Steps z a a')
    (hI : Inv a) (h : RouteV a t hi sk)
    (hn : ∀ q, a.kids.length ≤ q → q < a'.kids.length → NewOK t hi sk a'.kids z q) :
    RouteV a' t hi sk := by
  induction hs with
  | refl => exact h
  | tail b c hab hbc ih =>
    have hIb : Inv b := inv_steps hI hab
    have hmono := move_kids_mono hbc
    have hab_mono : a.kids.length ≤ b.kids.length := by
      clear ih hn hbc hmono
      induction hab with
      | refl => exact Nat.le_refl _
      | tail b' c' _ hm ih' => exact Nat.le_trans (ih' (inv_steps hI ‹_›)) (move_kids_mono hm)
    have hb : RouteV b t hi sk := by
      apply ih
      intro q hq1 hq2
      obtain ⟨h1, h2⟩ := hn q hq1 (Nat.lt_of_lt_of_le hq2 hmono)
      refine ⟨h1, ?_⟩
      rcases h2 with h2 | ⟨h2, l, hl⟩
      · exact Or.inl h2
      · refine Or.inr ⟨h2, ?_⟩
        rcases kids_cases hq2 with h3 | h3
        · rw [move_leaf_stable hbc hIb h3] at hl; simp at hl
        · exact h3
    exact routeV_move hIb hb hbc (fun q hq1 hq2 => hn q (Nat.le_trans hab_mono hq1) hq2)

/-! ### a hand-over -/

theorem goodLeaf_snoc {t : Topo} {hi hi' : Nat → List Nat} {x y z k : Nat} {c s1 s2 : List Nat}
    (h : GoodLeaf t hi x k) (hy : y ∈ t.down x) (hs1 : ∀ g ∈ s1, t.kind g = .gpath)
    (hc : GChain t y s1 (c ++ [z]) s2)
    (e : hi' k = hi k ++ (c ++ [z])) : GoodLeaf t hi' z k := by
  obtain ⟨s, h0, h1, h2, h3, h4⟩ := h
  refine ⟨s, h0 ++ (c ++ [z]), by rw [e, h1]; rfl, h2, ?_, lastOf_append_concat _ _ _ _⟩
  exact WalkU.snoc h0 y s1 _ s2 h3 (by rw [h4]; exact hy) hs1 hc

theorem goodBatch_snoc {t : Topo} {hi sk hi' sk' : Nat → List Nat} {x y z q : Nat} {c s2 : List Nat}
    (h : GoodBatch t hi sk x q) (hy : y ∈ t.down x) (hc : GChain t y (sk q) (c ++ [z]) s2)
    (e : hi' q = hi q ++ (c ++ [z])) (es : sk' q = s2) : GoodBatch t hi' sk' z q := by
  obtain ⟨o, h0, h1, h2, h3⟩ := h
  refine ⟨o, h0 ++ (c ++ [z]), ?_, ?_, lastOf_append_concat _ _ _ _⟩
  · rcases h1 with h1 | h1
    · exact Or.inl (by rw [e, h1]; rfl)
    · exact Or.inr (by rw [e, h1])
  · rw [es]
    exact Walk.snoc h0 _ y _ s2 h2 (by rw [h3]; exact hy) hc

/-- **A hand-over preserves the routing invariant.**  The part `p`, held by `x` (not a sink), is
handed along the chain `C ++ [z]` (which starts at a configured downstream device `y` of `x`); the
chain is appended to the history of `p` and of its kids, the stack of `p` becomes `s'`, nothing else
changes in the parts table; in the new slot view `p` is held by `z` only and everything else is held
where it was. -/
theorem routeV_bump {a c : SV} {t : Topo} {hi sk hi' sk' : Nat → List Nat} (hI : Inv a)
    (h : RouteV a t hi sk) {x z p y : Nat} {dx : SDev} {C s' : List Nat}
    (hx : a.devs[x]? = some dx) (hxs : dx.kind ≠ .sink) (hp : p ∈ dx.held)
    (hy : y ∈ t.down x) (hsp : ∀ g ∈ sk p, t.kind g = .gpath)
    (hC : GChain t y (sk p) (C ++ [z]) s')
    (hP : hi' p = hi p ++ (C ++ [z]) ∧ sk' p = s')
    (hK : ∀ l, a.kids[p]? = some (some l) → ∀ k ∈ l, hi' k = hi k ++ (C ++ [z]))
    (hO : ∀ q, q < a.kids.length → q ≠ p → (∀ l, a.kids[p]? = some (some l) → q ∉ l) →
      hi' q = hi q ∧ sk' q = sk q)
    (hk : c.kids = a.kids)
    (hs : ∀ (z' : Nat) (d : SDev) (q : Nat), c.devs[z']? = some d → q ∈ d.held →
      (q = p ∧ z' = z) ∨ (q ≠ p ∧ ∃ d0 : SDev, a.devs[z']? = some d0 ∧ q ∈ d0.held)) :
    RouteV c t hi' sk' := by
  have hmx := List.mem_of_getElem? hx
  -- a part held elsewhere is untouched
  have hold : ∀ (z' : Nat) (d0 : SDev) (q : Nat), a.devs[z']? = some d0 → q ∈ d0.held → q ≠ p →
      hi' q = hi q ∧ sk' q = sk q := by
    intro z' d0 q h0 hq hqp
    refine hO q (valid_held hI h0 hq) hqp ?_
    intro l hl hql
    exact kid_not_held hI hmx hxs hp hl hql d0 (List.mem_of_getElem? h0) hq
  -- … and so are its kids
  have holdk : ∀ (z' : Nat) (d0 : SDev) (q : Nat) (l' : List Nat) (k' : Nat), a.devs[z']? = some d0 →
      q ∈ d0.held → q ≠ p → a.kids[q]? = some (some l') → k' ∈ l' → hi' k' = hi k' := by
    intro z' d0 q l' k' h0 hq hqp hl' hk'
    have hkleaf := hI.1.kidsLeaf q l' hl' k' hk'
    have hkq : k' ∈ lvs a.kids q := by rw [lvs_batch hl']; exact hk'
    refine (hO k' (kids_lt hkleaf) ?_ ?_).1
    · rintro rfl
      have := leafocc_unique hI hx hxs hp (by rw [lvs_leaf hkleaf]; simp) h0 hq hkq
      exact hqp this.2.symm
    · intro l hl hkl
      have := leafocc_unique hI hx hxs hp (by rw [lvs_batch hl]; exact hkl) h0 hq hkq
      exact hqp this.2.symm
  refine ⟨?_, ?_, ?_⟩
  · intro z' d q hz hq hkq
    rw [hk] at hkq
    rcases hs z' d q hz hq with ⟨rfl, rfl⟩ | ⟨hqp, d0, h0, hq0⟩
    · exact goodLeaf_snoc (h.leaf x dx q hx hp hkq) hy hsp hC hP.1
    · obtain ⟨s, h1, h2, h3, h4, h5⟩ := h.leaf z' d0 q h0 hq0 hkq
      exact ⟨s, h1, by rw [(hold z' d0 q h0 hq0 hqp).1]; exact h2, h3, h4, h5⟩
  · intro z' d q l hz hq hkq
    rw [hk] at hkq
    rcases hs z' d q hz hq with ⟨rfl, rfl⟩ | ⟨hqp, d0, h0, hq0⟩
    · exact goodBatch_snoc (h.batch x dx q l hx hp hkq) hy hC hP.1 hP.2
    · obtain ⟨o, h1, h2, h3, h4⟩ := h.batch z' d0 q l h0 hq0 hkq
      have := hold z' d0 q h0 hq0 hqp
      exact ⟨o, h1, by rw [this.1]; exact h2, by rw [this.2]; exact h3, h4⟩
  · intro z' d q l k hz hq hkq hkl
    rw [hk] at hkq
    rcases hs z' d q hz hq with ⟨rfl, rfl⟩ | ⟨hqp, d0, h0, hq0⟩
    · exact goodLeaf_snoc (h.kid x dx q l k hx hp hkq hkl) hy hsp hC (hK l hkq k hkl)
    · obtain ⟨s, h1, h2, h3, h4, h5⟩ := h.kid z' d0 q l k h0 hq0 hkq hkl
      exact ⟨s, h1, by rw [holdk z' d0 q l k h0 hq0 hqp hkq hkl]; exact h2, h3, h4, h5⟩

/-! ### the group-path stack of a leaf that has never been inside a batch

In a world without batchers a part that sits directly in a slot of a device has never been a kid of
a batch; its stack is then exactly what the group paths of its history (entered and not yet left)
say.  (With batchers this is false: the kids of a batch do not take part in the stack bookkeeping of
the batch, see `Props/C08W.lean`.) -/

/-- A leaf in a slot of `z`: its history is a walk from its first entry whose group-path
bookkeeping, started with the empty stack, yields exactly its stack; it ends at `z`. -/
def StackLeaf (t : Topo) (hi sk : Nat → List Nat) (z q : Nat) : Prop :=
  ∃ s h, hi q = s :: h ∧ Walk t s [] h (sk q) ∧ lastOf s h = z

def StackV (a : SV) (t : Topo) (hi sk : Nat → List Nat) : Prop :=
  ∀ (z : Nat) (d : SDev) (q : Nat), a.devs[z]? = some d → q ∈ d.held → a.kids[q]? = some none →
    StackLeaf t hi sk z q

/-- "Top-level parts stay top-level": what device `z` holds afterwards it held before, or is new;
the other devices and the kids of the old parts are unchanged. -/
structure TLV (z : Nat) (a a' : SV) : Prop where
  other : ∀ y, y ≠ z → a'.devs[y]? = a.devs[y]?
  sub : ∀ d', a'.devs[z]? = some d' →
    ∃ d, a.devs[z]? = some d ∧ ∀ q ∈ d'.held, q ∈ d.held ∨ a.kids.length ≤ q
  kids : ∃ more, a'.kids = a.kids ++ more

theorem TLV.refl (z : Nat) (a : SV) : TLV z a a :=
  ⟨fun _ _ => rfl, fun d' h => ⟨d', h, fun q hq => Or.inl hq⟩, ⟨[], by simp⟩⟩

theorem TLV.trans {z : Nat} {a b c : SV} (h1 : TLV z a b) (h2 : TLV z b c) : TLV z a c := by
  obtain ⟨m1, hm1⟩ := h1.kids
  obtain ⟨m2, hm2⟩ := h2.kids
  refine ⟨fun y hy => (h2.other y hy).trans (h1.other y hy), ?_, ⟨m1 ++ m2, by rw [hm2, hm1, List.append_assoc]⟩⟩
  intro d'' hd''
  obtain ⟨d', hd', hs2⟩ := h2.sub d'' hd''
  obtain ⟨d, hd, hs1⟩ := h1.sub d' hd'
  refine ⟨d, hd, ?_⟩
  intro q hq
  rcases hs2 q hq with h | h
  · exact hs1 q h
  · right
    have : a.kids.length ≤ b.kids.length := by rw [hm1]; simp
    omega

theorem TLV.mask {z : Nat} {a a' : SV} (h : TLV z a a') {x : Nat} (hx : x ≠ z) (s : SDev) :
    TLV z (mask a x s) (mask a' x s) := by
  have hx' : z ≠ x := fun e => hx e.symm
  refine ⟨?_, ?_, h.kids⟩
  · intro y hy
    simp only [C02V.mask, SV.setDev]
    by_cases hxy : x = y
    · subst hxy
      rw [List.getElem?_set_self', List.getElem?_set_self', h.other x hx]
    · rw [List.getElem?_set_ne hxy, List.getElem?_set_ne hxy]; exact h.other y hy
  · intro d' hd'
    simp only [C02V.mask, SV.setDev] at hd' ⊢
    rw [List.getElem?_set_ne hx] at hd' ⊢
    exact h.sub d' hd'

theorem StackV.congr {a : SV} {t : Topo} {hi sk hi' sk' : Nat → List Nat} (hI : Inv a)
    (h : StackV a t hi sk) (e : ∀ q, q < a.kids.length → hi' q = hi q ∧ sk' q = sk q) :
    StackV a t hi' sk' := by
  intro z d q hz hq hk
  obtain ⟨s, h0, h1, h2, h3⟩ := h z d q hz hq hk
  have := e q (valid_held hI hz hq)
  exact ⟨s, h0, by rw [this.1]; exact h1, by rw [this.2]; exact h2, h3⟩

theorem StackV.sub {a c : SV} {t : Topo} {hi sk : Nat → List Nat} (h : StackV a t hi sk)
    (hk : c.kids = a.kids)
    (hs : ∀ (z : Nat) (d : SDev) (q : Nat), c.devs[z]? = some d → q ∈ d.held →
      ∃ d0 : SDev, a.devs[z]? = some d0 ∧ q ∈ d0.held) :
    StackV c t hi sk := by
  intro z d q hz hq hkq
  obtain ⟨d0, h0, h1⟩ := hs z d q hz hq
  exact h z d0 q h0 h1 (hk ▸ hkq)

/-- Moves of `z` that keep top-level parts top-level preserve the stack invariant. -/
theorem stackV_tlv {z : Nat} {a a' : SV} {t : Topo} {hi sk : Nat → List Nat} (hI : Inv a)
    (h : StackV a t hi sk) (htl : TLV z a a')
    (hn : ∀ q, a.kids.length ≤ q → q < a'.kids.length → NewOK t hi sk a'.kids z q) :
    StackV a' t hi sk := by
  obtain ⟨more, hm⟩ := htl.kids
  intro z' d' q hz hq hk
  have hold : ∀ (d : SDev), a.devs[z']? = some d → q ∈ d.held → StackLeaf t hi sk z' q := by
    intro d h0 h1
    refine h z' d q h0 h1 ?_
    rw [hm, List.getElem?_append_left (valid_held hI h0 h1)] at hk
    exact hk
  by_cases hzz : z' = z
  · subst hzz
    obtain ⟨d, hd, hs⟩ := htl.sub d' hz
    rcases hs q hq with h1 | h1
    · exact hold d hd h1
    · obtain ⟨n1, n2⟩ := hn q h1 (kids_lt hk)
      rcases n2 with ⟨n2, _⟩ | ⟨_, l, hl⟩
      · exact ⟨z', [], n2, by rw [n1]; exact Walk.nil, rfl⟩
      · rw [hk] at hl; simp at hl
  · rw [htl.other z' hzz] at hz
    exact hold d' hz hq

/-- A hand-over preserves the stack invariant (cf. `routeV_bump`). -/
theorem stackV_bump {a c : SV} {t : Topo} {hi sk hi' sk' : Nat → List Nat} (hI : Inv a)
    (h : StackV a t hi sk) {x z p y : Nat} {dx : SDev} {C s' : List Nat}
    (hx : a.devs[x]? = some dx) (hxs : dx.kind ≠ .sink) (hp : p ∈ dx.held)
    (hy : y ∈ t.down x) (hC : GChain t y (sk p) (C ++ [z]) s')
    (hP : hi' p = hi p ++ (C ++ [z]) ∧ sk' p = s')
    (hO : ∀ q, q < a.kids.length → q ≠ p → (∀ l, a.kids[p]? = some (some l) → q ∉ l) →
      hi' q = hi q ∧ sk' q = sk q)
    (hk : c.kids = a.kids)
    (hs : ∀ (z' : Nat) (d : SDev) (q : Nat), c.devs[z']? = some d → q ∈ d.held →
      (q = p ∧ z' = z) ∨ (q ≠ p ∧ ∃ d0 : SDev, a.devs[z']? = some d0 ∧ q ∈ d0.held)) :
    StackV c t hi' sk' := by
  have hmx := List.mem_of_getElem? hx
  intro z' d q hz hq hkq
  rw [hk] at hkq
  rcases hs z' d q hz hq with ⟨rfl, rfl⟩ | ⟨hqp, d0, h0, hq0⟩
  · obtain ⟨s, h0, h1, h2, h3⟩ := h x dx q hx hp hkq
    refine ⟨s, h0 ++ (C ++ [z']), by rw [hP.1, h1]; rfl, ?_, lastOf_append_concat _ _ _ _⟩
    rw [hP.2]
    exact Walk.snoc h0 _ y _ s' h2 (by rw [h3]; exact hy) hC
  · obtain ⟨s, h1, h2, h3, h4⟩ := h z' d0 q h0 hq0 hkq
    have := hO q (valid_held hI h0 hq0) hqp (fun l hl hql =>
      kid_not_held hI hmx hxs hp hl hql d0 (List.mem_of_getElem? h0) hq0)
    exact ⟨s, h1, by rw [this.1]; exact h2, by rw [this.2]; exact h3, h4⟩

/-! ### the stacks consist of group paths -/

/-- Every entry of every stack is a group path. -/
def PathsV (a : SV) (t : Topo) (sk : Nat → List Nat) : Prop :=
  ∀ q, q < a.kids.length → ∀ g ∈ sk q, t.kind g = .gpath

/-! ### every gate in the history of a top-level leaf accepts it

`acc g q`: "gate `g` accepts part `q` now".  True for the top-level leaves of a world without batchers
and without value/quality-changing callbacks (a part inside a batch has the gates in its history that
accepted the batch). -/

def GateV (a : SV) (t : Topo) (hi : Nat → List Nat) (acc : Nat → Nat → Prop) : Prop :=
  ∀ (z : Nat) (d : SDev) (q : Nat), a.devs[z]? = some d → q ∈ d.held → a.kids[q]? = some none →
    ∀ g ∈ hi q, t.kind g = .gate → acc g q

theorem GateV.congr {a : SV} {t : Topo} {hi hi' : Nat → List Nat} {acc acc' : Nat → Nat → Prop}
    (hI : Inv a) (h : GateV a t hi acc) (e : ∀ q, q < a.kids.length → hi' q = hi q)
    (ea : ∀ g q, q < a.kids.length → a.kids[q]? = some none → acc g q → acc' g q) :
    GateV a t hi' acc' := by
  intro z d q hz hq hk g hg hkg
  have hv := valid_held hI hz hq
  rw [e q hv] at hg
  exact ea g q hv hk (h z d q hz hq hk g hg hkg)

theorem GateV.sub {a c : SV} {t : Topo} {hi : Nat → List Nat} {acc : Nat → Nat → Prop}
    (h : GateV a t hi acc) (hk : c.kids = a.kids)
    (hs : ∀ (z : Nat) (d : SDev) (q : Nat), c.devs[z]? = some d → q ∈ d.held →
      ∃ d0 : SDev, a.devs[z]? = some d0 ∧ q ∈ d0.held) :
    GateV c t hi acc := by
  intro z d q hz hq hkq
  obtain ⟨d0, h0, h1⟩ := hs z d q hz hq
  exact h z d0 q h0 h1 (hk ▸ hkq)

theorem gateV_tlv {z : Nat} {a a' : SV} {t : Topo} {hi sk : Nat → List Nat} {acc : Nat → Nat → Prop}
    (hI : Inv a) (h : GateV a t hi acc) (htl : TLV z a a')
    (hn : ∀ q, a.kids.length ≤ q → q < a'.kids.length → NewOK t hi sk a'.kids z q) :
    GateV a' t hi acc := by
  obtain ⟨more, hm⟩ := htl.kids
  intro z' d' q hz hq hk
  have hold : ∀ (d : SDev), a.devs[z']? = some d → q ∈ d.held →
      ∀ g ∈ hi q, t.kind g = .gate → acc g q := by
    intro d h0 h1
    refine h z' d q h0 h1 ?_
    rw [hm, List.getElem?_append_left (valid_held hI h0 h1)] at hk
    exact hk
  by_cases hzz : z' = z
  · subst hzz
    obtain ⟨d, hd, hs⟩ := htl.sub d' hz
    rcases hs q hq with h1 | h1
    · exact hold d hd h1
    · obtain ⟨_, n2⟩ := hn q h1 (kids_lt hk)
      rcases n2 with ⟨n2, n3⟩ | ⟨_, l, hl⟩
      · intro g hg hkg
        rw [n2] at hg
        have : g = z' := by simpa using hg
        rw [this, n3] at hkg; cases hkg
      · rw [hk] at hl; simp at hl
  · rw [htl.other z' hzz] at hz
    exact hold d' hz hq

theorem gateV_bump {a c : SV} {t : Topo} {hi sk hi' sk' : Nat → List Nat}
    {acc acc' : Nat → Nat → Prop} (hI : Inv a)
    (h : GateV a t hi acc) {x z p y : Nat} {dx : SDev} {C s' : List Nat}
    (hx : a.devs[x]? = some dx) (hxs : dx.kind ≠ .sink) (hp : p ∈ dx.held)
    (hC : GChain t y (sk p) (C ++ [z]) s')
    (hP : hi' p = hi p ++ (C ++ [z]) ∧ sk' p = s')
    (hO : ∀ q, q < a.kids.length → q ≠ p → (∀ l, a.kids[p]? = some (some l) → q ∉ l) →
      hi' q = hi q ∧ sk' q = sk q)
    (hA1 : ∀ g q, q < a.kids.length → a.kids[q]? = some none → acc g q → acc' g q)
    (hA2 : a.kids[p]? = some none → ∀ g ∈ C, t.kind g = .gate → acc' g p)
    (hk : c.kids = a.kids)
    (hs : ∀ (z' : Nat) (d : SDev) (q : Nat), c.devs[z']? = some d → q ∈ d.held →
      (q = p ∧ z' = z) ∨ (q ≠ p ∧ ∃ d0 : SDev, a.devs[z']? = some d0 ∧ q ∈ d0.held)) :
    GateV c t hi' acc' := by
  have hmx := List.mem_of_getElem? hx
  have hzk : isHandlerLike (t.kind z) = true := by
    obtain ⟨c0, z0, he, hz0⟩ := hC.last
    have := List.append_inj' he rfl
    have hz : z = z0 := by simpa using this.2
    rw [hz]; exact hz0
  intro z' d q hz hq hkq
  rw [hk] at hkq
  rcases hs z' d q hz hq with ⟨rfl, rfl⟩ | ⟨hqp, d0, h0, hq0⟩
  · intro g hg hkg
    rw [hP.1] at hg
    rcases List.mem_append.1 hg with hg | hg
    · exact hA1 g q (valid_held hI hx hp) hkq (h x dx q hx hp hkq g hg hkg)
    · rcases List.mem_append.1 hg with hg | hg
      · exact hA2 hkq g hg hkg
      · have : g = z' := by simpa using hg
        rw [this] at hkg
        rw [hkg] at hzk; cases hzk
  · intro g hg hkg
    have hv := valid_held hI h0 hq0
    have := hO q hv hqp (fun l hl hql =>
      kid_not_held hI hmx hxs hp hl hql d0 (List.mem_of_getElem? h0) hq0)
    rw [this.1] at hg
    exact hA1 g q hv hkq (h z' d0 q h0 hq0 hkq g hg hkg)

/-! ### the invariants together -/

/-- The routing invariant: `RouteV`, the stacks consist of group paths, — when `nb` ("there are no
batchers") holds — the exact stacks of the top-level leaves, and — when `nc` ("no batchers and no
value/quality-changing callbacks") holds — every gate in the history of a top-level leaf accepts
it. -/
def RSV (nb nc : Prop) (a : SV) (t : Topo) (hi sk : Nat → List Nat) (acc : Nat → Nat → Prop) : Prop :=
  RouteV a t hi sk ∧ (nb → StackV a t hi sk) ∧ PathsV a t sk ∧ (nc → GateV a t hi acc)

theorem RSV.congr {nb nc : Prop} {a : SV} {t : Topo} {hi sk hi' sk' : Nat → List Nat}
    {acc acc' : Nat → Nat → Prop} (hI : Inv a)
    (h : RSV nb nc a t hi sk acc) (e : ∀ q, q < a.kids.length → hi' q = hi q ∧ sk' q = sk q)
    (ea : nc → ∀ g q, q < a.kids.length → a.kids[q]? = some none → acc g q → acc' g q) :
    RSV nb nc a t hi' sk' acc' :=
  ⟨h.1.congr hI e, fun hn => (h.2.1 hn).congr hI e,
   fun q hq g hg => h.2.2.1 q hq g (by rw [← (e q hq).2]; exact hg),
   fun hn => (h.2.2.2 hn).congr hI (fun q hq => (e q hq).1) (ea hn)⟩

theorem RSV.sub {nb nc : Prop} {a c : SV} {t : Topo} {hi sk : Nat → List Nat}
    {acc : Nat → Nat → Prop} (h : RSV nb nc a t hi sk acc)
    (hk : c.kids = a.kids)
    (hs : ∀ (z : Nat) (d : SDev) (q : Nat), c.devs[z]? = some d → q ∈ d.held →
      ∃ d0 : SDev, a.devs[z]? = some d0 ∧ q ∈ d0.held) :
    RSV nb nc c t hi sk acc :=
  ⟨h.1.sub hk hs, fun hn => (h.2.1 hn).sub hk hs, fun q hq => h.2.2.1 q (by rw [← hk]; exact hq),
   fun hn => (h.2.2.2 hn).sub hk hs⟩

theorem steps_kids_mono {z : Nat} {a a' : SV} (hs : Steps z a a') : a.kids.length ≤ a'.kids.length := by
  induction hs with
  | refl => exact Nat.le_refl _
  | tail b c _ hm ih => exact Nat.le_trans ih (move_kids_mono hm)

theorem rsv_steps {nb nc : Prop} {z : Nat} {a a' : SV} {t : Topo} {hi sk : Nat → List Nat}
    {acc : Nat → Nat → Prop}
    (hs : Steps z a a') (htl : nb ∨ nc → TLV z a a') (hI : Inv a) (h : RSV nb nc a t hi sk acc)
    (hn : ∀ q, a.kids.length ≤ q → q < a'.kids.length → NewOK t hi sk a'.kids z q) :
    RSV nb nc a' t hi sk acc := by
  refine ⟨routeV_steps hs hI h.1 hn, fun hnb => stackV_tlv hI (h.2.1 hnb) (htl (Or.inl hnb)) hn, ?_,
    fun hnc => gateV_tlv hI (h.2.2.2 hnc) (htl (Or.inr hnc)) hn⟩
  intro q hq g hg
  by_cases hqa : q < a.kids.length
  · exact h.2.2.1 q hqa g hg
  · rw [(hn q (Nat.le_of_not_lt hqa) hq).1] at hg; cases hg

theorem rsv_bump {nb nc : Prop} {a c : SV} {t : Topo} {hi sk hi' sk' : Nat → List Nat}
    {acc acc' : Nat → Nat → Prop} (hI : Inv a)
    (h : RSV nb nc a t hi sk acc) {x z p y : Nat} {dx : SDev} {C s' : List Nat}
    (hx : a.devs[x]? = some dx) (hxs : dx.kind ≠ .sink) (hp : p ∈ dx.held)
    (hy : y ∈ t.down x) (hC : GChain t y (sk p) (C ++ [z]) s')
    (hP : hi' p = hi p ++ (C ++ [z]) ∧ sk' p = s')
    (hK : ∀ l, a.kids[p]? = some (some l) → ∀ k ∈ l, hi' k = hi k ++ (C ++ [z]))
    (hO : ∀ q, q < a.kids.length → q ≠ p → (∀ l, a.kids[p]? = some (some l) → q ∉ l) →
      hi' q = hi q ∧ sk' q = sk q)
    (hSk : ∀ q, q < a.kids.length → q ≠ p → sk' q = sk q)
    (hA1 : nc → ∀ g q, q < a.kids.length → a.kids[q]? = some none → acc g q → acc' g q)
    (hA2 : nc → a.kids[p]? = some none → ∀ g ∈ C, t.kind g = .gate → acc' g p)
    (hk : c.kids = a.kids)
    (hs : ∀ (z' : Nat) (d : SDev) (q : Nat), c.devs[z']? = some d → q ∈ d.held →
      (q = p ∧ z' = z) ∨ (q ≠ p ∧ ∃ d0 : SDev, a.devs[z']? = some d0 ∧ q ∈ d0.held)) :
    RSV nb nc c t hi' sk' acc' := by
  have hpv : p < a.kids.length := valid_held hI hx hp
  have hsp : ∀ g ∈ sk p, t.kind g = .gpath := h.2.2.1 p hpv
  refine ⟨routeV_bump hI h.1 hx hxs hp hy hsp hC hP hK hO hk hs,
    fun hnb => stackV_bump hI (h.2.1 hnb) hx hxs hp hy hC hP hO hk hs, ?_,
    fun hnc => gateV_bump hI (h.2.2.2 hnc) hx hxs hp hC hP hO (hA1 hnc) (hA2 hnc) hk hs⟩
  intro q hq g hg
  rw [hk] at hq
  by_cases hqp : q = p
  · subst hqp
    rw [hP.2] at hg
    rcases hC.stack_mem g hg with h1 | h1
    · exact hsp g h1
    · exact h1.2
  · rw [hSk q hq hqp] at hg
    exact h.2.2.1 q hq g hg

end C08W
end SimProc
