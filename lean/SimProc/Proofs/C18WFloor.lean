/-
C18W / C19W — machinery, part 2: `Fr w (f w)` for every function of `Model/Floor.lean`.  The only
place where the tracked key moves is the end of a processor's `finishCycle` (`prodStep`): the
attached output sensors count / sample the part and the `produced` record is written — one
abstract step `CStep.prod`.
-/
import SimProc.Proofs.C18WBase

namespace SimProc
namespace C18W
open World FloorCoreL

/-! ### notifications -/

theorem Fr_setWaiting (w : World) (x : Nat) (a b : Bool) : Fr w (w.setWaiting x a b) := by
  unfold setWaiting
  dsimp only
  fr_auto

macro_rules | `(tactic| fr_step) => `(tactic| with_reducible apply Fr.trans (h2 := Fr_setWaiting _ _ _ _))

theorem Fr_schedulePass (w : World) (x : Nat) (o : Int) : Fr w (w.schedulePass x o) := by
  unfold schedulePass
  dsimp only
  fr_auto

macro_rules | `(tactic| fr_step) => `(tactic| with_reducible apply Fr.trans (h2 := Fr_schedulePass _ _ _))

/-- The two notification functions, simultaneously by induction on the fuel. -/
theorem Fr_notifyUp_spaceAvail (n : Nat) :
    ∀ w x, Fr w (notifyUp n w x) ∧ Fr w (spaceAvail n w x) := by
  induction n with
  | zero =>
    intro w x
    constructor
    · rw [notifyUp]; exact Fr.of_view (view_setErr _ _)
    · rw [spaceAvail]; exact Fr.of_view (view_setErr _ _)
  | succ n ih =>
    intro w x
    have hN : ∀ w x, Fr w (notifyUp n w x) := fun w x => (ih w x).1
    have hS : ∀ w x, Fr w (spaceAvail n w x) := fun w x => (ih w x).2
    constructor
    · rw [notifyUp]
      dsimp only
      repeat' first
        | with_reducible exact Fr.refl _
        | with_reducible apply Fr.trans (h2 := Fr.foldl _ _ _ hS)
        | with_reducible apply Fr.trans (h2 := Fr.foldl _ _ _ hN)
        | with_reducible apply Fr.trans (h2 := Fr_setWaiting _ _ _ _)
        | split
    · rw [spaceAvail]
      try dsimp only
      repeat' first
        | with_reducible exact Fr.refl _
        | exact hN _ _
        | exact hS _ _
        | exact Fr_schedulePass _ _ _
        | split

theorem Fr_notifyUp (n : Nat) (w : World) (x : Nat) : Fr w (notifyUp n w x) :=
  (Fr_notifyUp_spaceAvail n w x).1
theorem Fr_spaceAvail (n : Nat) (w : World) (x : Nat) : Fr w (spaceAvail n w x) :=
  (Fr_notifyUp_spaceAvail n w x).2
theorem Fr_notify (w : World) (x : Nat) : Fr w (w.notify x) := Fr_notifyUp _ _ _
theorem Fr_spaceAvailable (w : World) (x : Nat) : Fr w (w.spaceAvailable x) := Fr_spaceAvail _ _ _

macro_rules | `(tactic| fr_step) => `(tactic| with_reducible apply Fr.trans (h2 := Fr_notify _ _))
macro_rules | `(tactic| fr_step) => `(tactic| with_reducible apply Fr.trans (h2 := Fr_spaceAvailable _ _))

/-! ### resources of a processor -/

theorem Fr_releaseReserved (w : World) (x : Nat) : Fr w (w.releaseReserved x) := by
  unfold releaseReserved
  split
  · exact Fr.refl _
  · dsimp only
    fr_auto

theorem Fr_procAcquire (w : World) (x : Nat) : Fr w (w.procAcquire x).1 := by
  unfold procAcquire
  dsimp only
  fr_auto

macro_rules | `(tactic| fr_step) => `(tactic| with_reducible apply Fr.trans (h2 := Fr_releaseReserved _ _))

/-! ### parts, callbacks -/

theorem Fr_addHist (w : World) (p d : Nat) : Fr w (w.addHist p d) := by
  unfold addHist
  dsimp only
  fr_auto

theorem Fr_dropHist (w : World) (p : Nat) : Fr w (w.dropHist p) := by
  unfold dropHist
  dsimp only
  fr_auto

theorem Fr_applyPartCb (w : World) (x p : Nat) (c : PartCb) : Fr w (w.applyPartCb x p c) := by
  unfold applyPartCb
  dsimp only
  fr_auto

theorem Fr_finishCycleHandler (w : World) (x : Nat) : Fr w (w.finishCycleHandler x) := by
  unfold finishCycleHandler
  dsimp only
  fr_auto

macro_rules | `(tactic| fr_step) => `(tactic| with_reducible apply Fr.trans (h2 := Fr_addHist _ _ _))
macro_rules | `(tactic| fr_step) => `(tactic| with_reducible apply Fr.trans (h2 := Fr_dropHist _ _))
macro_rules | `(tactic| fr_step) => `(tactic| with_reducible apply Fr.trans (h2 := Fr_applyPartCb _ _ _ _))
macro_rules | `(tactic| fr_step) => `(tactic| with_reducible apply Fr.trans (h2 := Fr_finishCycleHandler _ _))

theorem view_genPart_fold (d : Dev) (l : List Nat) (acc : World × List Nat) :
    view (l.foldl (fun (acc : World × List Nat) _ =>
      let (w', k) := acc.1.newPart { quality := d.genQuality, value := d.genValue }
      (w', acc.2 ++ [k])) acc).1 = view acc.1 := by
  induction l generalizing acc with
  | nil => rfl
  | cons a l ih => rw [List.foldl_cons, ih]; rfl

theorem view_genPart (w : World) (x : Nat) : view (w.genPart x).1 = view w := by
  unfold genPart
  dsimp only
  split
  · rfl
  · exact view_genPart_fold _ _ _

theorem Fr_genPart (w : World) (x : Nat) : Fr w (w.genPart x).1 := Fr.of_view (view_genPart w x)

macro_rules | `(tactic| fr_step) => `(tactic| with_reducible apply Fr.trans (h2 := Fr_genPart _ _))

theorem Fr_batcherLoop (n : Nat) (w : World) (x : Nat) : Fr w (batcherLoop n w x) := by
  induction n generalizing w with
  | zero => exact Fr.refl _
  | succ n ih =>
    rw [batcherLoop]
    split
    · split
      rename_i w1 t heq
      refine Fr.trans ?_ (ih _)
      have h1 : Fr w (w1, t).1 := by
        rw [← heq]
        split <;> dsimp only <;> fr_auto
      refine Fr.trans h1 ?_
      split
      · fr_auto
      · split
        rename_i w2 b heq2
        have h2 : Fr w1 (w2, b).1 := by
          rw [← heq2]
          split
          · exact Fr.refl _
          · dsimp only
            fr_step
            exact Fr.of_view (view_newPart _ _)
        refine Fr.trans h2 ?_
        dsimp only
        fr_auto
    · exact Fr.refl _

macro_rules | `(tactic| fr_step) => `(tactic| with_reducible apply Fr.trans (h2 := Fr_batcherLoop _ _ _))

/-! ### output sensors -/

theorem foldl_addRes_sense (l : List Nat) (w : World) (s : Nat) (vals : List Int) :
    l.foldl (fun w c => w.addRes (.sense s c w.now vals)) w =
      { w with results := w.results ++ l.map (fun c => Res.sense s c w.now vals) } := by
  induction l generalizing w with
  | nil => simp
  | cons c l ih => rw [List.foldl_cons, ih]; simp [World.addRes, World.now]

theorem filter_sense (l : List Nat) (s : Nat) (t : Int) (vals : List Int) :
    (l.map (fun c => Res.sense s c t vals)).filter trackedRes = l.map (fun c => Res.sense s c t vals) := by
  apply List.filter_eq_self.mpr
  intro r hr
  obtain ⟨c, _, rfl⟩ := List.mem_map.mp hr
  rfl

theorem senseOutput_eq (w : World) (s p : Nat) : w.senseOutput s p =
    if (w.sensors.getD s default).s.countPart.2 then
      { w with
        sensors := w.sensors.set s { (w.sensors.getD s default) with
          s := (w.sensors.getD s default).s.countPart.1.collect
            (outVals (w.sensors.getD s default).attrs (w.part p).quality (w.partValue p)) },
        results := w.results ++
          ((w.sensors.getD s default).s.countPart.1.collect
            (outVals (w.sensors.getD s default).attrs (w.part p).quality (w.partValue p))).cbs.map
            (fun c => Res.sense s c w.now
              (outVals (w.sensors.getD s default).attrs (w.part p).quality (w.partValue p))) }
    else { w with sensors := w.sensors.set s { (w.sensors.getD s default) with
            s := (w.sensors.getD s default).s.countPart.1 } } := by
  unfold senseOutput
  dsimp only
  generalize hcp : (w.sensors.getD s default).s.countPart = cp
  obtain ⟨s1, doIt⟩ := cp
  dsimp only
  cases doIt with
  | false => rfl
  | true =>
    simp only [if_true, foldl_addRes_sense, List.set_set]
    rfl

theorem senseOutput_spec (w : World) (s p : Nat) :
    (w.senseOutput s p).env = w.env ∧ (w.senseOutput s p).parts = w.parts ∧
    (w.senseOutput s p).devs = w.devs ∧
    tk (w.senseOutput s p) = (tk w).outSense s w.now (w.part p).quality (w.partValue p) := by
  rw [senseOutput_eq]
  unfold TK.outSense
  have e : (tk w).sensors = w.sensors := rfl
  rw [e]
  dsimp only
  split
  · refine ⟨rfl, rfl, rfl, ?_⟩
    simp only [tk, List.filter_append]
    rw [filter_sense]
  · exact ⟨rfl, rfl, rfl, rfl⟩
theorem foldl_senseOutput (l : List Nat) (w : World) (p : Nat) :
    (l.foldl (fun w s => w.senseOutput s p) w).env = w.env ∧
    (l.foldl (fun w s => w.senseOutput s p) w).parts = w.parts ∧
    (l.foldl (fun w s => w.senseOutput s p) w).devs = w.devs ∧
    tk (l.foldl (fun w s => w.senseOutput s p) w) =
      l.foldl (fun c s => c.outSense s w.now (w.part p).quality (w.partValue p)) (tk w) := by
  induction l generalizing w with
  | nil => exact ⟨rfl, rfl, rfl, rfl⟩
  | cons s l ih =>
    obtain ⟨h1, h2, h3, h4⟩ := senseOutput_spec w s p
    obtain ⟨i1, i2, i3, i4⟩ := ih (w.senseOutput s p)
    simp only [List.foldl_cons]
    refine ⟨i1.trans h1, i2.trans h2, i3.trans h3, ?_⟩
    rw [i4, h4]
    have e1 : (w.senseOutput s p).now = w.now := congrArg Env.now h1
    have e2 : (w.senseOutput s p).part p = w.part p := by unfold World.part; rw [h2]
    have e3 : (w.senseOutput s p).partValue p = w.partValue p := by
      unfold World.partValue World.part; rw [h2]
    rw [e1, e2, e3]

/-- The end of a processor's `_finish_cycle`: the attached sensors, then the `produced` record. -/
def prodStep (w : World) (x p : Nat) (l : List Nat) : World :=
  let w := l.foldl (fun w s => w.senseOutput s p) w
  w.addRec (.produced x w.now p (w.part p).quality (w.partValue p))

theorem tk_prodStep (w : World) (x p : Nat) :
    (prodStep w x p (w.dev x).finSensors).env = w.env ∧
    tk (prodStep w x p (w.dev x).finSensors) =
      (tk w).prod x w.now p (w.part p).quality (w.partValue p) := by
  obtain ⟨h1, h2, h3, h4⟩ := foldl_senseOutput (w.dev x).finSensors w p
  unfold prodStep TK.prod
  dsimp only
  refine ⟨h1, ?_⟩
  rw [finS_tk, ← h4]
  have e1 : ((w.dev x).finSensors.foldl (fun w s => w.senseOutput s p) w).now = w.now :=
    congrArg Env.now h1
  have e2 : ((w.dev x).finSensors.foldl (fun w s => w.senseOutput s p) w).part p = w.part p := by
    unfold World.part; rw [h2]
  have e3 : ((w.dev x).finSensors.foldl (fun w s => w.senseOutput s p) w).partValue p =
      w.partValue p := by
    unfold World.partValue World.part; rw [h2]
  rw [e1, e2, e3]
  simp [tk, World.addRec, List.filter_append, trackedRec]

theorem Fr_prodStep (w : World) (x p : Nat) (hx : x < w.devs.length) :
    Fr w (prodStep w x p (w.dev x).finSensors) := by
  obtain ⟨h1, h2⟩ := tk_prodStep w x p
  refine Fr.of_cstep h1 ?_
  rw [h2]
  exact CStep.prod _ _ _ _ _ _ (by simpa [tk] using hx)

/-! ### finishing a cycle -/

/-- `PartProcessor._finish_cycle` after the handler's part. -/
def finishProcRest (w : World) (x : Nat) : World :=
  let d := w.dev x
  let w := w.setDev x { d with timeInUse := d.timeInUse + (w.now - d.lastUseStart.getD w.now),
                               lastUseStart := none }
  let w := if d.reserved.isSome then w.schedLib w.now d.aid (.releaseIfIdle x) pRelease else w
  match (w.dev x).output with
  | none => w
  | some p =>
    let w := d.finCbs.foldl (fun w c => w.applyPartCb x p c) w
    prodStep w x p d.finSensors

theorem finishCycle_processor (w : World) (x : Nat) (hk : (w.dev x).kind = .processor) :
    w.finishCycle x = finishProcRest (w.finishCycleHandler x) x := by
  unfold finishCycle
  simp only [hk]
  rfl

theorem dk_of_fr {w w' : World} (g : Stat w) (h : Fr w w') : (tk w').dk = (tk w).dk :=
  dk_of_cstat (h g).2.cstat

theorem devs_length_of_fr {w w' : World} (g : Stat w) (h : Fr w w') :
    w'.devs.length = w.devs.length := by
  have := congrArg List.length (dk_of_fr g h)
  simpa [tk] using this

theorem finSensors_of_fr {w w' : World} (g : Stat w) (h : Fr w w') (x : Nat) :
    (w'.dev x).finSensors = (w.dev x).finSensors := by
  rw [← finS_tk, ← finS_tk]
  unfold TK.finS
  rw [dk_of_fr g h]

theorem Fr_finishProcRest (w : World) (x : Nat) (hx : x < w.devs.length) :
    Fr w (finishProcRest w x) := by
  refine Fr.with_stat fun g => ?_
  unfold finishProcRest
  extract_lets d w1 w2
  have h2 : Fr w w2 := by
    show Fr w (if _ then _ else _)
    fr_auto
  split
  · exact h2
  · rename_i p _
    extract_lets w3
    have h3 : Fr w w3 := by
      refine h2.trans ?_
      fr_auto
    refine h3.trans ?_
    have e : d.finSensors = (w3.dev x).finSensors := (finSensors_of_fr g h3 x).symm
    rw [e]
    exact Fr_prodStep w3 x p (by rw [devs_length_of_fr g h3]; exact hx)

theorem lt_of_kind_processor {w : World} {x : Nat} (hk : (w.dev x).kind = .processor) :
    x < w.devs.length := by
  apply Nat.lt_of_not_le
  intro h
  rw [dev_of_length_le h] at hk
  cases hk

theorem Fr_finishCycle (w : World) (x : Nat) : Fr w (w.finishCycle x) := by
  by_cases hk : (w.dev x).kind = .processor
  · rw [finishCycle_processor w x hk]
    refine Fr.with_stat fun g => ?_
    have h1 : Fr w (w.finishCycleHandler x) := Fr_finishCycleHandler w x
    refine h1.trans (Fr_finishProcRest _ x ?_)
    rw [devs_length_of_fr g h1]
    exact lt_of_kind_processor hk
  unfold finishCycle
  dsimp only
  split
  · -- source
    fr_step
    split
    · fr_step
      fr_step
      have := Fr_genPart w x
      revert this
      generalize w.genPart x = q
      intro this
      exact this
    · exact Fr.refl _
  · fr_auto
  · rename_i h; exact absurd h hk
  · fr_auto

macro_rules | `(tactic| fr_step) => `(tactic| with_reducible apply Fr.trans (h2 := Fr_finishCycle _ _))

theorem Fr_scheduleFinish (w : World) (x : Nat) : Fr w (w.scheduleFinish x) := by
  unfold scheduleFinish
  dsimp only
  fr_auto

macro_rules | `(tactic| fr_step) => `(tactic| with_reducible apply Fr.trans (h2 := Fr_scheduleFinish _ _))

theorem Fr_tryMove (w : World) (x : Nat) : Fr w (w.tryMove x) := by
  unfold tryMove
  dsimp only
  fr_auto

macro_rules | `(tactic| fr_step) => `(tactic| with_reducible apply Fr.trans (h2 := Fr_tryMove _ _))

theorem Fr_onReceived (w : World) (x p : Nat) : Fr w (w.onReceived x p) := by
  unfold onReceived
  dsimp only
  fr_auto

macro_rules | `(tactic| fr_step) => `(tactic| with_reducible apply Fr.trans (h2 := Fr_onReceived _ _ _))

theorem Fr_acceptPart (w : World) (x p : Nat) : Fr w (w.acceptPart x p) := by
  unfold acceptPart
  dsimp only
  fr_auto

/-! ### handing parts over -/

theorem Fr_tryList (g : World → Nat → Nat → World × Bool)
    (hg : ∀ w y p, Fr w (g w y p).1) (w : World) (l : List Nat) (p : Nat) :
    Fr w (tryList g w l p).1 := by
  induction l generalizing w with
  | nil => exact Fr.refl w
  | cons y ys ih =>
    rw [tryList]
    have h := hg w y p
    split
    · rename_i heq; rw [heq] at h; exact h
    · rename_i heq; rw [heq] at h; exact h.trans (ih _)

theorem Fr_give (n : Nat) : ∀ (w : World) (x p : Nat), Fr w (give n w x p).1 := by
  induction n with
  | zero => intro w x p; exact Fr.of_view (view_setErr _ _)
  | succ n ih =>
    intro w x p
    have hT : ∀ w l p, Fr w (tryList (give n) w l p).1 := Fr_tryList _ ih
    rw [give]
    dsimp only
    repeat' first
      | fr_step
      | with_reducible apply Fr.trans (h2 := Fr_acceptPart _ _ _)
      | exact hT _ _ _
      | exact ih _ _ _
      | fr_heq (hT _ _ _)
      | fr_heq (ih _ _ _)
      | fr_heq (Fr_procAcquire _ _)
      | split

theorem Fr_givePart (w : World) (x p : Nat) : Fr w (w.givePart x p).1 := Fr_give _ _ _ _

theorem Fr_tryList_givePart (w : World) (l : List Nat) (p : Nat) :
    Fr w (tryList givePart w l p).1 := Fr_tryList _ Fr_givePart _ _ _

theorem Fr_passHandler (w : World) (x : Nat) : Fr w (w.passHandler x) := by
  unfold passHandler
  dsimp only
  repeat' first
    | fr_step
    | fr_heq (Fr_tryList_givePart _ _ _)
    | split

theorem Fr_bufferLoop (n : Nat) (w : World) (x : Nat) : Fr w (bufferLoop n w x) := by
  induction n generalizing w with
  | zero => exact Fr.refl _
  | succ n ih =>
    rw [bufferLoop]
    dsimp only
    repeat' first
      | fr_step
      | with_reducible apply Fr.trans (h2 := ih _)
      | fr_heq (Fr_tryList_givePart _ _ _)
      | split

macro_rules | `(tactic| fr_step) => `(tactic| with_reducible apply Fr.trans (h2 := Fr_passHandler _ _))
macro_rules | `(tactic| fr_step) => `(tactic| with_reducible apply Fr.trans (h2 := Fr_bufferLoop _ _ _))

theorem Fr_passPart (w : World) (x : Nat) : Fr w (w.passPart x) := by
  unfold passPart
  dsimp only
  fr_auto

/-! ### processors: failure, shutdown, restore -/

theorem Fr_shutdownDev (w : World) (x : Nat) (f : Bool) (lost : Option Nat) :
    Fr w (w.shutdownDev x f lost) := by
  refine Fr.with_stat fun g => ?_
  have ha : (w.dev x).aid ∉ (tk w).ta := g.dev_aid x
  have hc : HOp (tk w).ta (.cancel (w.dev x).aid) := ha
  have hp : HOp (tk w).ta (.pause (w.dev x).aid) := ha
  unfold shutdownDev
  dsimp only
  fr_auto

theorem Fr_restoreDev (w : World) (x : Nat) : Fr w (w.restoreDev x) := by
  refine Fr.with_stat fun g => ?_
  have ha : (w.dev x).aid ∉ (tk w).ta := g.dev_aid x
  have hu : HOp (tk w).ta (.unpause (w.dev x).aid) := ha
  unfold restoreDev
  dsimp only
  fr_auto

macro_rules | `(tactic| fr_step) => `(tactic| with_reducible apply Fr.trans (h2 := Fr_shutdownDev _ _ _ _))
macro_rules | `(tactic| fr_step) => `(tactic| with_reducible apply Fr.trans (h2 := Fr_restoreDev _ _))

theorem Fr_failDev (w : World) (x : Nat) : Fr w (w.failDev x) := by
  unfold failDev
  dsimp only
  fr_auto

theorem Fr_releaseIfIdle (w : World) (x : Nat) : Fr w (w.releaseIfIdle x) := by
  unfold releaseIfIdle
  fr_auto

theorem Fr_procResourceCb (w : World) (x : Nat) : Fr w (w.procResourceCb x) := by
  unfold procResourceCb
  dsimp only
  fr_auto

/-! ### scripted operations on devices -/

theorem Fr_setBlock (w : World) (x : Nat) (b : Bool) : Fr w (w.setBlock x b) := by
  unfold setBlock
  dsimp only
  fr_auto

theorem Fr_adjustParts (w : World) (x : Nat) (v : Int) : Fr w (w.adjustParts x v) := by
  unfold adjustParts
  dsimp only
  fr_auto

theorem Fr_rewire (w : World) (x : Nat) (ups : List Nat) : Fr w (w.rewire x ups) := by
  unfold rewire
  dsimp only
  fr_auto

theorem Fr_initDev (w : World) (x : Nat) : Fr w (w.initDev x) := by
  unfold initDev
  dsimp only
  fr_auto

macro_rules | `(tactic| fr_step) => `(tactic| with_reducible apply Fr.trans (h2 := Fr_passPart _ _))
macro_rules | `(tactic| fr_step) => `(tactic| with_reducible apply Fr.trans (h2 := Fr_failDev _ _))
macro_rules | `(tactic| fr_step) => `(tactic| with_reducible apply Fr.trans (h2 := Fr_releaseIfIdle _ _))
macro_rules | `(tactic| fr_step) => `(tactic| with_reducible apply Fr.trans (h2 := Fr_procResourceCb _ _))
macro_rules | `(tactic| fr_step) => `(tactic| with_reducible apply Fr.trans (h2 := Fr_setBlock _ _ _))
macro_rules | `(tactic| fr_step) => `(tactic| with_reducible apply Fr.trans (h2 := Fr_adjustParts _ _ _))
macro_rules | `(tactic| fr_step) => `(tactic| with_reducible apply Fr.trans (h2 := Fr_rewire _ _ _))
macro_rules | `(tactic| fr_step) => `(tactic| with_reducible apply Fr.trans (h2 := Fr_initDev _ _))

end C18W
end SimProc
