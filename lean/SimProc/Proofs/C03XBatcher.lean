/-
C03W, stage B — the batcher's loop (`batcherLoop`) preserves the generalised invariant, provided
nobody offers the batcher's input part or its batch under construction (`BL`).
-/
import SimProc.Proofs.C03WPrim3
import SimProc.Proofs.FloorSt

namespace SimProc
namespace C03W
open World FloorCoreL C03 C02V

/-- What the loop of batcher `x` needs: `x` is a batcher, and no (non-exempt) holder offers the
part in the batcher's input slot or its batch under construction. -/
structure BL (E : List Nat) (w : World) (x : Nat) : Prop where
  kind : (w.dev x).kind = .batcher
  free : ∀ d q, d ∉ E → holdsD (w.dev d) = some q →
    (w.dev x).part ≠ some q ∧ (w.dev x).inprog ≠ some q

theorem BL.lt {E : List Nat} {w : World} {x : Nat} (h : BL E w x) : x < w.devs.length := by
  apply Nat.lt_of_not_le
  intro hc
  have := h.kind
  rw [dev_of_length_le hc] at this
  cases this

theorem BL.notNoBatch {E : List Nat} {w : World} {x : Nat} (h : BL E w x) : ¬ NoBatch w := by
  intro hn
  exact (hn _ (dev_mem h.lt)).1 h.kind

/-- a step that leaves the other devices alone and does not put a held part into the batcher's
input / construction slots -/
theorem BL.step {E : List Nat} {w w' : World} {x : Nat} (h : BL E w x) (hxE : x ∈ E)
    (hk : (w'.dev x).kind = .batcher)
    (hd : ∀ d, d ≠ x → w'.dev d = w.dev d)
    (hp : (w'.dev x).part = (w.dev x).part ∨ (w'.dev x).part = none)
    (hi : ∀ b, (w'.dev x).inprog = some b → (w.dev x).inprog = some b ∨
      ∀ d q, d ∉ E → holdsD (w.dev d) = some q → q ≠ b) : BL E w' x := by
  refine ⟨hk, fun d q hdE hq => ?_⟩
  have hdx : d ≠ x := fun hc => hdE (hc ▸ hxE)
  rw [hd d hdx] at hq
  obtain ⟨h1, h2⟩ := h.free d q hdE hq
  constructor
  · rcases hp with hp | hp
    · rw [hp]; exact h1
    · rw [hp]; exact fun hc => by cases hc
  · intro hc
    rcases hi q hc with h3 | h3
    · exact h2 h3
    · exact h3 d q hdE hq rfl

section one
variable {E N A : List Nat} {w : World} {x : Nat}

/-- `_get_part_from_input` -/
theorem G.batchGet (h : G E N A w) (hb : BL E w x) (hxE : x ∈ E) (hxA : x ∈ A) {p : Nat}
    (hp : (w.dev x).part = some p) (ho : (w.dev x).output = none) :
    G E N A (batchGet w x p).1 ∧ BL E (batchGet w x p).1 x ∧
      (batchGet w x p).2 < (batchGet w x p).1.parts.length ∧
      ((batchGet w x p).1.dev x).output = none := by
  have hx := hb.lt
  have hpv : p < w.parts.length := h.valid.dev x p ((heldL_mem _ _).mpr (Or.inl hp))
  have hmod : ∀ {w1 : World}, G E N A w1 → BL E w1 x → (w1.dev x).output = none →
      w1.parts.length = w.parts.length →
      G E N A (w1.modDev x (fun d => { d with part := none })) ∧
      BL E (w1.modDev x (fun d => { d with part := none })) x ∧
      ((w1.modDev x (fun d => { d with part := none })).dev x).output = none := by
    intro w1 h1 hb1 ho1 _
    have hx1 := hb1.lt
    refine ⟨?_, ?_, by rw [dev_modDev_same hx1]; exact ho1⟩
    · refine h1.modDev x _ rfl ?_ (fun _ h => h) (fun _ h => h) (Or.inr (Or.inl hxA))
        (Or.inl hxE)
      intro q hq
      refine h1.valid.dev x q ?_
      rw [heldL_mem] at hq ⊢
      rcases hq with hq | hq | hq | hq
      · cases hq
      · exact Or.inr (Or.inl hq)
      · exact Or.inr (Or.inr (Or.inl hq))
      · exact Or.inr (Or.inr (Or.inr hq))
    · refine hb1.step hxE (by rw [dev_modDev_same hx1]; exact hb1.kind)
        (fun d hd => dev_modDev_ne (Ne.symm hd)) (Or.inr (by rw [dev_modDev_same hx1]))
        (fun b hbb => Or.inl (by rw [dev_modDev_same hx1] at hbb; exact hbb))
  unfold C02V.batchGet
  split
  · next k rest hk =>
    have hkv := h.kv.part p hk
    have h1 : G E N A (w.modPart p (fun r => { r with kids := some rest })) := by
      refine h.modPartKids p _ (fun _ => rfl) (fun d hd hc => (hb.free d p hd hc).1 hp)
        hb.notNoBatch ?_ (fun h => h)
      intro l hl k' hk'
      simp only [Option.some.injEq] at hl
      subst hl
      exact hkv k' (List.mem_cons_of_mem _ hk')
    have hb1 : BL E (w.modPart p (fun r => { r with kids := some rest })) x :=
      hb.step hxE hb.kind (fun _ _ => rfl) (Or.inl rfl) (fun b hbb => Or.inl hbb)
    have hkl : k < w.parts.length := hkv k (List.mem_cons_self ..)
    dsimp only
    split
    · obtain ⟨g, b, o⟩ := hmod h1 hb1 ho (by simp)
      exact ⟨g, b, by simpa using hkl, o⟩
    · exact ⟨h1, hb1, by simpa using hkl, ho⟩
  · obtain ⟨g, b, o⟩ := hmod h hb ho rfl
    exact ⟨g, b, by simpa using hpv, o⟩

/-- the shell of the batch under construction -/
theorem G.batchShell (h : G E N A w) (hb : BL E w x) (hxE : x ∈ E) :
    G E N A (batchShell w x).1 ∧ BL E (batchShell w x).1 x ∧
      ((batchShell w x).1.dev x).inprog = some (batchShell w x).2 ∧
      (batchShell w x).2 < (batchShell w x).1.parts.length ∧
      w.parts.length ≤ (batchShell w x).1.parts.length ∧
      ((batchShell w x).1.dev x).output = (w.dev x).output ∧
      ((batchShell w x).1.dev x).part = (w.dev x).part ∧
      ((batchShell w x).1.dev x).bsize = (w.dev x).bsize := by
  have hx := hb.lt
  unfold C02V.batchShell
  split
  · next b hbb =>
    exact ⟨h, hb, hbb, h.valid.dev x b ((heldL_mem _ _).mpr (Or.inr (Or.inr (Or.inr hbb)))),
      Nat.le_refl _, rfl, rfl, rfl⟩
  · next hbb =>
    have h1 := h.newPart { quality := 0, value := 0, kids := some [] }
      (fun hn => absurd hn hb.notNoBatch)
      (fun l hl k hk => by simp only [Option.some.injEq] at hl; subst hl; cases hk)
    have hlen : (w.newPart { quality := 0, value := 0, kids := some [] }).1.parts.length =
        w.parts.length + 1 := by simp [World.newPart]
    have hd1 : ∀ d, (w.newPart { quality := 0, value := 0, kids := some [] }).1.dev d = w.dev d :=
      fun _ => rfl
    have hx1 : x < (w.newPart { quality := 0, value := 0, kids := some [] }).1.devs.length := hx
    dsimp only
    refine ⟨?_, ?_, by rw [dev_modDev_same hx1], by simp [World.newPart], by simp [World.newPart],
      by rw [dev_modDev_same hx1]; rfl, by rw [dev_modDev_same hx1]; rfl,
      by rw [dev_modDev_same hx1]; rfl⟩
    · refine h1.modDev x _ rfl ?_ (fun _ h => h) (fun _ h => h) (Or.inr (Or.inr (fun _ => id)))
        (Or.inr (fun q hq => ⟨hq, Int.le_refl _, id⟩))
      intro q hq
      rw [heldL_mem] at hq
      rcases hq with hq | hq | hq | hq
      · exact h1.valid.dev x q ((heldL_mem _ _).mpr (Or.inl hq))
      · exact h1.valid.dev x q ((heldL_mem _ _).mpr (Or.inr (Or.inl hq)))
      · exact h1.valid.dev x q ((heldL_mem _ _).mpr (Or.inr (Or.inr (Or.inl hq))))
      · simp only [Option.some.injEq] at hq
        subst hq
        rw [hlen]; exact Nat.lt_succ_self _
    · refine hb.step hxE (by rw [dev_modDev_same hx1]; exact hb.kind)
        (fun d hd => by rw [dev_modDev_ne (Ne.symm hd)]; rfl)
        (Or.inl (by rw [dev_modDev_same hx1]; rfl)) ?_
      intro b hb'
      rw [dev_modDev_same hx1] at hb'
      simp only [Option.some.injEq] at hb'
      right
      intro d q _ hq hc
      have := h.valid.dev d q (holdsD_mem_heldL hq)
      rw [hc, ← hb'] at this
      exact Nat.lt_irrefl _ this

/-- `_add_part_to_output` -/
theorem G.batchAdd (h : G E N A w) (hb : BL E w x) (hxE : x ∈ E) (hxA : x ∈ A) {t : Nat}
    (ht : t < w.parts.length) :
    G E N A (batchAdd w x t) ∧ BL E (batchAdd w x t) x := by
  have hx := hb.lt
  unfold C02V.batchAdd
  split
  · -- no batching: the part goes to the output slot
    constructor
    · refine h.modDev x _ rfl ?_ (fun _ h => h) (fun _ h => h) (Or.inr (Or.inl hxA)) (Or.inl hxE)
      intro q hq
      rw [heldL_mem] at hq
      rcases hq with hq | hq | hq | hq
      · exact h.valid.dev x q ((heldL_mem _ _).mpr (Or.inl hq))
      · simp only [Option.some.injEq] at hq; subst hq; exact ht
      · exact h.valid.dev x q ((heldL_mem _ _).mpr (Or.inr (Or.inr (Or.inl hq))))
      · exact h.valid.dev x q ((heldL_mem _ _).mpr (Or.inr (Or.inr (Or.inr hq))))
    · exact hb.step hxE (by rw [dev_modDev_same hx]; exact hb.kind)
        (fun d hd => dev_modDev_ne (Ne.symm hd)) (Or.inl (by rw [dev_modDev_same hx]))
        (fun b hbb => Or.inl (by rw [dev_modDev_same hx] at hbb; exact hbb))
  · next n hn =>
    obtain ⟨h1, hb1, hin1, hbl1, hle1, ho1, _, _⟩ := h.batchShell hb hxE
    generalize C02V.batchShell w x = r at h1 hb1 hin1 hbl1 hle1 ho1
    obtain ⟨w1, b⟩ := r
    dsimp only at h1 hb1 hin1 hbl1 hle1 ho1 ⊢
    have hx1 := hb1.lt
    have ht1 : t < w1.parts.length := Nat.lt_of_lt_of_le ht hle1
    have h2 : G E N A (w1.modPart b (fun r => { r with kids := some ((r.kids.getD []) ++ [t]) })) := by
      refine h1.modPartKids b _ (fun _ => rfl) (fun d hd hc => (hb1.free d b hd hc).2 hin1)
        hb1.notNoBatch ?_ (fun h => h)
      intro l hl k hk
      simp only [Option.some.injEq] at hl
      subst hl
      rcases List.mem_append.mp hk with hk | hk
      · cases hkk : (w1.part b).kids with
        | none => rw [hkk] at hk; cases hk
        | some l0 => rw [hkk] at hk; exact h1.kv.part b hkk k hk
      · rw [List.mem_singleton] at hk; subst hk; exact ht1
    have hb2 : BL E (w1.modPart b (fun r => { r with kids := some ((r.kids.getD []) ++ [t]) })) x :=
      hb1.step hxE hb1.kind (fun _ _ => rfl) (Or.inl rfl) (fun b hbb => Or.inl hbb)
    have hin2 : ((w1.modPart b (fun r => { r with kids := some ((r.kids.getD []) ++ [t]) })).dev
        x).inprog = some b := hin1
    generalize w1.modPart b (fun r => { r with kids := some ((r.kids.getD []) ++ [t]) }) = w2
      at h2 hb2 hin2
    split
    · constructor
      · refine h2.modDev x _ rfl ?_ (fun _ h => h) (fun _ h => h) (Or.inr (Or.inl hxA)) (Or.inl hxE)
        intro q hq
        rw [heldL_mem] at hq
        rcases hq with hq | hq | hq | hq
        · exact h2.valid.dev x q ((heldL_mem _ _).mpr (Or.inl hq))
        · simp only [Option.some.injEq] at hq; subst hq
          exact h2.valid.dev x _ ((heldL_mem _ _).mpr (Or.inr (Or.inr (Or.inr hin2))))
        · exact h2.valid.dev x q ((heldL_mem _ _).mpr (Or.inr (Or.inr (Or.inl hq))))
        · cases hq
      · exact hb2.step hxE (by rw [dev_modDev_same hb2.lt]; exact hb2.kind)
          (fun d hd => dev_modDev_ne (Ne.symm hd)) (Or.inl (by rw [dev_modDev_same hb2.lt]))
          (fun b' hbb => by rw [dev_modDev_same hb2.lt] at hbb; cases hbb)
    · exact ⟨h2, hb2⟩

end one

/-- **The batcher's loop.** -/
theorem G.batcherLoopG {E N A : List Nat} {x : Nat} (hxE : x ∈ E) (hxA : x ∈ A) (f : Nat) :
    ∀ (w : World), G E N A w → BL E w x →
      G E N A (batcherLoop f w x) ∧ BL E (batcherLoop f w x) x := by
  induction f with
  | zero => intro w h hb; exact ⟨h, hb⟩
  | succ f ih =>
    intro w h hb
    rw [C02V.batcherLoop_succ]
    split
    · next p ho hp =>
      obtain ⟨h1, hb1, ht1, _⟩ := h.batchGet hb hxE hxA hp ho
      obtain ⟨h2, hb2⟩ := h1.batchAdd hb1 hxE hxA ht1
      exact ih _ h2 hb2
    · exact ⟨h, hb⟩

end C03W
end SimProc
