/-
`Model/World.lean`: the functions that change neither the slot view nor the scripts.
-/
import SimProc.Proofs.FloorSt
namespace SimProc
namespace C02V
open World

section
variable (w : World)

theorem sv_modMaint (m : Nat) (f : Maint → Maint) : sv (w.modMaint m f) = sv w := rfl
theorem scr_modMaint (m : Nat) (f : Maint → Maint) : (w.modMaint m f).scripts = w.scripts := rfl
frame_lemmas2 sv_modMaint scr_modMaint

theorem sv_startOrders (m : Nat) (l : List Order) : sv (w.startOrders m l) = sv w := by
  unfold World.startOrders; frame
theorem scr_startOrders (m : Nat) (l : List Order) : (w.startOrders m l).scripts = w.scripts := by
  unfold World.startOrders; frame
frame_lemmas2 sv_startOrders scr_startOrders

theorem sv_schedUpdate (s : Nat) (b : Bool) : sv (w.schedUpdate s b) = sv w := by
  unfold World.schedUpdate; frame
theorem scr_schedUpdate (s : Nat) (b : Bool) : (w.schedUpdate s b).scripts = w.scripts := by
  unfold World.schedUpdate; frame
frame_lemmas2 sv_schedUpdate scr_schedUpdate

theorem sv_setVar (h : Nat) (v : Option Nat) : sv (w.setVar h v) = sv w := rfl
theorem scr_setVar (h : Nat) (v : Option Nat) : (w.setVar h v).scripts = w.scripts := rfl
frame_lemmas2 sv_setVar scr_setVar

theorem sv_periodicSense (s : Nat) : sv (w.periodicSense s) = sv w := by
  unfold World.periodicSense; frame
theorem scr_periodicSense (s : Nat) : (w.periodicSense s).scripts = w.scripts := by
  unfold World.periodicSense; frame
frame_lemmas2 sv_periodicSense scr_periodicSense

theorem scr_initAsset (a : AssetRef) : (w.initAsset a).scripts = w.scripts := by
  unfold World.initAsset; frame

theorem sv_initAsset_nondev (a : AssetRef) (h : ∀ d, a ≠ .dev d) : sv (w.initAsset a) = sv w := by
  unfold World.initAsset
  split
  · rename_i d; exact absurd rfl (h d)
  all_goals frame

end
end C02V
end SimProc
