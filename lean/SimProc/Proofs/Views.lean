/-
The slot view `sv`, the static view `st` (kinds, wiring, source budgets) of a world, and how the
primitive state updates act on them.
-/
import SimProc.Model.World
import SimProc.Proofs.SV
namespace SimProc
namespace C02V
open World

def sdev (d : Dev) : SDev := ⟨d.kind, d.part, d.output, d.buf.map (·.2), d.inprog⟩

def sv (w : World) : SV := ⟨w.devs.map sdev, w.parts.map (·.kids), w.generated, w.delivered, w.lost⟩

/-- Static data of a device: kind, wiring, source budget. -/
structure TDev where
  kind : Kind
  down : List Nat
  group : Nat
  maxParts : Option Int
  produced : Int

def tdev (d : Dev) : TDev := ⟨d.kind, d.down, d.group, d.maxParts, d.produced⟩

structure ST where
  devs : List TDev
  gin : List Nat

def st (w : World) : ST := ⟨w.devs.map tdev, w.groups.map (·.input)⟩

/-! ### generic list facts -/

theorem map_set_getD_self {α β : Type} (f : α → β) (l : List α) (i : Nat) (dflt a : α)
    (h : f a = f (l.getD i dflt)) : (l.set i a).map f = l.map f := by
  rw [List.map_set, h]
  by_cases hi : i < l.length
  · have : f (l.getD i dflt) = (l.map f)[i]'(by simpa using hi) := by
      simp [List.getD_eq_getElem?_getD, hi]
    rw [this, List.set_getElem_self]
  · rw [List.set_eq_of_length_le]; simpa using Nat.le_of_not_lt hi

theorem foldl_inv {α β : Type} (P : β → Prop) (f : β → α → β) (l : List α) (b : β)
    (h0 : P b) (hs : ∀ b a, P b → P (f b a)) : P (l.foldl f b) := by
  induction l generalizing b with
  | nil => exact h0
  | cons a l ih => exact ih _ (hs _ _ h0)

/-- A fold of state transformers each of which keeps a projection `π` keeps `π`. -/
theorem foldl_proj {α β γ : Type} (π : β → γ) (f : β → α → β) (l : List α) (b : β)
    (hs : ∀ b a, π (f b a) = π b) : π (l.foldl f b) = π b :=
  foldl_inv (fun b' => π b' = π b) f l b rfl (fun b' a h => (hs b' a).trans h)

/-! ### primitive updates -/

section prim
variable (w : World)

@[simp] theorem sv_setErr (m : String) : sv (w.setErr m) = sv w := by
  unfold World.setErr; split <;> rfl
@[simp] theorem st_setErr (m : String) : st (w.setErr m) = st w := by
  unfold World.setErr; split <;> rfl
@[simp] theorem scr_setErr (m : String) : (w.setErr m).scripts = w.scripts := by
  unfold World.setErr; split <;> rfl

@[simp] theorem sv_addRec (r : Rec) : sv (w.addRec r) = sv w := rfl
@[simp] theorem st_addRec (r : Rec) : st (w.addRec r) = st w := rfl
@[simp] theorem scr_addRec (r : Rec) : (w.addRec r).scripts = w.scripts := rfl
@[simp] theorem sv_addRes (r : Res) : sv (w.addRes r) = sv w := rfl
@[simp] theorem st_addRes (r : Res) : st (w.addRes r) = st w := rfl
@[simp] theorem scr_addRes (r : Res) : (w.addRes r).scripts = w.scripts := rfl

@[simp] theorem sv_sched (t a : Int) (act : Action) (p : Int) : sv (w.sched t a act p).1 = sv w := by
  unfold World.sched; simp only []; split <;> rfl
@[simp] theorem st_sched (t a : Int) (act : Action) (p : Int) : st (w.sched t a act p).1 = st w := by
  unfold World.sched; simp only []; split <;> rfl
@[simp] theorem scr_sched (t a : Int) (act : Action) (p : Int) :
    (w.sched t a act p).1.scripts = w.scripts := by
  unfold World.sched; simp only []; split <;> rfl

@[simp] theorem sv_schedLib (t a : Int) (act : Action) (p : Int) : sv (w.schedLib t a act p) = sv w := by
  have := sv_sched w t a act p
  unfold World.schedLib; split <;> simp_all
@[simp] theorem st_schedLib (t a : Int) (act : Action) (p : Int) : st (w.schedLib t a act p) = st w := by
  have := st_sched w t a act p
  unfold World.schedLib; split <;> simp_all
@[simp] theorem scr_schedLib (t a : Int) (act : Action) (p : Int) :
    (w.schedLib t a act p).scripts = w.scripts := by
  have := scr_sched w t a act p
  unfold World.schedLib; split <;> simp_all

@[simp] theorem sv_envOp (op : EnvOp) : sv (w.envOp op) = sv w := rfl
@[simp] theorem st_envOp (op : EnvOp) : st (w.envOp op) = st w := rfl
@[simp] theorem scr_envOp (op : EnvOp) : (w.envOp op).scripts = w.scripts := rfl

@[simp] theorem sv_rmEffects (recs : List ResRec) (c : Bool) : sv (w.rmEffects recs c) = sv w := by
  unfold World.rmEffects
  have h : sv (recs.foldl (fun w r => w.addRec (.resUpdate r.res w.now r.inUse r.cap)) w) = sv w :=
    foldl_proj sv _ _ _ (fun _ _ => rfl)
  simp only []; split <;> simp [h]
@[simp] theorem st_rmEffects (recs : List ResRec) (c : Bool) : st (w.rmEffects recs c) = st w := by
  unfold World.rmEffects
  have h : st (recs.foldl (fun w r => w.addRec (.resUpdate r.res w.now r.inUse r.cap)) w) = st w :=
    foldl_proj st _ _ _ (fun _ _ => rfl)
  simp only []; split <;> simp [h]
@[simp] theorem scr_rmEffects (recs : List ResRec) (c : Bool) :
    (w.rmEffects recs c).scripts = w.scripts := by
  unfold World.rmEffects
  have h : (recs.foldl (fun w r => w.addRec (.resUpdate r.res w.now r.inUse r.cap)) w).scripts = w.scripts :=
    foldl_proj World.scripts _ _ _ (fun _ _ => rfl)
  simp only []; split <;> simp [h]

/-- `setDev` in the slot view. -/
theorem sv_setDev (x : Nat) (d : Dev) : sv (w.setDev x d) = (sv w).setDev x (sdev d) := by
  simp [sv, World.setDev, SV.setDev, List.map_set]

theorem sv_setDev_same (x : Nat) (d : Dev) (h : sdev d = sdev (w.dev x)) : sv (w.setDev x d) = sv w := by
  simp only [sv, World.setDev]
  rw [map_set_getD_self sdev w.devs x default d h]
theorem st_setDev_same (x : Nat) (d : Dev) (h : tdev d = tdev (w.dev x)) : st (w.setDev x d) = st w := by
  simp only [st, World.setDev]
  rw [map_set_getD_self tdev w.devs x default d h]
@[simp] theorem scr_setDev (x : Nat) (d : Dev) : (w.setDev x d).scripts = w.scripts := rfl

theorem sv_modDev_same (x : Nat) (f : Dev → Dev) (h : ∀ d, sdev (f d) = sdev d) :
    sv (w.modDev x f) = sv w := sv_setDev_same w x _ (h _)
theorem st_modDev_same (x : Nat) (f : Dev → Dev) (h : ∀ d, tdev (f d) = tdev d) :
    st (w.modDev x f) = st w := st_setDev_same w x _ (h _)
@[simp] theorem scr_modDev (x : Nat) (f : Dev → Dev) : (w.modDev x f).scripts = w.scripts := rfl

@[simp] theorem st_modPart (p : Nat) (f : PartRec → PartRec) : st (w.modPart p f) = st w := rfl
@[simp] theorem scr_modPart (p : Nat) (f : PartRec → PartRec) : (w.modPart p f).scripts = w.scripts := rfl
theorem sv_modPart_same (p : Nat) (f : PartRec → PartRec) (h : ∀ r, (f r).kids = r.kids) :
    sv (w.modPart p f) = sv w := by
  simp only [sv, World.modPart, World.part]
  rw [map_set_getD_self (·.kids) w.parts p default _ (h _)]

end prim

end C02V
end SimProc

/-! ### the `frame` tactic -/
namespace SimProc
namespace C02V
open World

/-- One step of frame reasoning: close the goal by `rfl`, or rewrite with one frame lemma.
Extended by `macro_rules` as frame lemmas are proved. -/
syntax "fr_step" : tactic
macro_rules | `(tactic| fr_step) => `(tactic| first
  | with_reducible rfl
  | rw [sv_setErr] | rw [st_setErr] | rw [scr_setErr]
  | rw [sv_schedLib] | rw [st_schedLib] | rw [scr_schedLib]
  | rw [sv_rmEffects] | rw [st_rmEffects] | rw [scr_rmEffects]
  | rw [sv_setDev_same] | rw [st_setDev_same]
  | rw [sv_modDev_same] | rw [st_modDev_same]
  | rw [sv_modPart_same]
  | rw [scr_modDev] | rw [scr_setDev] | rw [scr_modPart] | rw [st_modPart]
  | rw [sv_addRec] | rw [st_addRec] | rw [scr_addRec] | rw [sv_addRes] | rw [st_addRes] | rw [scr_addRes]
  | rw [sv_envOp] | rw [st_envOp] | rw [scr_envOp]
  | rw [sv_sched] | rw [st_sched] | rw [scr_sched]
  | rfl
  | (intro _; rfl))

/-- Split all `if`/`match` and close every branch by frame steps. -/
macro "frame" : tactic => `(tactic| ((try simp only []); repeat' split) <;> (repeat' fr_step))

end C02V
end SimProc
