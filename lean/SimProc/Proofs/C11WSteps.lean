/-
Machinery for `Props/C11W.lean`, part 4: the steps that are NOT benign — acquiring and releasing
resources, capacity changes, shutting down and restoring a device, the availability check — each
shown to preserve the closed-world invariant.
-/
import SimProc.Proofs.C11WInv

namespace SimProc
namespace C11W
open World FloorCoreL

/-! ### generic helpers -/

theorem map_devs_eq {α : Type} (g : Dev → α) {w W : World} (hl : W.devs.length = w.devs.length)
    (h : ∀ y, g (W.dev y) = g (w.dev y)) : W.devs.map g = w.devs.map g := by
  apply List.ext_getElem
  · simp [hl]
  · intro i h1 h2
    simp only [List.getElem_map]
    have hi1 : i < W.devs.length := by simpa using h1
    have hi2 : i < w.devs.length := by simpa using h2
    have := h i
    simp only [World.dev, List.getD_eq_getElem?_getD, List.getElem?_eq_getElem hi1,
      List.getElem?_eq_getElem hi2, Option.getD_some] at this
    exact this

theorem rsv_eq_of_dev {w W : World} (hl : W.devs.length = w.devs.length)
    (h : ∀ y, (W.dev y).reserved = (w.dev y).reserved) : W.rsv = w.rsv :=
  map_devs_eq (·.reserved) hl h

/-- the world after a manager operation: new manager, its records and check, nothing else -/
theorem envMono_rmStep (w : World) (rm' : RM) (recs : List ResRec) (chk : Bool) (x : Nat)
    (f : Dev → Dev) :
    EnvMono w ((({ w with rm := rm' } : World).rmEffects recs chk).modDev x f) := by
  have h1 := (monoS_rmEffects ({ w with rm := rm' } : World) recs chk).m0.env
  have h2 : EnvMono w (({ w with rm := rm' } : World).rmEffects recs chk) :=
    h1.congr_left rfl (fun _ => rfl)
  exact h2.congr_right rfl

theorem envMono_rmStep0 (w : World) (rm' : RM) (recs : List ResRec) (chk : Bool) :
    EnvMono w (({ w with rm := rm' } : World).rmEffects recs chk) := by
  have h1 := (monoS_rmEffects ({ w with rm := rm' } : World) recs chk).m0.env
  exact h1.congr_left rfl (fun _ => rfl)

theorem queued_rmEffects_true (w : World) (recs : List ResRec) :
    QueuedL (w.rmEffects recs true) .rmCheck w.now pOtherHigh (-1) := by
  unfold rmEffects
  dsimp only
  have hn : ∀ (l : List ResRec) (w : World),
      (l.foldl (fun w r => w.addRec (.resUpdate r.res w.now r.inUse r.cap)) w).now = w.now := by
    intro l
    induction l with
    | nil => intro w; rfl
    | cons a l ih => intro w; rw [List.foldl_cons, ih]; rfl
  simp only [if_true]
  rw [hn]
  have := Queued_schedLib_new (recs.foldl (fun w r => w.addRec (.resUpdate r.res w.now r.inUse r.cap)) w)
    w.now (-1) .rmCheck pOtherHigh (by rw [hn]; exact Int.le_refl _)
  exact QueuedL.of_queued this

theorem envMono_procAcquire (w : World) (x : Nat) : EnvMono w (w.procAcquire x).1 := by
  unfold procAcquire
  dsimp only
  repeat' split
  all_goals dsimp only
  all_goals first
    | exact EnvMono.refl w
    | exact (monoS_setErr w _).m0.env
    | exact envMono_rmStep w _ _ _ _ _

theorem envMono_releaseReserved (w : World) (x : Nat) : EnvMono w (w.releaseReserved x) := by
  unfold releaseReserved
  split
  · exact EnvMono.refl w
  · exact envMono_rmStep w _ _ _ _ _

/-- a release of an existing reservation on an initialised manager queues the check -/
theorem queued_releaseReserved (w : World) (x id : Nat) (h : Req) (hres : (w.dev x).reserved = some id)
    (hh : w.rm.held id = some h) (hin : w.rm.inited = true) :
    QueuedL (w.releaseReserved x) .rmCheck w.now pOtherHigh (-1) := by
  have hchk : (w.rm.release id none).2.2.2 = true := by
    rw [RM.release_all_eq w.rm id h hh]; exact hin
  unfold releaseReserved
  simp only [hres]
  rcases hR : w.rm.release id none with ⟨rm', res, recs, chk⟩
  rw [hR] at hchk
  simp only at hchk
  subst hchk
  simp only
  obtain ⟨e, he, hrest⟩ := queued_rmEffects_true ({ w with rm := rm' } : World) recs
  exact ⟨e, he, hrest⟩

/-! ### the resource layer: frame lemmas -/

theorem held_append_some {resv : List (Nat × Req)} {id : Nat} {h : Req} (e : Nat × Req)
    (hh : alookup resv id = some h) : alookup (resv ++ [e]) id = some h := by
  rw [alookup_append, hh]; rfl

/-- The part of `RInv` that only depends on scripts and static device data. -/
theorem S_congr {w W : World} (h : S w) (hs : W.scripts = w.scripts)
    (hl : W.devs.length = w.devs.length) (hd : ∀ y, statD (W.dev y) = statD (w.dev y)) : S W :=
  h.of_eq hs (map_devs_eq statD hl hd)


theorem mem_rsv {w : World} {y id : Nat} (h : (w.dev y).reserved = some id) : some id ∈ w.rsv := by
  have hy := valid_of_reserved h
  unfold rsv
  exact List.mem_map.2 ⟨w.dev y, mem_devs_of_lt hy, h⟩

/-- an id below the number of reservations names a reservation -/
theorem held_of_lt {rm : RM} (hi : C09.Inv rm) {id : Nat} (h : id < rm.resv.length) :
    ∃ hd, rm.held id = some hd := by
  have h1 := hi.resvIds id h
  refine ⟨(rm.resv[id]).2, ?_⟩
  rw [RM.held_eq]
  apply alookup_of_mem _ hi.rinv.resvNodup
  have : rm.resv[id] = (id, (rm.resv[id]).2) := Prod.ext h1 rfl
  rw [← this]
  exact List.getElem_mem h

theorem dev_rmStep (w : World) (rm' : RM) (recs : List ResRec) (chk : Bool) (x : Nat)
    (f : Dev → Dev) (y : Nat) :
    ((({ w with rm := rm' } : World).rmEffects recs chk).modDev x f).dev y =
      if x = y ∧ x < w.devs.length then f (w.dev x) else w.dev y := by
  rw [dev_modDev, rmEffects_devs, dev_rmEffects, dev_rmEffects]
  rfl

/-! ### releasing -/

theorem invR_releaseReserved (w : World) (x : Nat) (h : InvR x w)
    (hp : (w.dev x).kind = .processor → (w.dev x).part = none) : Inv (w.releaseReserved x) := by
  cases hres : (w.dev x).reserved with
  | none =>
    rw [releaseReserved_none w x hres]
    refine ⟨h.r, h.e.toE (fun _ _ hr _ => hr hres), h.pend, fun y => ?_⟩
    by_cases hy : y = x
    · subst hy; intro _ _ hr; exact absurd hres hr
    · exact h.rel y hy
  | some id =>
    have hlt : id < w.rm.resv.length := h.r.own.1 id (mem_rsv hres)
    obtain ⟨hd, hh⟩ := held_of_lt h.r.rmI hlt
    have hrm : (w.releaseReserved x).rm = ((w.rm.credit hd).1.setHeld id []) := by
      rw [releaseReserved_rm, hres]; simp only; rw [RM.release_all_eq w.rm id hd hh]
    have hsame : (w.releaseReserved x).dev x = { w.dev x with reserved := none } :=
      releaseReserved_dev_same w x
    have hne : ∀ y, y ≠ x → (w.releaseReserved x).dev y = w.dev y :=
      fun y hy => releaseReserved_dev_ne w hy
    have henv := envMono_releaseReserved w x
    have hq := queued_releaseReserved w x id hd hres hh h.r.ini
    have hown := C11.release_preserves_owned w x h.r.own
    have hscr := releaseReserved_scripts w x
    have hlen := releaseReserved_devs_length w x
    have hrmI : C09.Inv (w.releaseReserved x).rm := by
      rw [releaseReserved_rm, hres]
      exact C09.inv_release h.r.rmI id none (fun _ h => by cases h)
    generalize w.releaseReserved x = W at *
    have hdk : ∀ y, dk (W.dev y) = dk (w.dev y) := by
      intro y
      by_cases hy : y = x
      · subst hy; rw [hsame]; rfl
      · rw [hne y hy]
    have hnow : W.now = w.now := henv.now
    refine ⟨⟨?_, hrmI, ?_, hown, ?_, ?_, ?_⟩, ?_, ?_, ?_⟩
    · refine S_congr h.r.s hscr hlen ?_
      intro y
      by_cases hy : y = x
      · subst hy; rw [hsame]; rfl
      · rw [hne y hy]
    · rw [hrm, RM.setHeld_inited, RM.credit_inited]; exact h.r.ini
    · intro y1 y2 id' h1 h2
      by_cases hy1 : y1 = x
      · subst hy1; rw [hsame] at h1; cases h1
      · by_cases hy2 : y2 = x
        · subst hy2; rw [hsame] at h2; cases h2
        · rw [hne y1 hy1] at h1
          rw [hne y2 hy2] at h2
          exact h.r.uniq y1 y2 id' h1 h2
    · intro y hk
      by_cases hy : y = x
      · subst hy
        rw [hsame] at hk
        intro req _
        refine ⟨fun id' hid' => ?_, fun hpp => ?_⟩
        · rw [hsame] at hid'; cases hid'
        · rw [hsame] at hpp
          have := hp hk
          simp only at hpp
          rw [this] at hpp; cases hpp
      · rw [hne y hy] at hk
        intro req hreq
        rw [hne y hy] at hreq
        obtain ⟨h1, h2⟩ := h.r.proc y hk req hreq
        rw [hne y hy]
        refine ⟨fun id' hid' => ?_, h2⟩
        have hne' : id' ≠ id := by
          intro e'
          subst e'
          exact hy (h.r.uniq y x id' hid' hres)
        rw [hrm, RM.held_setHeld_ne _ _ _ _ hne', RM.held_eq, RM.credit_resv, ← RM.held_eq]
        exact h1 id' hid'
    · refine h.r.wait.congr ?_ ?_
      · rw [hrm, RM.setHeld_waiting, RM.credit_waiting]
      · intro y
        by_cases hy : y = x
        · subst hy; rw [hsame]
        · rw [hne y hy]
    · refine h.e.step ⟨hdk, henv, ?_⟩ (fun _ _ hr _ => by rw [hsame] at hr; exact hr rfl)
      intro y _ _ hr hpp
      by_cases hy : y = x
      · subst hy; rw [hsame] at hr; exact absurd rfl hr
      · rw [hne y hy] at hr hpp; exact ⟨hr, hpp⟩
    · intro _; rw [hnow]; exact hq
    · intro y
      by_cases hy : y = x
      · subst hy
        intro _ _ hr
        rw [hsame] at hr
        exact absurd rfl hr
      · refine (h.rel y hy).step (hdk y) henv ?_
        intro _ _ hr hpp
        rw [hne y hy] at hr hpp
        exact Or.inl ⟨hr, hpp⟩


theorem invX_releaseReserved (w : World) (x : Nat) (h : InvX x w)
    (hp : (w.dev x).kind = .processor → (w.dev x).part = none) : Inv (w.releaseReserved x) :=
  invR_releaseReserved w x h.toR hp

/-! ### acquiring -/

theorem feasible_of_poolLe {a b : RM} (hw : a.waiting = b.waiting) (hle : C10.PoolLe a b)
    (h : C10.feasibleWaiting a) : C10.feasibleWaiting b := by
  obtain ⟨e, he, hc⟩ := h
  exact ⟨e, by rw [← hw]; exact he, C10.canFulfill_mono hle _ hc⟩

/-- `procAcquire` of an operational processor: everything but `Rel x` is preserved; if it refuses,
`Rel x` is preserved as well; if it succeeds and a requirement is declared, a reservation is held. -/
theorem invX_procAcquire (w : World) (x : Nat) (h : Inv w) (hk : (w.dev x).kind = .processor)
    (hs : (w.dev x).shutDown = false) :
    InvX x (w.procAcquire x).1 ∧
    ((w.procAcquire x).2 = false → Rel (w.procAcquire x).1 x) ∧
    ((w.procAcquire x).2 = true → ∀ req, (w.dev x).resReq = some req →
      ((w.procAcquire x).1.dev x).reserved ≠ none) := by
  have hx : x < w.devs.length := lt_of_processor hk
  cases hreq : (w.dev x).resReq with
  | none =>
    rw [procAcquire_noop w x (Or.inl hreq)]
    exact ⟨h.toX x, fun hb => (by cases hb), fun _ req hr => (by cases hr)⟩
  | some req =>
  cases hres : (w.dev x).reserved with
  | some id =>
    rw [procAcquire_noop w x (Or.inr (by rw [hres]; rfl))]
    refine ⟨h.toX x, fun hb => (by cases hb), fun _ _ _ => ?_⟩
    simp only [hres]; exact fun e => (by cases e)
  | none =>
  obtain ⟨hkeys, hnn⟩ := h.r.s.req x req hreq
  by_cases hf : C09.fits w.rm req
  · -- the request fits: a new reservation
    have hpa := procAcquire_fits w x req hreq hres hnn hf
    have hown : C11.OwnedBy (w.procAcquire x).1 := C11.acquire_preserves_owned w x h.r.rmI h.r.own
    rw [hpa] at hown ⊢
    simp only at hown ⊢
    have hsome := (C09.reserve_iff_fits w.rm req hnn).2 hf
    obtain ⟨id, hid⟩ := Option.isSome_iff_exists.1 hsome
    obtain ⟨_, _, _, heq⟩ := RM.reserve_some w.rm req id hid
    have hsame := dev_rmStep w (w.rm.reserve req).1 (w.rm.reserve req).2.2.2 false x
      (fun d => { d with reserved := some w.rm.resv.length }) x
    rw [if_pos ⟨rfl, hx⟩] at hsame
    have hne : ∀ y, y ≠ x → (((({ w with rm := (w.rm.reserve req).1 } : World).rmEffects
        (w.rm.reserve req).2.2.2 false).modDev x
        (fun d => { d with reserved := some w.rm.resv.length })).dev y) = w.dev y := by
      intro y hy
      rw [dev_rmStep, if_neg (fun e => hy e.1.symm)]
    have henv := envMono_rmStep w (w.rm.reserve req).1 (w.rm.reserve req).2.2.2 false x
      (fun d => { d with reserved := some w.rm.resv.length })
    have hrm : ((({ w with rm := (w.rm.reserve req).1 } : World).rmEffects
        (w.rm.reserve req).2.2.2 false).modDev x
        (fun d => { d with reserved := some w.rm.resv.length })).rm = (w.rm.reserve req).1 := by
      simp only [modDev_rm, rmEffects_rm]
    have hscr : ((({ w with rm := (w.rm.reserve req).1 } : World).rmEffects
        (w.rm.reserve req).2.2.2 false).modDev x
        (fun d => { d with reserved := some w.rm.resv.length })).scripts = w.scripts := by
      simp only [modDev_scripts, rmEffects_scripts]
    have hlen : ((({ w with rm := (w.rm.reserve req).1 } : World).rmEffects
        (w.rm.reserve req).2.2.2 false).modDev x
        (fun d => { d with reserved := some w.rm.resv.length })).devs.length = w.devs.length := by
      simp only [modDev_devs_length, rmEffects_devs]
    generalize ((({ w with rm := (w.rm.reserve req).1 } : World).rmEffects
        (w.rm.reserve req).2.2.2 false).modDev x
        (fun d => { d with reserved := some w.rm.resv.length })) = W at *
    have hdk : ∀ y, dk (W.dev y) = dk (w.dev y) := by
      intro y
      by_cases hy : y = x
      · subst hy; rw [hsame]; rfl
      · rw [hne y hy]
    have hresv : W.rm.resv = w.rm.resv ++ [(w.rm.resv.length, req.filter (fun p => p.2 > 0))] := by
      rw [hrm, heq]
    refine ⟨⟨⟨?_, ?_, ?_, hown, ?_, ?_, ?_⟩, ?_, ?_, ?_⟩, fun hb => (by cases hb), fun _ _ _ => ?_⟩
    · refine S_congr h.r.s hscr hlen ?_
      intro y
      by_cases hy : y = x
      · subst hy; rw [hsame]; rfl
      · rw [hne y hy]
    · rw [hrm]; exact C09.inv_reserve h.r.rmI req hkeys
    · rw [hrm, (C10.reserve_spec w.rm req).2.1]; exact h.r.ini
    · intro y1 y2 id' h1 h2
      by_cases hy1 : y1 = x
      · by_cases hy2 : y2 = x
        · rw [hy1, hy2]
        · exfalso
          subst hy1
          rw [hsame] at h1
          rw [hne y2 hy2] at h2
          simp only [Option.some.injEq] at h1
          subst h1
          have := h.r.own.1 _ (mem_rsv h2)
          omega
      · by_cases hy2 : y2 = x
        · exfalso
          subst hy2
          rw [hsame] at h2
          rw [hne y1 hy1] at h1
          simp only [Option.some.injEq] at h2
          subst h2
          have := h.r.own.1 _ (mem_rsv h1)
          omega
        · rw [hne y1 hy1] at h1
          rw [hne y2 hy2] at h2
          exact h.r.uniq y1 y2 id' h1 h2
    · intro y hky
      by_cases hy : y = x
      · subst hy
        intro req' hreq'
        rw [hsame] at hreq'
        simp only at hreq'
        rw [hreq] at hreq'
        cases hreq'
        refine ⟨fun id' hid' => ?_, fun _ => by rw [hsame]; rfl⟩
        rw [hsame] at hid'
        simp only [Option.some.injEq] at hid'
        subst hid'
        rw [RM.held_eq, hresv, alookup_append, RM.alookup_length_of_ids _ h.r.rmI.resvIds]
        simp [alookup_cons, C11.pos]
      · rw [hne y hy] at hky
        intro req' hreq'
        rw [hne y hy] at hreq'
        obtain ⟨h1, h2⟩ := h.r.proc y hky req' hreq'
        rw [hne y hy]
        refine ⟨fun id' hid' => ?_, h2⟩
        rw [RM.held_eq, hresv]
        exact held_append_some _ (by rw [← RM.held_eq]; exact h1 id' hid')
    · refine h.r.wait.congr ?_ ?_
      · rw [hrm, (C10.reserve_spec w.rm req).1]
      · intro y
        by_cases hy : y = x
        · subst hy; rw [hsame]
        · rw [hne y hy]
    · refine h.e.step ⟨hdk, henv, ?_⟩
      intro y _ hsy hr hpp
      by_cases hy : y = x
      · subst hy; rw [hs] at hsy; cases hsy
      · rw [hne y hy] at hr hpp; exact ⟨hr, hpp⟩
    · refine h.pend.step henv ?_
      rw [hrm]
      exact feasible_of_poolLe (C10.reserve_spec w.rm req).1 (C10.reserve_spec w.rm req).2.2
    · intro y hy
      refine (h.rel y).step (hdk y) henv ?_
      intro _ _ hr hpp
      rw [hne y hy] at hr hpp
      exact Or.inl ⟨hr, hpp⟩
    · rw [hsame]; exact fun e => by cases e
  · -- the request does not fit
    have hpa := procAcquire_not_fits w x req hreq hres hnn hf
    by_cases hw : (w.dev x).waitingRes = true
    · rw [hpa, if_pos hw]
      exact ⟨h.toX x, fun _ => h.rel x, fun hb => (by cases hb)⟩
    · rw [hpa, if_neg hw]
      simp only
      have hw' : (w.dev x).waitingRes = false := by simpa using hw
      have hsame := dev_rmStep w (w.rm.register req (.proc x)).1 [] w.rm.inited x
        (fun d => { d with waitingRes := true }) x
      rw [if_pos ⟨rfl, hx⟩] at hsame
      have hne : ∀ y, y ≠ x → (((({ w with rm := (w.rm.register req (.proc x)).1 } : World).rmEffects
          [] w.rm.inited).modDev x (fun d => { d with waitingRes := true })).dev y) = w.dev y := by
        intro y hy
        rw [dev_rmStep, if_neg (fun e => hy e.1.symm)]
      have henv := envMono_rmStep w (w.rm.register req (.proc x)).1 [] w.rm.inited x
        (fun d => { d with waitingRes := true })
      have hrm : ((({ w with rm := (w.rm.register req (.proc x)).1 } : World).rmEffects
          [] w.rm.inited).modDev x (fun d => { d with waitingRes := true })).rm =
          { w.rm with waiting := w.rm.waiting ++ [(req, .proc x)] } := by
        simp only [modDev_rm, rmEffects_rm]; rfl
      have hscr : ((({ w with rm := (w.rm.register req (.proc x)).1 } : World).rmEffects
          [] w.rm.inited).modDev x (fun d => { d with waitingRes := true })).scripts = w.scripts := by
        simp only [modDev_scripts, rmEffects_scripts]
      have hlen : ((({ w with rm := (w.rm.register req (.proc x)).1 } : World).rmEffects
          [] w.rm.inited).modDev x (fun d => { d with waitingRes := true })).devs.length =
          w.devs.length := by
        simp only [modDev_devs_length, rmEffects_devs]
      have hq : QueuedL ((({ w with rm := (w.rm.register req (.proc x)).1 } : World).rmEffects
          [] w.rm.inited).modDev x (fun d => { d with waitingRes := true })) .rmCheck w.now
          pOtherHigh (-1) := by
        rw [h.r.ini]
        obtain ⟨e, he, hrest⟩ :=
          queued_rmEffects_true ({ w with rm := (w.rm.register req (.proc x)).1 } : World) []
        exact ⟨e, he, hrest⟩
      generalize ((({ w with rm := (w.rm.register req (.proc x)).1 } : World).rmEffects
          [] w.rm.inited).modDev x (fun d => { d with waitingRes := true })) = W at *
      have hdk : ∀ y, dk (W.dev y) = dk (w.dev y) := by
        intro y
        by_cases hy : y = x
        · subst hy; rw [hsame]; rfl
        · rw [hne y hy]
      have hresd : ∀ y, (W.dev y).reserved = (w.dev y).reserved := by
        intro y
        by_cases hy : y = x
        · subst hy; rw [hsame]
        · rw [hne y hy]
      have hpartd : ∀ y, (W.dev y).part = (w.dev y).part := by
        intro y
        by_cases hy : y = x
        · subst hy; rw [hsame]
        · rw [hne y hy]
      have hreqd : ∀ y, (W.dev y).resReq = (w.dev y).resReq := by
        intro y
        by_cases hy : y = x
        · subst hy; rw [hsame]
        · rw [hne y hy]
      have hresv : W.rm.resv = w.rm.resv := by rw [hrm]
      have hrel : ∀ y, Rel W y := by
        intro y
        refine (h.rel y).step (hdk y) henv ?_
        intro _ _ hr hpp
        rw [hresd] at hr; rw [hpartd] at hpp
        exact Or.inl ⟨hr, hpp⟩
      refine ⟨⟨⟨?_, ?_, ?_, ?_, ?_, ?_, ?_⟩, ?_, ?_, fun y _ => hrel y⟩, fun _ => hrel x,
        fun hb => (by cases hb)⟩
      · refine S_congr h.r.s hscr hlen ?_
        intro y
        by_cases hy : y = x
        · subst hy; rw [hsame]; rfl
        · rw [hne y hy]
      · rw [hrm]
        exact ⟨h.r.rmI.poolKeys, h.r.rmI.resvIds, h.r.rmI.heldKeys, h.r.rmI.heldPos,
          h.r.rmI.heldKnown, h.r.rmI.usageEq, h.r.rmI.capNonneg⟩
      · rw [hrm]; exact h.r.ini
      · exact h.r.own.congr hresv (rsv_eq_of_dev hlen hresd)
      · intro y1 y2 id' h1 h2
        rw [hresd] at h1 h2
        exact h.r.uniq y1 y2 id' h1 h2
      · intro y hky
        rw [dk_kind (hdk y)] at hky
        exact (h.r.proc y hky).congr (hreqd y) (hresd y) (by rw [hpartd]; exact id) hresv
      · unfold Wait
        rw [hrm]
        simp only [List.map_append, List.map_cons, List.map_nil]
        constructor
        · rw [List.nodup_append]
          refine ⟨h.r.wait.1, by simp, ?_⟩
          intro a ha b hb
          simp only [List.mem_singleton] at hb
          subst hb
          intro e
          subst e
          obtain ⟨e', he', hcb⟩ := List.mem_map.1 ha
          obtain ⟨x', hx', hwr⟩ := h.r.wait.2 e' he'
          rw [hcb] at hx'
          cases hx'
          rw [hw'] at hwr; cases hwr
        · intro e he
          rcases List.mem_append.1 he with he | he
          · obtain ⟨x', hx', hwr⟩ := h.r.wait.2 e he
            refine ⟨x', hx', ?_⟩
            by_cases hy : x' = x
            · subst hy; rw [hsame]
            · rw [hne x' hy]; exact hwr
          · simp only [List.mem_singleton] at he
            subst he
            exact ⟨x, rfl, by rw [hsame]⟩
      · refine h.e.step ⟨hdk, henv, ?_⟩
        intro y _ _ hr hpp
        rw [hresd] at hr; rw [hpartd] at hpp
        exact ⟨hr, hpp⟩
      · intro _
        have hnow : W.now = w.now := henv.now
        rw [hnow]; exact hq


/-- Putting the part into the input slot of an operational processor that holds what it declares. -/
theorem inv_setPart (W : World) (x p : Nat) (h : InvX x W) (hk : (W.dev x).kind = .processor)
    (hres : ∀ req, (W.dev x).resReq = some req → (W.dev x).reserved ≠ none) :
    Inv (W.modDev x (fun d => { d with part := some p })) := by
  have hx : x < W.devs.length := lt_of_processor hk
  have hsame : (W.modDev x (fun d => { d with part := some p })).dev x =
      { W.dev x with part := some p } := dev_modDev_same hx
  have hne : ∀ y, y ≠ x → (W.modDev x (fun d => { d with part := some p })).dev y = W.dev y :=
    fun y hy => dev_modDev_ne (Ne.symm hy)
  have hrm : (W.modDev x (fun d => { d with part := some p })).rm = W.rm := rfl
  have henv : EnvMono W (W.modDev x (fun d => { d with part := some p })) := EnvMono.of_env_eq rfl
  have hscr : (W.modDev x (fun d => { d with part := some p })).scripts = W.scripts := rfl
  have hlen : (W.modDev x (fun d => { d with part := some p })).devs.length = W.devs.length :=
    modDev_devs_length
  generalize W.modDev x (fun d => { d with part := some p }) = W' at *
  have hdk : ∀ y, dk (W'.dev y) = dk (W.dev y) := by
    intro y
    by_cases hy : y = x
    · subst hy; rw [hsame]; rfl
    · rw [hne y hy]
  have hresd : ∀ y, (W'.dev y).reserved = (W.dev y).reserved := by
    intro y
    by_cases hy : y = x
    · subst hy; rw [hsame]
    · rw [hne y hy]
  have hreqd : ∀ y, (W'.dev y).resReq = (W.dev y).resReq := by
    intro y
    by_cases hy : y = x
    · subst hy; rw [hsame]
    · rw [hne y hy]
  have hwd : ∀ y, (W'.dev y).waitingRes = (W.dev y).waitingRes := by
    intro y
    by_cases hy : y = x
    · subst hy; rw [hsame]
    · rw [hne y hy]
  refine ⟨⟨?_, by rw [hrm]; exact h.r.rmI, by rw [hrm]; exact h.r.ini, ?_, ?_, ?_, ?_⟩, ?_, ?_, ?_⟩
  · refine S_congr h.r.s hscr hlen ?_
    intro y
    by_cases hy : y = x
    · subst hy; rw [hsame]; rfl
    · rw [hne y hy]
  · exact h.r.own.congr (by rw [hrm]) (rsv_eq_of_dev hlen hresd)
  · intro y1 y2 id h1 h2
    rw [hresd] at h1 h2
    exact h.r.uniq y1 y2 id h1 h2
  · intro y hky
    rw [dk_kind (hdk y)] at hky
    by_cases hy : y = x
    · subst hy
      intro req hreq
      rw [hreqd] at hreq
      refine ⟨fun id hid => ?_, fun _ => ?_⟩
      · rw [hresd] at hid
        rw [hrm]
        exact (h.r.proc y hky req hreq).1 id hid
      · rw [hresd]
        cases hr : (W.dev y).reserved with
        | none => exact absurd hr (hres req hreq)
        | some _ => rfl
    · exact (h.r.proc y hky).congr (hreqd y) (hresd y) (by rw [hne y hy]; exact id) (by rw [hrm])
  · exact h.r.wait.congr (by rw [hrm]) hwd
  · refine h.e.step ⟨hdk, henv, ?_⟩
    intro y _ _ hr hpp
    by_cases hy : y = x
    · subst hy; rw [hsame] at hpp; cases hpp
    · rw [hne y hy] at hr hpp; exact ⟨hr, hpp⟩
  · exact h.pend.step henv (by rw [hrm]; exact id)
  · intro y
    by_cases hy : y = x
    · subst hy
      intro _ _ _ hpp
      rw [hsame] at hpp; cases hpp
    · refine (h.rel y hy).step (hdk y) henv ?_
      intro _ _ hr hpp
      rw [hne y hy] at hr hpp
      exact Or.inl ⟨hr, hpp⟩

theorem canAccept_proc {w : World} {x p : Nat} (hk : (w.dev x).kind = .processor)
    (hc : w.canAcceptBasic x p = true) : (w.dev x).shutDown = false ∧ (w.dev x).part = none := by
  unfold canAcceptBasic at hc
  simp only [hk, Bool.and_eq_true] at hc
  refine ⟨operational_proc hk hc.1.1.1, ?_⟩
  have := hc.1.2
  cases hp : (w.dev x).part with
  | none => rfl
  | some _ => rw [hp] at this; cases this

/-- Offering a part to a processor preserves the invariant. -/
theorem inv_give_proc (f : Nat) (w : World) (x p : Nat) (h : Inv w)
    (hk : (w.dev x).kind = .processor) : Inv (give (f + 1) w x p).1 := by
  rw [give_processor f w x p hk]
  split
  · next hc =>
    obtain ⟨hs, _⟩ := canAccept_proc hk hc
    obtain ⟨h1, h2, h3⟩ := invX_procAcquire w x h hk hs
    have hk1 : ((w.procAcquire x).1.dev x).kind = .processor :=
      (procAcquire_dev_field (fun d => d.kind) (fun _ _ _ => rfl) w x x).trans hk
    have hq1 : ((w.procAcquire x).1.dev x).resReq = (w.dev x).resReq :=
      procAcquire_dev_field (fun d => d.resReq) (fun _ _ _ => rfl) w x x
    rcases hpa : w.procAcquire x with ⟨w1, b⟩
    rw [hpa] at h1 h2 h3 hk1 hq1
    cases b
    · simp only at h1 h2 ⊢
      exact ⟨h1.r, h1.e, h1.pend, fun y => by
        by_cases hy : y = x
        · subst hy; exact h2 trivial
        · exact h1.rel y hy⟩
    · simp only at h1 h3 hk1 hq1 ⊢
      rw [acceptPart_eq]
      have hns : ((w1.dev x).kind == Kind.sink) = false := by rw [hk1]; rfl
      simp only [hns, Bool.false_eq_true, if_false]
      refine (inv_setPart w1 x p h1 hk1 ?_).mono (mono_acceptTail _ x p)
      intro req hreq
      rw [hq1] at hreq
      exact h3 trivial req hreq
  · exact h


/-! ### capacity changes -/

theorem RInv.congrW {w W : World} (h : RInv w) (hscr : W.scripts = w.scripts)
    (hrmI : C09.Inv W.rm) (hini : W.rm.inited = true) (hresv : W.rm.resv = w.rm.resv)
    (hlen : W.devs.length = w.devs.length)
    (hres : ∀ y, (W.dev y).reserved = (w.dev y).reserved)
    (hreq : ∀ y, (W.dev y).resReq = (w.dev y).resReq)
    (hkind : ∀ y, (W.dev y).kind = (w.dev y).kind)
    (haid : ∀ y, (W.dev y).aid = (w.dev y).aid)
    (hpart : ∀ y, (w.dev y).kind = .processor → (W.dev y).part.isSome = true →
      (w.dev y).part.isSome = true)
    (hwait : Wait W) : RInv W := by
  refine ⟨S_congr h.s hscr hlen ?_, hrmI, hini,
    h.own.congr hresv (rsv_eq_of_dev hlen hres), ?_, ?_, hwait⟩
  · intro y; simp only [statD, hkind, haid, hreq]
  · intro y1 y2 id h1 h2
    rw [hres] at h1 h2
    exact h.uniq y1 y2 id h1 h2
  · intro y hk
    rw [hkind] at hk
    exact (h.proc y hk).congr (hreq y) (hres y) (hpart y hk) hresv

theorem RInv.congr' {w W : World} (h : RInv w) (hscr : W.scripts = w.scripts) (hrm : W.rm = w.rm)
    (hlen : W.devs.length = w.devs.length)
    (hres : ∀ y, (W.dev y).reserved = (w.dev y).reserved)
    (hreq : ∀ y, (W.dev y).resReq = (w.dev y).resReq)
    (hwr : ∀ y, (W.dev y).waitingRes = (w.dev y).waitingRes)
    (hkind : ∀ y, (W.dev y).kind = (w.dev y).kind)
    (haid : ∀ y, (W.dev y).aid = (w.dev y).aid)
    (hpart : ∀ y, (W.dev y).part.isSome = true → (w.dev y).part.isSome = true) : RInv W :=
  h.congrW hscr (by rw [hrm]; exact h.rmI) (by rw [hrm]; exact h.ini) (by rw [hrm]) hlen hres hreq
    hkind haid (fun y _ => hpart y) (h.wait.congr (by rw [hrm]) hwr)

theorem RInv.congr {w W : World} (h : RInv w) (hscr : W.scripts = w.scripts) (hrm : W.rm = w.rm)
    (hlen : W.devs.length = w.devs.length) (hd : ∀ y, (W.dev y).resM = (w.dev y).resM) : RInv W :=
  h.congr' hscr hrm hlen (fun y => congrArg (·.1) (hd y)) (fun y => congrArg (·.2.1) (hd y))
    (fun y => congrArg (·.2.2.1) (hd y)) (fun y => congrArg (·.2.2.2.1) (hd y))
    (fun y => congrArg (·.2.2.2.2.1) (hd y))
    (fun y => by
      have : (W.dev y).part = (w.dev y).part := congrArg (·.2.2.2.2.2.1) (hd y)
      rw [this]; exact id)

/-- `add_resources` (any amount, accepted or rejected) preserves the invariant. -/
theorem inv_addRes (w : World) (r : Nat) (amt : Int) (h : Inv w) :
    Inv (({ w with rm := (w.rm.add r amt).1 } : World).rmEffects (w.rm.add r amt).2.2.1
      (w.rm.add r amt).2.2.2) := by
  rcases C10.add_cases w.rm r amt with ⟨he, _⟩ | ⟨_, hc, _, v, hv⟩
  · rw [he]
    simp only
    exact h.mono (monoS_rmEffects w [] false).toMono
  · rw [hc, h.r.ini]
    have hrmI := C09.inv_add h.r.rmI r amt
    have henv := envMono_rmStep0 w (w.rm.add r amt).1 (w.rm.add r amt).2.2.1 true
    have hq := queued_rmEffects_true ({ w with rm := (w.rm.add r amt).1 } : World) (w.rm.add r amt).2.2.1
    have hrm : (({ w with rm := (w.rm.add r amt).1 } : World).rmEffects (w.rm.add r amt).2.2.1 true).rm =
        (w.rm.add r amt).1 := by simp only [rmEffects_rm]
    have hdev : ∀ y, (({ w with rm := (w.rm.add r amt).1 } : World).rmEffects (w.rm.add r amt).2.2.1
        true).dev y = w.dev y := fun y => by rw [dev_rmEffects]; rfl
    have hscr : (({ w with rm := (w.rm.add r amt).1 } : World).rmEffects (w.rm.add r amt).2.2.1
        true).scripts = w.scripts := by simp only [rmEffects_scripts]
    have hlen : (({ w with rm := (w.rm.add r amt).1 } : World).rmEffects (w.rm.add r amt).2.2.1
        true).devs.length = w.devs.length := by simp only [rmEffects_devs]
    generalize (({ w with rm := (w.rm.add r amt).1 } : World).rmEffects (w.rm.add r amt).2.2.1 true) = W at *
    have hnow : W.now = w.now := henv.now
    have hresv : W.rm.resv = w.rm.resv := by rw [hrm, hv, RM.setPool_resv]
    refine ⟨⟨?_, by rw [hrm]; exact hrmI, ?_, ?_, ?_, ?_, ?_⟩, ?_, ?_, ?_⟩
    · exact S_congr h.r.s hscr hlen (fun y => by rw [hdev])
    · rw [hrm, hv, RM.setPool_inited]; exact h.r.ini
    · exact h.r.own.congr hresv (rsv_eq_of_dev hlen (fun y => by rw [hdev]))
    · intro y1 y2 id h1 h2
      rw [hdev] at h1 h2
      exact h.r.uniq y1 y2 id h1 h2
    · intro y hk
      rw [hdev] at hk
      exact (h.r.proc y hk).congr (by rw [hdev]) (by rw [hdev]) (by rw [hdev]; exact id) hresv
    · exact h.r.wait.congr (by rw [hrm, hv, RM.setPool_waiting]) (fun y => by rw [hdev])
    · refine h.e.step ⟨fun y => by rw [hdev], henv, ?_⟩
      intro y _ _ hr hpp
      rw [hdev] at hr hpp
      exact ⟨hr, hpp⟩
    · intro _; rw [hnow]; exact hq
    · intro y
      refine (h.rel y).step (by rw [hdev]) henv ?_
      intro _ _ hr hpp
      rw [hdev] at hr hpp
      exact Or.inl ⟨hr, hpp⟩

/-! ### pausing, resuming and cancelling the events of an asset -/

theorem aid_ne_of_proc {w : World} (hS : S w) {y x : Nat} (hy : (w.dev y).kind = .processor)
    (hne : y ≠ x) : (w.dev y).aid ≠ (w.dev x).aid := by
  have hyl := lt_of_processor hy
  by_cases hx : x < w.devs.length
  · exact fun e => hne (hS.aid_inj y x hyl hx e)
  · rw [dev_of_length_le (Nat.not_lt.1 hx)]
    have := hS.aid_pos y hyl
    show (w.dev y).aid ≠ 0
    omega

theorem aid_ne_neg_one {w : World} (hS : S w) (x : Nat) : (w.dev x).aid ≠ -1 := by
  by_cases hx : x < w.devs.length
  · have := hS.aid_pos x hx; omega
  · rw [dev_of_length_le (Nat.not_lt.1 hx)]; decide

theorem mem_pause_events {s : Env} {a : Int} {e : Event} :
    e ∈ (s.pause a).events ↔ e ∈ s.events ∧ e.asset ≠ a := by
  simp [Env.pause, List.mem_filter]

theorem mem_pause_paused {s : Env} {a : Int} {e : Event} :
    e ∈ (s.pause a).paused ↔
      e ∈ s.paused ∨ ∃ e0 ∈ s.events, e0.asset = a ∧ e = { e0 with pausedAt := some s.now } := by
  simp only [Env.pause, List.mem_append, List.mem_map, List.mem_filter, beq_iff_eq]
  constructor
  · rintro (h | ⟨e0, ⟨h1, h2⟩, rfl⟩)
    · exact Or.inl h
    · exact Or.inr ⟨e0, h1, h2, rfl⟩
  · rintro (h | ⟨e0, h1, h2, rfl⟩)
    · exact Or.inl h
    · exact Or.inr ⟨e0, ⟨h1, h2⟩, rfl⟩

theorem mem_unpause_events {s : Env} {a : Int} {e : Event} :
    e ∈ (s.unpause Arith.exact a).events ↔
      e ∈ s.events ∨ ∃ e0 ∈ s.paused, e0.asset = a ∧
        e = { e0 with time := shiftTime Arith.exact s.now e0.time (e0.pausedAt.getD s.now) } := by
  simp only [Env.unpause, foldl_insort_map, insortAll_mem, List.mem_map, List.mem_filter, beq_iff_eq]
  constructor
  · rintro (⟨e0, ⟨h1, h2⟩, rfl⟩ | h)
    · exact Or.inr ⟨e0, h1, h2, rfl⟩
    · exact Or.inl h
  · rintro (h | ⟨e0, h1, h2, rfl⟩)
    · exact Or.inr h
    · exact Or.inl ⟨e0, ⟨h1, h2⟩, rfl⟩

theorem mem_unpause_paused {s : Env} {a : Int} {e : Event} :
    e ∈ (s.unpause Arith.exact a).paused ↔ e ∈ s.paused ∧ e.asset ≠ a := by
  simp [Env.unpause, List.mem_filter]

theorem shiftTime_exact_self (now t : Int) :
    shiftTime Arith.exact now t ((some t).getD now) = now := by
  show (if t + (now - t) < now then now else t + (now - t)) = now
  split <;> omega

theorem cancelIf_of_ne {a : Int} {e : Event} (h : e.asset ≠ a) : e.cancelIf a = e := by
  unfold Event.cancelIf
  rw [if_neg]
  simpa using h

theorem evAct_cancelIf (a : Int) (e : Event) : evAct (e.cancelIf a) = evAct e := by
  unfold evAct; rw [Event.cancelIf_act]

/-- What a world looks like after the events of asset `a` have been paused and some devices with
that asset id have been marked as shut down. -/
theorem inv_pause (w W : World) (a : Int) (h : Inv w) (hr : RInv W)
    (henv : W.env = w.env.pause a) (hrm : W.rm = w.rm)
    (hd : ∀ y, (W.dev y).resM = (w.dev y).resM)
    (hA : ∀ y, (w.dev y).kind = .processor → (w.dev y).aid = a → (W.dev y).shutDown = true)
    (hB : ∀ y, (W.dev y).shutDown = (w.dev y).shutDown ∨
      ((w.dev y).shutDown = false ∧ (W.dev y).shutDown = true ∧ (w.dev y).aid = a))
    (hC : a ≠ -1) : Inv W := by
  have hres : ∀ y, (W.dev y).reserved = (w.dev y).reserved := fun y => congrArg (·.1) (hd y)
  have hkind : ∀ y, (W.dev y).kind = (w.dev y).kind := fun y => congrArg (·.2.2.2.1) (hd y)
  have haid : ∀ y, (W.dev y).aid = (w.dev y).aid := fun y => congrArg (·.2.2.2.2.1) (hd y)
  have hpart : ∀ y, (W.dev y).part = (w.dev y).part := fun y => congrArg (·.2.2.2.2.2.1) (hd y)
  have hnow : W.now = w.now := by unfold World.now; rw [henv]; rfl
  have hev : ∀ e, e ∈ w.env.events → e.asset ≠ a → e ∈ W.env.events := by
    intro e he hne; rw [henv]; exact mem_pause_events.2 ⟨he, hne⟩
  refine ⟨hr, ⟨?_, ?_, ?_, ?_⟩, ?_, ?_⟩
  · intro y hk hs hrs hp
    rw [hkind] at hk; rw [hres] at hrs; rw [hpart] at hp; rw [haid, henv]
    rcases hB y with hb | ⟨hb1, _, hb3⟩
    · rw [hb] at hs
      obtain ⟨e, he, hrest⟩ := h.e.relP y hk hs hrs hp
      exact ⟨e, mem_pause_paused.2 (Or.inl he), hrest⟩
    · obtain ⟨e, he, h1, h2, h3, h4, h5⟩ := h.rel y hk hb1 hrs hp
      refine ⟨{ e with pausedAt := some w.env.now }, mem_pause_paused.2 (Or.inr ⟨e, he, ?_, rfl⟩),
        h1, h4, h3, h5, ?_⟩
      · rw [h4, hb3]
      · show some w.env.now = some e.time
        rw [h2]; rfl
  · intro y hk hs e he hc
    rw [hkind] at hk
    rw [henv] at he
    obtain ⟨he1, he2⟩ := mem_pause_events.1 he
    rcases hB y with hb | ⟨_, _, hb3⟩
    · rw [hb] at hs
      exact h.e.noRun y hk hs e he1 hc
    · constructor
      · intro ha
        exact he2 ((h.e.evA e (List.mem_append_left _ he1) y hk (Or.inl ha)).trans hb3)
      · intro ha
        exact he2 ((h.e.evA e (List.mem_append_left _ he1) y hk (Or.inr ha)).trans hb3)
  · intro e he y hk ha
    rw [hkind] at hk; rw [haid]
    rw [henv] at he
    rcases List.mem_append.1 he with he | he
    · exact h.e.evA e (List.mem_append_left _ (mem_pause_events.1 he).1) y hk ha
    · rcases mem_pause_paused.1 he with he | ⟨e0, he0, _, rfl⟩
      · exact h.e.evA e (List.mem_append_right _ he) y hk ha
      · exact h.e.evA e0 (List.mem_append_left _ he0) y hk ha
  · rw [henv]; exact C01.inv_pause a h.e.q
  · intro hf
    rw [hrm] at hf
    obtain ⟨e, he, h1, h2, h3, h4, h5⟩ := h.pend hf
    rw [hnow]
    exact ⟨e, hev e he (by rw [h4]; exact fun e' => hC e'.symm), h1, h2, h3, h4, h5⟩
  · intro y hk hs hrs hp
    rw [hkind] at hk; rw [hres] at hrs; rw [hpart] at hp; rw [haid, hnow]
    have hs' : (w.dev y).shutDown = false := by
      rcases hB y with hb | ⟨_, hb2, _⟩
      · rw [← hb]; exact hs
      · rw [hs] at hb2; cases hb2
    obtain ⟨e, he, h1, h2, h3, h4, h5⟩ := h.rel y hk hs' hrs hp
    refine ⟨e, hev e he ?_, h1, h2, h3, h4, h5⟩
    rw [h4]
    intro ea
    have := hA y hk ea
    rw [hs] at this; cases this

/-- … after the events of asset `a` have been cancelled; processors with that asset id hold nothing
and are shut down afterwards. -/
theorem inv_cancel (w W : World) (a : Int) (h : Inv w) (hr : RInv W)
    (henv : W.env = w.env.cancel a) (hrm : W.rm = w.rm)
    (hd : ∀ y, (W.dev y).resM = (w.dev y).resM)
    (hA : ∀ y, (w.dev y).kind = .processor → (w.dev y).aid = a →
      (w.dev y).reserved = none ∧ (W.dev y).shutDown = true)
    (hB : ∀ y, (W.dev y).shutDown = (w.dev y).shutDown ∨
      ((W.dev y).shutDown = true ∧ (w.dev y).aid = a))
    (hC : a ≠ -1) : Inv W := by
  have hres : ∀ y, (W.dev y).reserved = (w.dev y).reserved := fun y => congrArg (·.1) (hd y)
  have hkind : ∀ y, (W.dev y).kind = (w.dev y).kind := fun y => congrArg (·.2.2.2.1) (hd y)
  have haid : ∀ y, (W.dev y).aid = (w.dev y).aid := fun y => congrArg (·.2.2.2.2.1) (hd y)
  have hpart : ∀ y, (W.dev y).part = (w.dev y).part := fun y => congrArg (·.2.2.2.2.2.1) (hd y)
  have hnow : W.now = w.now := by unfold World.now; rw [henv]; rfl
  have hev : ∀ e, e ∈ w.env.events → e.asset ≠ a → e ∈ W.env.events := by
    intro e he hne
    rw [henv]
    exact List.mem_map.2 ⟨e, he, cancelIf_of_ne hne⟩
  refine ⟨hr, ⟨?_, ?_, ?_, ?_⟩, ?_, ?_⟩
  · intro y hk hs hrs hp
    rw [hkind] at hk; rw [hres] at hrs; rw [hpart] at hp; rw [haid, henv]
    have hna : (w.dev y).aid ≠ a := fun ea => hrs (hA y hk ea).1
    have hs' : (w.dev y).shutDown = true := by
      rcases hB y with hb | ⟨_, hb2⟩
      · rw [← hb]; exact hs
      · exact absurd hb2 hna
    obtain ⟨e, he, h1, h2, hrest⟩ := h.e.relP y hk hs' hrs hp
    exact ⟨e, List.mem_map.2 ⟨e, he, cancelIf_of_ne (by rw [h2]; exact hna)⟩, h1, h2, hrest⟩
  · intro y hk hs e he hc
    rw [hkind] at hk
    rw [henv] at he
    obtain ⟨e0, he0, rfl⟩ := List.mem_map.1 he
    rw [Event.cancelIf_cancelled] at hc
    simp only [Bool.or_eq_false_iff, beq_eq_false_iff_ne] at hc
    rw [evAct_cancelIf]
    by_cases hna : (w.dev y).aid = a
    · constructor
      · intro ha
        exact hc.2 ((h.e.evA e0 (List.mem_append_left _ he0) y hk (Or.inl ha)).trans hna)
      · intro ha
        exact hc.2 ((h.e.evA e0 (List.mem_append_left _ he0) y hk (Or.inr ha)).trans hna)
    · have hs' : (w.dev y).shutDown = true := by
        rcases hB y with hb | ⟨_, hb2⟩
        · rw [← hb]; exact hs
        · exact absurd hb2 hna
      exact h.e.noRun y hk hs' e0 he0 hc.1
  · intro e he y hk ha
    rw [hkind] at hk; rw [haid]
    rw [henv] at he
    simp only [Env.cancel, ← List.map_append] at he
    obtain ⟨e0, he0, rfl⟩ := List.mem_map.1 he
    rw [evAct_cancelIf] at ha
    rw [Event.cancelIf_asset]
    exact h.e.evA e0 he0 y hk ha
  · rw [henv]; exact C01.inv_cancel a h.e.q
  · intro hf
    rw [hrm] at hf
    obtain ⟨e, he, h1, h2, h3, h4, h5⟩ := h.pend hf
    rw [hnow]
    exact ⟨e, hev e he (by rw [h4]; exact fun e' => hC e'.symm), h1, h2, h3, h4, h5⟩
  · intro y hk hs hrs hp
    rw [hkind] at hk; rw [hres] at hrs; rw [hpart] at hp; rw [haid, hnow]
    have hna : (w.dev y).aid ≠ a := by
      intro ea
      have := (hA y hk ea).2
      rw [hs] at this; cases this
    have hs' : (w.dev y).shutDown = false := by
      rcases hB y with hb | ⟨_, hb2⟩
      · rw [← hb]; exact hs
      · exact absurd hb2 hna
    obtain ⟨e, he, h1, h2, h3, h4, h5⟩ := h.rel y hk hs' hrs hp
    exact ⟨e, hev e he (by rw [h4]; exact hna), h1, h2, h3, h4, h5⟩

/-- … after the events of asset `a` have been resumed; processors with that asset id are
operational afterwards. -/
theorem inv_unpause (w W : World) (a : Int) (h : Inv w) (hr : RInv W)
    (henv : W.env = w.env.unpause Arith.exact a) (hrm : W.rm = w.rm)
    (hd : ∀ y, (W.dev y).resM = (w.dev y).resM)
    (hA : ∀ y, (w.dev y).kind = .processor → (w.dev y).aid = a → (W.dev y).shutDown = false)
    (hB : ∀ y, (W.dev y).shutDown = (w.dev y).shutDown ∨
      ((w.dev y).shutDown = true ∧ (W.dev y).shutDown = false ∧ (w.dev y).aid = a)) : Inv W := by
  have hres : ∀ y, (W.dev y).reserved = (w.dev y).reserved := fun y => congrArg (·.1) (hd y)
  have hkind : ∀ y, (W.dev y).kind = (w.dev y).kind := fun y => congrArg (·.2.2.2.1) (hd y)
  have haid : ∀ y, (W.dev y).aid = (w.dev y).aid := fun y => congrArg (·.2.2.2.2.1) (hd y)
  have hpart : ∀ y, (W.dev y).part = (w.dev y).part := fun y => congrArg (·.2.2.2.2.2.1) (hd y)
  have hnow : W.now = w.now := by unfold World.now; rw [henv]; rfl
  have hev : ∀ e, e ∈ w.env.events → e ∈ W.env.events := by
    intro e he; rw [henv]; exact mem_unpause_events.2 (Or.inl he)
  refine ⟨hr, ⟨?_, ?_, ?_, ?_⟩, ?_, ?_⟩
  · intro y hk hs hrs hp
    rw [hkind] at hk; rw [hres] at hrs; rw [hpart] at hp; rw [haid, henv]
    have hna : (w.dev y).aid ≠ a := by
      intro ea
      have := hA y hk ea
      rw [hs] at this; cases this
    have hs' : (w.dev y).shutDown = true := by
      rcases hB y with hb | ⟨_, hb2, _⟩
      · rw [← hb]; exact hs
      · rw [hs] at hb2; cases hb2
    obtain ⟨e, he, h1, h2, hrest⟩ := h.e.relP y hk hs' hrs hp
    exact ⟨e, mem_unpause_paused.2 ⟨he, by rw [h2]; exact hna⟩, h1, h2, hrest⟩
  · intro y hk hs e he hc
    rw [hkind] at hk
    have hna : (w.dev y).aid ≠ a := by
      intro ea
      have := hA y hk ea
      rw [hs] at this; cases this
    have hs' : (w.dev y).shutDown = true := by
      rcases hB y with hb | ⟨_, hb2, _⟩
      · rw [← hb]; exact hs
      · rw [hs] at hb2; cases hb2
    rw [henv] at he
    rcases mem_unpause_events.1 he with he | ⟨e0, he0, hea, rfl⟩
    · exact h.e.noRun y hk hs' e he hc
    · constructor
      · intro ha
        have := h.e.evA e0 (List.mem_append_right _ he0) y hk (Or.inl ha)
        exact hna (this.symm.trans hea)
      · intro ha
        have := h.e.evA e0 (List.mem_append_right _ he0) y hk (Or.inr ha)
        exact hna (this.symm.trans hea)
  · intro e he y hk ha
    rw [hkind] at hk; rw [haid]
    rw [henv] at he
    rcases List.mem_append.1 he with he | he
    · rcases mem_unpause_events.1 he with he | ⟨e0, he0, _, rfl⟩
      · exact h.e.evA e (List.mem_append_left _ he) y hk ha
      · exact h.e.evA e0 (List.mem_append_right _ he0) y hk ha
    · exact h.e.evA e (List.mem_append_right _ (mem_unpause_paused.1 he).1) y hk ha
  · rw [henv]; exact C01.inv_unpause Arith.exact a h.e.q
  · intro hf
    rw [hrm] at hf
    obtain ⟨e, he, hrest⟩ := h.pend hf
    rw [hnow]
    exact ⟨e, hev e he, hrest⟩
  · intro y hk hs hrs hp
    rw [hkind] at hk; rw [hres] at hrs; rw [hpart] at hp; rw [haid, hnow]
    rcases hB y with hb | ⟨hb1, _, hb3⟩
    · rw [hb] at hs
      obtain ⟨e, he, hrest⟩ := h.rel y hk hs hrs hp
      exact ⟨e, hev e he, hrest⟩
    · obtain ⟨e, he, h1, h2, h3, h4, h5⟩ := h.e.relP y hk hb1 hrs hp
      refine ⟨{ e with time := shiftTime Arith.exact w.env.now e.time (e.pausedAt.getD w.env.now) },
        ?_, h1, ?_, h3, h2, h4⟩
      · rw [henv]
        exact mem_unpause_events.2 (Or.inr ⟨e, he, by rw [h2, hb3], rfl⟩)
      · show shiftTime Arith.exact w.env.now e.time (e.pausedAt.getD w.env.now) = w.now
        rw [h5]
        exact shiftTime_exact_self _ _

end C11W
end SimProc
