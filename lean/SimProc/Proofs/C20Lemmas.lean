/-
Helper lemmas for C20 (system lifecycle model `SimProc/Model/System.lean`).
-/
import SimProc.Model.System

namespace SimProc
namespace SysM

/-! ### `getD` / `set` / append -/

theorem getD_set {α} (l : List α) (i j : Nat) (x d : α) :
    (l.set i x).getD j d = if i = j ∧ i < l.length then x else l.getD j d := by
  simp only [List.getD_eq_getElem?_getD, List.getElem?_set]
  by_cases h : i = j
  · subst h
    by_cases h2 : i < l.length
    · simp [h2]
    · simp [h2]
  · simp [h]

theorem getD_append_self {α} (l : List α) (x d : α) : (l ++ [x]).getD l.length d = x := by
  simp [List.getD_eq_getElem?_getD]

theorem getD_append_lt {α} (l : List α) (x d : α) (j : Nat) (h : j < l.length) :
    (l ++ [x]).getD j d = l.getD j d := by
  simp [List.getD_eq_getElem?_getD, List.getElem?_append_left h]

theorem getD_mem {α} (l : List α) (i : Nat) (d : α) (h : i < l.length) : l.getD i d ∈ l := by
  simp [List.getD_eq_getElem?_getD, List.getElem?_eq_getElem h]

/-! ### the flattened asset list -/

theorem mem_flat_of_getD (l : List SysS) (i : Nat) (hi : i < l.length) (b : Nat)
    (hb : b ∈ (l.getD i default).assets) : b ∈ l.flatMap (·.assets) :=
  List.mem_flatMap.mpr ⟨_, getD_mem l i default hi, hb⟩

theorem flatMap_set_same (l : List SysS) (i : Nat) (s : SysS)
    (h : s.assets = (l.getD i default).assets) :
    (l.set i s).flatMap (·.assets) = l.flatMap (·.assets) := by
  induction l generalizing i with
  | nil => simp
  | cons x t ih =>
    cases i with
    | zero => simp_all
    | succ k =>
      simp only [List.set_cons_succ, List.flatMap_cons]
      rw [ih k (by simpa using h)]

theorem flatMap_set_perm (l : List SysS) (i : Nat) (s : SysS) (a : Nat) (hi : i < l.length)
    (h : s.assets = (l.getD i default).assets ++ [a]) :
    ((l.set i s).flatMap (·.assets)).Perm (a :: l.flatMap (·.assets)) := by
  induction l generalizing i with
  | nil => simp at hi
  | cons x t ih =>
    cases i with
    | zero =>
      simp only [List.set_cons_zero, List.flatMap_cons]
      simp at h
      rw [h, List.append_assoc]
      exact List.perm_middle
    | succ k =>
      simp only [List.set_cons_succ, List.flatMap_cons]
      have := ih k (by simpa using hi) (by simpa using h)
      exact (List.Perm.append_left _ this).trans List.perm_middle

theorem nodup_assets_of_flat (l : List SysS) (h : (l.flatMap (·.assets)).Nodup) (i : Nat)
    (hi : i < l.length) : (l.getD i default).assets.Nodup := by
  induction l generalizing i with
  | nil => simp at hi
  | cons x t ih =>
    simp only [List.flatMap_cons, List.nodup_append] at h
    cases i with
    | zero => simpa using h.1
    | succ k => simpa using ih h.2.1 k (by simpa using hi)

theorem disjoint_of_flat (l : List SysS) (h : (l.flatMap (·.assets)).Nodup) (i j : Nat)
    (hi : i < l.length) (hj : j < l.length) (hij : i ≠ j) (b : Nat)
    (hbi : b ∈ (l.getD i default).assets) (hbj : b ∈ (l.getD j default).assets) : False := by
  induction l generalizing i j with
  | nil => simp at hi
  | cons x t ih =>
    simp only [List.flatMap_cons, List.nodup_append] at h
    cases i with
    | zero =>
      cases j with
      | zero => exact hij rfl
      | succ k =>
        have h1 : b ∈ x.assets := by simpa using hbi
        have h2 : b ∈ t.flatMap (·.assets) :=
          mem_flat_of_getD t k (by simpa using hj) b (by simpa using hbj)
        exact h.2.2 b h1 b h2 rfl
    | succ k =>
      cases j with
      | zero =>
        have h1 : b ∈ x.assets := by simpa using hbj
        have h2 : b ∈ t.flatMap (·.assets) :=
          mem_flat_of_getD t k (by simpa using hi) b (by simpa using hbi)
        exact h.2.2 b h1 b h2 rfl
      | succ k' =>
        exact ih h.2.1 k k' (by simpa using hi) (by simpa using hj) (by omega)
          (by simpa using hbi) (by simpa using hbj)

/-! ### `bump` -/

@[simp] theorem bump_systems (m : SysM) (a : Nat) : (m.bump a).systems = m.systems := rfl
@[simp] theorem bump_latest (m : SysM) (a : Nat) : (m.bump a).latest = m.latest := rfl
@[simp] theorem bump_infos_length (m : SysM) (a : Nat) :
    (m.bump a).infos.length = m.infos.length := by simp [bump]

theorem bump_initCount (m : SysM) (a b : Nat) :
    ((m.bump a).infos.getD b default).initCount =
      (m.infos.getD b default).initCount + (if a = b ∧ a < m.infos.length then 1 else 0) := by
  unfold bump
  simp only [getD_set]
  by_cases h : a = b ∧ a < m.infos.length
  · obtain ⟨rfl, h2⟩ := h
    simp [h2]
  · simp [h]

theorem bump_name (m : SysM) (a b : Nat) :
    ((m.bump a).infos.getD b default).name = (m.infos.getD b default).name := by
  unfold bump
  simp only [getD_set]
  by_cases h : a = b ∧ a < m.infos.length
  · obtain ⟨rfl, h2⟩ := h
    simp [h2]
  · simp [h]

theorem bump_cls (m : SysM) (a b : Nat) :
    ((m.bump a).infos.getD b default).cls = (m.infos.getD b default).cls := by
  unfold bump
  simp only [getD_set]
  by_cases h : a = b ∧ a < m.infos.length
  · obtain ⟨rfl, h2⟩ := h
    simp [h2]
  · simp [h]

@[simp] theorem foldl_bump_systems (l : List Nat) (m : SysM) :
    (l.foldl bump m).systems = m.systems := by
  induction l generalizing m with
  | nil => rfl
  | cons x t ih => simp [ih]

@[simp] theorem foldl_bump_latest (l : List Nat) (m : SysM) :
    (l.foldl bump m).latest = m.latest := by
  induction l generalizing m with
  | nil => rfl
  | cons x t ih => simp [ih]

@[simp] theorem foldl_bump_infos_length (l : List Nat) (m : SysM) :
    (l.foldl bump m).infos.length = m.infos.length := by
  induction l generalizing m with
  | nil => rfl
  | cons x t ih => simp [ih]

/-- Folding `bump` over a duplicate-free list of valid indices initialises each listed asset
exactly once and no other asset. -/
theorem foldl_bump_initCount (l : List Nat) (m : SysM) (hn : l.Nodup)
    (hv : ∀ x ∈ l, x < m.infos.length) (b : Nat) :
    ((l.foldl bump m).infos.getD b default).initCount =
      (m.infos.getD b default).initCount + (if b ∈ l then 1 else 0) := by
  induction l generalizing m with
  | nil => simp
  | cons x t ih =>
    simp only [List.nodup_cons] at hn
    simp only [List.foldl_cons]
    rw [ih (m.bump x) hn.2 (by intro y hy; simpa using hv y (by simp [hy])), bump_initCount]
    have hx : x < m.infos.length := hv x (by simp)
    by_cases hxb : x = b
    · subst hxb
      simp [hx, hn.1]
    · have : ¬ b = x := fun h => hxb h.symm
      simp [hxb, this]

end SysM
end SimProc
