/-
C03W with re-wiring — the static data WITHOUT the wiring (`swr w`: static part of every device
except `up` / `down`, which device a maintenance target shuts down, the group table) and the
scripts are never changed by a world whose scripts contain no `create`.
-/
import SimProc.Proofs.C03YSwr

namespace SimProc
namespace C03W
open World C02V

/-- no script creates an asset -/
def NC (w : World) : Prop := ∀ l ∈ w.scripts, ∀ op ∈ l, ∀ sp, op ≠ .create sp

/-- static devices (the wiring aside) / targets and scripts are unchanged -/
def SWR (w w' : World) : Prop := swr w' = swr w ∧ w'.scripts = w.scripts

theorem SWR.refl (w : World) : SWR w w := ⟨rfl, rfl⟩
theorem SWR.trans {a b c : World} (h1 : SWR a b) (h2 : SWR b c) : SWR a c :=
  ⟨h2.1.trans h1.1, h2.2.trans h1.2⟩

theorem NC.of_swr {w w' : World} (h : NC w) (r : SWR w w') : NC w' := by
  intro l hl op hop
  rw [r.2] at hl
  exact h l hl op hop

theorem swrw_applyOps (ops : List Op) : ∀ (w : World), NC w →
    (∀ op ∈ ops, ∃ l ∈ w.scripts, op ∈ l) → SWR w (w.applyOps ops) := by
  induction ops with
  | nil => intro w _ _; exact SWR.refl w
  | cons op ops ih =>
    intro w h hsub
    unfold World.applyOps
    simp only [List.foldl_cons]
    obtain ⟨l, hl, hop⟩ := hsub op (List.mem_cons_self ..)
    have hn := h l hl op hop
    have r1 : SWR w ((w.applyOp op).1.addRes (w.applyOp op).2) :=
      ⟨swr_applyOp w op hn, scr_applyOp w op⟩
    have := ih _ (h.of_swr r1) (fun o ho => by
      rw [r1.2]; exact hsub o (List.mem_cons_of_mem _ ho))
    unfold World.applyOps at this
    exact r1.trans this

theorem swrw_runScript (w : World) (k : Nat) (h : NC w) : SWR w (w.runScript k) := by
  unfold World.runScript
  apply swrw_applyOps _ w h
  intro op hop
  by_cases hk : k < w.scripts.length
  · have : w.scripts.getD k [] = w.scripts[k] := by simp [List.getD_eq_getElem?_getD, hk]
    rw [this] at hop
    exact ⟨_, List.getElem_mem hk, hop⟩
  · have : w.scripts.getD k [] = [] := by simp [List.getD_eq_getElem?_getD, Nat.le_of_not_lt hk]
    rw [this] at hop; cases hop

theorem swrw_scan (n : Nat) : ∀ (w : World) (i : Nat), NC w → SWR w (scanWaiting scanOps n w i) := by
  induction n with
  | zero => intro w i _; exact SWR.refl w
  | succ n ih =>
    intro w i h
    unfold scanWaiting
    split
    · exact SWR.refl w
    · split
      · rename_i req cb _ _
        have r1 : SWR w (scanOps.erase (scanOps.call w cb req) i) := by
          cases cb with
          | script k =>
            have r0 : SWR w (w.addRes (.cb k)) := ⟨rfl, rfl⟩
            exact (r0.trans (swrw_runScript _ k (h.of_swr r0))).trans ⟨rfl, rfl⟩
          | proc d => exact ⟨swr_procResourceCb w d, scr_procResourceCb w d⟩
        exact r1.trans (ih _ _ (h.of_swr r1))
      · exact ih _ _ h

theorem swrw_hookStart (w : World) (tgt : Nat) (tag : Int) (h : NC w) : SWR w (w.hookStart tgt tag) := by
  have r0 : SWR w (w.addRes (.hook true tgt tag)) := ⟨rfl, rfl⟩
  unfold World.hookStart
  simp only []
  split
  · exact r0.trans ⟨swr_shutdownDev .., scr_shutdownDev ..⟩
  · split
    · exact r0.trans (swrw_runScript _ _ (h.of_swr r0))
    · exact r0

theorem swrw_hookEnd (w : World) (tgt : Nat) (tag : Int) (h : NC w) : SWR w (w.hookEnd tgt tag) := by
  have r0 : SWR w (w.addRes (.hook false tgt tag)) := ⟨rfl, rfl⟩
  unfold World.hookEnd
  simp only []
  split
  · exact r0.trans ⟨swr_restoreDev .., scr_restoreDev ..⟩
  · split
    · exact r0.trans (swrw_runScript _ _ (h.of_swr r0))
    · exact r0

theorem swrw_startWork (w : World) (m seq : Nat) (h : NC w) : SWR w (w.startWork m seq) := by
  have key : ∀ w' : World, SWR w w' → ∀ t g a b c d,
      SWR w ((w'.hookStart t g).schedLib a b c d) := fun w' r t g a b c d =>
    (r.trans (swrw_hookStart w' t g (h.of_swr r))).trans ⟨swr_schedLib .., scr_schedLib ..⟩
  unfold World.startWork
  split
  · exact ⟨swr_setErr .., scr_setErr ..⟩
  · simp only []
    refine key _ ?_ _ _ _ _ _ _
    exact ⟨rfl, rfl⟩

theorem swrw_finishWork (w : World) (m seq : Nat) (h : NC w) : SWR w (w.finishWork m seq) := by
  have key : ∀ w' : World, SWR w w' → ∀ w'' : World, SWR w' w'' → ∀ m l,
      SWR w (w''.startOrders m l) := fun w' r w'' r' m l =>
    (r.trans r').trans ⟨swr_startOrders .., scr_startOrders ..⟩
  unfold World.finishWork
  split
  · exact ⟨swr_setErr .., scr_setErr ..⟩
  · simp only []
    rename_i o _
    refine key _ (swrw_hookEnd w o.target o.tag h) _ ?_ _ _
    exact ⟨rfl, rfl⟩

theorem swrw_exec (w : World) (a : Action) (h : NC w) : SWR w (w.exec a) := by
  cases a with
  | terminate => exact SWR.refl w
  | script k => exact swrw_runScript w k h
  | finishCycle d => exact ⟨swr_finishCycle w d, scr_finishCycle w d⟩
  | passPart d => exact ⟨swr_passPart w d, scr_passPart w d⟩
  | fail d => exact ⟨swr_failDev w d, scr_failDev w d⟩
  | releaseIfIdle d => exact ⟨swr_releaseIfIdle w d, scr_releaseIfIdle w d⟩
  | rmCheck => exact swrw_scan _ _ _ h
  | startWork m o => exact swrw_startWork w m o h
  | finishWork m o => exact swrw_finishWork w m o h
  | schedUpdate s => exact ⟨swr_schedUpdate w s true, scr_schedUpdate w s true⟩
  | periodicSense s => exact ⟨swr_periodicSense w s, scr_periodicSense w s⟩
  | unknown n => exact ⟨swr_setErr .., scr_setErr ..⟩

theorem swrw_step (w w' : World) (e : Event) (h : NC w) (hst : w.step = some (e, w')) : SWR w w' := by
  unfold World.step at hst
  split at hst
  · cases hst
  · rename_i e' env' henv
    simp only [Option.some.injEq, Prod.mk.injEq] at hst
    obtain ⟨rfl, rfl⟩ := hst
    split
    · exact (show SWR w { w with env := env' } from ⟨rfl, rfl⟩).trans (swrw_exec _ _ h)
    · exact ⟨rfl, rfl⟩

theorem swrw_runLoop (n : Nat) : ∀ (w : World), NC w → SWR w (runLoop n w) := by
  induction n with
  | zero => intro w _; exact ⟨swr_setErr .., scr_setErr ..⟩
  | succ n ih =>
    intro w h
    unfold runLoop
    split
    · split
      · exact SWR.refl w
      · rename_i e w' hst
        have r := swrw_step w w' e h hst
        exact r.trans (ih w' (h.of_swr r))
    · exact SWR.refl w

theorem swrw_runBegin (w : World) (d : Int) : SWR w (w.runBegin d).1 := by
  unfold World.runBegin
  dsimp only
  split <;> exact ⟨rfl, rfl⟩

theorem swrw_simulateInit (w : World) : SWR w w.simulateInit := by
  unfold World.simulateInit
  split
  · exact SWR.refl w
  · simp only []
    constructor
    · show swr (List.foldl _ _ _) = _
      rw [foldl_proj swr _ _ _ (fun _ _ => swr_initAsset ..), swr_rmEffects]; rfl
    · show World.scripts (List.foldl _ _ _) = _
      rw [foldl_proj World.scripts _ _ _ (fun _ _ => scr_initAsset ..), scr_rmEffects]

end C03W
end SimProc
