/-
C03Z, part 2: the typed-stacks invariant on the slot view, and its preservation by the moves of one
device (`tv_steps`) and by a hand-over (`tv_bump`) — the analogue of `C08W.RSV` / `rsv_steps` /
`rsv_bump` (Proofs/C08WView.lean).

`TV`: what a device (not a sink) holds has a stack typed for the context of the device (`top`); the
stack of a part inside a held batch is typed for the context below the stack of the batch (`kid`); a
batch under construction has the empty stack (`prog`).
`tv_steps`: the moves of a device at nesting depth ≤ 1 (any moves, `Steps`: batchers unpack and pack)
or of a device that is not a batcher (`TLK`: no unpacking) preserve `TV`.
-/
import SimProc.Proofs.C03ZTyp

namespace SimProc
namespace C03Z
open World C02V C08L C08W C03W C02V.SVBatchAux

variable {t : Topo} {c : Nat → List Nat}

/-- what a device that is not a sink holds has a stack typed for the context of the device -/
def TVtop (t : Topo) (c : Nat → List Nat) (a : SV) (sk : Nat → List Nat) : Prop :=
  ∀ (z : Nat) (d : SDev) (q : Nat),
    a.devs[z]? = some d → d.kind ≠ .sink → q ∈ d.held → TS t c (c z) (sk q)

/-- **The typed-stacks invariant on the slot view.** -/
structure TV (t : Topo) (c : Nat → List Nat) (a : SV) (sk : Nat → List Nat) : Prop where
  top : TVtop t c a sk
  kid : ∀ (z : Nat) (d : SDev) (q : Nat) (l : List Nat) (k : Nat),
    a.devs[z]? = some d → d.kind ≠ .sink → q ∈ d.held →
    a.kids[q]? = some (some l) → k ∈ l → TS t c (base c (c z) (sk q)) (sk k)
  prog : ∀ (z : Nat) (d : SDev) (b : Nat),
    a.devs[z]? = some d → d.kind ≠ .sink → d.inprog = some b → sk b = []

theorem mem_held_inprog {d : SDev} {b : Nat} (h : d.inprog = some b) : b ∈ d.held := by
  simp [SDev.held, h]

/-! ### congruence, subsets -/

theorem TVtop.congr {a : SV} {sk sk' : Nat → List Nat} (hI : Inv a) (h : TVtop t c a sk)
    (e : ∀ q, q < a.kids.length → sk' q = sk q) : TVtop t c a sk' := by
  intro z d q hz hk hq
  rw [e q (valid_held hI hz hq)]
  exact h z d q hz hk hq

theorem TV.congr {a : SV} {sk sk' : Nat → List Nat} (hI : Inv a) (h : TV t c a sk)
    (e : ∀ q, q < a.kids.length → sk' q = sk q) : TV t c a sk' := by
  refine ⟨h.top.congr hI e, ?_, ?_⟩
  · intro z d q l k hz hk hq hl hkl
    have hkv : k < a.kids.length := kids_lt (hI.1.kidsLeaf q l hl k hkl)
    rw [e q (valid_held hI hz hq), e k hkv]
    exact h.kid z d q l k hz hk hq hl hkl
  · intro z d b hz hk hb
    rw [e b (valid_held hI hz (mem_held_inprog hb))]
    exact h.prog z d b hz hk hb

/-- holders only lost, kids untouched -/
theorem TV.sub {a a' : SV} {sk : Nat → List Nat} (h : TV t c a sk)
    (hk : a'.kids = a.kids)
    (hs : ∀ (z : Nat) (d : SDev), a'.devs[z]? = some d →
      ∃ d0 : SDev, a.devs[z]? = some d0 ∧ d0.kind = d.kind ∧ (∀ q ∈ d.held, q ∈ d0.held) ∧
        ∀ b, d.inprog = some b → d0.inprog = some b) :
    TV t c a' sk := by
  refine ⟨?_, ?_, ?_⟩
  · intro z d q hz hkd hq
    obtain ⟨d0, h0, h1, h2, _⟩ := hs z d hz
    exact h.top z d0 q h0 (by rw [h1]; exact hkd) (h2 q hq)
  · intro z d q l k hz hkd hq hl hkl
    obtain ⟨d0, h0, h1, h2, _⟩ := hs z d hz
    exact h.kid z d0 q l k h0 (by rw [h1]; exact hkd) (h2 q hq) (hk ▸ hl) hkl
  · intro z d b hz hkd hb
    obtain ⟨d0, h0, h1, _, h3⟩ := hs z d hz
    exact h.prog z d0 b h0 (by rw [h1]; exact hkd) (h3 b hb)

/-! ### the moves of one device at nesting depth ≤ 1 -/

/-- the slots of one device recombined (no new parts) -/
theorem tv_recombine {a : SV} {sk : Nat → List Nat} {z : Nat} {d d' : SDev}
    {K' : List (Option (List Nat))} {g dl lo : List Nat}
    (hI : Inv a) (h : TV t c a sk) (hz : a.devs[z]? = some d) (hfz : (c z).length ≤ 1)
    (hkind : d'.kind = d.kind)
    (hupd : KUpd d.held a.kids K')
    (htop : ∀ q ∈ d'.held, q ∈ d.held ∨ ∃ p0 l0, p0 ∈ d.held ∧ a.kids[p0]? = some (some l0) ∧ q ∈ l0)
    (hkid : ∀ q ∈ d'.held, ∀ l', K'[q]? = some (some l') → ∀ k ∈ l',
      (∃ l0, q ∈ d.held ∧ a.kids[q]? = some (some l0) ∧ k ∈ l0) ∨
      (d.inprog = some q ∧
        (k ∈ d.held ∨ ∃ p0 l0, p0 ∈ d.held ∧ a.kids[p0]? = some (some l0) ∧ k ∈ l0)))
    (hprog : ∀ b, d'.inprog = some b → d.inprog = some b) :
    TV t c { devs := a.devs.set z d', kids := K', gen := g, del := dl, lost := lo } sk := by
  have hzl : z < a.devs.length := (List.getElem?_eq_some_iff.1 hz).1
  have hdev : ∀ z' d0, (a.devs.set z d')[z']? = some d0 →
      (z' = z ∧ d0 = d') ∨ (z' ≠ z ∧ a.devs[z']? = some d0) := by
    intro z' d0 h0
    by_cases hzz : z = z'
    · subst hzz
      rw [List.getElem?_set_self hzl] at h0
      exact Or.inl ⟨rfl, (Option.some.inj h0).symm⟩
    · rw [List.getElem?_set_ne hzz] at h0
      exact Or.inr ⟨fun e => hzz e.symm, h0⟩
  have hother : ∀ z' d0 q, z' ≠ z → a.devs[z']? = some d0 → q ∈ d0.held → K'[q]? = a.kids[q]? := by
    intro z' d0 q hne h0 hq
    apply hupd.same
    intro hqd
    exact hne (held_unique hI.1 h0 hz hq hqd)
  -- the typing of something `z` held before (directly or in a batch) for the context of `z`
  have hflat : ∀ k, (k ∈ d.held ∨ ∃ p0 l0, p0 ∈ d.held ∧ a.kids[p0]? = some (some l0) ∧ k ∈ l0) →
      d.kind ≠ .sink → TS t c (c z) (sk k) := by
    intro k hk hks
    rcases hk with hk | ⟨p0, l0, hp0, hl0, hkl⟩
    · exact h.top z d k hz hks hk
    · exact ts_flat hfz (h.top z d p0 hz hks hp0) (h.kid z d p0 l0 k hz hks hp0 hl0 hkl)
  refine ⟨?_, ?_, ?_⟩
  · intro z' d0 q h0 hks hq
    simp only at h0
    rcases hdev z' d0 h0 with ⟨rfl, rfl⟩ | ⟨hne, h0'⟩
    · exact hflat q (htop q hq) (by rw [← hkind]; exact hks)
    · exact h.top z' d0 q h0' hks hq
  · intro z' d0 q l k h0 hks hq hl hkl
    simp only at h0 hl
    rcases hdev z' d0 h0 with ⟨rfl, rfl⟩ | ⟨hne, h0'⟩
    · have hks' : d.kind ≠ .sink := by rw [← hkind]; exact hks
      rcases hkid q hq l hl k hkl with ⟨l0, hqd, hl0, hkl0⟩ | ⟨hin, hk'⟩
      · exact h.kid _ d q l0 k hz hks' hqd hl0 hkl0
      · rw [h.prog _ d q hz hks' hin, base_nil]
        exact hflat k hk' hks'
    · exact h.kid z' d0 q l k h0' hks hq (by rw [← hother z' d0 q hne h0' hq]; exact hl) hkl
  · intro z' d0 b h0 hks hb
    simp only at h0
    rcases hdev z' d0 h0 with ⟨rfl, rfl⟩ | ⟨hne, h0'⟩
    · exact h.prog _ d b hz (by rw [← hkind]; exact hks) (hprog b hb)
    · exact h.prog z' d0 b h0' hks hb

/-- a device put a new part into one of its slots -/
theorem tv_extend_set {a : SV} {sk : Nat → List Nat} {z n : Nat} {d d' : SDev}
    {more : List (Option (List Nat))} {g dl lo : List Nat} (hI : Inv a) (h : TV t c a sk)
    (hz : a.devs[z]? = some d) (hkind : d'.kind = d.kind)
    (hp : d'.held.Perm (n :: d.held)) (hn' : a.kids.length ≤ n)
    (hnl : n < (a.kids ++ more).length)
    (hn : ∀ q, a.kids.length ≤ q → q < (a.kids ++ more).length → sk q = [])
    (hkid : ∀ q l k, a.kids.length ≤ q → (a.kids ++ more)[q]? = some (some l) → k ∈ l →
      a.kids.length ≤ k ∧ (a.kids ++ more)[k]? = some none)
    (hprog : ∀ b, d'.inprog = some b → d.inprog = some b ∨ b = n) :
    TV t c { devs := a.devs.set z d', kids := a.kids ++ more, gen := g, del := dl, lost := lo }
      sk := by
  have hzl : z < a.devs.length := (List.getElem?_eq_some_iff.1 hz).1
  have hold : ∀ q, q < a.kids.length → (a.kids ++ more)[q]? = a.kids[q]? := by
    intro q hq; rw [List.getElem?_append_left hq]
  have hdev : ∀ z' d0, (a.devs.set z d')[z']? = some d0 →
      (z' = z ∧ d0 = d') ∨ (z' ≠ z ∧ a.devs[z']? = some d0) := by
    intro z' d0 h0
    by_cases hzz : z = z'
    · subst hzz
      rw [List.getElem?_set_self hzl] at h0
      exact Or.inl ⟨rfl, (Option.some.inj h0).symm⟩
    · rw [List.getElem?_set_ne hzz] at h0
      exact Or.inr ⟨fun e => hzz e.symm, h0⟩
  have hnn : sk n = [] := hn n hn' hnl
  refine ⟨?_, ?_, ?_⟩
  · intro z' d0 q h0 hks hq
    simp only at h0
    rcases hdev z' d0 h0 with ⟨rfl, rfl⟩ | ⟨hne, h0'⟩
    · rcases List.mem_cons.1 (hp.subset hq) with rfl | hq'
      · rw [hnn]; exact ts_nil _
      · exact h.top _ d q hz (by rw [← hkind]; exact hks) hq'
    · exact h.top z' d0 q h0' hks hq
  · intro z' d0 q l k h0 hks hq hl hkl
    simp only at h0 hl
    rcases hdev z' d0 h0 with ⟨rfl, rfl⟩ | ⟨hne, h0'⟩
    · rcases List.mem_cons.1 (hp.subset hq) with rfl | hq'
      · obtain ⟨h1, h2⟩ := hkid q l k hn' hl hkl
        rw [hnn, base_nil, hn k h1 (kids_lt h2)]
        exact ts_nil _
      · have hqv := valid_held hI hz hq'
        exact h.kid _ d q l k hz (by rw [← hkind]; exact hks) hq' (by rw [← hold q hqv]; exact hl) hkl
    · have hqv := valid_held hI h0' hq
      exact h.kid z' d0 q l k h0' hks hq (by rw [← hold q hqv]; exact hl) hkl
  · intro z' d0 b h0 hks hb
    simp only at h0
    rcases hdev z' d0 h0 with ⟨rfl, rfl⟩ | ⟨hne, h0'⟩
    · rcases hprog b hb with hb' | rfl
      · exact h.prog _ d b hz (by rw [← hkind]; exact hks) hb'
      · exact hnn
    · exact h.prog z' d0 b h0' hks hb

theorem tv_move {z : Nat} {b m : SV} {sk : Nat → List Nat} (hI : Inv b)
    (h : TV t c b sk) (hm : Move z b m) (hfz : (c z).length ≤ 1)
    (hn : ∀ q, b.kids.length ≤ q → q < m.kids.length → sk q = []) :
    TV t c m sk := by
  cases hm with
  | rearr d d' r hz hk hp hr hi' =>
    refine tv_recombine hI h hz hfz hk (kupd_refl _ _) ?_ ?_ hi'
    · intro q hq; exact Or.inl (hp.symm.subset (List.mem_append_right _ hq))
    · intro q hq l' hl' k hk'
      exact Or.inl ⟨l', hp.symm.subset (List.mem_append_right _ hq), hl', hk'⟩
  | gen _ hg =>
    cases hg with
    | leaf d hz hk ho =>
      refine tv_extend_set (more := [none]) hI h hz rfl (held_output_perm d _ ho) (Nat.le_refl _)
        (by simp) hn ?_ (fun b hb => Or.inl hb)
      intro q l k hq hl _
      exfalso
      rw [List.getElem?_append_right hq] at hl
      rcases Nat.eq_zero_or_pos (q - b.kids.length) with h3 | h3
      · simp [h3] at hl
      · have : ([none] : List (Option (List Nat)))[q - b.kids.length]? = none := by
          rw [List.getElem?_eq_none_iff]; simp; omega
        rw [this] at hl; simp at hl
    | batch d n hz hk ho =>
      have key := tv_extend_set (t := t) (c := c) (sk := sk)
        (g := b.gen ++ List.range' b.kids.length n) (dl := b.del) (lo := b.lost)
        (more := List.replicate n none ++ [some (List.range' b.kids.length n)])
        (d' := { d with output := some (b.kids.length + n) }) hI h hz rfl
        (held_output_perm d (b.kids.length + n) ho) (by omega) (by simp)
        (by simpa [List.append_assoc] using hn) ?_ (fun b hb => Or.inl hb)
      · simpa [List.append_assoc] using key
      · intro q l k hq hl hk'
        have := getElem?_batch_some _ _ _ _ _ hq hl
        subst this
        rw [List.mem_range'_1] at hk'
        exact ⟨hk'.1, getElem?_batch_none _ _ _ _ hk'.1 hk'.2⟩
  | shell d hz hi' =>
    refine tv_extend_set (more := [some []]) hI h hz rfl (held_inprog_perm d _ hi') (Nat.le_refl _)
      (by simp) hn ?_ (fun b hb => Or.inr (by simpa using hb.symm))
    intro q l k hq hl hk'
    have := getElem?_shell_some _ _ _ hq hl
    subst this
    simp at hk'
  | kidOut d p k rest hz hk hp ho hkid =>
    have hpd : p ∈ d.held := by simp [SDev.held, hp]
    refine tv_recombine hI h hz hfz rfl (kupd_set hpd hkid) ?_ ?_ (fun b hb => hb)
    · intro q hq
      simp only [SDev.held, Option.toList_some, List.mem_append, List.mem_singleton] at hq
      rcases hq with ((hq | rfl) | hq) | hq
      · left
        split at hq
        · simp at hq
        · simp at hq; subst hq; exact hpd
      · exact Or.inr ⟨p, _, hpd, hkid, List.mem_cons_self ..⟩
      · left; simp [SDev.held, hq]
      · left; simp [SDev.held, hq]
    · intro q hq l' hl' k' hk'
      left
      by_cases hqp : q = p
      · subst hqp
        rw [List.getElem?_set_self (kids_lt hkid)] at hl'
        cases hl'
        exact ⟨k :: rest, hpd, hkid, List.mem_cons_of_mem _ hk'⟩
      · rw [List.getElem?_set_ne (fun e => hqp e.symm)] at hl'
        refine ⟨l', ?_, hl', hk'⟩
        simp only [SDev.held, Option.toList_some, List.mem_append, List.mem_singleton] at hq
        rcases hq with ((hq | rfl) | hq) | hq
        · split at hq
          · simp at hq
          · simp at hq; exact absurd hq hqp
        · have := hI.1.kidsLeaf p _ hkid q (List.mem_cons_self ..)
          rw [this] at hl'; simp at hl'
        · simp [SDev.held, hq]
        · simp [SDev.held, hq]
  | kidIn d p k rest b' hz hk hp hi' hkid =>
    have hpd : p ∈ d.held := by simp [SDev.held, hp]
    have hbd : b' ∈ d.held := by simp [SDev.held, hi']
    have hne : p ≠ b' := by
      have hnd := held_nodup hI.1 (List.mem_of_getElem? hz)
      intro e; subst e
      simp only [SDev.held, hp, hi', Option.toList_some] at hnd
      have := hnd
      simp [List.nodup_append] at this
    obtain ⟨lb, hlb⟩ := hI.2.inprogBatch d (List.mem_of_getElem? hz) b' hi'
    have hlb' : (b.kids.set p (some rest))[b']? = some (some lb) := by
      rw [List.getElem?_set_ne hne]; exact hlb
    have hK : addKid (b.kids.set p (some rest)) b' k = (b.kids.set p (some rest)).set b' (some (lb ++ [k])) :=
      addKid_eq hlb'
    refine tv_recombine hI h hz hfz rfl ?_ ?_ ?_ (fun b hb => hb)
    · rw [hK]; exact (kupd_set hpd hkid).trans (kupd_set hbd hlb')
    · intro q hq; exact Or.inl (held_optP d p rest hp q hq)
    · intro q hq l' hl' k' hk'
      rw [hK] at hl'
      by_cases hqb : q = b'
      · subst hqb
        rw [List.getElem?_set_self (kids_lt hlb')] at hl'
        cases hl'
        rcases List.mem_append.1 hk' with hk' | hk'
        · exact Or.inl ⟨lb, hbd, hlb, hk'⟩
        · have : k' = k := by simpa using hk'
          subst this
          exact Or.inr ⟨hi', Or.inr ⟨p, k' :: rest, hpd, hkid, List.mem_cons_self ..⟩⟩
      · rw [List.getElem?_set_ne (fun e => hqb e.symm)] at hl'
        left
        by_cases hqp : q = p
        · subst hqp
          rw [List.getElem?_set_self (kids_lt hkid)] at hl'
          cases hl'
          exact ⟨k :: rest, hpd, hkid, List.mem_cons_of_mem _ hk'⟩
        · rw [List.getElem?_set_ne (fun e => hqp e.symm)] at hl'
          exact ⟨l', held_optP d p rest hp q hq, hl', hk'⟩
  | leafIn d p b' hz hk hp hi' hkid =>
    have hpd : p ∈ d.held := by simp [SDev.held, hp]
    have hbd : b' ∈ d.held := by simp [SDev.held, hi']
    obtain ⟨lb, hlb⟩ := hI.2.inprogBatch d (List.mem_of_getElem? hz) b' hi'
    have hK : addKid b.kids b' p = b.kids.set b' (some (lb ++ [p])) := addKid_eq hlb
    refine tv_recombine hI h hz hfz rfl ?_ ?_ ?_ (fun b hb => hb)
    · rw [hK]; exact kupd_set hbd hlb
    · intro q hq; exact Or.inl (held_part_none d q hq)
    · intro q hq l' hl' k' hk'
      rw [hK] at hl'
      by_cases hqb : q = b'
      · subst hqb
        rw [List.getElem?_set_self (kids_lt hlb)] at hl'
        cases hl'
        rcases List.mem_append.1 hk' with hk' | hk'
        · exact Or.inl ⟨lb, hbd, hlb, hk'⟩
        · have : k' = p := by simpa using hk'
          subst this
          exact Or.inr ⟨hi', Or.inl hpd⟩
      · rw [List.getElem?_set_ne (fun e => hqb e.symm)] at hl'
        exact Or.inl ⟨l', held_part_none d q hq, hl', hk'⟩

/-- **The moves of a device at nesting depth ≤ 1 preserve the invariant**, provided the parts
created on the way have the empty stack. -/
theorem tv_steps_shallow {z : Nat} {a a' : SV} {sk : Nat → List Nat} (hs : Steps z a a') (hI : Inv a)
    (h : TV t c a sk) (hfz : (c z).length ≤ 1)
    (hn : ∀ q, a.kids.length ≤ q → q < a'.kids.length → sk q = []) : TV t c a' sk := by
  induction hs with
  | refl => exact h
  | tail b m hab hbm ih =>
    have hIb : Inv b := inv_steps hI hab
    have hmono := move_kids_mono hbm
    have hab_mono : a.kids.length ≤ b.kids.length := steps_kids_mono hab
    have hb := ih (fun q hq1 hq2 => hn q hq1 (Nat.lt_of_lt_of_le hq2 hmono))
    exact tv_move hIb hb hbm hfz (fun q hq1 hq2 => hn q (Nat.le_trans hab_mono hq1) hq2)

/-! ### the moves of a device that is not a batcher -/

/-- "Nothing is unpacked or packed": top-level parts stay top-level (`TLV`), a batch under
construction was one before, and the parts of a newly created batch are newly created parts. -/
structure TLK (z : Nat) (a a' : SV) : Prop where
  tlv : TLV z a a'
  prog : ∀ d', a'.devs[z]? = some d' → ∃ d, a.devs[z]? = some d ∧
    ∀ b, d'.inprog = some b → d.inprog = some b
  newkids : ∀ (q : Nat) (l : List Nat) (k : Nat), a.kids.length ≤ q →
    a'.kids[q]? = some (some l) → k ∈ l → a.kids.length ≤ k

theorem TLK.refl (z : Nat) (a : SV) : TLK z a a :=
  ⟨TLV.refl z a, fun d' h => ⟨d', h, fun _ hb => hb⟩, fun q l k hq hl _ => by
    have := kids_lt hl; omega⟩

theorem TLK.trans {z : Nat} {a b m : SV} (h1 : TLK z a b) (h2 : TLK z b m) : TLK z a m := by
  obtain ⟨m1, hm1⟩ := h1.tlv.kids
  obtain ⟨m2, hm2⟩ := h2.tlv.kids
  have hab : a.kids.length ≤ b.kids.length := by rw [hm1]; simp
  refine ⟨h1.tlv.trans h2.tlv, ?_, ?_⟩
  · intro d'' hd''
    obtain ⟨d', hd', hp2⟩ := h2.prog d'' hd''
    obtain ⟨d, hd, hp1⟩ := h1.prog d' hd'
    exact ⟨d, hd, fun b hb => hp1 b (hp2 b hb)⟩
  · intro q l k hq hl hkl
    by_cases hqb : q < b.kids.length
    · rw [hm2, List.getElem?_append_left hqb] at hl
      exact h1.newkids q l k hq hl hkl
    · have := h2.newkids q l k (Nat.le_of_not_lt hqb) hl hkl
      omega

theorem TLK.mask {z : Nat} {a a' : SV} (h : TLK z a a') {x : Nat} (hx : x ≠ z) (s : SDev) :
    TLK z (mask a x s) (mask a' x s) := by
  refine ⟨h.tlv.mask hx s, ?_, h.newkids⟩
  intro d' hd'
  simp only [C02V.mask, SV.setDev] at hd' ⊢
  rw [List.getElem?_set_ne hx] at hd' ⊢
  exact h.prog d' hd'

/-- moves of a device that unpacks and packs nothing preserve the invariant -/
theorem tv_tlk {z : Nat} {a a' : SV} {sk : Nat → List Nat} (hI : Inv a) (hI' : Inv a')
    (h : TV t c a sk) (htl : TLK z a a')
    (hkinds : a'.devs.map (·.kind) = a.devs.map (·.kind))
    (hn : ∀ q, a.kids.length ≤ q → q < a'.kids.length → sk q = []) : TV t c a' sk := by
  obtain ⟨more, hm⟩ := htl.tlv.kids
  have hold : ∀ q, q < a.kids.length → a'.kids[q]? = a.kids[q]? := by
    intro q hq; rw [hm, List.getElem?_append_left hq]
  have hkd : ∀ d d', a.devs[z]? = some d → a'.devs[z]? = some d' → d.kind = d'.kind := by
    intro d d' hd hd'
    have := congrArg (fun l => l[z]?) hkinds
    simp only [List.getElem?_map, hd', hd, Option.map_some] at this
    exact (Option.some.inj this).symm
  refine ⟨?_, ?_, ?_⟩
  · intro z' d' q hz hks hq
    by_cases hzz : z' = z
    · subst hzz
      obtain ⟨d, hd, hs⟩ := htl.tlv.sub d' hz
      rcases hs q hq with h1 | h1
      · exact h.top z' d q hd (by rw [hkd d d' hd hz]; exact hks) h1
      · rw [hn q h1 (valid_held hI' hz hq)]; exact ts_nil _
    · rw [htl.tlv.other z' hzz] at hz
      exact h.top z' d' q hz hks hq
  · intro z' d' q l k hz hks hq hl hkl
    have hold_case : ∀ (d : SDev), a.devs[z']? = some d → d.kind ≠ .sink → q ∈ d.held →
        TS t c (base c (c z') (sk q)) (sk k) := by
      intro d hd hkd' hqd
      exact h.kid z' d q l k hd hkd' hqd (by rw [← hold q (valid_held hI hd hqd)]; exact hl) hkl
    by_cases hzz : z' = z
    · subst hzz
      obtain ⟨d, hd, hs⟩ := htl.tlv.sub d' hz
      rcases hs q hq with h1 | h1
      · exact hold_case d hd (by rw [hkd d d' hd hz]; exact hks) h1
      · have hk1 := htl.newkids q l k h1 hl hkl
        have hkv : k < a'.kids.length := kids_lt (hI'.1.kidsLeaf q l hl k hkl)
        rw [hn q h1 (valid_held hI' hz hq), base_nil, hn k hk1 hkv]
        exact ts_nil _
    · rw [htl.tlv.other z' hzz] at hz
      exact hold_case d' hz hks hq
  · intro z' d' b hz hks hb
    by_cases hzz : z' = z
    · subst hzz
      obtain ⟨d, hd, hp⟩ := htl.prog d' hz
      exact h.prog z' d b hd (by rw [hkd d d' hd hz]; exact hks) (hp b hb)
    · rw [htl.tlv.other z' hzz] at hz
      exact h.prog z' d' b hz hks hb

/-- **The moves of one device preserve the typed-stacks invariant**: of a device at nesting depth
≤ 1 (whatever it does), or of a device that is not a batcher (`TLK`). -/
theorem tv_steps {z : Nat} {a a' : SV} {sk : Nat → List Nat} (hs : Steps z a a')
    (htl : (∀ d, a.devs[z]? = some d → d.kind ≠ .batcher) → TLK z a a') (hI : Inv a)
    (h : TV t c a sk) (hD : ∀ d, a.devs[z]? = some d → d.kind = .batcher → (c z).length ≤ 1)
    (hn : ∀ q, a.kids.length ≤ q → q < a'.kids.length → sk q = []) : TV t c a' sk := by
  by_cases hf : (c z).length ≤ 1
  · exact tv_steps_shallow hs hI h hf hn
  · exact tv_tlk hI (inv_steps hI hs) h (htl (fun d hd hk => hf (hD d hd hk))) hs.kinds hn

/-! ### a hand-over -/

/-- **A hand-over preserves the typed-stacks invariant.**  The part `p`, held by `x` (not a sink, not
as its batch under construction), is handed along the chain `C ++ [z]` (which starts at a configured
downstream device `y` of `x`); the stack of `p` becomes `s'`, no other stack changes; in the new slot
view `p` is held by `z` only and everything else is held where it was. -/
theorem tv_bump {a m : SV} {sk sk' : Nat → List Nat} (hI : Inv a) (hT : TypT t c)
    (h : TV t c a sk) {x z p y : Nat} {dx : SDev} {C s' : List Nat}
    (hx : a.devs[x]? = some dx) (hxs : dx.kind ≠ .sink) (hp : p ∈ dx.held)
    (hpi : dx.inprog ≠ some p)
    (hy : y ∈ t.down x) (hC : GChain t y (sk p) (C ++ [z]) s')
    (hP : sk' p = s')
    (hSk : ∀ q, q < a.kids.length → q ≠ p → sk' q = sk q)
    (hk : m.kids = a.kids)
    (hs : ∀ (z' : Nat) (d : SDev) (q : Nat), m.devs[z']? = some d → q ∈ d.held →
      (q = p ∧ z' = z) ∨ (q ≠ p ∧ ∃ d0 : SDev, a.devs[z']? = some d0 ∧ q ∈ d0.held))
    (hsk : ∀ (z' : Nat) (d : SDev), m.devs[z']? = some d → d.kind ≠ .sink →
      ∃ d0 : SDev, a.devs[z']? = some d0 ∧ d0.kind ≠ .sink)
    (hsp : ∀ (z' : Nat) (d : SDev) (b : Nat), m.devs[z']? = some d → d.inprog = some b →
      ∃ d0 : SDev, a.devs[z']? = some d0 ∧ d0.inprog = some b) :
    TV t c m sk' := by
  have hmx := List.mem_of_getElem? hx
  have hpx : TS t c (c y) (sk p) := by rw [hT.down x y hy]; exact h.top x dx p hx hxs hp
  obtain ⟨hz1, hz2⟩ := gchain_ts_last hT hC hpx
  rw [hT.down x y hy] at hz2
  -- a part held elsewhere keeps its stack
  have hold : ∀ (z' : Nat) (d0 : SDev) (q : Nat), a.devs[z']? = some d0 → q ∈ d0.held → q ≠ p →
      sk' q = sk q := fun z' d0 q h0 hq hqp => hSk q (valid_held hI h0 hq) hqp
  refine ⟨?_, ?_, ?_⟩
  · intro z' d q hz hks hq
    rcases hs z' d q hz hq with ⟨rfl, rfl⟩ | ⟨hqp, d0, h0, hq0⟩
    · rw [hP]; exact hz1
    · obtain ⟨d1, h1, hk1⟩ := hsk z' d hz hks
      rw [h0] at h1; cases h1
      rw [hold z' d0 q h0 hq0 hqp]
      exact h.top z' d0 q h0 hk1 hq0
  · intro z' d q l k hz hks hq hkq hkl
    rw [hk] at hkq
    have hkleaf := hI.1.kidsLeaf q l hkq k hkl
    rcases hs z' d q hz hq with ⟨rfl, rfl⟩ | ⟨hqp, d0, h0, hq0⟩
    · have hkq' : k ≠ q := by
        rintro rfl; rw [hkq] at hkleaf; simp at hkleaf
      rw [hP, hSk k (kids_lt hkleaf) hkq', hz2]
      exact h.kid x dx q l k hx hxs hp hkq hkl
    · obtain ⟨d1, h1, hk1⟩ := hsk z' d hz hks
      rw [h0] at h1; cases h1
      have hkp : k ≠ p := by
        rintro rfl
        exact kid_not_held hI (List.mem_of_getElem? h0) hk1 hq0 hkq hkl dx hmx hp
      rw [hold z' d0 q h0 hq0 hqp, hSk k (kids_lt hkleaf) hkp]
      exact h.kid z' d0 q l k h0 hk1 hq0 hkq hkl
  · intro z' d b hz hks hb
    obtain ⟨d0, h0, hb0⟩ := hsp z' d b hz hb
    obtain ⟨d1, h1, hk1⟩ := hsk z' d hz hks
    rw [h0] at h1; cases h1
    have hbp : b ≠ p := by
      rintro rfl
      have := held_unique hI.1 h0 hx (mem_held_inprog hb0) hp
      subst this
      rw [hx] at h0; cases h0
      exact hpi hb0
    rw [hSk b (valid_held hI h0 (mem_held_inprog hb0)) hbp]
    exact h.prog z' d0 b h0 hk1 hb0

end C03Z
end SimProc
