/-
C10W — generic facts about the scan `scanWaiting` (any `ScanOps σ` satisfying `C10.Laws`):

* `Shuffle l a b` (`l` is an interleaving of `a` and `b`) and `scan_shuffle`: the waiting list
  before a check, extended by the registrations made by callbacks during the check, is an
  interleaving of the served entries (in service order) and the entries still waiting afterwards
  (in list order);
* registration numbers (`Tag`): every waiting entry carries the number of its registration; the
  instrumented scan `scanTag` logs the numbers of the served entries; `TagOK` (numbers pairwise
  distinct over served + waiting, all below the counter) is kept — so no registration is served
  twice;
* `scan_induct`: an invariant kept by `erase ∘ call` is kept by the scan.
-/
import SimProc.Props.C10

namespace SimProc
namespace C10W

/-! ### interleavings -/

/-- `Shuffle l a b`: `l` is an interleaving of `a` and `b` (both in their own order). -/
inductive Shuffle {α : Type} : List α → List α → List α → Prop
  | nil : Shuffle [] [] []
  | left (x : α) {l a b : List α} : Shuffle l a b → Shuffle (x :: l) (x :: a) b
  | right (x : α) {l a b : List α} : Shuffle l a b → Shuffle (x :: l) a (x :: b)

namespace Shuffle
variable {α : Type}

theorem all_right (l : List α) : Shuffle l [] l := by
  induction l with
  | nil => exact .nil
  | cons x l ih => exact .right x ih

theorem all_left (l : List α) : Shuffle l l [] := by
  induction l with
  | nil => exact .nil
  | cons x l ih => exact .left x ih

theorem sublist_left {l a b : List α} (h : Shuffle l a b) : a.Sublist l := by
  induction h with
  | nil => exact List.Sublist.slnil
  | left x _ ih => exact ih.cons_cons x
  | right x _ ih => exact ih.cons x

theorem sublist_right {l a b : List α} (h : Shuffle l a b) : b.Sublist l := by
  induction h with
  | nil => exact List.Sublist.slnil
  | left x _ ih => exact ih.cons x
  | right x _ ih => exact ih.cons_cons x

theorem perm {l a b : List α} (h : Shuffle l a b) : (a ++ b).Perm l := by
  induction h with
  | nil => exact List.Perm.refl _
  | left x _ ih => exact ih.cons x
  | right x _ ih => exact (List.perm_middle).trans (ih.cons x)

theorem length {l a b : List α} (h : Shuffle l a b) : l.length = a.length + b.length := by
  induction h with
  | nil => rfl
  | left x _ ih => simp [ih]; omega
  | right x _ ih => simp [ih]; omega

/-- Prefix an untouched segment (it stays on the right). -/
theorem append_right (p : List α) {l a b : List α} (h : Shuffle l a b) :
    Shuffle (p ++ l) a (p ++ b) := by
  induction p with
  | nil => exact h
  | cons x p ih => exact .right x ih

end Shuffle

/-! ### an invariant through the scan -/

theorem scan_induct {σ : Type} (o : ScanOps σ) (I : σ → Prop)
    (hstep : ∀ s i req cb, I s → (o.rm s).waiting[i]? = some (req, cb) →
      (o.rm s).canFulfill req = true → I (o.erase (o.call s cb req) i))
    (f : Nat) (s : σ) (i : Nat) (h : I s) : I (scanWaiting o f s i) := by
  induction f generalizing s i with
  | zero => exact h
  | succ f ih =>
    rw [scanWaiting]
    split
    · exact h
    · rename_i req cb hw
      split
      · rename_i hc
        exact ih _ _ (hstep s i req cb h hw hc)
      · exact ih _ _ h

/-! ### the interleaving theorem -/

theorem take_eraseIdx_append {α} (w l : List α) (i : Nat) (hi : i < w.length) :
    ((w ++ l).eraseIdx i).take i = w.take i := by
  grind

/-- Generalisation of `scan_shuffle` to a scan started at index `i`: nothing in front of `i`
changes. -/
theorem scan_shuffle_gen {σ : Type} (o : ScanOps σ) (hl : C10.Laws o) (f : Nat) (s : σ) (i : Nat) :
    ∃ added : List (Req × Cb),
      (o.rm (C10.scanLog o f s i).1).waiting.take i = (o.rm s).waiting.take i ∧
      Shuffle ((o.rm s).waiting.drop i ++ added)
        ((C10.scanLog o f s i).2.map (fun c => (c.1, c.2.1)))
        ((o.rm (C10.scanLog o f s i).1).waiting.drop i) := by
  induction f generalizing s i with
  | zero =>
    refine ⟨[], rfl, ?_⟩
    simp only [C10.scanLog, List.map_nil, List.append_nil]
    exact Shuffle.all_right _
  | succ f ih =>
    cases h : (o.rm s).waiting[i]? with
    | none =>
      refine ⟨[], by simp [C10.scanLog, h], ?_⟩
      simp only [C10.scanLog, h, List.map_nil, List.append_nil]
      exact Shuffle.all_right _
    | some e =>
      obtain ⟨req, cb⟩ := e
      obtain ⟨hi, hget⟩ := List.getElem?_eq_some_iff.mp h
      by_cases hc : (o.rm s).canFulfill req = true
      · simp only [C10.scanLog, h, hc, if_true]
        obtain ⟨l, hl1⟩ := hl.call_appends s cb req
        obtain ⟨added, ht, hs⟩ := ih (o.erase (o.call s cb req) i) i
        have hw : (o.rm (o.erase (o.call s cb req) i)).waiting
            = ((o.rm s).waiting ++ l).eraseIdx i := by
          rw [hl.erase_spec, hl1]
        rw [hw] at ht hs
        rw [C10.drop_eraseIdx_append _ _ _ hi] at hs
        rw [take_eraseIdx_append _ _ _ hi] at ht
        refine ⟨l ++ added, ht, ?_⟩
        rw [List.drop_eq_getElem_cons hi, hget]
        simp only [List.map_cons, List.cons_append]
        rw [← List.append_assoc]
        exact Shuffle.left _ hs
      · simp only [C10.scanLog, h, hc, Bool.false_eq_true, if_false]
        obtain ⟨added, ht, hs⟩ := ih s (i + 1)
        have hlen : i < (o.rm (C10.scanLog o f s (i + 1)).1).waiting.length := by
          have := congrArg List.length ht
          simp only [List.length_take] at this
          omega
        have hgetf : (o.rm (C10.scanLog o f s (i + 1)).1).waiting[i] = (req, cb) := by
          have h1 : ((o.rm (C10.scanLog o f s (i + 1)).1).waiting.take (i + 1))[i]? =
              ((o.rm s).waiting.take (i + 1))[i]? := by rw [ht]
          rw [List.getElem?_take_of_lt (Nat.lt_succ_self i),
            List.getElem?_take_of_lt (Nat.lt_succ_self i), h,
            List.getElem?_eq_getElem hlen] at h1
          exact Option.some.inj h1
        refine ⟨added, ?_, ?_⟩
        · have := congrArg (List.take i) ht
          simpa [List.take_take, Nat.min_eq_left (Nat.le_succ i)] using this
        · rw [List.drop_eq_getElem_cons hi, hget, List.drop_eq_getElem_cons hlen, hgetf]
          simp only [List.cons_append]
          exact Shuffle.right _ hs

/-- **One check, exactly**: the waiting list before the check, extended by the registrations made
by callbacks during the check (`added`, appended behind), is an interleaving of the entries served
(in the order of their callbacks) and the entries still waiting afterwards (in list order). -/
theorem scan_shuffle {σ : Type} (o : ScanOps σ) (hl : C10.Laws o) (f : Nat) (s : σ) :
    ∃ added : List (Req × Cb),
      Shuffle ((o.rm s).waiting ++ added)
        ((C10.scanLog o f s 0).2.map (fun c => (c.1, c.2.1)))
        (o.rm (C10.scanLog o f s 0).1).waiting := by
  obtain ⟨added, _, h⟩ := scan_shuffle_gen o hl f s 0
  exact ⟨added, by simpa using h⟩

/-! ### registration numbers -/

/-- Ghost state: the waiting list with registration numbers, the next free number, and the log of
served registrations. -/
structure Tag where
  tw : List (Nat × (Req × Cb)) := []
  next : Nat := 0
  served : List (Nat × (Req × Cb)) := []

/-- Number the registrations `l` (in order) and append them. -/
def Tag.extend (g : Tag) (l : List (Req × Cb)) : Tag :=
  { g with tw := g.tw ++ (List.range' g.next l.length).zip l, next := g.next + l.length }

/-- Catch up with a waiting list that has been appended to. -/
def Tag.sync (g : Tag) (wl : List (Req × Cb)) : Tag := g.extend (wl.drop g.tw.length)

/-- Entry `i` is served. -/
def Tag.serve (g : Tag) (i : Nat) : Tag :=
  { g with tw := g.tw.eraseIdx i, served := g.served ++ g.tw[i]?.toList }

/-- The numbers are consistent with the waiting list `wl`: the tagged list projects to `wl`, the
numbers of served and waiting registrations are pairwise distinct and below the counter. -/
structure TagOK (g : Tag) (wl : List (Req × Cb)) : Prop where
  proj : g.tw.map (·.2) = wl
  nodup : ((g.served ++ g.tw).map (·.1)).Nodup
  lt : ∀ x ∈ g.served ++ g.tw, x.1 < g.next

theorem tagOK_init : TagOK {} [] := ⟨rfl, List.nodup_nil, by intro x hx; cases hx⟩

theorem map_snd_zip_range' (n : Nat) (l : List (Req × Cb)) :
    ((List.range' n l.length).zip l).map (·.2) = l := by
  rw [List.map_snd_zip]
  simp

theorem map_fst_zip_range' (n : Nat) (l : List (Req × Cb)) :
    ((List.range' n l.length).zip l).map (·.1) = List.range' n l.length := by
  rw [List.map_fst_zip]
  simp

theorem TagOK.extend {g : Tag} {wl : List (Req × Cb)} (h : TagOK g wl) (l : List (Req × Cb)) :
    TagOK (g.extend l) (wl ++ l) := by
  refine ⟨?_, ?_, ?_⟩
  · simp only [Tag.extend, List.map_append, h.proj, map_snd_zip_range']
  · simp only [Tag.extend]
    rw [← List.append_assoc, List.map_append, map_fst_zip_range']
    refine List.nodup_append.2 ⟨h.nodup, List.nodup_range', ?_⟩
    intro a ha b hb hab
    obtain ⟨x, hx, rfl⟩ := List.mem_map.1 ha
    have := h.lt x hx
    have hb' := List.mem_range'_1.1 hb
    omega
  · intro x hx
    simp only [Tag.extend] at hx ⊢
    rw [← List.append_assoc] at hx
    rcases List.mem_append.1 hx with hx | hx
    · have := h.lt x hx; omega
    · have : x.1 ∈ List.range' g.next l.length := by
        rw [← map_fst_zip_range' g.next l]
        exact List.mem_map.2 ⟨x, hx, rfl⟩
      have := List.mem_range'_1.1 this
      omega

theorem TagOK.sync {g : Tag} {wl : List (Req × Cb)} (h : TagOK g wl) (l : List (Req × Cb)) :
    TagOK (g.sync (wl ++ l)) (wl ++ l) := by
  have hlen : g.tw.length = wl.length := by
    have := congrArg List.length h.proj; simpa using this
  unfold Tag.sync
  rw [hlen, List.drop_left]
  exact h.extend l

theorem map_eraseIdx' {α β} (f : α → β) (l : List α) (i : Nat) :
    (l.eraseIdx i).map f = (l.map f).eraseIdx i := by
  induction l generalizing i with
  | nil => rfl
  | cons a t ih =>
    cases i with
    | zero => rfl
    | succ i => simp [ih]

theorem perm_served_eraseIdx {α} (s t : List α) (i : Nat) :
    ((s ++ t[i]?.toList) ++ t.eraseIdx i).Perm (s ++ t) := by
  rw [List.append_assoc]
  refine List.Perm.append_left s ?_
  by_cases hi : i < t.length
  · rw [List.getElem?_eq_getElem hi]
    simp only [Option.toList_some, List.singleton_append]
    exact C10.perm_cons_eraseIdx t i hi
  · rw [List.getElem?_eq_none (Nat.not_lt.1 hi), List.eraseIdx_of_length_le (Nat.not_lt.1 hi)]
    simp

theorem TagOK.serve {g : Tag} {wl : List (Req × Cb)} (h : TagOK g wl) (i : Nat) :
    TagOK (g.serve i) (wl.eraseIdx i) := by
  have hp := perm_served_eraseIdx g.served g.tw i
  refine ⟨?_, ?_, ?_⟩
  · simp only [Tag.serve]
    rw [← h.proj]
    exact map_eraseIdx' _ _ _
  · simp only [Tag.serve]
    exact (hp.map (·.1)).nodup_iff.2 h.nodup
  · intro x hx
    simp only [Tag.serve] at hx ⊢
    exact h.lt x (hp.mem_iff.1 hx)

/-- The scan instrumented with registration numbers. -/
def scanTag {σ : Type} (o : ScanOps σ) : Nat → σ → Nat → Tag → Tag
  | 0, _, _, g => g
  | f + 1, s, i, g =>
    match (o.rm s).waiting[i]? with
    | none => g
    | some (req, cb) =>
      if (o.rm s).canFulfill req then
        scanTag o f (o.erase (o.call s cb req) i) i
          ((g.sync (o.rm (o.call s cb req)).waiting).serve i)
      else scanTag o f s (i + 1) g

/-- The numbering stays consistent through a check. -/
theorem tagOK_scan {σ : Type} (o : ScanOps σ) (hl : C10.Laws o) (f : Nat) (s : σ) (i : Nat)
    (g : Tag) (h : TagOK g (o.rm s).waiting) :
    TagOK (scanTag o f s i g) (o.rm (scanWaiting o f s i)).waiting := by
  induction f generalizing s i g with
  | zero => exact h
  | succ f ih =>
    cases hw : (o.rm s).waiting[i]? with
    | none => simp only [scanTag, scanWaiting, hw]; exact h
    | some e =>
      obtain ⟨req, cb⟩ := e
      by_cases hc : (o.rm s).canFulfill req = true
      · simp only [scanTag, scanWaiting, hw, hc, if_true]
        refine ih _ _ _ ?_
        obtain ⟨l, hl1⟩ := hl.call_appends s cb req
        rw [hl.erase_spec, hl1]
        exact (h.sync l).serve i
      · simp only [scanTag, scanWaiting, hw, hc]
        exact ih _ _ _ h

/-- The served log only grows during a check. -/
theorem served_prefix_scan {σ : Type} (o : ScanOps σ) (f : Nat) (s : σ) (i : Nat) (g : Tag) :
    ∃ l, (scanTag o f s i g).served = g.served ++ l := by
  induction f generalizing s i g with
  | zero => exact ⟨[], by simp [scanTag]⟩
  | succ f ih =>
    cases hw : (o.rm s).waiting[i]? with
    | none => exact ⟨[], by simp [scanTag, hw]⟩
    | some e =>
      obtain ⟨req, cb⟩ := e
      by_cases hc : (o.rm s).canFulfill req = true
      · simp only [scanTag, hw, hc, if_true]
        obtain ⟨l, hl⟩ := ih (o.erase (o.call s cb req) i) i
          ((g.sync (o.rm (o.call s cb req)).waiting).serve i)
        refine ⟨(g.sync (o.rm (o.call s cb req)).waiting).tw[i]?.toList ++ l, ?_⟩
        rw [hl]
        simp only [Tag.serve, Tag.sync, Tag.extend, List.append_assoc]
      · simp only [scanTag, hw, hc]
        exact ih _ _ _

/-! ### what a complete check leaves waiting -/

/-- The entries the scan passes without serving them: (request, callback, manager at the moment
the scan looked at the entry), in scan order. -/
def skipLog {σ : Type} (o : ScanOps σ) : Nat → σ → Nat → List (Req × Cb × RM)
  | 0, _, _ => []
  | f + 1, s, i =>
    match (o.rm s).waiting[i]? with
    | none => []
    | some (req, cb) =>
      if (o.rm s).canFulfill req then skipLog o f (o.erase (o.call s cb req) i) i
      else (req, cb, o.rm s) :: skipLog o f s (i + 1)

/-- An entry is passed over only if its request does not fit at that moment. -/
theorem skipLog_infeasible {σ : Type} (o : ScanOps σ) (f : Nat) (s : σ) (i : Nat) :
    ∀ c ∈ skipLog o f s i, c.2.2.canFulfill c.1 = false ∧ (c.1, c.2.1) ∈ c.2.2.waiting := by
  induction f generalizing s i with
  | zero => simp [skipLog]
  | succ f ih =>
    cases h : (o.rm s).waiting[i]? with
    | none => simp [skipLog, h]
    | some e =>
      obtain ⟨req, cb⟩ := e
      by_cases hc : (o.rm s).canFulfill req = true
      · simp only [skipLog, h, hc, if_true]
        exact ih _ _
      · simp only [skipLog, h, hc, Bool.false_eq_true, if_false]
        intro c hc'
        rcases List.mem_cons.1 hc' with rfl | hc'
        · exact ⟨by simpa using hc, List.mem_of_getElem? h⟩
        · exact ih _ _ c hc'

/-- **After a complete check** (one that reaches the end of the waiting list) the entries still
waiting from index `i` on are exactly the entries the scan passed over — each of them (also those
registered during the check) was found not to fit when the scan looked at it. -/
theorem scan_complete_waiting {σ : Type} (o : ScanOps σ) (hl : C10.Laws o) (f : Nat) (s : σ)
    (i : Nat) (hd : C10.scanDone o f s i = true) :
    (o.rm (scanWaiting o f s i)).waiting.drop i =
      (skipLog o f s i).map (fun c => (c.1, c.2.1)) := by
  induction f generalizing s i with
  | zero => simp [C10.scanDone] at hd
  | succ f ih =>
    cases h : (o.rm s).waiting[i]? with
    | none =>
      simp only [scanWaiting, skipLog, h, List.map_nil]
      exact List.drop_eq_nil_of_le (List.getElem?_eq_none_iff.mp h)
    | some e =>
      obtain ⟨req, cb⟩ := e
      obtain ⟨hi, hget⟩ := List.getElem?_eq_some_iff.mp h
      by_cases hc : (o.rm s).canFulfill req = true
      · simp only [scanWaiting, skipLog, C10.scanDone, h, hc, if_true] at hd ⊢
        exact ih _ _ hd
      · simp only [scanWaiting, skipLog, C10.scanDone, h, hc, Bool.false_eq_true, if_false] at hd ⊢
        have h1 := ih s (i + 1) hd
        -- nothing in front of `i + 1` changes
        obtain ⟨_, ht, _⟩ := scan_shuffle_gen o hl f s (i + 1)
        rw [C10.scanLog_state] at ht
        have hlen : i < (o.rm (scanWaiting o f s (i + 1))).waiting.length := by
          have := congrArg List.length ht
          simp only [List.length_take] at this
          omega
        have hgetf : (o.rm (scanWaiting o f s (i + 1))).waiting[i] = (req, cb) := by
          have h2 : ((o.rm (scanWaiting o f s (i + 1))).waiting.take (i + 1))[i]? =
              ((o.rm s).waiting.take (i + 1))[i]? := by rw [ht]
          rw [List.getElem?_take_of_lt (Nat.lt_succ_self i),
            List.getElem?_take_of_lt (Nat.lt_succ_self i), h,
            List.getElem?_eq_getElem hlen] at h2
          exact Option.some.inj h2
        rw [List.drop_eq_getElem_cons hlen, hgetf, h1]
        rfl

end C10W
end SimProc
