/-
C15W — machinery, part 6: without batches (no device is set up to create them, no part is one) a
sink's counter is the number of its `received_part` records.
-/
import SimProc.Proofs.C15WReach

namespace SimProc
namespace C15W
open World FloorCoreL C15 RM
variable {ph : Phase}
set_option linter.unusedSimpArgs false

/-! ### 2'. without batches, a sink's counter is the number of its `received_part` records -/

def isReceivedBy (x : Nat) : Rec → Bool
  | .received d _ _ _ _ => d == x
  | _ => false

def countRecv (recs : List Rec) (x : Nat) : Nat := (recs.filter (isReceivedBy x)).length

theorem countRecv_append (l₁ l₂ : List Rec) (x : Nat) :
    countRecv (l₁ ++ l₂) x = countRecv l₁ x + countRecv l₂ x := by
  simp [countRecv, List.filter_append]

theorem countRecv_stamp (t : Int) (recs : List ResRec) (x : Nat) : countRecv (stamp t recs) x = 0 := by
  unfold countRecv stamp
  induction recs with
  | nil => rfl
  | cons a l ih => simp [isReceivedBy]

theorem countRecv_plain {r : Rec} (h : isPlain r = true) (x : Nat) : countRecv [r] x = 0 := by
  cases r <;> simp_all [isPlain, countRecv, isReceivedBy]

/-- No device is set up to create batches and no batch exists. -/
def LeafInv (k : WKey) : Prop := NoBatchK k ∧ k.pl = true

theorem LeafInv.step {k k' : WKey} (h : KStep ph k k') (hi : LeafInv k) : LeafInv k' := by
  induction h with
  | refl k => exact hi
  | trans _ _ ih1 ih2 => exact ih2 (ih1 hi)
  | plSet k b h => exact absurd hi.1 h
  | _ =>
    refine ⟨fun y => ?_, hi.2⟩
    have := hi.1 y
    simp only [WKey.dev, WKey.addRecs, getD_set] at this ⊢
    try split
    all_goals first
      | exact this
      | exact hi.1 _

def CountInv (k : WKey) : Prop :=
  LeafInv k ∧ ∀ y, (k.dev y).kind = .sink → (k.dev y).recvCount = countRecv k.recs y

theorem CountInv.step {k k' : WKey} (h : KStep ph k k') (hi : CountInv k) : CountInv k' := by
  refine ⟨LeafInv.step h hi.1, ?_⟩
  induction h with
  | refl k => exact hi.2
  | trans h1 _ ih1 ih2 => exact ih2 ⟨LeafInv.step h1 hi.1, ih1 hi⟩
  | plain k r hp ht =>
    intro y
    have := hi.2 y
    simp only [WKey.dev, WKey.addRecs, countRecv_append, countRecv_plain hp] at this ⊢
    simpa using this
  | recvSink k x p q v lv hph hx hk hl =>
    intro y
    have := hi.2 y
    have h1 := hl hi.1.2
    simp only [WKey.dev, getD_set, countRecv_append] at this hk ⊢
    by_cases hxy : x = y
    · subst hxy
      rw [if_pos ⟨rfl, hx⟩]
      intro _
      have e : countRecv [Rec.received x k.now p q v] x = 1 := by simp [countRecv, isReceivedBy]
      rw [e, h1]
      have := this hk
      dsimp only
      omega
    · rw [if_neg (fun h => hxy h.1)]
      have e : countRecv [Rec.received x k.now p q v] y = 0 := by simp [countRecv, isReceivedBy, hxy]
      rw [e]
      intro hs
      have := this hs
      omega
  | recvBuf k x p n q v hph hx hk =>
    intro y
    have := hi.2 y
    simp only [WKey.dev, getD_set, countRecv_append] at this hk ⊢
    by_cases hxy : x = y
    · subst hxy
      rw [if_pos ⟨rfl, hx⟩]
      intro hs
      rw [hk] at hs; cases hs
    · rw [if_neg (fun h => hxy h.1)]
      have e : countRecv [Rec.level x k.now ((k.devs.getD x default).level + n),
          Rec.received x k.now p q v] y = 0 := by
        simp [countRecv, isReceivedBy, hxy]
      rw [e]
      intro hs
      have := this hs
      omega
  | recvOther k x p q v hph hk1 hk2 =>
    intro y
    have := hi.2 y
    simp only [WKey.dev, WKey.addRecs, countRecv_append] at this hk1 ⊢
    intro hs
    have hxy : x ≠ y := by intro e; subst e; exact hk1 hs
    have e : countRecv [Rec.received x k.now p q v] y = 0 := by simp [countRecv, isReceivedBy, hxy]
    rw [e]
    have := this hs
    omega
  | _ =>
    intro y
    have := hi.2 y
    simp only [WKey.dev, WKey.addRecs, getD_set, countRecv_append, countRecv_stamp] at this ⊢
    try split
    all_goals simp_all [countRecv, isReceivedBy]

/-- A world without batches: no device creates them, no part is one. -/
def NoBatch (w : World) : Prop :=
  (∀ d ∈ w.devs, d.genBatch = 0 ∧ d.bsize = none) ∧ w.parts.all (fun r => r.kids.isNone) = true

instance (w : World) : Decidable (NoBatch w) := by unfold NoBatch; infer_instance

theorem NoBatch.leafInv {w : World} (h : NoBatch w) : LeafInv (key w) := by
  refine ⟨fun y => ?_, h.2⟩
  rw [key_dev]
  rcases dev_mem_or_default w y with hm | hd
  · exact h.1 _ hm
  · rw [hd]; exact ⟨rfl, rfl⟩

theorem Fresh.countInv {w : World} (h : Fresh w) (hb : NoBatch w) : CountInv (key w) := by
  refine ⟨hb.leafInv, fun y _ => ?_⟩
  rw [key_dev]
  show (w.dev y).recvCount = countRecv w.recs y
  rw [(h.dev y).2.2.1, h.1]; rfl

/-! ### the resource manager stays initialised -/

theorem inited_step {k k' : WKey} (h : KStep ph k k') (hi : k.rmInited = true) : k'.rmInited = true := by
  induction h with
  | trans _ _ ih1 ih2 => exact ih2 (ih1 hi)
  | rmInit k hph hin => rfl
  | _ => exact hi

theorem simulateInit_inited (w : World) (hs : w.started = false) : w.simulateInit.rm.inited = true := by
  unfold simulateInit
  rw [if_neg (by simp [hs])]
  dsimp only
  have h0 : (key (({ w with rm := (w.rm.init).1 } : World).rmEffects (w.rm.init).2.1 (w.rm.init).2.2)).rmInited
      = true := by
    show (World.rmEffects _ _ _).rm.inited = true
    rw [rmEffects_rm]
    rfl
  exact inited_step (KS.foldl (ph := .init) _ _ _ (fun w a => KS_initAsset rfl w a)) h0

end C15W
end SimProc
