/-
C03V, part 1 — several groups AND re-wiring in scripts: the frame `RW w w'` of everything that is not
a factory-floor action, in a world whose scripts may RE-WIRE (but do not create assets).

`RW w w'`: the slots (`sv`), the parts table, the static data of the devices without the wiring
(`swr`), the scripts are unchanged, and every connection of `w'` lies in the ENVELOPE of `w` (the
wiring plus every connection some scripted `rewire` may add).  The relation is transitive (the
envelope can only shrink) and holds for script runs, maintenance hooks, the start / the end of a
work order, the availability check of the resource manager (`rw_exec_scr`) — the analogue of
`C08W.RF` (which excludes `rewire`) and of `C03W.SWR` (which says nothing about slots, parts and
connections).
-/
import SimProc.Proofs.C03YBatR
import SimProc.Proofs.C03ZWorld

namespace SimProc
namespace C03V
open World C02V C03W C03 FloorCoreL

/-! ### the down lists after a re-wiring -/

theorem swr_of_swv {w w' : World} (h : swv w' = swv w) : swr w' = swr w := by
  have h1 : w'.devs.map stat1 = w.devs.map stat1 := congrArg Prod.fst h
  have h2 : w'.targets.map (·.dev) = w.targets.map (·.dev) := congrArg (fun t => t.2.1) h
  have h3 : w'.groups = w.groups := congrArg (fun t => t.2.2) h
  have e : ∀ l : List Dev, l.map stat0 =
      (l.map stat1).map (fun d => ({ d with up := [], down := [] } : Dev)) := by
    intro l; rw [List.map_map]; rfl
  unfold swr
  rw [e, e w.devs, h1, h2, h3]

theorem swr_len {w w' : World} (h : swr w' = swr w) : w'.devs.length = w.devs.length := by
  have := congrArg (fun t => t.1.length) h
  simpa [swr] using this

theorem swr_groups {w w' : World} (h : swr w' = swr w) : w'.groups = w.groups :=
  congrArg (fun t => t.2.2) h

/-- **The connections after `rewire x ups`**: old ones, or `u → x` for a `u ∈ ups`. -/
theorem down_rewire (v : World) (x : Nat) (ups : List Nat) (z y : Nat)
    (hy : y ∈ ((v.rewire x ups).dev z).down) : y ∈ (v.dev z).down ∨ (y = x ∧ z ∈ ups) := by
  rw [rewire_eq_fold] at hy
  have hca := rewireClock_core v x
  have hr := statRel_fold (x := x) (ups := ups) ups (fun _ hu => hu) _
    (StatRel.refl x ups (rewireWire (rewireClock v x) x ups))
  have hsub : ∀ y, y ∈ ((rewireWire (rewireClock v x) x ups).dev z).down → y ∈ (v.dev z).down := by
    intro y hy
    have := (rewireWire_down (rewireClock v x) x ups z).subset hy
    rw [core_eq_dev_down hca z] at this
    exact this
  rcases hr.down z with hd | ⟨hzu, _, _, hd⟩
  · rw [hd] at hy; exact Or.inl (hsub y hy)
  · rw [hd] at hy
    rcases List.mem_append.mp hy with hy | hy
    · exact Or.inl (hsub y hy)
    · exact Or.inr ⟨List.mem_singleton.mp hy, hzu⟩

/-! ### the frame -/

/-- slots, parts, static data (the wiring aside), scripts unchanged; the connections stay in the
envelope -/
structure RW (w w' : World) : Prop where
  sv : sv w' = sv w
  parts : w'.parts = w.parts
  swr : swr w' = swr w
  scr : w'.scripts = w.scripts
  sub : ∀ z, ∀ y ∈ (w'.dev z).down, y ∈ ((envl w).dev z).down

theorem RW.refl (w : World) : RW w w := ⟨rfl, rfl, rfl, rfl, fun _ _ h => mem_envl_down_of_down h⟩

theorem RW.kind {w w' : World} (h : RW w w') (z : Nat) : (w'.dev z).kind = (w.dev z).kind :=
  stat0_kind (stat0_of_swr h.swr z)

theorem RW.group {w w' : World} (h : RW w w') (z : Nat) : (w'.dev z).group = (w.dev z).group :=
  stat0_group (stat0_of_swr h.swr z)

/-- the envelope can only shrink -/
theorem RW.envl {w w' : World} (h : RW w w') : TopoSub (envl w) (envl w') :=
  topoSub_envl_envl (swr_len h.swr) h.scr h.kind h.group (swr_groups h.swr) h.sub

theorem RW.trans {a b c : World} (h1 : RW a b) (h2 : RW b c) : RW a c :=
  ⟨h2.sv.trans h1.sv, h2.parts.trans h1.parts, h2.swr.trans h1.swr, h2.scr.trans h1.scr,
    fun z y hy => h1.envl.down z y (h2.sub z y hy)⟩

/-- a step that does not touch the static world at all -/
theorem RW.of_swv {w w' : World} (h1 : C02V.sv w' = C02V.sv w) (h2 : w'.parts = w.parts)
    (h3 : swv w' = swv w) (h4 : w'.scripts = w.scripts) : RW w w' := by
  refine ⟨h1, h2, swr_of_swv h3, h4, fun z y hy => ?_⟩
  rw [sw_down (SW.sw_eq ⟨h3, h4⟩) z] at hy
  exact mem_envl_down_of_down hy

theorem NC.of_rw {w w' : World} (h : NC w) (r : RW w w') : NC w' := h.of_swr ⟨r.swr, r.scr⟩

/-- a scripted re-wiring -/
theorem rw_rewire (w : World) (x : Nat) (ups : List Nat)
    (hscr : ∃ l ∈ w.scripts, Op.rewire x ups ∈ l) : RW w (w.rewire x ups) := by
  refine ⟨sv_rewire w x ups, parts_rewire w x ups, swr_rewire w x ups, scr_rewire w x ups,
    fun z y hy => ?_⟩
  rcases down_rewire w x ups z y hy with h | ⟨hyx, hz⟩
  · exact mem_envl_down_of_down h
  · subst hyx
    have hzl : z < w.devs.length := by
      apply Nat.lt_of_not_le
      intro hc
      rw [dev_of_length_le (by rw [swr_len (swr_rewire w y ups)]; exact hc)] at hy
      cases hy
    obtain ⟨l, hl, hop⟩ := hscr
    rw [envl_down_lt hzl]
    exact List.mem_append_right _ (mem_extraDown.mpr (mem_rewEdges.mpr ⟨l, hl, ups, hop, hz⟩))

/-- an operation of a script (not `create`) -/
theorem rw_applyOp (w : World) (op : Op) (hnc : ∀ sp, op ≠ .create sp)
    (hscr : ∃ l ∈ w.scripts, op ∈ l) : RW w (w.applyOp op).1 := by
  by_cases hr : ∃ x ups, op = .rewire x ups
  · obtain ⟨x, ups, rfl⟩ := hr
    exact rw_rewire w x ups hscr
  · have hn : ∀ d ups, op ≠ .rewire d ups := fun d ups he => hr ⟨d, ups, he⟩
    exact RW.of_swv (sv_applyOp_noncreate w op hnc) (C08W.parts_applyOp_static w op hn hnc)
      (swv_applyOp w op hn hnc) (scr_applyOp w op)

theorem rw_applyOps (ops : List Op) : ∀ (w : World), NC w →
    (∀ op ∈ ops, ∃ l ∈ w.scripts, op ∈ l) → RW w (w.applyOps ops) := by
  induction ops with
  | nil => intro w _ _; exact RW.refl w
  | cons op ops ih =>
    intro w h hsub
    unfold World.applyOps
    simp only [List.foldl_cons]
    obtain ⟨l, hl, hop⟩ := hsub op (List.mem_cons_self ..)
    have hn := h l hl op hop
    have r1 : RW w ((w.applyOp op).1.addRes (w.applyOp op).2) :=
      (rw_applyOp w op hn ⟨l, hl, hop⟩).trans (RW.of_swv rfl rfl rfl rfl)
    have := ih _ (NC.of_rw h r1) (fun o ho => by
      rw [r1.scr]; exact hsub o (List.mem_cons_of_mem _ ho))
    unfold World.applyOps at this
    exact r1.trans this

theorem rw_runScript (w : World) (k : Nat) (h : NC w) : RW w (w.runScript k) := by
  unfold World.runScript
  apply rw_applyOps _ w h
  intro op hop
  by_cases hk : k < w.scripts.length
  · have : w.scripts.getD k [] = w.scripts[k] := by simp [List.getD_eq_getElem?_getD, hk]
    rw [this] at hop
    exact ⟨_, List.getElem_mem hk, hop⟩
  · have : w.scripts.getD k [] = [] := by simp [List.getD_eq_getElem?_getD, Nat.le_of_not_lt hk]
    rw [this] at hop; cases hop

theorem rw_scan (n : Nat) : ∀ (w : World) (i : Nat), NC w → RW w (scanWaiting scanOps n w i) := by
  induction n with
  | zero => intro w i _; exact RW.refl w
  | succ n ih =>
    intro w i h
    unfold scanWaiting
    split
    · exact RW.refl w
    · split
      · rename_i req cb _ _
        have r1 : RW w (scanOps.erase (scanOps.call w cb req) i) := by
          cases cb with
          | script k =>
            have r0 : RW w (w.addRes (.cb k)) := RW.of_swv rfl rfl rfl rfl
            exact (r0.trans (rw_runScript _ k (NC.of_rw h r0))).trans (RW.of_swv rfl rfl rfl rfl)
          | proc d =>
            exact (RW.of_swv (sv_procResourceCb w d) (C08W.parts_procResourceCb w d)
              (swv_procResourceCb w d) (scr_procResourceCb w d)).trans (RW.of_swv rfl rfl rfl rfl)
        exact r1.trans (ih _ _ (NC.of_rw h r1))
      · exact ih _ _ h

theorem rw_hookStart (w : World) (tgt : Nat) (tag : Int) (h : NC w) : RW w (w.hookStart tgt tag) := by
  have r0 : RW w (w.addRes (.hook true tgt tag)) := RW.of_swv rfl rfl rfl rfl
  unfold World.hookStart
  simp only []
  split
  · exact r0.trans (RW.of_swv (sv_shutdownDev ..) (C08W.parts_shutdownDev ..) (swv_shutdownDev ..)
      (scr_shutdownDev ..))
  · split
    · exact r0.trans (rw_runScript _ _ (NC.of_rw h r0))
    · exact r0

theorem rw_hookEnd (w : World) (tgt : Nat) (tag : Int) (h : NC w) : RW w (w.hookEnd tgt tag) := by
  have r0 : RW w (w.addRes (.hook false tgt tag)) := RW.of_swv rfl rfl rfl rfl
  unfold World.hookEnd
  simp only []
  split
  · exact r0.trans (RW.of_swv (sv_restoreDev ..) (C08W.parts_restoreDev ..) (swv_restoreDev ..)
      (scr_restoreDev ..))
  · split
    · exact r0.trans (rw_runScript _ _ (NC.of_rw h r0))
    · exact r0

theorem rw_startWork (w : World) (m seq : Nat) (h : NC w) : RW w (w.startWork m seq) := by
  have key : ∀ w' : World, RW w w' → ∀ t g a b c d,
      RW w ((w'.hookStart t g).schedLib a b c d) := fun w' r t g a b c d =>
    (r.trans (rw_hookStart w' t g (NC.of_rw h r))).trans
      (RW.of_swv (sv_schedLib ..) (schedLib_parts ..) (swv_schedLib ..) (scr_schedLib ..))
  unfold World.startWork
  split
  · exact RW.of_swv (sv_setErr ..) (setErr_parts ..) (swv_setErr ..) (scr_setErr ..)
  · simp only []
    refine key _ ?_ _ _ _ _ _ _
    exact RW.of_swv rfl rfl rfl rfl

theorem rw_finishWork (w : World) (m seq : Nat) (h : NC w) : RW w (w.finishWork m seq) := by
  have key : ∀ w' : World, RW w w' → ∀ w'' : World, RW w' w'' → ∀ m l,
      RW w (w''.startOrders m l) := fun w' r w'' r' m l =>
    (r.trans r').trans (RW.of_swv (sv_startOrders ..) (C08W.parts_startOrders ..)
      (swv_startOrders ..) (scr_startOrders ..))
  unfold World.finishWork
  split
  · exact RW.of_swv (sv_setErr ..) (setErr_parts ..) (swv_setErr ..) (scr_setErr ..)
  · simp only []
    rename_i o _
    refine key _ (rw_hookEnd w o.target o.tag h) _ ?_ _ _
    exact RW.of_swv rfl rfl rfl rfl

/-- **The actions that may run a script.** -/
theorem rw_exec_scr (w : World) (a : Action) (h : NC w)
    (ha : (∃ k, a = .script k) ∨ a = .rmCheck ∨ (∃ m o, a = .startWork m o) ∨
      ∃ m o, a = .finishWork m o) : RW w (w.exec a) := by
  rcases ha with ⟨k, rfl⟩ | rfl | ⟨m, o, rfl⟩ | ⟨m, o, rfl⟩
  · exact rw_runScript w k h
  · exact rw_scan _ _ _ h
  · exact rw_startWork w m o h
  · exact rw_finishWork w m o h

end C03V
end SimProc
