/-
C15D — machinery, part 4: with closed wiring (`C02W.Wired`: every downstream entry and every group
input names an existing device) no `received_part` record is ever written about a device that does
not exist (`InR`), so a sink created later starts with no record.

`RB w w'`: `w'` has the devices of `w` and its log extended by records whose `received_part`
records are about existing devices.  Everything that hands no part over is `RB` by the key method
(`KStep.quietRecs`); the hand-over itself (`give`) is walked through once more, with the wiring.
-/
import SimProc.Proofs.C15DReach
import SimProc.Proofs.C02WDyn

namespace SimProc
namespace C15D
open World FloorCoreL C15 C15W RM

/-! ### steps that hand nothing over write no `received_part` record -/

theorem isReceivedBy_plain {r : Rec} (h : isPlain r = true) (y : Nat) : isReceivedBy y r = false := by
  cases r <;> simp_all [isPlain, isReceivedBy]

theorem isReceivedBy_stamp (t : Int) (recs : List ResRec) : ∀ r ∈ stamp t recs, ∀ y, isReceivedBy y r = false := by
  intro r hr y
  obtain ⟨a, _, rfl⟩ := List.mem_map.1 hr
  rfl

theorem KStep.quietRecs {ph : Phase} {k k' : WKey} (h : KStep ph k k') (hm : ph.mv = false) :
    ∃ l, k'.recs = k.recs ++ l ∧ ∀ r ∈ l, ∀ y, isReceivedBy y r = false := by
  induction h with
  | refl k => exact ⟨[], by simp, by simp⟩
  | trans _ _ ih1 ih2 =>
    obtain ⟨l1, e1, h1⟩ := ih1
    obtain ⟨l2, e2, h2⟩ := ih2
    refine ⟨l1 ++ l2, by rw [e2, e1, List.append_assoc], fun r hr => ?_⟩
    rcases List.mem_append.1 hr with h | h
    · exact h1 r h
    · exact h2 r h
  | env k op h => exact ⟨[], by simp, by simp⟩
  | plain k r hp ht => exact ⟨[r], rfl, fun r' hr' y => by
      simp only [List.mem_singleton] at hr'; subst hr'; exact isReceivedBy_plain hp y⟩
  | rm k a b recs ha hi h => exact ⟨_, rfl, isReceivedBy_stamp _ _⟩
  | recvSink k x p q v lv hph => rw [Phase.moves, hm] at hph; cases hph
  | recvBuf k x p n q v hph => rw [Phase.moves, hm] at hph; cases hph
  | recvOther k x p q v hph => rw [Phase.moves, hm] at hph; cases hph
  | release k x n hph => rw [Phase.moves, hm] at hph; cases hph
  | supply k x p v hph hx hk => exact ⟨[_], rfl, fun r' hr' y => by
      simp only [List.mem_singleton] at hr'; subst hr'; rfl⟩
  | maintCost k m c hph => exact ⟨[], by simp, by simp⟩
  | plSet k b h => exact ⟨[], by simp, by simp⟩
  | rmInit k hph hi => exact ⟨_, rfl, isReceivedBy_stamp _ _⟩
  | devReset k x hph => exact ⟨[], by simp, by simp⟩
  | maintReset k m hph => exact ⟨[], by simp, by simp⟩

/-! ### the invariant -/

/-- No `received_part` record is about a device that does not exist. -/
def InRK (k : WKey) : Prop := ∀ y, k.devs.length ≤ y → ∀ r ∈ k.recs, isReceivedBy y r = false

def InR (w : World) : Prop := InRK (key w)

theorem inR_iff (w : World) :
    InR w ↔ ∀ y, w.devs.length ≤ y → ∀ r ∈ w.recs, isReceivedBy y r = false := by
  unfold InR InRK
  simp only [key_devs_length, key_recs]

theorem countRecv_zero {l : List Rec} {y : Nat} (h : ∀ r ∈ l, isReceivedBy y r = false) :
    countRecv l y = 0 := by
  unfold countRecv
  rw [List.filter_eq_nil_iff.2 (fun r hr => by rw [h r hr]; simp)]
  rfl

theorem recvSum_zero {l : List Rec} {y : Nat} (h : ∀ r ∈ l, isReceivedBy y r = false) :
    recvSum l y = 0 := by
  induction l with
  | nil => rfl
  | cons a l ih =>
    have ha := h a (List.mem_cons_self ..)
    have := ih (fun r hr => h r (List.mem_cons_of_mem _ hr))
    rw [show a :: l = [a] ++ l from rfl, recvSum_append, this]
    cases a <;> simp_all [recvSum, isReceivedBy]

/-- created devices: constructor-fresh, and no `received_part` record about the new index -/
def PW : WKey → DKey → Prop :=
  fun k d => DFresh d ∧ ∀ r ∈ k.recs, isReceivedBy k.devs.length r = false
/-- … and not set up for batches -/
def PWB : WKey → DKey → Prop :=
  fun k d => (DFresh d ∧ d.genBatch = 0 ∧ d.bsize = none) ∧ ∀ r ∈ k.recs, isReceivedBy k.devs.length r = false

theorem InRK.dstep {P : WKey → DKey → Prop} {ph : Phase} {k k' : WKey} (h : DStep P ph k k')
    (hm : ph.mv = false) (hi : InRK k) : InRK k' := by
  induction h with
  | refl k => exact hi
  | trans _ _ ih1 ih2 => exact ih2 (ih1 hi)
  | ks h =>
    obtain ⟨l, e, hl⟩ := KStep.quietRecs h hm
    intro y hy r hr
    rw [e] at hr
    rcases List.mem_append.1 hr with h1 | h1
    · exact hi y (by rw [← (KStep.static h).1]; exact hy) r h1
    · exact hl r h1 y
  | newDev k d h =>
    intro y hy r hr
    exact hi y (by simp at hy; omega) r hr
  | newMaint k v h => exact hi

theorem ctxW : Ctx PW InRK SNew False where
  dev0 := fun h => h.elim
  dev := fun _ _ hR h => ⟨dfresh_of_devNew h, hR _ (Nat.le_refl _)⟩
  ctl := fun _ _ _ hR => ⟨⟨rfl, rfl, rfl, rfl, rfl, rfl, rfl⟩, hR _ (Nat.le_refl _)⟩
  still := fun h hi => InRK.dstep h rfl hi
  env := fun _ _ h => h

theorem ctxWB : Ctx PWB InRK SNB False where
  dev0 := fun h => h.elim
  dev := fun _ d hR h => ⟨⟨dfresh_of_devNew h.1, (devNB_iff d).1 h.2⟩, hR _ (Nat.le_refl _)⟩
  ctl := fun _ _ _ hR => ⟨⟨⟨rfl, rfl, rfl, rfl, rfl, rfl, rfl⟩, rfl, rfl⟩, hR _ (Nat.le_refl _)⟩
  still := fun h hi => InRK.dstep h rfl hi
  env := fun _ _ h => h

/-! ### the per-sink invariants at the creation sites -/

theorem RecvValInv.dstep {P : WKey → DKey → Prop} {ph : Phase}
    (hP : ∀ k d, P k d → DFresh d ∧ ∀ r ∈ k.recs, isReceivedBy k.devs.length r = false)
    {k k' : WKey} (h : DStep P ph k k') (hi : RecvValInv k) : RecvValInv k' := by
  refine h.lift RecvValInv.step ?_ (fun _ _ _ hi => hi) hi
  intro k d hp hi y
  rw [dev_newDev]
  split
  · rename_i e
    subst e
    intro _
    rw [(hP _ _ hp).1.2.2.2.1]
    exact (recvSum_zero (hP _ _ hp).2).symm
  · exact hi y

theorem CountInv.dstep {P : WKey → DKey → Prop} {ph : Phase}
    (hP : ∀ k d, P k d → (DFresh d ∧ d.genBatch = 0 ∧ d.bsize = none) ∧
      ∀ r ∈ k.recs, isReceivedBy k.devs.length r = false)
    {k k' : WKey} (h : DStep P ph k k') (hi : CountInv k) : CountInv k' := by
  refine h.lift CountInv.step ?_ (fun _ _ _ hi => hi) hi
  intro k d hp hi
  refine ⟨⟨fun y => ?_, hi.1.2⟩, fun y => ?_⟩
  · rw [dev_newDev]
    split
    · exact (hP _ _ hp).1.2
    · exact hi.1.1 y
  · rw [dev_newDev]
    split
    · rename_i e
      subst e
      intro _
      rw [(hP _ _ hp).1.1.2.2.1]
      rw [countRecv_zero (hP _ _ hp).2]
      rfl
    · exact hi.2 y

/-! ### records bounded by the device count -/

/-- Same devices; the log is extended by records whose `received_part` records are about existing
devices. -/
def RB (w w' : World) : Prop :=
  w'.devs.length = w.devs.length ∧
    ∃ l, w'.recs = w.recs ++ l ∧ ∀ r ∈ l, ∀ y, isReceivedBy y r = true → y < w.devs.length

theorem RB.refl (w : World) : RB w w := ⟨rfl, [], by simp, by simp⟩

theorem RB.trans {a b c : World} (h1 : RB a b) (h2 : RB b c) : RB a c := by
  obtain ⟨n1, l1, e1, t1⟩ := h1
  obtain ⟨n2, l2, e2, t2⟩ := h2
  refine ⟨n2.trans n1, l1 ++ l2, by rw [e2, e1, List.append_assoc], fun r hr y hy => ?_⟩
  rcases List.mem_append.1 hr with h | h
  · exact t1 r h y hy
  · rw [← n1]; exact t2 r h y hy

theorem RB.of_KS {ph : Phase} {w w' : World} (h : KS ph w w') (hm : ph.mv = false) : RB w w' := by
  obtain ⟨l, e, hl⟩ := KStep.quietRecs h hm
  refine ⟨h.devs_length, l, e, fun r hr y hy => ?_⟩
  rw [hl r hr y] at hy; cases hy

theorem RB.of_fst_eq {α} {w w' : World} {e : World × α} {b : α} (he : RB w e.1) (h : e = (w', b)) :
    RB w w' := by subst h; exact he

theorem RB.inR {w w' : World} (h : RB w w') (hi : InR w) : InR w' := by
  rw [inR_iff] at hi ⊢
  obtain ⟨n, l, e, t⟩ := h
  intro y hy r hr
  rw [e] at hr
  rw [n] at hy
  rcases List.mem_append.1 hr with h1 | h1
  · exact hi y hy r h1
  · cases hb : isReceivedBy y r with
    | false => rfl
    | true => exact absurd (t r h1 y hb) (by omega)

open C02W C02V in
theorem wired_of_st {w w' : World} (h : Wired w) (e : st w' = st w) : Wired w' := by
  unfold Wired
  rw [len_of_st e]
  exact WiredN.ext h (ExtN.of_st e)

/-! ### accepting a part -/

theorem RB_acceptPart (w : World) (x p : Nat) (hx : x < w.devs.length) : RB w (w.acceptPart x p) := by
  have hks := KS_acceptSite (ph := .flow) rfl w x p
  rw [acceptPart_eq, onReceived_eq']
  refine RB.trans ?_ (RB.of_KS (KS_recvTail (ph := .quiet) _ _ _) rfl)
  refine ⟨hks.devs_length, ?_⟩
  refine ⟨recvPre (acceptHead w x p) x p ++
    [Rec.received x (recvHead (acceptHead w x p) x p).now p
      ((recvHead (acceptHead w x p) x p).part p).quality ((recvHead (acceptHead w x p) x p).partValue p)], ?_, ?_⟩
  · show (recvHead (acceptHead w x p) x p).recs ++ [_] = _
    rw [recvHead_recs, RN_recs (RN_acceptHead w x p), List.append_assoc]
  · intro r hr y hy
    rcases List.mem_append.1 hr with h | h
    · unfold recvPre at h
      split at h
      · simp only [List.mem_singleton] at h; subst h; cases hy
      · cases h
    · simp only [List.mem_singleton] at h
      subst h
      have : x = y := by simpa [isReceivedBy] using hy
      rw [← this]; exact hx

open C02W C02V in
theorem RB_tryList (g : World → Nat → Nat → World × Bool)
    (hg : ∀ w y p, Wired w → y < w.devs.length → RB w (g w y p).1)
    (hs : ∀ w y p, st (g w y p).1 = st w) (w : World) (l : List Nat) (p : Nat)
    (hw : Wired w) (hl : ∀ y ∈ l, y < w.devs.length) : RB w (tryList g w l p).1 := by
  induction l generalizing w with
  | nil => exact RB.refl w
  | cons y ys ih =>
    rw [tryList]
    have h := hg w y p hw (hl y (List.mem_cons_self ..))
    have hst := hs w y p
    split
    · rename_i heq; rw [heq] at h; exact h
    · rename_i w' heq
      rw [heq] at h hst
      refine h.trans (ih _ (wired_of_st hw hst) (fun z hz => ?_))
      rw [h.1]; exact hl z (List.mem_cons_of_mem _ hz)

open C02W C02V in
theorem RB_give (n : Nat) : ∀ (w : World) (x p : Nat), Wired w → x < w.devs.length →
    RB w (give n w x p).1 := by
  induction n with
  | zero => intro w x p _ _; exact RB.of_KS (KS_setErr (ph := .quiet) _ _) rfl
  | succ n ih =>
    intro w x p hw hx
    have hT : ∀ (v : World) (z : Nat), Wired v → RB v (tryList (give n) v (v.sortedDown z) p).1 := by
      intro v z hv
      refine RB_tryList _ (fun a b c ha hb => ih a b c ha hb) (fun a b c => st_give n a b c) v _ p hv ?_
      intro y hy
      exact hv.down z y ((mem_sortedDown v z y).1 hy)
    have hq : ∀ {a b : World}, KS Phase.quiet a b → RB a b := fun h => RB.of_KS h rfl
    have hA : RB w (if w.canAcceptBasic x p = true then (w.acceptPart x p, true) else (w, false)).fst := by
      split
      · exact RB_acceptPart w x p hx
      · exact RB.refl _
    rw [give]
    dsimp only
    split
    · exact hA
    · exact hA
    · exact hA
    · exact hA
    · exact hA
    -- processor
    · split
      · have h1 := hq (KS_procAcquire w x)
        split
        · rename_i w1 heq
          rw [heq] at h1
          exact h1.trans (RB_acceptPart w1 x p (by rw [h1.1]; exact hx))
        · rename_i w1 heq
          rw [heq] at h1
          exact h1
      · exact RB.refl _
    -- gate
    · split
      · exact RB.refl _
      · split
        · exact RB.refl _
        · have h1 := hq (KS_addHist w p x)
          have hw1 : Wired (w.addHist p x) := wired_of_st hw (st_addHist ..)
          have h2 := hT (w.addHist p x) x hw1
          split
          · rename_i w2 heq
            rw [heq] at h2
            exact h1.trans h2
          · rename_i w2 heq
            rw [heq] at h2
            exact (h1.trans h2).trans (hq (KS_dropHist _ _))
    -- ginput
    · split
      · exact RB.refl _
      · exact hT w x hw
    -- gpath
    · split
      · exact RB.refl _
      · generalize hv : (w.modPart p (fun r => { r with stack := r.stack ++ [x] })).addHist p x = v
        have h1 : RB w v := by
          rw [← hv]; exact hq ((KS_modPart w p _ rfl).trans (KS_addHist _ _ _))
        have hst : st v = st w := by
          rw [← hv, st_addHist]; rfl
        have hw1 := wired_of_st hw hst
        have hin : ginp v (w.dev x).group < v.devs.length := by
          rcases hw1.gin (w.dev x).group with h | h
          · rw [h, h1.1]; omega
          · exact h
        have h2 := ih v _ p hw1 hin
        unfold ginp at h2
        split
        · rename_i w2 heq
          rw [heq] at h2
          exact h1.trans h2
        · rename_i w2 heq
          rw [heq] at h2
          exact (h1.trans h2).trans (hq ((KS_modPart _ _ _ rfl).trans (KS_dropHist _ _)))
    -- goutput
    · split
      · exact hq (KS_setErr _ _)
      · rename_i g _
        generalize hv : w.modPart p (fun r => { r with stack := r.stack.dropLast }) = v
        have h1 : RB w v := by rw [← hv]; exact hq (KS_modPart w p _ rfl)
        have hw1 : Wired v := wired_of_st hw (by rw [← hv]; rfl)
        have h2 := hT v g hw1
        split
        · rename_i w2 heq
          rw [heq] at h2
          exact h1.trans h2
        · rename_i w2 heq
          rw [heq] at h2
          exact (h1.trans h2).trans (hq (KS_modPart _ _ _ rfl))

open C02W C02V in
theorem RB_givePart (w : World) (x p : Nat) (hw : Wired w) (hx : x < w.devs.length) :
    RB w (w.givePart x p).1 := RB_give _ w x p hw hx

open C02W C02V in
theorem RB_tryList_givePart (w : World) (z p : Nat) (hw : Wired w) :
    RB w (tryList givePart w (w.sortedDown z) p).1 := by
  refine RB_tryList _ (fun a b c ha hb => RB_givePart a b c ha hb) (fun a b c => st_givePart a b c) w _ p hw ?_
  intro y hy
  exact hw.down z y ((mem_sortedDown w z y).1 hy)

/-! ### passing parts downstream -/

open C02W C02V in
theorem RB_passHandler (w : World) (x : Nat) (hw : Wired w) : RB w (w.passHandler x) := by
  have hq : ∀ {a b : World}, KS Phase.quiet a b → RB a b := fun h => RB.of_KS h rfl
  unfold passHandler
  dsimp only
  split
  · exact RB.refl _
  · split
    · exact RB.refl _
    · rename_i p _
      have h1 := RB_tryList_givePart w x p hw
      split
      · rename_i w1 heq
        rw [heq] at h1
        exact h1.trans (hq ((KS_modDev _ _ _ rfl).trans (KS_notify _ _)))
      · rename_i w1 heq
        rw [heq] at h1
        exact h1.trans (hq (KS_modDev _ _ _ rfl))

theorem RB_releaseStep (w : World) (x n : Nat) : RB w (releaseStep w x n) := by
  unfold releaseStep
  dsimp only
  refine ⟨by simp [World.addRec, World.modDev, World.setDev], [_], rfl, fun r hr y hy => ?_⟩
  simp only [List.mem_singleton] at hr
  subst hr
  cases hy

open C02W C02V in
theorem st_releaseStep (w : World) (x n : Nat) : st (releaseStep w x n) = st w := by
  unfold releaseStep
  dsimp only
  rw [st_addRec]
  exact st_modDev_same _ _ _ (fun _ => rfl)

open C02W C02V in
theorem RB_bufferLoop (n : Nat) (w : World) (x : Nat) (hw : Wired w) : RB w (bufferLoop n w x) := by
  induction n generalizing w with
  | zero => exact RB.refl _
  | succ n ih =>
    rw [bufferLoop_succ]
    split
    · exact RB.refl _
    · rename_i t p rest hbuf
      split
      · exact RB.refl _
      · have hT := RB_tryList_givePart w x p hw
        have hst := st_tryGive w (w.sortedDown x) p
        split
        · rename_i w1 heq
          rw [heq] at hT hst
          have h2 := RB_releaseStep w1 x (w.leafCount p)
          have hw2 : Wired (releaseStep w1 x (w.leafCount p)) :=
            wired_of_st hw ((st_releaseStep w1 x _).trans hst)
          exact (hT.trans h2).trans (ih _ hw2)
        · rename_i w1 heq
          rw [heq] at hT
          exact hT

open C02W C02V in
theorem RB_passPart (w : World) (x : Nat) (hw : Wired w) : RB w (w.passPart x) := by
  have hq : ∀ {a b : World}, KS Phase.still a b → RB a b := fun h => RB.of_KS h rfl
  by_cases hk : (w.dev x).kind = .source
  · rw [passPart_source_eq w x hk]
    split
    · exact RB.refl _
    · split
      · exact RB.refl _
      · rename_i p _
        have h1 := RB_passHandler w x hw
        split
        · have hk1 : ((w.passHandler x).dev x).kind = .source :=
            ((KS_passHandler (ph := .flow) rfl w x).kind x).trans hk
          exact (h1.trans (hq (KS_supplySite rfl _ x p _ hk1))).trans (hq (KS_scheduleFinish _ _))
        · exact h1
  · unfold passPart
    dsimp only
    split
    · contradiction
    · -- buffer
      refine RB.trans ?_ (hq (KS_notify _ _))
      generalize hv : bufferLoop ((w.dev x).buf.length + 1) w x = v
      have h1 : RB w v := by rw [← hv]; exact RB_bufferLoop _ w x hw
      split
      · exact h1
      · split
        · exact h1.trans (hq (KS_schedulePass _ _ _))
        · exact h1.trans (hq (KS_setDev _ _ _ rfl))
    · -- batcher
      have h1 := RB_passHandler w x hw
      split
      · exact h1.trans (hq (KS_tryMove _ _))
      · exact h1
    · exact RB.refl _
    · exact RB_passHandler w x hw

/-! ### the class of worlds with closed wiring (`C02W.DynN`) -/

/-- Outside operations: constructor-fresh payloads, admissible at the current device count
(`C02W.OpsOK`: re-wired devices exist, created devices name existing downstream neighbours, …). -/
def AW (need : Nat → Nat) : World → List Op → Prop :=
  fun w l => (∀ op ∈ l, opNew op = true) ∧ C02W.OpsOK need w.devs.length l

/-- … and no created device is set up for batches. -/
def AWB (need : Nat → Nat) : World → List Op → Prop :=
  fun w l => (∀ op ∈ l, opNew op = true ∧ opNB op = true) ∧ C02W.OpsOK need w.devs.length l

open C02W C02V in
theorem clsW (need : Nat → Nat) (A : World → List Op → Prop)
    (hA : ∀ w l, A w l → OpsOK need w.devs.length l) : Cls (DynN need) A InRK where
  step := fun h hst => dynN_step _ _ _ h hst
  setErr := fun _ _ h => h.of_st (st_setErr ..) (scr_setErr ..) (tg_setErr ..)
  init := fun w h => dyn_simulateInit w h
  runBegin := fun w d h => dyn_runBegin w d h
  ops := fun w l h ha => (dyn_applyOps l w w.devs.length h (Nat.le_refl _) (hA w l ha)).1
  pass := fun w h env' d hi =>
    (RB_passPart ({ w with env := env' } : World) d ⟨h.wired.down, h.wired.gin⟩).inR hi

end C15D
end SimProc
