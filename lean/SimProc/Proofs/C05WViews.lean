/-
C05W / C17W machinery, part 1: the auxiliary view `bv` of a world (per device: level, queue with
arrival times, capacity, delay, batch size, shell under construction; and the clock), and the queue
invariant `EI` of the environment.  Frame lemmas for every function of `Model/Floor.lean` and
`Model/World.lean` that does not change them.
-/
import SimProc.Proofs.StaticWorld
import SimProc.Proofs.C05Lemmas
import SimProc.Props.C01
namespace SimProc
namespace C05W
open World C02V

/-- The fields of a device that neither the slot view `sv` nor the static view `st` shows and that
the buffer / batcher contracts talk about. -/
structure BDev where
  level : Nat
  buf : List (Int × Nat)
  cap : Option Nat
  delay : Int
  bsize : Option Nat
  inprog : Option Nat

def bdev (d : Dev) : BDev := ⟨d.level, d.buf, d.cap, d.delay, d.bsize, d.inprog⟩

/-- Auxiliary view: the `BDev`s and the clock. -/
def bv (w : World) : List BDev × Int := (w.devs.map bdev, w.env.now)

theorem bdev_of_bv {w w' : World} (h : bv w' = bv w) (x : Nat) : bdev (w'.dev x) = bdev (w.dev x) := by
  have h1 : w'.devs.map bdev = w.devs.map bdev := congrArg Prod.fst h
  have := congrArg (fun l => l.getD x (bdev default)) h1
  simpa [World.dev, List.getD_eq_getElem?_getD, List.getElem?_map] using this

theorem now_of_bv {w w' : World} (h : bv w' = bv w) : w'.now = w.now := congrArg Prod.snd h

theorem len_of_bv {w w' : World} (h : bv w' = bv w) : w'.devs.length = w.devs.length := by
  have h1 : w'.devs.map bdev = w.devs.map bdev := congrArg Prod.fst h
  simpa using congrArg List.length h1

/-! ### primitive updates -/

section prim
variable (w : World)

theorem bv_setErr (m : String) : bv (w.setErr m) = bv w := by
  unfold World.setErr; split <;> rfl
theorem bv_addRec (r : Rec) : bv (w.addRec r) = bv w := rfl
theorem bv_addRes (r : Res) : bv (w.addRes r) = bv w := rfl

theorem bv_sched (t a : Int) (act : Action) (p : Int) : bv (w.sched t a act p).1 = bv w := by
  unfold World.sched
  simp only []
  split
  · rename_i e he
    have := Env.apply_sched_now Arith.exact w.env t a act.toNat p (weightOf w.seed w.wmod t a act.toNat p)
    rw [he] at this
    simp only [bv]
    rw [show e.now = w.env.now from this]
  · rfl

theorem bv_schedLib (t a : Int) (act : Action) (p : Int) : bv (w.schedLib t a act p) = bv w := by
  have := bv_sched w t a act p
  unfold World.schedLib
  split
  · simp_all
  · rw [bv_setErr]; simp_all

theorem bv_envOp (op : EnvOp) (h : op ≠ .step) : bv (w.envOp op) = bv w := by
  unfold World.envOp bv
  simp only [C01.now_apply_ne_step Arith.exact w.env op h]

theorem bv_pause (a : Int) : bv (w.envOp (.pause a)) = bv w := bv_envOp w _ (by intro h; cases h)
theorem bv_unpause (a : Int) : bv (w.envOp (.unpause a)) = bv w := bv_envOp w _ (by intro h; cases h)
theorem bv_cancel (a : Int) : bv (w.envOp (.cancel a)) = bv w := bv_envOp w _ (by intro h; cases h)

theorem bv_rmEffects (recs : List ResRec) (c : Bool) : bv (w.rmEffects recs c) = bv w := by
  unfold World.rmEffects
  have h : bv (recs.foldl (fun w r => w.addRec (.resUpdate r.res w.now r.inUse r.cap)) w) = bv w :=
    foldl_proj bv _ _ _ (fun _ _ => rfl)
  simp only []; split
  · rw [bv_schedLib, h]
  · exact h

theorem bv_setDev_same (x : Nat) (d : Dev) (h : bdev d = bdev (w.dev x)) : bv (w.setDev x d) = bv w := by
  simp only [bv, World.setDev]
  rw [map_set_getD_self bdev w.devs x default d h]

theorem bv_modDev_same (x : Nat) (f : Dev → Dev) (h : ∀ d, bdev (f d) = bdev d) :
    bv (w.modDev x f) = bv w := bv_setDev_same w x _ (h _)

theorem bv_modPart (p : Nat) (f : PartRec → PartRec) : bv (w.modPart p f) = bv w := rfl
theorem bv_newPart (r : PartRec) : bv (w.newPart r).1 = bv w := rfl

end prim

macro_rules | `(tactic| fr_step) => `(tactic| first
  | rw [bv_setErr] | rw [bv_schedLib] | rw [bv_rmEffects] | rw [bv_sched]
  | rw [bv_setDev_same] | rw [bv_modDev_same] | rw [bv_modPart] | rw [bv_newPart]
  | rw [bv_addRec] | rw [bv_addRes]
  | rw [bv_pause] | rw [bv_unpause] | rw [bv_cancel]
  | rw [foldl_proj bv])

/-! ### `Model/Floor.lean` -/

section
variable (w : World)

theorem bv_setWaiting (x : Nat) (a b : Bool) : bv (w.setWaiting x a b) = bv w := by
  unfold World.setWaiting; frame
frame_lemma1 bv_setWaiting
theorem bv_schedulePass (x : Nat) (o : Int) : bv (w.schedulePass x o) = bv w := by
  unfold World.schedulePass; frame
frame_lemma1 bv_schedulePass

theorem bv_notify (x : Nat) : bv (w.notify x) = bv w :=
  (notify_proj bv (fun w => bv_setWaiting w) (fun w => bv_schedulePass w) (fun w => bv_setErr w) _ w x).1
theorem bv_spaceAvailable (x : Nat) : bv (w.spaceAvailable x) = bv w :=
  (notify_proj bv (fun w => bv_setWaiting w) (fun w => bv_schedulePass w) (fun w => bv_setErr w) _ w x).2
frame_lemma1 bv_notify
frame_lemma1 bv_spaceAvailable

theorem bv_releaseReserved (x : Nat) : bv (w.releaseReserved x) = bv w := by
  unfold World.releaseReserved; frame
frame_lemma1 bv_releaseReserved
theorem bv_procAcquire (x : Nat) : bv (w.procAcquire x).1 = bv w := by
  unfold World.procAcquire; frame
frame_lemma1 bv_procAcquire
theorem bv_applyPartCb (x p : Nat) (c : PartCb) : bv (w.applyPartCb x p c) = bv w := by
  unfold World.applyPartCb; frame
frame_lemma1 bv_applyPartCb
theorem bv_senseOutput (s p : Nat) : bv (w.senseOutput s p) = bv w := by
  unfold World.senseOutput; frame
frame_lemma1 bv_senseOutput
theorem bv_addHist (p d : Nat) : bv (w.addHist p d) = bv w := by
  unfold World.addHist; frame
frame_lemma1 bv_addHist
theorem bv_dropHist (p : Nat) : bv (w.dropHist p) = bv w := by
  unfold World.dropHist; frame
frame_lemma1 bv_dropHist
theorem bv_shutdownDev (x : Nat) (f : Bool) (l : Option Nat) : bv (w.shutdownDev x f l) = bv w := by
  unfold World.shutdownDev; frame
frame_lemma1 bv_shutdownDev
theorem bv_restoreDev (x : Nat) : bv (w.restoreDev x) = bv w := by
  unfold World.restoreDev; frame
frame_lemma1 bv_restoreDev
theorem bv_releaseIfIdle (x : Nat) : bv (w.releaseIfIdle x) = bv w := by
  unfold World.releaseIfIdle; frame
frame_lemma1 bv_releaseIfIdle
theorem bv_procResourceCb (x : Nat) : bv (w.procResourceCb x) = bv w := by
  unfold World.procResourceCb; frame
frame_lemma1 bv_procResourceCb
theorem bv_setBlock (x : Nat) (b : Bool) : bv (w.setBlock x b) = bv w := by
  unfold World.setBlock; frame
frame_lemma1 bv_setBlock
theorem bv_adjustParts (x : Nat) (v : Int) : bv (w.adjustParts x v) = bv w := by
  unfold World.adjustParts; frame
frame_lemma1 bv_adjustParts

theorem bv_finishCycleHandler (x : Nat) : bv (w.finishCycleHandler x) = bv w := by
  unfold World.finishCycleHandler; frame
frame_lemma1 bv_finishCycleHandler
theorem bv_genPart (x : Nat) : bv (w.genPart x).1 = bv w := by
  cases h : ((w.dev x).genBatch == 0)
  · rw [genPart_batch w x h]; rfl
  · rw [genPart_leaf w x h]; rfl
frame_lemma1 bv_genPart
theorem bv_finishCycle (x : Nat) : bv (w.finishCycle x) = bv w := by
  unfold World.finishCycle; frame
frame_lemma1 bv_finishCycle
theorem bv_scheduleFinish (x : Nat) : bv (w.scheduleFinish x) = bv w := by
  unfold World.scheduleFinish; frame
frame_lemma1 bv_scheduleFinish

theorem bv_failDev (x : Nat) : bv (w.failDev x) = bv w := by
  unfold World.failDev; frame
frame_lemma1 bv_failDev
theorem bv_initDev (x : Nat) : bv (w.initDev x) = bv w := by
  unfold World.initDev; frame
frame_lemma1 bv_initDev

end

end C05W
end SimProc
