/-
C06T (exact cycle times over whole runs), part 6: where timers come from.  A timer that is new after
a step of the event loop (its uid was not allocated before) was created by an `_accept_part` of its
device in the course of the step's action; for a handler or processor its initial remaining work is
the cycle time in effect (`acceptDelay`), which is positive.
-/
import SimProc.Proofs.C06TStep
namespace SimProc
namespace C06T
open World FloorCoreL C06W

/-! ### the effect of one atomic move on one device, exactly -/

theorem Atom.eff {F : Nat → Prop} {w w' : World} (h : FI w) (a : Atom F w w') (y : Nat)
    (hk : (w.dev y).kind ≠ .source) :
    Same w w' y ∨
    (∃ p, y < w.devs.length ∧ isT (w.dev y).kind = true ∧ w.canAcceptBasic y p = true ∧
      w' = w.acceptPart y p) ∨ F y := by
  cases a with
  | frame f => exact Or.inl (same_of_fr f hk)
  | accept x p hx hT hc =>
    obtain ⟨h1, h2, h3⟩ := canAccept_T' hT hc
    by_cases hy : y = x
    · subst hy; exact Or.inr (Or.inl ⟨p, hx, hT, hc, rfl⟩)
    · exact Or.inl (same_of_loc_ne (loc_acceptPart h p hx hT h1 h2 h3) hy hk)
  | clear x => exact Or.inl (same_clear w x y)
  | shutdown x hkx =>
    by_cases hy : y = x
    · subst hy; exact Or.inl (same_shutdown h hkx)
    · exact Or.inl (same_of_loc_ne (loc_shutdown h hkx) hy hk)
  | restore x hkx =>
    by_cases hy : y = x
    · subst hy; exact Or.inl (same_restore h hkx)
    · exact Or.inl (same_of_loc_ne (loc_restoreDev h hkx) hy hk)
  | fail x hkx hFx =>
    by_cases hy : y = x
    · subst hy; exact Or.inr (Or.inr hFx)
    · exact Or.inl (same_of_loc_ne (loc_failDev h hkx) hy hk)

theorem rem_singleton_of_mem {w : World} (h : FI w) {x : Nat} (hk : (w.dev x).kind ≠ .source)
    {u : Nat} {r : Int} (hm : (u, r) ∈ rem w.env x) : rem w.env x = [(u, r)] := by
  have hl := timerAt_rem_le_one (h.timer x hk)
  match hr : rem w.env x, hl, hm with
  | [a], _, hm =>
    rw [List.mem_singleton.mp hm]

/-- **Birth.**  A timer of a device that does not fail which exists after a sequence of atomic moves
and whose uid was not allocated before was created by an `accept` move of that device: there is an
intermediate state `wm` of the sequence in which the device can accept a part `p`, the accept creates
exactly this timer, and the part is still in process at the end. -/
theorem Moves.birth {F : Nat → Prop} {w w' : World} (m : Moves F w w') (h : FI w) {x : Nat}
    (hk : (w.dev x).kind ≠ .source) (hF : ¬ F x) {u : Nat} {r : Int}
    (hm : (u, r) ∈ rem w'.env x) (hu : w.env.nextUid ≤ u) :
    ∃ wm p, Moves F w wm ∧ FI wm ∧ wm.now = w.now ∧ x < wm.devs.length ∧
      isT (wm.dev x).kind = true ∧ wm.canAcceptBasic x p = true ∧
      rem (wm.acceptPart x p).env x = [(u, r)] ∧
      (tdm (w'.dev x)).part = (tdm ((wm.acceptPart x p).dev x)).part := by
  induction m with
  | refl w =>
    have := rem_uid_lt h.ei hm
    omega
  | @cons w w1 w2 h0 a m ih =>
    have g := a.good h0
    have hk1 : (w1.dev x).kind ≠ .source := by rw [(g.2.ka x).1]; exact hk
    by_cases hu1 : w1.env.nextUid ≤ u
    · obtain ⟨wm, p, mv, g1, g2, g3, g4, g5, g6, g7⟩ := ih g.1 hk1 hm hu1
      exact ⟨wm, p, .cons h0 a mv, g1, g2.trans g.2.now, g3, g4, g5, g6, g7⟩
    · have hm1 : (u, r) ∈ rem w1.env x := by
        rcases (m.good g.1).2.rem x hk1 with h1 | h1 | ⟨u0, r0, h1, hu0⟩
        · rw [← h1]; exact hm
        · rw [h1] at hm; cases hm
        · rw [h1] at hm
          simp only [List.mem_singleton, Prod.mk.injEq] at hm
          omega
      have hsame : Same w1 w2 x := by
        rcases m.trk x hk1 hF with h1 | h1
        · rw [h1] at hm1; cases hm1
        · exact h1
      rcases a.eff h0 x hk with hs | ⟨p, hx, hT, hc, rfl⟩ | hf
      · rw [hs.1] at hm1
        have := rem_uid_lt h0.ei hm1
        omega
      · exact ⟨w, p, .refl _, h0, rfl, hx, hT, hc, rem_singleton_of_mem g.1 hk1 hm1, hsame.2⟩
      · exact absurd hf hF

/-! ### accepting a part: the timer of a handler or processor -/

/-- `C06W.accept_starts_timer` from the floor invariant alone. -/
theorem accept_rem_pos {w : World} (h : FI w) {x : Nat} (p : Nat) (hx : x < w.devs.length)
    (hk : (w.dev x).kind = .processor ∨ (w.dev x).kind = .handler)
    (hacc : w.canAcceptBasic x p = true) (hc : 0 < w.acceptDelay x p) :
    rem (w.acceptPart x p).env x = [(w.env.nextUid, w.acceptDelay x p)] := by
  have hT : isT (w.dev x).kind = true := by rcases hk with hk | hk <;> rw [hk] <;> rfl
  obtain ⟨hp, _, _⟩ := canAccept_T' hT hacc
  have hi := (h.timer x (isT_ne_source hT)).idle (by rw [tdm_part hT]; exact hp)
  obtain ⟨henv, _⟩ := C06.accept_schedules_finish w p hx hk hacc hc
  unfold rem finE finP
  rw [henv]
  simp only []
  have h1 : (insort
      { uid := w.env.nextUid, time := w.now + w.acceptDelay x p, prio := pFinish,
        weight := weightOf w.seed w.wmod (w.now + w.acceptDelay x p) (w.dev x).aid
          (Action.finishCycle x).toNat pFinish,
        asset := (w.dev x).aid, act := (Action.finishCycle x).toNat, pausedAt := none,
        cancelled := false } w.env.events).filter (isFin x) = [_] :=
    filter_insort_pos_nil _ _ _ (by simp [isFin, Event.live, finAct]) hi.1
  rw [h1]
  have h2 : w.env.paused.filter (isFin x) = [] := hi.2
  rw [h2]
  simp only [List.map_cons, List.map_nil, List.append_nil]
  congr 2
  show w.now + w.acceptDelay x p - w.now = _
  omega

/-- A handler that accepts a part with delay zero finishes it at once: the input slot is empty
again. -/
theorem accept_handler_at_once (w : World) {x : Nat} (p : Nat) (hx : x < w.devs.length)
    (hk : (w.dev x).kind = .handler) (hacc : w.canAcceptBasic x p = true)
    (hc : w.acceptDelay x p ≤ 0) : ((w.acceptPart x p).dev x).part = none := by
  obtain ⟨_, _, ho0⟩ := canAccept_fields w (Or.inr hk) hacc
  have hpre := acceptPre_dev_same w p hx
  have hlen := (acceptPre_frame w x p).2.2.2
  have hx1 : x < (w.acceptPre x p).devs.length := by rw [hlen]; exact hx
  have hk1 : ((w.acceptPre x p).dev x).kind = .handler := by
    rw [hpre, recvDev_field Dev.kind (fun _ _ _ => rfl)]; exact hk
  have ho1 : ((w.acceptPre x p).dev x).output = none := by
    rw [hpre, recvDev_field Dev.output (fun _ _ _ => rfl)]; exact ho0
  have hp1 : ((w.acceptPre x p).dev x).part = some p := by
    rw [hpre, recvDev_field Dev.part (fun _ _ _ => rfl)]
  have hop1 : (w.acceptPre x p).operational x = true := by simp [operational, hk1]
  rw [acceptPart_eq w p (Or.inr hk)]
  simp only [ho1, Option.isNone_none, if_true]
  rw [tryMove_handler _ hk1]
  simp only [hop1, hp1, ho1, Option.isSome_some, Option.isNone_none, Bool.and_self, if_true]
  rw [scheduleFinish_nonpos _ x hc]
  have hd0 : (((w.acceptPre x p).setDev x { (w.acceptPre x p).dev x with offset := 0 }).dev x) =
      { (w.acceptPre x p).dev x with offset := 0 } := dev_setDev_same hx1
  have hk2 : ((((w.acceptPre x p).setDev x { (w.acceptPre x p).dev x with offset := 0 }).dev x)).kind =
      .handler := by rw [hd0]; exact hk1
  rw [C06.finish_releases_part_handler _ hk2 (p := p) (by rw [hd0]; exact hp1) (by rw [hd0]; exact ho1)]
  rw [core_eq_dev_part (schedulePass_core _ _ _), dev_setDev_same (by simpa using hx1)]

/-- The timer a handler or processor has after accepting a part, if it has one: created by this
accept (uid = the old counter), with remaining work `acceptDelay` — the cycle time plus one-shot
offset in effect after the receive callbacks, floored at zero (`C06.acceptDelay_spec`) —, which is
positive; the accepted part is in the input slot. -/
theorem accept_timer {w : World} (h : FI w) {x : Nat} (p : Nat) (hx : x < w.devs.length)
    (hk : (w.dev x).kind = .processor ∨ (w.dev x).kind = .handler)
    (hacc : w.canAcceptBasic x p = true) {u : Nat} {r : Int}
    (hm : (u, r) ∈ rem (w.acceptPart x p).env x) :
    0 < w.acceptDelay x p ∧ r = w.acceptDelay x p ∧ u = w.env.nextUid ∧
    ((w.acceptPart x p).dev x).part = some p := by
  have hT : isT (w.dev x).kind = true := by rcases hk with hk | hk <;> rw [hk] <;> rfl
  by_cases hc : 0 < w.acceptDelay x p
  · rw [accept_rem_pos h p hx hk hacc hc] at hm
    simp only [List.mem_singleton, Prod.mk.injEq] at hm
    exact ⟨hc, hm.2, hm.1, (C06.accept_schedules_finish w p hx hk hacc hc).2.1⟩
  · exfalso
    have hc' : w.acceptDelay x p ≤ 0 := Int.not_lt.1 hc
    have g : Good w (w.acceptPart x p) := (Atom.accept (F := fun _ => False) x p hx hT hacc).good h
    have hk' : ((w.acceptPart x p).dev x).kind = (w.dev x).kind := (g.2.ka x).1
    have hT' : isT ((w.acceptPart x p).dev x).kind = true := by rw [hk']; exact hT
    have hnone : ((w.acceptPart x p).dev x).part = none := by
      rcases hk with hk | hk
      · exact (C06.accept_finishes_at_once w p hk hacc hc').2.1
      · exact accept_handler_at_once w p hx hk hacc hc'
    rw [timerAt_rem_nil (g.1.timer x (isT_ne_source hT')) (by rw [tdm_part hT']; exact hnone)] at hm
    cases hm

/-! ### accepting a part: the timer of any timing device (handler, processor, sink) -/

/-- The world in which `_accept_part` reaches `_try_move_part_to_output`: the part is in the input
slot, the bookkeeping is done and the receive callbacks have run. -/
def recvState (w : World) (x p : Nat) : World := C02V.recvBook (C02V.acceptPre w x p) x p

/-- The delay of the cycle that starts when `x` accepts `p`: cycle time plus one-shot offset in
effect after the receive callbacks ran, floored at zero. -/
def startDelay (w : World) (x p : Nat) : Int := (recvState w x p).finishDelay x

theorem startDelay_eq (w : World) (x p : Nat) :
    startDelay w x p =
      max 0 ((recvState w x p).cycleTime x + ((recvState w x p).dev x).offset) :=
  finishDelay_eq_max _ _

/-- `_schedule_finish_cycle` from the `Mid` state: a timer exists afterwards only if the delay is
positive; it is then the new event with remaining work the delay, and the part stays in process. -/
theorem sched_timer {W : World} {x : Nat} (h : Mid W x) {u : Nat} {r : Int}
    (hm : (u, r) ∈ rem (W.scheduleFinish x).env x) :
    0 < W.finishDelay x ∧ r = W.finishDelay x ∧ u = W.env.nextUid ∧
    ((W.scheduleFinish x).dev x).part = (W.dev x).part := by
  have hx := h.hx
  have f0 : Fr None_ W (W.setDev x { W.dev x with offset := 0 }) := fr_setDev_same _ _ _ rfl
  have hd0 : (W.setDev x { W.dev x with offset := 0 }).dev x = { W.dev x with offset := 0 } :=
    dev_setDev_same hx
  by_cases hc : 0 < W.finishDelay x
  · rw [scheduleFinish_pos W x hc] at hm ⊢
    have hle : (W.setDev x { W.dev x with offset := 0 }).now ≤ W.now + W.finishDelay x := by
      show W.now ≤ _; omega
    obtain ⟨g, hdevs, hE, hP⟩ := schedLib_finish (W.setDev x { W.dev x with offset := 0 })
      (W.now + W.finishDelay x) (W.dev x).aid x pFinish hle h.nofin.1
    have hdev : ((W.setDev x { W.dev x with offset := 0 }).schedLib (W.now + W.finishDelay x)
        (W.dev x).aid (.finishCycle x) pFinish).dev x = { W.dev x with offset := 0 } := by
      rw [dev_congr hdevs, hd0]
    have hP' : finP ((W.setDev x { W.dev x with offset := 0 }).schedLib (W.now + W.finishDelay x)
        (W.dev x).aid (.finishCycle x) pFinish).env x = [] := hP.trans h.nofin.2
    have hrem : rem ((W.setDev x { W.dev x with offset := 0 }).schedLib (W.now + W.finishDelay x)
        (W.dev x).aid (.finishCycle x) pFinish).env x = [(W.env.nextUid, W.finishDelay x)] := by
      unfold rem
      rw [hE, hP']
      have hn : ((W.setDev x { W.dev x with offset := 0 }).schedLib (W.now + W.finishDelay x)
        (W.dev x).aid (.finishCycle x) pFinish).env.now = W.now := g.now
      simp only [List.map_cons, List.map_nil, List.append_nil, newEv, Env.newEvent, hn]
      congr 2
      show W.now + W.finishDelay x - W.now = _
      omega
    rw [hrem] at hm
    simp only [List.mem_singleton, Prod.mk.injEq] at hm
    exact ⟨hc, hm.2, hm.1, by rw [hdev]⟩
  · exfalso
    rw [scheduleFinish_nonpos W x (Int.not_lt.1 hc)] at hm
    have hm0 := h.of_fr f0
    obtain ⟨p, hp⟩ := Option.isSome_iff_exists.mp hm0.part
    have l := loc_finishCycle hm0
    have hs := (finishCycle_slots hm0 hp).1
    rw [timerAt_rem_nil (l.at_ hm0.ne_source) hs] at hm
    cases hm

theorem finishDelay_congr {W W' : World} {x : Nat} (hk : (W'.dev x).kind = (W.dev x).kind)
    (hc : (W'.dev x).cycle = (W.dev x).cycle) (ho : (W'.dev x).offset = (W.dev x).offset) :
    W'.finishDelay x = W.finishDelay x := by
  unfold finishDelay cycleTime
  rw [hk, hc, ho]

/-- **The timer any timing device has after accepting a part**, if it has one: created by this
accept, with remaining work `startDelay` (positive); the accepted part is in the input slot. -/
theorem accept_timer_T {w : World} (h : FI w) {x : Nat} (p : Nat) (hx : x < w.devs.length)
    (hT : isT (w.dev x).kind = true) (hacc : w.canAcceptBasic x p = true) {u : Nat} {r : Int}
    (hm : (u, r) ∈ rem (w.acceptPart x p).env x) :
    0 < startDelay w x p ∧ r = startDelay w x p ∧ ((w.acceptPart x p).dev x).part = some p := by
  obtain ⟨hp, ho, hop⟩ := canAccept_T' hT hacc
  -- the `Mid` state in which `onReceived` is called
  have hmid : Mid (C02V.acceptPre w x p) x := by
    unfold C02V.acceptPre
    dsimp only
    have f0 := fr_acceptPre0 (X := None_) w x p
    generalize (if (w.dev x).kind == .sink then
      ({ w with delivered := w.delivered ++ w.leavesOf p } : World) else w) = w0 at f0 ⊢
    have h0 : FI w0 := (f0.good h).1
    have e0 := f0.tdm_eq x
    have hT0 : isT (w0.dev x).kind = true := by rw [f0.kind]; exact hT
    have hm := mid_of_accept h0 p (f0.len ▸ hx) hT0
      (by rw [← tdm_part hT0, e0, tdm_part hT]; exact hp)
      (by rw [← tdm_output hT0, e0, tdm_output hT]; exact ho)
      (by rw [operational_eq, e0, ← operational_eq]; exact hop)
    have f2 : Fr None_ (w0.modDev x (fun d => { d with part := some p }))
        (((w0.modDev x (fun d => { d with part := some p })).addHist p x).setWaiting x false false) :=
      (fr_addHist _ _ _).trans (fr_setWaiting _ _ _ _)
    exact hm.of_fr f2
  have hmb : Mid (recvState w x p) x := hmid.of_fr (fr_recvBook (C02V.acceptPre w x p) x p)
  -- the part in the input slot is `p`
  have hpart : ((recvState w x p).dev x).part = some p := by
    have hs : C02V.sv (recvState w x p) = C02V.accept (C02V.sv w) x p (C02V.sdev (w.dev x)) := by
      unfold recvState
      rw [C02V.sv_recvBook, C02V.sv_acceptPre]
    have hd : C02V.sdev ((recvState w x p).dev x) = { C02V.sdev (w.dev x) with part := some p } := by
      have := congrArg (fun a => a.dev x) hs
      simp only [C02V.sv_dev] at this
      rw [this]
      simp [C02V.accept, C02V.SV.dev, C02V.sv, hx]
    exact congrArg C02V.SDev.part hd
  have hcond : ((recvState w x p).operational x && ((recvState w x p).dev x).part.isSome &&
      ((recvState w x p).dev x).output.isNone) = true := by
    simp [hmb.op, hmb.part, hmb.out]
  have hacc_eq : w.acceptPart x p = (recvState w x p).tryMove x := by
    rw [C02V.acceptPart_eq, C02V.onReceived_eq]
    show (if ((recvState w x p).dev x).output.isNone then (recvState w x p).tryMove x
      else recvState w x p) = _
    rw [hmb.out]; rfl
  rw [hacc_eq] at hm ⊢
  have hTb := hmb.kT
  cases hk : ((recvState w x p).dev x).kind
  case processor =>
    rw [tryMove_proc _ hk, if_pos hcond] at hm ⊢
    have hm2 := hmb.setDev { (recvState w x p).dev x with lastUseStart := some (recvState w x p).now }
      rfl rfl rfl rfl rfl rfl
    obtain ⟨a1, a2, _, a4⟩ := sched_timer hm2 hm
    have hd := dev_setDev_same (w := recvState w x p) (d := x)
      (x := { (recvState w x p).dev x with lastUseStart := some (recvState w x p).now }) hmb.hx
    have e : ((recvState w x p).setDev x
        { (recvState w x p).dev x with lastUseStart := some (recvState w x p).now }).finishDelay x =
        startDelay w x p := finishDelay_congr (by rw [hd]) (by rw [hd]) (by rw [hd])
    rw [e] at a1 a2
    exact ⟨a1, a2, by rw [a4, hd]; exact hpart⟩
  case handler =>
    rw [tryMove_handler _ hk, if_pos hcond] at hm ⊢
    obtain ⟨a1, a2, _, a4⟩ := sched_timer hmb hm
    exact ⟨a1, a2, a4.trans hpart⟩
  case sink =>
    have e : (recvState w x p).tryMove x = (recvState w x p).scheduleFinish x := by
      unfold World.tryMove
      simp only [hk, hcond, if_true]
    rw [e] at hm ⊢
    obtain ⟨a1, a2, _, a4⟩ := sched_timer hmb hm
    exact ⟨a1, a2, a4.trans hpart⟩
  all_goals (rw [hk] at hTb; cases hTb)

/-! ### one step -/

/-- **Where a new timer comes from.**  If after a step of the event loop device `x` has a timer
whose uid was not allocated before the step, then the event was live and in the course of its
action — after a sequence of atomic moves from the popped state, at the time of the event — `x`
accepted a part `p` (it could accept it: operational, unblocked, both slots empty), which created
exactly this timer; `p` is in the input slot after the step. -/
theorem birth_step {w w' : World} {e : Event} (h : WI w) (hst : w.step = some (e, w')) {x : Nat}
    (hk : (w.dev x).kind ≠ .source) {u : Nat} {r : Int} (hm : (u, r) ∈ rem w'.env x)
    (hu : w.env.nextUid ≤ u) :
    ∃ env' wm p, w.env.step = some (e, env') ∧ e.live = true ∧
      Moves (fun d => Action.ofNat e.act = .fail d) ({ w with env := env' } : World) wm ∧
      FI wm ∧ wm.now = e.time ∧ x < wm.devs.length ∧ (wm.dev x).kind = (w.dev x).kind ∧
      wm.canAcceptBasic x p = true ∧ rem (wm.acceptPart x p).env x = [(u, r)] ∧
      (w'.dev x).part = ((wm.acceptPart x p).dev x).part := by
  have h' := wi_step h hst
  obtain ⟨env', henv, sk⟩ := step_kind h hst
  have huid : env'.nextUid = w.env.nextUid := (fin_step henv x).2.2.2
  have hn : env'.now = e.time := (fin_step henv x).2.2.1
  have hei : EI env' := h.fi.ei.step henv
  have hold : ∀ r0, (u, r0) ∉ rem env' x := by
    intro r0 hr0
    have := rem_uid_lt hei hr0
    omega
  cases sk with
  | skipped hl hw => subst hw; exact absurd hm (hold r)
  | finish y hl ha hmid hw =>
    exfalso
    by_cases hy : x = y
    · subst hy
      obtain ⟨_, _, _, _, _, _, _, _, hr', _⟩ := finish_step h hst hk hl ha
      rw [hr'] at hm; cases hm
    · have hs := same_of_loc_ne (loc_finishCycle hmid) hy hk
      subst hw
      rw [hs.1] at hm
      exact hold r hm
  | action hl hfi hsrc hw mv =>
    by_cases hF : Action.ofNat e.act = .fail x
    · have := (failed_of_step h hst hl hF).rem
      rw [this] at hm; cases hm
    · obtain ⟨wm, p, m1, g1, g2, g3, g4, g5, g6, g7⟩ :=
        mv.birth hfi (x := x) hk hF hm (by show env'.nextUid ≤ u; omega)
      have gm := m1.good hfi
      have hkm : (wm.dev x).kind = (w.dev x).kind := (gm.2.ka x).1
      have ga : Good wm (wm.acceptPart x p) :=
        (Atom.accept (F := fun _ => False) x p g3 g4 g5).good g1
      have hT : isT (w.dev x).kind = true := by rw [← hkm]; exact g4
      have hT' : isT (w'.dev x).kind = true := by
        rw [((step_spec h hst).choose_spec.2.2.ka x).1]; exact hT
      have hTa : isT ((wm.acceptPart x p).dev x).kind = true := by
        rw [(ga.2.ka x).1]; exact g4
      refine ⟨env', wm, p, henv, hl, m1, g1, g2.trans hn, g3, hkm, g5, g6, ?_⟩
      rw [tdm_part hT', tdm_part hTa] at g7
      exact g7

end C06T
end SimProc
