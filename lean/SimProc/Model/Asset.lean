/-
Model of the value bookkeeping of `factory_floor/asset.py`.
-/
import SimProc.Model.Basic
namespace SimProc

/-- A `value_history` entry `(label, time, delta, new total)`; labels are small codes. -/
structure VEntry where
  label : Nat
  time : Int
  delta : Int
  total : Int
deriving Repr, DecidableEq, Inhabited

structure AssetVal where
  init : Int := 0
  value : Int := 0
  hist : List VEntry := []
deriving Repr, DecidableEq, Inhabited

namespace AssetVal

/-- `Asset.initialize`: value reset to the starting value, history cleared. -/
def reset (a : AssetVal) : AssetVal := { a with value := a.init, hist := [] }

/-- `add_value(label, v)`: a zero change is ignored. -/
def addValue (a : AssetVal) (label : Nat) (now v : Int) : AssetVal :=
  if v == 0 then a
  else { a with value := a.value + v, hist := a.hist ++ [⟨label, now, v, a.value + v⟩] }

/-- `add_cost(label, c) = add_value(label, -c)`. -/
def addCost (a : AssetVal) (label : Nat) (now c : Int) : AssetVal := a.addValue label now (-c)

end AssetVal

/-- value-history label codes -/
def lblSupplied : Nat := 1
def lblCollected : Nat := 2
def lblWorkOrder : Nat := 3
def lblScript : Nat := 4

end SimProc
