/-
Shared basics of the executable world model: action codes, priorities, the tie-break weight
function.  Plain Lean core, no imports beyond the Env model.
-/
import SimProc.Model.Env
namespace SimProc

/-- Everything the library (or a scenario script) schedules as the action of an event.
Device, maintainer, scheduler and sensor numbers are 0-based creation indices; the asset id of
the n-th registered asset is n+1. -/
inductive Action where
  | terminate
  | script (k : Nat)
  | finishCycle (d : Nat)
  | passPart (d : Nat)
  | fail (d : Nat)
  | releaseIfIdle (d : Nat)
  | rmCheck
  | startWork (m o : Nat)
  | finishWork (m o : Nat)
  | schedUpdate (s : Nat)
  | periodicSense (s : Nat)
  | unknown (n : Nat)
deriving Repr, DecidableEq, Inhabited

/-- Encoding of actions as the `act : Nat` field of `Event` (`terminate` is `terminateAct = 0`). -/
def Action.toNat : Action → Nat
  | .terminate => 0
  | .script k => 1 + 16 * k
  | .finishCycle d => 2 + 16 * d
  | .passPart d => 3 + 16 * d
  | .fail d => 4 + 16 * d
  | .releaseIfIdle d => 5 + 16 * d
  | .rmCheck => 6
  | .startWork m o => 7 + 16 * (m + 256 * o)
  | .finishWork m o => 8 + 16 * (m + 256 * o)
  | .schedUpdate s => 9 + 16 * s
  | .periodicSense s => 10 + 16 * s
  | .unknown n => 15 + 16 * n

def Action.ofNat (n : Nat) : Action :=
  let k := n % 16
  let a := n / 16
  match k with
  | 0 => if a = 0 then .terminate else .unknown n
  | 1 => .script a
  | 2 => .finishCycle a
  | 3 => .passPart a
  | 4 => .fail a
  | 5 => .releaseIfIdle a
  | 6 => if a = 0 then .rmCheck else .unknown n
  | 7 => .startWork (a % 256) (a / 256)
  | 8 => .finishWork (a % 256) (a / 256)
  | 9 => .schedUpdate a
  | 10 => .periodicSense a
  | _ => .unknown n

/-! Priorities: `4 * EventType` (quarter steps).  The numbers are re-derived from the source on
every run by the fact translator (`Gen/Facts.lean`) and compared with these in `Props/Facts`. -/
def pTerminate : Int := 4
def pOtherLow : Int := 8
def pStartWork : Int := 12
def pSensor : Int := 16
def pFail : Int := 20
def pRelease : Int := 24
def pPassPart : Int := 28
def pFinish : Int := 32
def pRestore : Int := 36
def pFinishWork : Int := 40
def pOtherHigh : Int := 44

/-- The tie-break weight of an event, as a function of its content (the harness installs the same
function in place of `random.random()`; the theorems quantify over all weights). -/
def weightOf (seed wmod : Nat) (t asset : Int) (act : Nat) (prio : Int) : Nat :=
  if wmod = 0 then 0 else
  ((seed * 7919 + t.toNat * 40503 + (asset + 7).toNat * 9973 + act * 101 + prio.toNat * 17)
    % 1000003) % wmod

/-- Kinds of errors an operation can report (the Python exception class). -/
inductive Err where
  | value | key | attribute | runtime | assertion | index | type_ | notImplemented | other
deriving Repr, DecidableEq, Inhabited

/-- Result of a scripted operation / an entry of the scenario's action log. -/
inductive Res where
  | ok
  | err (e : Err)
  | bool (b : Bool)
  | none_
  | some_
  | cb (k : Nat)                          -- resource callback `k` invoked (with the right arguments)
  | hook (start : Bool) (tgt : Nat) (tag : Int)   -- Maintainable.start_work / end_work
  | act (s obj : Nat) (now : Int) (state : Int) (ovr : Option Nat)  -- ActionScheduler action
  | sense (s : Nat) (cbk : Nat) (now : Int) (vals : List Int)       -- on_sense callback
  | shut (d : Nat) (k : Nat) (isFail : Bool) (lost : Option Nat)    -- shutdown callback
  | restored (d : Nat) (k : Nat)                                    -- restored callback
deriving Repr, DecidableEq, Inhabited

end SimProc
