/-
Model of `factory_floor/action_scheduler.py`.
-/
import SimProc.Model.Asset
namespace SimProc

structure Sched where
  /-- `(duration, state)` entries of the timetable (non-empty). -/
  tt : List (Int × Int) := []
  cyc : Bool := true
  idx : Nat := 0
  state : Option Int := none
  /-- `_registered_objects`: object ↦ override action (dictionary order). -/
  reg : List (Nat × Option Nat) := []
deriving Repr, Inhabited

namespace Sched

/-- `register_object(obj, override)`. -/
def register (s : Sched) (obj : Nat) (ovr : Option Nat) : Sched × Bool :=
  if s.reg.any (fun p => p.1 == obj) then (s, false)
  else ({ s with reg := s.reg ++ [(obj, ovr)] }, true)

/-- `unregister_object(obj)`. -/
def unregister (s : Sched) (obj : Nat) : Sched × Bool :=
  if s.reg.any (fun p => p.1 == obj) then
    ({ s with reg := s.reg.filter (fun p => !(p.1 == obj)) }, true)
  else (s, false)

/-- `_update_state(advance)`: `none` = a non-cyclical schedule ran past its end (nothing happens,
no further event); otherwise the new scheduler, the state entered, the objects to act on (with
their override) in registration order, and the delay until the next transition. -/
def update (s : Sched) (advance : Bool) : Sched × Option (Int × List (Nat × Option Nat) × Int) :=
  let i := if advance then s.idx + 1 else s.idx
  if advance && !s.cyc && i ≥ s.tt.length then ({ s with idx := i }, none)
  else
    let i := if advance then i % s.tt.length else i
    match s.tt[i]? with
    | none => ({ s with idx := i }, none)
    | some (dur, st) =>
      ({ s with idx := i, state := some st }, some (st, s.reg, dur))

end Sched
end SimProc
