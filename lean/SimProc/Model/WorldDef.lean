/-
State of the closed world: environment, scenario scripts, resource manager, devices, parts,
maintainers, schedulers, sensors, the data log (`simulation_data`) and the action log.
-/
import SimProc.Model.Resource
import SimProc.Model.Maintainer
import SimProc.Model.Scheduler
import SimProc.Model.Sensor
namespace SimProc

inductive Kind where
  | source | handler | processor | buffer | gate | batcher | sink | gpath | ginput | goutput
deriving Repr, DecidableEq, Inhabited

/-- Gate predicates (functions of the part only). -/
inductive Pred where
  | always | never
  | qualityGe (q : Int) | qualityLt (q : Int)
  | valueGe (v : Int) | valueLt (v : Int)
deriving Repr, DecidableEq, Inhabited

/-- Table-driven receive / finish callback: what it does to the device and to the part. -/
structure PartCb where
  setCycle : Option Int := none
  offset : Int := 0
  addValue : Int := 0
  setQuality : Option Int := none
deriving Repr, DecidableEq, Inhabited

/-- A part (or, with `kids`, a batch). -/
structure PartRec where
  quality : Int := 1
  value : Int := 0
  hist : List Nat := []
  /-- `_group_pathing` (top of the stack = last element). -/
  stack : List Nat := []
  kids : Option (List Nat) := none
deriving Repr, DecidableEq, Inhabited

structure Dev where
  kind : Kind := .handler
  /-- asset id (registration index + 1). -/
  aid : Int := 0
  up : List Nat := []
  down : List Nat := []
  blockInput : Bool := false
  inited : Bool := false
  val : AssetVal := {}
  -- PartHandler
  cycle : Int := 0
  offset : Int := 0
  part : Option Nat := none
  output : Option Nat := none
  waitingDS : Bool := false
  since : Option Int := none
  recvCbs : List PartCb := []
  -- PartProcessor
  shutDown : Bool := false
  resReq : Option Req := none
  reserved : Option Nat := none
  waitingRes : Bool := false
  uptime : Int := 0
  lastRestore : Option Int := some 0
  timeInUse : Int := 0
  lastUseStart : Option Int := none
  finCbs : List PartCb := []
  /-- output-part sensors attached (their finish callbacks, after `finCbs`?) — kept in registration
  order together with `finCbs` by the scenario builder: sensors register at initialisation. -/
  finSensors : List Nat := []
  nShutCbs : Nat := 0
  nRestCbs : Nat := 0
  -- Source
  maxParts : Option Int := none
  produced : Int := 0
  costProduced : Int := 0
  genValue : Int := 0
  genQuality : Int := 1
  /-- 0 = single parts; n > 0 = every generated part is a batch of n parts; -1 = an empty batch. -/
  genBatch : Int := 0
  -- Sink
  collect : Bool := false
  collected : List Nat := []
  recvCount : Int := 0
  recvValue : Int := 0
  -- Buffer
  delay : Int := 0
  cap : Option Nat := none
  buf : List (Int × Nat) := []
  level : Nat := 0
  -- PartBatcher
  bsize : Option Nat := none
  inprog : Option Nat := none
  -- DecisionGate
  pred : Pred := .always
  -- groups
  group : Nat := 0
deriving Repr, Inhabited

structure Group where
  paths : List Nat := []
  input : Nat := 0
  output : Nat := 0
deriving Repr, Inhabited

/-- A maintenance target: a processor (default hooks) or a plain `Maintainable` with scripted hooks. -/
structure Target where
  dev : Option Nat := none
  /-- per tag: (duration, needed capacity, cost). -/
  params : List (Int × Int × Int × Int) := []
  startScript : Option Nat := none
  endScript : Option Nat := none
deriving Repr, Inhabited

inductive Rec where
  | resUpdate (r : Nat) (t u c : Int)
  | level (d : Nat) (t : Int) (n : Nat)
  | received (d : Nat) (t : Int) (p : Nat) (q v : Int)
  | produced (d : Nat) (t : Int) (p : Nat) (q v : Int)
  | failure (d : Nat) (t : Int) (lost : Option Nat)
  | supplied (d : Nat) (t : Int) (p : Nat)
  | workOrder (kind : Nat) (m : Nat) (t : Int) (tgt : Nat) (tag info : Int)
  | schedUpdate (s : Nat) (t : Int) (state : Int)
deriving Repr, DecidableEq, Inhabited

/-- Registered assets in registration order. -/
inductive AssetRef where
  | dev (d : Nat) | maint (m : Nat) | sched (s : Nat) | sensor (s : Nat) | cms (c : Nat)
deriving Repr, DecidableEq, Inhabited

structure MaintW where
  m : Maint := {}
  aid : Int := 0
  inited : Bool := false
deriving Repr, Inhabited

structure SchedW where
  s : Sched := {}
  aid : Int := 0
deriving Repr, Inhabited

structure SensorW where
  s : Sensor := {}
  aid : Int := 0
  /-- probed variables (periodic) . -/
  vars : List Nat := []
  /-- attached processor (output-part sensor). -/
  proc : Nat := 0
  /-- probes of an output-part sensor: 0 = quality, 1 = value. -/
  attrs : List Nat := []
  registered : Bool := false
deriving Repr, Inhabited

/-- What a constructor call creates (scenario `asset` lines, and `create` operations issued while
the simulation is running). -/
inductive AssetSpec where
  | dev (d : Dev)
  | group (gid : Nat) (devs ins outs : List Nat)
  | maint (cap : Option Int) (value : Int)
  | sched (tt : List (Int × Int)) (cyc : Bool)
  | sensor (s : SensorW)
  | cms
deriving Inhabited

/-- Scripted operations (issued from outside between steps, or from inside an event action). -/
inductive Op where
  -- environment
  | sched (t asset : Int) (k : Nat) (prio : Int)
  | schedRel (dt asset : Int) (k : Nat) (prio : Int)
  | pause (a : Int)
  | unpause (a : Int)
  | cancel (a : Int)
  -- resource manager
  | addRes (r : Nat) (amt : Int)
  | reserve (h : Nat) (req : Req)
  | release (h : Nat) (part : Option Req)
  | merge (h1 h2 : Nat)
  | register (k : Nat) (req : Req)
  -- factory floor
  | schedFail (d : Nat) (t : Int)
  | schedFailRel (d : Nat) (dt : Int)
  | shutdown (d : Nat)
  | restore (d : Nat)
  | block (d : Nat) (b : Bool)
  | adjust (d : Nat) (n : Int)
  | setCycle (d : Nat) (c : Int)
  | offsetNext (d : Nat) (o : Int)
  | rewire (d : Nat) (ups : List Nat)
  -- maintainer
  | workOrder (m tgt : Nat) (tag info : Int)
  | setParams (tgt : Nat) (tag dur need cost : Int)
  -- action scheduler
  | regObj (s obj : Nat) (ovr : Option Nat)
  | unregObj (s obj : Nat)
  -- sensors
  | setVar (k : Nat) (v : Int)
  | addSensor (c s : Nat)
  -- system: an asset constructed while the simulation may already be running
  | create (spec : AssetSpec)
deriving Inhabited

structure World where
  env : Env := {}
  seed : Nat := 0
  wmod : Nat := 0
  scripts : List (List Op) := []
  results : List Res := []
  error : Option String := none
  recs : List Rec := []
  rm : RM := {}
  vars : List (Option Nat) := []
  devs : List Dev := []
  parts : List PartRec := []
  groups : List Group := []
  maints : List MaintW := []
  targets : List Target := []
  scheds : List SchedW := []
  sensors : List SensorW := []
  cmsSensors : List (List Nat) := []   -- per cms: sensors already added
  svars : List Int := []
  assets : List AssetRef := []
  started : Bool := false
  /-- ghost logs for the conservation statement (C02): leaf parts created by sources, delivered to
  sinks, reported lost by failures.  Nothing in the model reads them. -/
  generated : List Nat := []
  delivered : List Nat := []
  lost : List Nat := []
deriving Inhabited

namespace World

def now (w : World) : Int := w.env.now
/-- Recursion budget of the notification / hand-over dispatch.  A pass-through controller costs at
most two levels (`spaceAvail` then `notifyUp`), so twice the number of devices always suffices in a
topology without controller-only cycles (the Python code recurses without a bound). -/
def fuel (w : World) : Nat := 2 * w.devs.length + 3

def setErr (w : World) (m : String) : World :=
  match w.error with
  | some _ => w
  | none => { w with error := some m }

def dev (w : World) (d : Nat) : Dev := w.devs.getD d default
def setDev (w : World) (d : Nat) (x : Dev) : World := { w with devs := w.devs.set d x }
def modDev (w : World) (d : Nat) (f : Dev → Dev) : World := w.setDev d (f (w.dev d))

def part (w : World) (p : Nat) : PartRec := w.parts.getD p default
def modPart (w : World) (p : Nat) (f : PartRec → PartRec) : World :=
  { w with parts := w.parts.set p (f (w.part p)) }

def addRec (w : World) (r : Rec) : World := { w with recs := w.recs ++ [r] }
def addRes (w : World) (r : Res) : World := { w with results := w.results ++ [r] }

/-- `Environment.schedule_event` with the keyed tie-break weight; `.err .value` = rejected. -/
def sched (w : World) (t asset : Int) (a : Action) (prio : Int) : World × Res :=
  let act := a.toNat
  match w.env.apply Arith.exact (.sched t asset act prio (weightOf w.seed w.wmod t asset act prio)) with
  | (e, .ok) => ({ w with env := e }, .ok)
  | (_, _) => (w, .err .value)

/-- Scheduling done by the library itself: a request in the past would be an exception escaping
from an event action — reported as an explicit model error, never defaulted. -/
def schedLib (w : World) (t asset : Int) (a : Action) (prio : Int) : World :=
  match w.sched t asset a prio with
  | (w', .ok) => w'
  | (w', _) => w'.setErr "sched-past"

def envOp (w : World) (op : EnvOp) : World :=
  { w with env := (w.env.apply Arith.exact op).1 }

/-- Write `resource_update` records and schedule the availability check when asked to. -/
def rmEffects (w : World) (recs : List ResRec) (check : Bool) : World :=
  let w := recs.foldl (fun w r => w.addRec (.resUpdate r.res w.now r.inUse r.cap)) w
  if check then w.schedLib w.now (-1) .rmCheck pOtherHigh else w

end World
end SimProc
