/-
Model of `simprocesd/model/simulation.py` (Event, Environment).

Plain Lean core, no imports: this file is compiled into `spdriver`.

Time values are `Int`s.  Every finite IEEE double is a dyadic rational, so the doubles embed
order-isomorphically into `Int` (scale by 2^1074); the *operations* on time are a parameter
(`Arith`): theorems that only need order are proved for every `Arith` (hence also for a rounding
floating-point arithmetic), theorems about amounts of time are proved for `Arith.exact`.
The executable model (driver) uses `Arith.exact` with 1 tick = 1/16 time unit.
-/
namespace SimProc

/-- The two operations `Environment` performs on time values. -/
structure Arith where
  add : Int → Int → Int
  sub : Int → Int → Int

def Arith.exact : Arith := ⟨(· + ·), (· - ·)⟩

/-- Action id reserved for `Environment._terminate`. -/
def terminateAct : Nat := 0

/-- `simulation.Event`.  `prio` is `4 * event_type` (so that quarter steps such as
`EventType.FAIL - 0.25` are integers), `weight` is `random_weight` scaled to a natural number. -/
structure Event where
  uid : Nat
  time : Int
  prio : Int
  weight : Nat
  asset : Int
  act : Nat
  pausedAt : Option Int := none
  cancelled : Bool := false
deriving Repr, DecidableEq, Inhabited

/-- `Event.__lt__`: lower time, then higher event type, then lower random weight, then lower
asset id. -/
def Event.lt (a b : Event) : Bool :=
  if a.time != b.time then decide (a.time < b.time)
  else if a.prio != b.prio then decide (a.prio > b.prio)
  else if a.weight != b.weight then decide (a.weight < b.weight)
  else decide (a.asset < b.asset)

/-- `bisect.insort` (= `insort_right`) on a list sorted by `Event.lt`: the new element goes in
front of the first element it is `<` of, i.e. after every element it ties with. -/
def insort (x : Event) : List Event → List Event
  | [] => [x]
  | e :: es => if x.lt e then x :: e :: es else e :: insort x es

/-- `simulation.Environment` (event part). -/
structure Env where
  now : Int := 0
  events : List Event := []
  paused : List Event := []
  terminated : Bool := true
  nextUid : Nat := 0
deriving Repr, Inhabited

/-- The `Event` object `schedule_event` creates. -/
def Env.newEvent (s : Env) (t asset : Int) (act : Nat) (prio : Int) (w : Nat) : Event :=
  { uid := s.nextUid, time := t, prio := prio, weight := w, asset := asset, act := act }

/-- `Environment.schedule_event`: `none` is the `ValueError` for a time in the past (nothing is
created, no random number is drawn, the state is unchanged). -/
def Env.schedule (s : Env) (t asset : Int) (act : Nat) (prio : Int) (w : Nat) : Option Env :=
  if t < s.now then none
  else some { s with
    events := insort (s.newEvent t asset act prio w) s.events
    nextUid := s.nextUid + 1 }

/-- `Environment.pause_matching_events(asset_id = a)`. -/
def Env.pause (s : Env) (a : Int) : Env :=
  { s with
    events := s.events.filter (fun e => !(e.asset == a))
    paused := s.paused ++ (s.events.filter (fun e => e.asset == a)).map
                (fun e => { e with pausedAt := some s.now }) }

/-- New time of an event that was paused at `p` and is resumed at `now`: original time plus the
length of the pause, never before `now` (the clamp is the repair of finding F7; it is the
identity for exact arithmetic, see `Props/C07`). -/
def shiftTime (ar : Arith) (now t p : Int) : Int :=
  let t' := ar.add t (ar.sub now p)
  if t' < now then now else t'

/-- `Environment.unpause_matching_events(asset_id = a)`. -/
def Env.unpause (ar : Arith) (s : Env) (a : Int) : Env :=
  { s with
    paused := s.paused.filter (fun e => !(e.asset == a))
    events := (s.paused.filter (fun e => e.asset == a)).foldl
      (fun q e => insort { e with time := shiftTime ar s.now e.time (e.pausedAt.getD s.now) } q)
      s.events }

/-- `Environment.cancel_matching_events(asset_id = a)`. -/
def Event.cancelIf (a : Int) (e : Event) : Event :=
  if e.asset == a then { e with cancelled := true } else e

def Env.cancel (s : Env) (a : Int) : Env :=
  { s with events := s.events.map (Event.cancelIf a), paused := s.paused.map (Event.cancelIf a) }

/-- First half of `Environment.step`: take the head of the queue and set the clock. -/
def Env.pop (s : Env) : Option (Event × Env) :=
  match s.events with
  | [] => none
  | e :: es => some (e, { s with now := e.time, events := es })

/-- Is the action of a popped event run? (`Event.execute`) -/
def Event.live (e : Event) : Bool := !e.cancelled

/-- `Environment.step` as far as the environment itself is concerned: pop, set the clock, and if
the event is the (live) terminate event of `run`, stop the run. The action of any other live event
is run by the caller. -/
def Env.step (s : Env) : Option (Event × Env) :=
  match s.events with
  | [] => none
  | e :: es => some (e, { s with
      now := e.time, events := es
      terminated := s.terminated || (e.live && e.act == terminateAct) })

/-- Priority of `EventType.TERMINATE` (value 1) in quarter units. -/
def prioTerminate : Int := 4

/-- Beginning of `Environment.run(d)`: clear the flag and schedule `_terminate` at `now + d` for
asset −1 with the lowest priority.  `none` if `now + d < now` (negative duration). -/
def Env.runBegin (ar : Arith) (s : Env) (d : Int) (w : Nat) : Option Env :=
  ({ s with terminated := false }).schedule (ar.add s.now d) (-1) terminateAct prioTerminate w

/-- Loop condition of `Environment.run`. -/
def Env.running (s : Env) : Bool := !s.events.isEmpty && !s.terminated

/-- Operations on the environment, issued from outside or from inside event actions. -/
inductive EnvOp where
  | sched (t asset : Int) (act : Nat) (prio : Int) (w : Nat)
  | pause (a : Int)
  | unpause (a : Int)
  | cancel (a : Int)
  | step
  | runBegin (d : Int) (w : Nat)
deriving Repr, DecidableEq

/-- What an operation reports back. -/
inductive EnvOut where
  | ok
  | rejected                 -- `ValueError` from `schedule_event`
  | empty                    -- `step` on an empty queue (`IndexError`)
  | ran (e : Event)          -- the event's action was run
  | skipped (e : Event)      -- the event was cancelled, action not run
deriving Repr, DecidableEq

def Env.apply (ar : Arith) (s : Env) : EnvOp → Env × EnvOut
  | .sched t a act p w =>
    match s.schedule t a act p w with
    | none => (s, .rejected)
    | some s' => (s', .ok)
  | .pause a => (s.pause a, .ok)
  | .unpause a => (s.unpause ar a, .ok)
  | .cancel a => (s.cancel a, .ok)
  | .step =>
    match s.step with
    | none => (s, .empty)
    | some (e, s') => (s', if e.live then .ran e else .skipped e)
  | .runBegin d w =>
    match s.runBegin ar d w with
    | none => (s, .rejected)
    | some s' => (s', .ok)

/-- Run a list of operations, collecting the outputs. -/
def Env.applyAll (ar : Arith) (s : Env) : List EnvOp → Env × List EnvOut
  | [] => (s, [])
  | op :: ops =>
    let (s1, o) := s.apply ar op
    let (s2, os) := s1.applyAll ar ops
    (s2, o :: os)

end SimProc
