/-
Model of the lifecycle logic of `system.py` / `asset.py`: which system an asset registers with,
who may simulate, single initialisation, asset look-up.
-/
namespace SimProc

inductive Cls where
  | handler | processor | sink | buffer | source | maint
deriving Repr, DecidableEq, Inhabited

/-- `isinstance(asset_of_class c, d)` for the classes used here (every class is a subtype of
itself; processors, sinks, buffers and sources are part handlers). -/
def Cls.isSub (c d : Cls) : Bool :=
  c == d || (d == .handler && (c == .processor || c == .sink || c == .buffer || c == .source))

structure AInfo where
  name : Nat
  cls : Cls
  initCount : Nat := 0
deriving Repr, DecidableEq, Inhabited

structure SysS where
  /-- registered assets (indices into `infos`) in registration order -/
  assets : List Nat := []
  /-- `_simulation_is_initialized` -/
  inited : Bool := false
deriving Repr, DecidableEq, Inhabited

structure SysM where
  systems : List SysS := []
  /-- `System._instance` -/
  latest : Option Nat := none
  infos : List AInfo := []
deriving Repr, DecidableEq, Inhabited

inductive SOp where
  | new
  | asset (cls : Cls) (name : Nat)
  | simulate (i : Nat)
  | find (i : Nat) (name : Option Nat) (id : Option Nat) (type_ : Option Cls) (subtype : Option Cls)
deriving Repr, DecidableEq, Inhabited

inductive SRes where
  | ok
  | err
  | found (l : List Nat)
deriving Repr, DecidableEq, Inhabited

namespace SysM

def bump (m : SysM) (a : Nat) : SysM :=
  { m with infos := m.infos.set a { (m.infos.getD a default) with initCount := (m.infos.getD a default).initCount + 1 } }

/-- `find_assets`: the registered assets matching ALL given filters, in registration order. -/
def isMatch (m : SysM) (name : Option Nat) (id : Option Nat) (type_ subtype : Option Cls) (a : Nat) : Bool :=
  let inf := m.infos.getD a default
  (match name with | none => true | some n => n == inf.name) &&
  (match id with | none => true | some i => i == a) &&
  (match type_ with | none => true | some c => inf.cls == c) &&
  (match subtype with | none => true | some c => inf.cls.isSub c)

def apply (m : SysM) : SOp → SysM × SRes
  | .new => ({ m with systems := m.systems ++ [{}], latest := some m.systems.length }, .ok)
  | .asset cls name =>
    match m.latest with
    | none => (m, .err)          -- RuntimeError: a System must be created first
    | some i =>
      let a := m.infos.length
      let s := m.systems.getD i default
      let m1 := { m with infos := m.infos ++ [{ name := name, cls := cls }],
                         systems := m.systems.set i { s with assets := s.assets ++ [a] } }
      -- registered with a system that is already simulating: initialised immediately
      (if s.inited then m1.bump a else m1, .ok)
  | .simulate i =>
    if m.latest != some i then (m, .err)     -- RuntimeError: a newer System exists
    else
      let s := m.systems.getD i default
      if s.inited then (m, .ok)
      else
        let m1 := s.assets.foldl bump m
        ({ m1 with systems := m1.systems.set i { s with inited := true } }, .ok)
  | .find i name id type_ subtype =>
    (m, .found ((m.systems.getD i default).assets.filter (m.isMatch name id type_ subtype)))

def applyAll (m : SysM) : List SOp → SysM
  | [] => m
  | op :: ops => (m.apply op).1.applyAll ops

end SysM
end SimProc
