/-
Model of `factory_floor/maintainer.py` (Maintainer, _WorkOrder).  Pure component: the targets'
answers (needed capacity at request time, duration and cost at start time) are arguments, the
hooks and the events are effects returned to the caller.
-/
import SimProc.Model.Asset
namespace SimProc

/-- `_WorkOrder`; `seq` is the identity of the object (creation index within the maintainer). -/
structure Order where
  seq : Nat
  target : Nat
  tag : Int
  needed : Int
  info : Int := 0
deriving Repr, DecidableEq, Inhabited

structure Maint where
  /-- `_capacity`; `none` = `float('inf')`. -/
  cap : Option Int := none
  util : Int := 0
  queue : List Order := []
  active : List Order := []
  nextSeq : Nat := 0
  val : AssetVal := {}
deriving Repr, Inhabited

namespace Maint

/-- `_is_work_order_requested(target, tag)`. -/
def requested (m : Maint) (target : Nat) (tag : Int) : Bool :=
  m.queue.any (fun r => r.target == target && r.tag == tag) ||
  m.active.any (fun r => r.target == target && r.tag == tag)

/-- `utilization <= capacity - needed`. -/
def fits (m : Maint) (o : Order) : Bool :=
  match m.cap with
  | none => true
  | some c => decide (m.util ≤ c - o.needed)

def targetFree (m : Maint) (o : Order) : Bool := !(m.active.any (fun x => x.target == o.target))

def startable (m : Maint) (o : Order) : Bool := m.fits o && m.targetFree o

/-- The scan of `try_working_requests` over the (remaining) queue: returns the manager with the
started orders activated, the orders kept in the queue, and the started orders in start order. -/
def scanQ (m : Maint) : List Order → Maint × List Order × List Order
  | [] => (m, [], [])
  | o :: rest =>
    if m.startable o then
      let m' := { m with active := m.active ++ [o], util := m.util + o.needed }
      let (m2, kept, st) := scanQ m' rest
      (m2, kept, o :: st)
    else
      let (m2, kept, st) := scanQ m rest
      (m2, o :: kept, st)

/-- `try_working_requests()`: the started orders each get a `START_WORK` event at `now`. -/
def tryWork (m : Maint) : Maint × List Order :=
  let (m2, kept, st) := scanQ m m.queue
  ({ m2 with queue := kept }, st)

/-- `create_work_order(target, tag, info)`; `needed` is the target's answer to
`get_work_order_capacity(tag)` (asked only for a non-duplicate request).
Returns the return value, whether an `enter_queue` record is written, and the orders to start. -/
def create (m : Maint) (target : Nat) (tag needed info : Int) : Maint × Bool × Option Order × List Order :=
  if m.requested target tag then (m, false, none, [])
  else
    let o : Order := { seq := m.nextSeq, target := target, tag := tag, needed := needed, info := info }
    let m1 := { m with queue := m.queue ++ [o], nextSeq := m.nextSeq + 1 }
    let (m2, st) := m1.tryWork
    (m2, true, some o, st)

def findActive (m : Maint) (seq : Nat) : Option Order := m.active.find? (fun o => o.seq == seq)

/-- `_start_work_order(request)` as far as the maintainer itself is concerned: charge the cost
(the record, the target's hook and the `FINISH_WORK` event at `now + duration` are the caller's). -/
def startCost (m : Maint) (now cost : Int) : Maint :=
  { m with val := m.val.addCost lblWorkOrder now cost }

/-- `_finish_work_order(request)` after the target's `end_work` hook returned. -/
def finish (m : Maint) (o : Order) : Maint × List Order :=
  let m1 := { m with util := m.util - o.needed, active := m.active.erase o }
  m1.tryWork

end Maint
end SimProc
