/-
Model of `sensors/sensor.py`, `sensors/part_sensor.py`, `cms/cms.py` (with the repair of
finding F4: the `time` series of a periodic sensor is trimmed like the probe series).
-/
import SimProc.Model.Asset
namespace SimProc

inductive SensorKind where
  | periodic | output
deriving Repr, DecidableEq, Inhabited

structure Sensor where
  kind : SensorKind := .periodic
  /-- periodic: the interval; output-part sensor: the sensing interval `n`. -/
  interval : Int := 1
  /-- `data_capacity`; `none` = infinity. -/
  cap : Option Nat := none
  nprobes : Nat := 1
  /-- per-probe series (`data[p]`), one list per probe. -/
  data : List (List Int) := []
  /-- `data['time']` (periodic sensors). -/
  time : List Int := []
  last : List Int := []
  counter : Int := 0
  /-- `_on_sense` callbacks (ids), in registration order. -/
  cbs : List Nat := []
deriving Repr, Inhabited

namespace Sensor

def overCap (s : Sensor) (n : Nat) : Bool :=
  match s.cap with
  | none => false
  | some c => n > c

/-- `_collect_data()` given the probed values (one per probe, already copied). -/
def collect (s : Sensor) (vals : List Int) : Sensor :=
  let data := (s.data.zip vals).map (fun (l, v) => l ++ [v])
  let data := if s.overCap ((data.headD []).length) then data.map (·.drop 1) else data
  { s with data := data, last := vals }

/-- `PeriodicSensor._periodic_sense` without the rescheduling: time stamp, collect, trim. -/
def periodic (s : Sensor) (now : Int) (vals : List Int) : Sensor :=
  let s1 := { s with time := s.time ++ [now] }
  let s2 := s1.collect vals
  if s2.overCap s2.time.length then { s2 with time := s2.time.drop 1 } else s2

/-- `OutputPartSensor._probe_part`: returns whether this part is measured. -/
def countPart (s : Sensor) : Sensor × Bool :=
  let c := s.counter - 1
  if c < 0 then ({ s with counter := s.interval }, true) else ({ s with counter := c }, false)

/-- `Sensor.initialize`. -/
def reset (s : Sensor) : Sensor :=
  { s with data := List.replicate s.nprobes [], time := [], last := [], counter := 0 }

/-- `Cms.add_sensor` on the sensor's side: the callback is added once per cms. -/
def addCb (s : Sensor) (cb : Nat) : Sensor := { s with cbs := s.cbs ++ [cb] }

end Sensor
end SimProc
