/-
The closed world: environment + scenario scripts (+ components, added by the files that
extend `exec`).  Stage A: environment operations only.
-/
import SimProc.Model.Basic
namespace SimProc

/-- Kinds of errors an operation can report (the Python exception class). -/
inductive Err where
  | value | key | attribute | runtime | assertion | index | type_ | notImplemented | other
deriving Repr, DecidableEq, Inhabited

/-- Result of a scripted operation. -/
inductive Res where
  | ok
  | err (e : Err)
  | bool (b : Bool)
  | none_
  | some_
deriving Repr, DecidableEq, Inhabited

/-- Scripted operations (issued from outside between steps, or from inside an event action). -/
inductive Op where
  | sched (t asset : Int) (k : Nat) (prio : Int)
  | schedRel (dt asset : Int) (k : Nat) (prio : Int)
  | pause (a : Int)
  | unpause (a : Int)
  | cancel (a : Int)
deriving Repr, DecidableEq, Inhabited

structure World where
  env : Env := {}
  seed : Nat := 0
  wmod : Nat := 0
  scripts : List (List Op) := []
  results : List Res := []
  error : Option String := none
deriving Inhabited

namespace World

/-- `Environment.schedule_event` with the keyed tie-break weight. -/
def sched (w : World) (t asset : Int) (a : Action) (prio : Int) : World × Res :=
  let act := a.toNat
  match w.env.apply Arith.exact (.sched t asset act prio (weightOf w.seed w.wmod t asset act prio)) with
  | (e, .ok) => ({ w with env := e }, .ok)
  | (_, _) => (w, .err .value)

def envOp (w : World) (op : EnvOp) : World :=
  { w with env := (w.env.apply Arith.exact op).1 }

def applyOp (w : World) : Op → World × Res
  | .sched t a k p => w.sched t a (.script k) p
  | .schedRel dt a k p => w.sched (w.env.now + dt) a (.script k) p
  | .pause a => (w.envOp (.pause a), .ok)
  | .unpause a => (w.envOp (.unpause a), .ok)
  | .cancel a => (w.envOp (.cancel a), .ok)

def applyOps (w : World) (ops : List Op) : World :=
  ops.foldl (fun w op => let (w', r) := w.applyOp op; { w' with results := w'.results ++ [r] }) w

/-- Run the action of a popped live event. -/
def exec (w : World) (a : Action) : World :=
  match a with
  | .terminate => w            -- the flag is set by `Env.step`
  | .script k => w.applyOps (w.scripts.getD k [])
  | _ => { w with error := some "unknown action" }

/-- `Environment.step`: pop, set the clock, run the action unless cancelled. -/
def step (w : World) : Option (Event × World) :=
  match w.env.step with
  | none => none
  | some (e, env') =>
    let w1 := { w with env := env' }
    some (e, if e.live then w1.exec (Action.ofNat e.act) else w1)

/-- Beginning of `Environment.run(d)`. -/
def runBegin (w : World) (d : Int) : World × Res :=
  let t := w.env.now + d
  match w.env.runBegin Arith.exact d (weightOf w.seed w.wmod t (-1) terminateAct pTerminate) with
  | none => (w, .err .value)
  | some e => ({ w with env := e }, .ok)

/-- The loop of `Environment.run`, with fuel. -/
def runLoop : Nat → World → World
  | 0, w => { w with error := some "fuel" }
  | f + 1, w =>
    if w.env.running then
      match w.step with
      | none => w
      | some (_, w') => runLoop f w'
    else w

end World
end SimProc
