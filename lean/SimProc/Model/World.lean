/-
The closed world: scripted operations, the actions of events, `Environment.step/run`,
`System.simulate`.
-/
import SimProc.Model.Floor
namespace SimProc
namespace World

/-! ### targets of work orders -/

def targetParams (w : World) (tgt : Nat) (tag : Int) : Int × Int × Int :=
  match (w.targets.getD tgt default).params.find? (fun p => p.1 == tag) with
  | some (_, d, n, c) => (d, n, c)
  | none => (0, 0, 0)

def modMaint (w : World) (m : Nat) (f : Maint → Maint) : World :=
  let mw := w.maints.getD m default
  { w with maints := w.maints.set m { mw with m := f mw.m } }

def maint (w : World) (m : Nat) : Maint := (w.maints.getD m default).m

/-- Schedule the `START_WORK` events of the orders a scan started. -/
def startOrders (w : World) (m : Nat) (st : List Order) : World :=
  st.foldl (fun w o => w.schedLib w.now (w.maints.getD m default).aid (.startWork m o.seq) pStartWork) w

/-! ### action scheduler (used by initialisation) -/

/-- `_update_state(advance)`. -/
def schedUpdate (w : World) (s : Nat) (advance : Bool) : World :=
  let sw := w.scheds.getD s default
  let (s', r) := sw.s.update advance
  let w := { w with scheds := w.scheds.set s { sw with s := s' } }
  match r with
  | none => w
  | some (st, objs, dur) =>
    let w := w.addRec (.schedUpdate s w.now st)
    let w := objs.foldl (fun w (o, ovr) => w.addRes (.act s o w.now st ovr)) w
    w.schedLib (w.now + dur) sw.aid (.schedUpdate s) pOtherHigh

/-- `initialize` of a registered asset. -/
def initAsset (w : World) : AssetRef → World
  | .dev d => w.initDev d
  | .maint m =>
    let mw := w.maints.getD m default
    { w with maints := w.maints.set m { mw with inited := true, m := { mw.m with val := mw.m.val.reset } } }
  | .sched s => w.schedUpdate s false
  | .sensor s =>
    let sw := w.sensors.getD s default
    let firstTime := !sw.registered
    let w := { w with sensors := w.sensors.set s { sw with s := sw.s.reset, registered := true } }
    match sw.s.kind with
    | .periodic => w.schedLib (w.now + sw.s.interval) sw.aid (.periodicSense s) pSensor
    | .output =>
      if firstTime then w.modDev sw.proc (fun d => { d with finSensors := d.finSensors ++ [s] }) else w
  | .cms _ => w

/-- A constructor call: register the new asset (asset id = registration index + 1), wire it up,
and — if the system has already started simulating — initialise it at once (`System.add_asset`;
registration happens after the constructors have finished: fix of finding F5). -/
def addDev (w : World) (d : Dev) : World :=
  let i := w.devs.length
  let d := { d with aid := w.assets.length + 1 }
  let ups := d.up
  let w := { w with devs := w.devs ++ [{ d with up := [] }], assets := w.assets ++ [AssetRef.dev i] }
  -- constructor: set_upstream(upstream)
  let w := w.rewire i ups
  -- a group path registers with its group
  let w := if d.kind == .gpath then
      let gr := w.groups.getD d.group default
      { w with groups := w.groups.set d.group { gr with paths := gr.paths ++ [i] } }
    else w
  if w.started then w.initAsset (.dev i) else w

def addAsset (w : World) : AssetSpec → World
  | .dev d => w.addDev d
  | .group gid devs ins outs =>
    let ins := if ins.isEmpty then devs.take 1 else ins
    let outs := if outs.isEmpty then devs.getLast?.toList else outs
    let gi := w.devs.length
    let groups := if w.groups.length ≤ gid then w.groups ++ List.replicate (gid + 1 - w.groups.length) {} else w.groups
    let w := { w with groups := groups.set gid { paths := [], input := gi, output := gi + 1 } }
    let w := w.addDev { kind := .ginput, group := gid }
    let w := ins.foldl (fun w d => w.rewire d [gi]) w
    let w := w.addDev { kind := .goutput, group := gid }
    w.rewire (gi + 1) outs
  | .maint cap v =>
    let m := w.maints.length
    let w := { w with maints := w.maints ++ [({ m := { cap := cap, val := { init := v, value := v } }, aid := w.assets.length + 1 } : MaintW)],
                      assets := w.assets ++ [AssetRef.maint m] }
    if w.started then w.initAsset (.maint m) else w
  | .sched tt cyc =>
    let i := w.scheds.length
    let w := { w with scheds := w.scheds ++ [({ s := { tt := tt, cyc := cyc }, aid := w.assets.length + 1 } : SchedW)],
                      assets := w.assets ++ [AssetRef.sched i] }
    if w.started then w.initAsset (.sched i) else w
  | .sensor sw =>
    let i := w.sensors.length
    let w := { w with sensors := w.sensors ++ [{ sw with aid := w.assets.length + 1 }],
                      assets := w.assets ++ [AssetRef.sensor i] }
    if w.started then w.initAsset (.sensor i) else w
  | .cms =>
    { w with assets := w.assets ++ [AssetRef.cms w.cmsSensors.length], cmsSensors := w.cmsSensors ++ [[]] }

/-! ### scripted operations -/

def getVar (w : World) (h : Nat) : Option Nat := (w.vars.getD h none)
def setVar (w : World) (h : Nat) (v : Option Nat) : World :=
  let vars := if w.vars.length ≤ h then w.vars ++ List.replicate (h + 1 - w.vars.length) none else w.vars
  { w with vars := vars.set h v }

def applyOp (w : World) : Op → World × Res
  | .sched t a k p => w.sched t a (.script k) p
  | .schedRel dt a k p => w.sched (w.now + dt) a (.script k) p
  | .pause a => (w.envOp (.pause a), .ok)
  | .unpause a => (w.envOp (.unpause a), .ok)
  | .cancel a => (w.envOp (.cancel a), .ok)
  | .addRes r amt =>
    let (rm, res, recs, chk) := w.rm.add r amt
    (({ w with rm := rm }).rmEffects recs chk, res)
  | .reserve h req =>
    let (rm, res, id, recs) := w.rm.reserve req
    match res with
    | .err e => (w, .err e)
    | _ => ((({ w with rm := rm }).rmEffects recs false).setVar h id, res)
  | .release h part =>
    match w.getVar h with
    | none => (w, .err .attribute)
    | some id =>
      let (rm, res, recs, chk) := w.rm.release id part
      (({ w with rm := rm }).rmEffects recs chk, res)
  | .merge h1 h2 =>
    match w.getVar h1 with
    | none => (w, .err .attribute)
    | some a =>
      match w.getVar h2 with
      | none => (w, .err .type_)
      | some b =>
        let (rm, res) := w.rm.merge a b
        ({ w with rm := rm }, res)
  | .register k req =>
    let (rm, chk) := w.rm.register req (.script k)
    (({ w with rm := rm }).rmEffects [] chk, .ok)
  -- `schedule_failure`, `shutdown`, `restore_functionality` exist on PartProcessor only
  | .schedFail d t =>
    if (w.dev d).kind != .processor then (w, .err .attribute)
    else w.sched t (w.dev d).aid (.fail d) pFail
  | .schedFailRel d dt =>
    if (w.dev d).kind != .processor then (w, .err .attribute)
    else w.sched (w.now + dt) (w.dev d).aid (.fail d) pFail
  | .shutdown d =>
    if (w.dev d).kind != .processor then (w, .err .attribute) else (w.shutdownDev d false none, .ok)
  | .restore d =>
    if (w.dev d).kind != .processor then (w, .err .attribute) else (w.restoreDev d, .ok)
  | .block d b => (w.setBlock d b, .ok)
  | .adjust d n => (w.adjustParts d n, .ok)
  | .setCycle d c =>
    if c < 0 then (w, .err .assertion) else (w.modDev d (fun x => { x with cycle := c }), .ok)
  | .offsetNext d o => (w.modDev d (fun x => { x with offset := x.offset + o }), .ok)
  | .rewire d ups => (w.rewire d ups, .ok)
  | .workOrder m tgt tag info =>
    let (_, need, _) := w.targetParams tgt tag
    let (m', ret, o, st) := (w.maint m).create tgt tag need info
    let w := w.modMaint m (fun _ => m')
    let w := match o with
      | some o => w.addRec (.workOrder 0 m w.now tgt o.tag o.info)
      | none => w
    -- the record is written before the scan schedules anything
    (w.startOrders m st, .bool ret)
  | .setParams tgt tag dur need cost =>
    let t := w.targets.getD tgt default
    let ps := (t.params.filter (fun p => !(p.1 == tag))) ++ [(tag, dur, need, cost)]
    ({ w with targets := w.targets.set tgt { t with params := ps } }, .ok)
  | .regObj s obj ovr =>
    let sw := w.scheds.getD s default
    let (s', r) := sw.s.register obj ovr
    ({ w with scheds := w.scheds.set s { sw with s := s' } }, .bool r)
  | .unregObj s obj =>
    let sw := w.scheds.getD s default
    let (s', r) := sw.s.unregister obj
    ({ w with scheds := w.scheds.set s { sw with s := s' } }, .bool r)
  | .setVar k v =>
    let sv := if w.svars.length ≤ k then w.svars ++ List.replicate (k + 1 - w.svars.length) 0 else w.svars
    ({ w with svars := sv.set k v }, .ok)
  | .addSensor c s =>
    let l := w.cmsSensors.getD c []
    if l.contains s then (w, .ok)
    else
      let cs := if w.cmsSensors.length ≤ c then w.cmsSensors ++ List.replicate (c + 1 - w.cmsSensors.length) [] else w.cmsSensors
      let sw := w.sensors.getD s default
      ({ w with cmsSensors := cs.set c (l ++ [s]),
                sensors := w.sensors.set s { sw with s := sw.s.addCb (1000 + c) } }, .ok)
  | .create spec => (w.addAsset spec, .ok)

def applyOps (w : World) (ops : List Op) : World :=
  ops.foldl (fun w op => let (w', r) := w.applyOp op; w'.addRes r) w

def runScript (w : World) (k : Nat) : World := w.applyOps (w.scripts.getD k [])

/-! ### resource availability check -/

def scanOps : ScanOps World where
  rm := fun w => w.rm
  call := fun w cb _ =>
    match cb with
    | .script k => (w.addRes (.cb k)).runScript k
    | .proc d => w.procResourceCb d
  erase := fun w i => { w with rm := { w.rm with waiting := w.rm.waiting.eraseIdx i } }

/-- `_check_pending_requests()`. -/
def rmCheck (w : World) : World := scanWaiting scanOps 10000 w 0

/-! ### maintainer events -/

def hookStart (w : World) (tgt : Nat) (tag : Int) : World :=
  let t := w.targets.getD tgt default
  let w := w.addRes (.hook true tgt tag)
  match t.dev with
  | some d => w.shutdownDev d false none
  | none => match t.startScript with
    | some k => w.runScript k
    | none => w

def hookEnd (w : World) (tgt : Nat) (tag : Int) : World :=
  let t := w.targets.getD tgt default
  let w := w.addRes (.hook false tgt tag)
  match t.dev with
  | some d => w.restoreDev d
  | none => match t.endScript with
    | some k => w.runScript k
    | none => w

/-- `_start_work_order(request)`. -/
def startWork (w : World) (m seq : Nat) : World :=
  match (w.maint m).findActive seq with
  | none => w.setErr "start-unknown-order"
  | some o =>
    let (dur, _, _) := w.targetParams o.target o.tag
    let w := w.addRec (.workOrder 1 m w.now o.target o.tag o.info)
    let (_, _, cost) := w.targetParams o.target o.tag
    let w := w.modMaint m (fun mm => mm.startCost w.now cost)
    let w := w.hookStart o.target o.tag
    w.schedLib (w.now + dur) (w.maints.getD m default).aid (.finishWork m seq) pFinishWork

/-- `_finish_work_order(request)`. -/
def finishWork (w : World) (m seq : Nat) : World :=
  match (w.maint m).findActive seq with
  | none => w.setErr "finish-unknown-order"
  | some o =>
    let w := w.hookEnd o.target o.tag
    -- the hook may have created orders: re-read the maintainer
    let mm := w.maint m
    let mm := { mm with util := mm.util - o.needed, active := mm.active.erase o }
    let w := w.modMaint m (fun _ => mm)
    let w := w.addRec (.workOrder 2 m w.now o.target o.tag o.info)
    let (m', st) := (w.maint m).tryWork
    let w := w.modMaint m (fun _ => m')
    w.startOrders m st

/-! ### sensors -/

/-- `PeriodicSensor._periodic_sense()`. -/
def periodicSense (w : World) (s : Nat) : World :=
  let sw := w.sensors.getD s default
  let vals := sw.vars.map (fun k => w.svars.getD k 0)
  let s' := sw.s.periodic w.now vals
  let w := { w with sensors := w.sensors.set s { sw with s := s' } }
  let w := s'.cbs.foldl (fun w c => w.addRes (.sense s c w.now vals)) w
  w.schedLib (w.now + s'.interval) sw.aid (.periodicSense s) pSensor

/-! ### events -/

/-- Run the action of a popped live event. -/
def exec (w : World) (a : Action) : World :=
  match a with
  | .terminate => w            -- the flag is set by `Env.step`
  | .script k => w.runScript k
  | .finishCycle d => w.finishCycle d
  | .passPart d => w.passPart d
  | .fail d => w.failDev d
  | .releaseIfIdle d => w.releaseIfIdle d
  | .rmCheck => w.rmCheck
  | .startWork m o => w.startWork m o
  | .finishWork m o => w.finishWork m o
  | .schedUpdate s => w.schedUpdate s true
  | .periodicSense s => w.periodicSense s
  | .unknown _ => w.setErr "unknown-action"

/-- `Environment.step`: pop, set the clock, run the action unless cancelled. -/
def step (w : World) : Option (Event × World) :=
  match w.env.step with
  | none => none
  | some (e, env') =>
    let w1 := { w with env := env' }
    some (e, if e.live then w1.exec (Action.ofNat e.act) else w1)

/-- First part of `System.simulate`: initialise the resource manager and the assets (once). -/
def simulateInit (w : World) : World :=
  if w.started then w
  else
    let (rm, recs, chk) := w.rm.init
    let w := ({ w with rm := rm }).rmEffects recs chk
    let w := w.assets.foldl (fun w a => w.initAsset a) w
    { w with started := true }

/-- Beginning of `Environment.run(d)`. -/
def runBegin (w : World) (d : Int) : World × Res :=
  let t := w.env.now + d
  match w.env.runBegin Arith.exact d (weightOf w.seed w.wmod t (-1) terminateAct pTerminate) with
  | none => (w, .err .value)
  | some e => ({ w with env := e }, .ok)

/-- The loop of `Environment.run`, with fuel. -/
def runLoop : Nat → World → World
  | 0, w => w.setErr "fuel"
  | f + 1, w =>
    if w.env.running then
      match w.step with
      | none => w
      | some (_, w') => runLoop f w'
    else w

end World
end SimProc
