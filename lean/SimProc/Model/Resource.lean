/-
Model of `simprocesd/model/resource_manager.py` (ResourceManager, ReservedResources), as
repaired by the `fix:` commits for findings F1, F2, F3, F9 (see DESIGN.md section 8).

Pure component: every function returns the new manager, the result of the call, the
`resource_update` records it writes (resource, in use, capacity — the world stamps the time) and
whether an availability check has to be scheduled (`_schedule_check_pending_requesters`).
-/
import SimProc.Model.Basic
namespace SimProc

/-- A request / a holding: resource ↦ amount, in dictionary (insertion) order, keys distinct. -/
abbrev Req := List (Nat × Int)

/-- Who is called back when a waiting request fits. -/
inductive Cb where
  | script (k : Nat)
  | proc (d : Nat)
deriving Repr, DecidableEq, Inhabited

/-- A `resource_update` datapoint without its time stamp. -/
structure ResRec where
  res : Nat
  inUse : Int
  cap : Int
deriving Repr, DecidableEq, Inhabited

structure RM where
  /-- `_resources`: (name, in use, capacity) in insertion order. -/
  pools : List (Nat × Int × Int) := []
  /-- every `ReservedResources` object ever created: its id and what it still holds. -/
  resv : List (Nat × Req) := []
  /-- `_waiting_requests`. -/
  waiting : List (Req × Cb) := []
  /-- `_env != None`. -/
  inited : Bool := false
deriving Repr, Inhabited

namespace RM

def lookup (rm : RM) (r : Nat) : Option (Int × Int) :=
  (rm.pools.find? (fun p => p.1 == r)).map (fun p => p.2)

def usage (rm : RM) (r : Nat) : Int := ((rm.lookup r).map (·.1)).getD 0
def capacity (rm : RM) (r : Nat) : Int := ((rm.lookup r).map (·.2)).getD 0

/-- `self._resources[r] = v` (update in place, or append a new key). -/
def setPool (rm : RM) (r : Nat) (v : Int × Int) : RM :=
  if rm.pools.any (fun p => p.1 == r) then
    { rm with pools := rm.pools.map (fun p => if p.1 == r then (r, v) else p) }
  else { rm with pools := rm.pools ++ [(r, v)] }

def recOf (rm : RM) (r : Nat) : List ResRec :=
  if rm.inited then [⟨r, rm.usage r, rm.capacity r⟩] else []

/-- `_can_fulfill_request`. -/
def canFulfill (rm : RM) (req : Req) : Bool :=
  req.all (fun (r, a) => a == 0 ||
    match rm.lookup r with
    | some (u, c) => !(decide (c - u < a))
    | none => false)

/-- `initialize(env)`: one record per known resource (dictionary order); a check is scheduled
when requests are already waiting (F9 repair). -/
def init (rm : RM) : RM × List ResRec × Bool :=
  let rm' := { rm with inited := true }
  (rm', rm.pools.map (fun p => ⟨p.1, p.2.1, p.2.2⟩), !rm.waiting.isEmpty)

/-- `add_resources(r, amt)`. -/
def add (rm : RM) (r : Nat) (amt : Int) : RM × Res × List ResRec × Bool :=
  if amt == 0 then (rm, .ok, [], false)
  else
    match rm.lookup r with
    | some (u, c) =>
      if amt < 0 ∧ c + amt < 0 then (rm, .err .value, [], false)
      else
        let rm' := rm.setPool r (u, c + amt)
        (rm', .ok, rm'.recOf r, rm.inited)
    | none =>
      if amt < 0 then (rm, .err .value, [], false)      -- F2 repair
      else
        let rm' := rm.setPool r (0, amt)
        (rm', .ok, rm'.recOf r, rm.inited)

/-- Debit the pools for the positive entries of a request, one record each. -/
def take (rm : RM) : Req → RM × List ResRec
  | [] => (rm, [])
  | (r, a) :: rest =>
    if a == 0 then rm.take rest
    else
      let rm1 := rm.setPool r (rm.usage r + a, rm.capacity r)
      let (rm2, recs) := rm1.take rest
      (rm2, rm1.recOf r ++ recs)

/-- `reserve_resources(request)`: `(.err .value)` for a negative amount (checked first — F1
repair); `some id` = a new `ReservedResources` over the positive entries; `none` = `None`. -/
def reserve (rm : RM) (req : Req) : RM × Res × Option Nat × List ResRec :=
  if req.any (fun p => p.2 < 0) then (rm, .err .value, none, [])
  else
    let filtered := req.filter (fun p => p.2 > 0)
    if rm.canFulfill filtered then
      let (rm1, recs) := rm.take req
      let id := rm1.resv.length
      ({ rm1 with resv := rm1.resv ++ [(id, filtered)] }, .some_, some id, recs)
    else (rm, .none_, none, [])

def held (rm : RM) (id : Nat) : Option Req :=
  (rm.resv.find? (fun p => p.1 == id)).map (·.2)

def setHeld (rm : RM) (id : Nat) (h : Req) : RM :=
  { rm with resv := rm.resv.map (fun p => if p.1 == id then (id, h) else p) }

/-- `_release_resources(resources)` (pool side). -/
def credit (rm : RM) : Req → RM × List ResRec
  | [] => (rm, [])
  | (r, a) :: rest =>
    if a == 0 then rm.credit rest
    else
      let rm1 := rm.setPool r (rm.usage r - a, rm.capacity r)
      let (rm2, recs) := rm1.credit rest
      (rm2, rm1.recOf r ++ recs)

def heldAmt (h : Req) (r : Nat) : Option Int := (h.find? (fun p => p.1 == r)).map (·.2)

/-- Validation loop of `ReservedResources.release(resources)` (F3 repair: the name is looked up
for every entry, also for amount 0). -/
def validateRelease (h : Req) : Req → Res
  | [] => .ok
  | (r, a) :: rest =>
    if a < 0 then .err .value
    else match heldAmt h r with
      | none => .err .key
      | some x => if x < a then .err .value else validateRelease h rest

/-- Reduce the holdings by the released amounts, dropping entries that reach 0. -/
def reduceHeld (h : Req) (rel : Req) : Req :=
  (h.map (fun (r, x) => (r, x - ((heldAmt rel r).getD 0)))).filter (fun p => p.2 != 0)

/-- `ReservedResources.release(resources = None | dict)` on reservation `id`. -/
def release (rm : RM) (id : Nat) (part : Option Req) : RM × Res × List ResRec × Bool :=
  match rm.held id with
  | none => (rm, .err .attribute, [], false)
  | some h =>
    match part with
    | none =>
      let (rm1, recs) := rm.credit h
      (rm1.setHeld id [], .ok, recs, rm.inited)
    | some rel =>
      match validateRelease h rel with
      | .ok =>
        let (rm1, recs) := rm.credit rel
        (rm1.setHeld id (reduceHeld h rel), .ok, recs, rm.inited)
      | e => (rm, e, [], false)

/-- `a.merge(b)`: add `b`'s holdings to `a`, empty `b`; merging a reservation into itself does
nothing (repair of finding F11: the source used to double and then drop the holdings). -/
def mergeHeld (ha hb : Req) : Req :=
  hb.foldl (fun acc (r, x) =>
    match heldAmt acc r with
    | some _ => acc.map (fun (r', y) => if r' == r then (r', y + x) else (r', y))
    | none => acc ++ [(r, x)]) ha

def merge (rm : RM) (a b : Nat) : RM × Res :=
  match rm.held a, rm.held b with
  | some ha, some hb =>
    if a == b then (rm, .ok) else ((rm.setHeld a (mergeHeld ha hb)).setHeld b [], .ok)
  | none, _ => (rm, .err .attribute)
  | _, none => (rm, .err .type_)

/-- `reserve_resources_with_callback(request, callback)`. -/
def register (rm : RM) (req : Req) (cb : Cb) : RM × Bool :=
  ({ rm with waiting := rm.waiting ++ [(req, cb)] }, rm.inited)

end RM

/-- `_check_pending_requests`, generic in the state the callbacks act on: index scan; feasibility
is re-evaluated before every callback; the entry is removed after its callback returned. -/
structure ScanOps (σ : Type) where
  rm : σ → RM
  call : σ → Cb → Req → σ
  erase : σ → Nat → σ

def scanWaiting {σ : Type} (o : ScanOps σ) : Nat → σ → Nat → σ
  | 0, s, _ => s
  | f + 1, s, i =>
    match (o.rm s).waiting[i]? with
    | none => s
    | some (req, cb) =>
      if (o.rm s).canFulfill req then
        scanWaiting o f (o.erase (o.call s cb req) i) i
      else scanWaiting o f s (i + 1)

end SimProc

namespace SimProc

/-- The operations of the resource manager as one type (for "every sequence of operations"). -/
inductive RMOp where
  | init
  | add (r : Nat) (amt : Int)
  | reserve (req : Req)
  | release (id : Nat) (part : Option Req)
  | merge (a b : Nat)
  | register (req : Req) (cb : Cb)
deriving Repr, DecidableEq, Inhabited

/-- Apply one operation: new manager, result, whether an availability check is scheduled. -/
def RM.apply (rm : RM) : RMOp → RM × Res × Bool
  | .init => let (rm', _, chk) := rm.init; (rm', .ok, chk)
  | .add r amt => let (rm', res, _, chk) := rm.add r amt; (rm', res, chk)
  | .reserve req => let (rm', res, _, _) := rm.reserve req; (rm', res, false)
  | .release id part => let (rm', res, _, chk) := rm.release id part; (rm', res, chk)
  | .merge a b => let (rm', res) := rm.merge a b; (rm', res, false)
  | .register req cb => let (rm', chk) := rm.register req cb; (rm', .ok, chk)

def RM.applyAll (rm : RM) : List RMOp → RM
  | [] => rm
  | op :: ops => (rm.apply op).1.applyAll ops

end SimProc
