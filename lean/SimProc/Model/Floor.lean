/-
Model of the factory floor: `part_flow_controller.py`, `part_handler.py`, `part_processor.py`,
`source.py`, `sink.py`, `buffer.py`, `part_batcher.py`, `decision_gate.py`, `group.py`,
`part.py`, `batch.py` — one function per method, class dispatch written out on `Dev.kind`.
-/
import SimProc.Model.WorldDef
namespace SimProc
namespace World

/-! ### parts -/

def isBatch (w : World) (p : Nat) : Bool := (w.part p).kids.isSome

/-- `Buffer._get_part_count` / the sink's count: the parts of a batch, one level. -/
def leavesOf (w : World) (p : Nat) : List Nat :=
  match (w.part p).kids with
  | some l => l
  | none => [p]

def leafCount (w : World) (p : Nat) : Nat :=
  match (w.part p).kids with
  | some l => l.length
  | none => 1

/-- `Part.value` / `Batch.value`. -/
def partValue (w : World) (p : Nat) : Int :=
  match (w.part p).kids with
  | some l => (l.map (fun k => (w.part k).value)).foldl (· + ·) 0
  | none => (w.part p).value

/-- `add_routing_history(device)` (a batch also updates the parts it contains). -/
def addHist (w : World) (p d : Nat) : World :=
  let w := w.modPart p (fun r => { r with hist := r.hist ++ [d] })
  match (w.part p).kids with
  | some l => l.foldl (fun w k => w.modPart k (fun r => { r with hist := r.hist ++ [d] })) w
  | none => w

/-- `remove_from_routing_history(-1)`. -/
def dropHist (w : World) (p : Nat) : World :=
  let w := w.modPart p (fun r => { r with hist := r.hist.dropLast })
  match (w.part p).kids with
  | some l => l.foldl (fun w k => w.modPart k (fun r => { r with hist := r.hist.dropLast })) w
  | none => w

def newPart (w : World) (r : PartRec) : World × Nat :=
  ({ w with parts := w.parts ++ [r] }, w.parts.length)

/-! ### devices: small helpers -/

def isHandlerLike (k : Kind) : Bool :=
  match k with
  | .source | .handler | .processor | .buffer | .batcher | .sink => true
  | _ => false

/-- `is_operational()`. -/
def operational (w : World) (x : Nat) : Bool :=
  match (w.dev x).kind with
  | .processor => !(w.dev x).shutDown
  | _ => true

/-- `cycle_time` getter (a buffer always reports 0). -/
def cycleTime (w : World) (x : Nat) : Int :=
  match (w.dev x).kind with
  | .buffer => 0
  | _ => (w.dev x).cycle

/-- `_set_waiting_for_part(is_waiting, reset)`. -/
def setWaiting (w : World) (x : Nat) (isWaiting reset : Bool) : World :=
  let d := w.dev x
  if !isWaiting then w.setDev x { d with since := none }
  else if d.since.isSome && !reset then w
  else if d.inited then w.setDev x { d with since := some w.now }
  else w

/-- `waiting_for_part_start_time` (pass-through controllers: minimum over `_downstream`). -/
def waitingSince : Nat → World → Nat → Option Int
  | 0, _, _ => none
  | f + 1, w, x =>
    if isHandlerLike (w.dev x).kind then (w.dev x).since
    else
      (w.dev x).down.foldl (fun acc d =>
        match waitingSince f w d, acc with
        | none, a => a
        | some t, none => some t
        | some t, some a => some (if t < a then t else a)) none

/-- sort key order: `None` counts as +infinity. -/
def keyLe (a b : Option Int) : Bool :=
  match a, b with
  | _, none => true
  | none, some _ => false
  | some x, some y => decide (x ≤ y)

def insertByKey (key : Nat → Option Int) (x : Nat) : List Nat → List Nat
  | [] => [x]
  | y :: ys => if keyLe (key y) (key x) then y :: insertByKey key x ys else x :: y :: ys

/-- `sorted(l, key = ...)` (stable). -/
def stableSort (key : Nat → Option Int) (l : List Nat) : List Nat :=
  l.foldl (fun acc x => insertByKey key x acc) []

/-- `get_sorted_downstream_list()`. -/
def sortedDown (w : World) (x : Nat) : List Nat :=
  stableSort (fun d => waitingSince w.fuel w d) (w.dev x).down

/-- `_schedule_pass_part_downstream(time_offset)` (a sink's override does nothing). -/
def schedulePass (w : World) (x : Nat) (offset : Int) : World :=
  let d := w.dev x
  match d.kind with
  | .sink => w
  | _ =>
    let w := w.setDev x { d with waitingDS := false }
    let t := if w.now + offset < 0 then 0 else w.now + offset
    w.schedLib t d.aid (.passPart x) pPassPart

/-! ### notifications (`notify_upstream_of_available_space` / `space_available_downstream`) -/

mutual
def notifyUp : Nat → World → Nat → World
  | 0, w, _ => w.setErr "fuel"
  | f + 1, w, x =>
    let d := w.dev x
    match d.kind with
    | .buffer =>
      if (match d.cap with | none => true | some c => decide (d.level < c)) then
        let w := w.setWaiting x true false
        (w.dev x).up.foldl (fun w u => spaceAvail f w u) w
      else w
    | .source | .handler | .processor | .batcher | .sink =>
      -- the idle clock starts only when both slots are free (fix of finding F13)
      let w := if d.part.isNone && d.output.isNone then w.setWaiting x true false else w
      (w.dev x).up.foldl (fun w u => spaceAvail f w u) w
    | .ginput =>
      ((w.groups.getD d.group default).paths).foldl (fun w gp => notifyUp f w gp) w
    | .gate | .gpath | .goutput =>
      d.up.foldl (fun w u => spaceAvail f w u) w

def spaceAvail : Nat → World → Nat → World
  | 0, w, _ => w.setErr "fuel"
  | f + 1, w, x =>
    let d := w.dev x
    match d.kind with
    | .gate => notifyUp f w x
    | .source | .handler | .processor | .buffer | .batcher | .sink =>
      if w.operational x && d.waitingDS then w.schedulePass x 0 else w
    | .ginput | .goutput => notifyUp f w x
    | .gpath => spaceAvail f w (w.groups.getD d.group default).output
end

def notify (w : World) (x : Nat) : World := notifyUp w.fuel w x
def spaceAvailable (w : World) (x : Nat) : World := spaceAvail w.fuel w x

/-! ### resources of a processor -/

/-- `_release_reserved_resources()`. -/
def releaseReserved (w : World) (x : Nat) : World :=
  match (w.dev x).reserved with
  | none => w
  | some id =>
    let (rm, _, recs, chk) := w.rm.release id none
    let w := { w with rm := rm }
    let w := w.rmEffects recs chk
    w.modDev x (fun d => { d with reserved := none })

/-- The resource part of `PartProcessor._can_accept_part`. -/
def procAcquire (w : World) (x : Nat) : World × Bool :=
  let d := w.dev x
  match d.resReq with
  | none => (w, true)
  | some req =>
    if d.reserved.isSome then (w, true)
    else
      match w.rm.reserve req with
      | (rm, _, some id, recs) =>
        let w := { w with rm := rm }
        let w := w.rmEffects recs false
        (w.modDev x (fun d => { d with reserved := some id }), true)
      | (_, .err _, none, _) => (w.setErr "reserve-raised", false)
      | (_, _, none, _) =>
        if d.waitingRes then (w, false)
        else
          let (rm, chk) := w.rm.register req (.proc x)
          let w := { w with rm := rm }
          let w := w.rmEffects [] chk
          (w.modDev x (fun d => { d with waitingRes := true }), false)

/-! ### accepting a part -/

def gatePred (w : World) (pr : Pred) (p : Nat) : Bool :=
  let q := (w.part p).quality
  let v := w.partValue p
  match pr with
  | .always => true | .never => false
  | .qualityGe a => decide (q ≥ a) | .qualityLt a => decide (q < a)
  | .valueGe a => decide (v ≥ a) | .valueLt a => decide (v < a)

/-- The state part of `_can_accept_part` (everything except the processor's resources). -/
def canAcceptBasic (w : World) (x p : Nat) : Bool :=
  let d := w.dev x
  match d.kind with
  | .buffer =>
    (match d.cap with | none => true | some c => decide (d.level + w.leafCount p ≤ c) && decide (d.level < c)) &&
      w.operational x && !d.blockInput && d.part.isNone && d.output.isNone
  | .source | .handler | .processor | .batcher | .sink =>
    w.operational x && !d.blockInput && d.part.isNone && d.output.isNone
  | _ => w.operational x && !d.blockInput

/-- Apply a table-driven receive/finish callback `c(device, part)`; batches are left alone. -/
def applyPartCb (w : World) (x p : Nat) (c : PartCb) : World :=
  let w := match c.setCycle with
    | some v => w.modDev x (fun d => { d with cycle := v })
    | none => w
  let w := w.modDev x (fun d => { d with offset := d.offset + c.offset })
  if w.isBatch p then w
  else
    let w := if c.addValue == 0 then w else
      w.modPart p (fun r => { r with value := r.value + c.addValue })
    match c.setQuality with
    | some q => w.modPart p (fun r => { r with quality := q })
    | none => w

/-- Sense with an output-part sensor on part `p`. -/
def senseOutput (w : World) (s p : Nat) : World :=
  let sw := w.sensors.getD s default
  let (s1, doIt) := sw.s.countPart
  let w := { w with sensors := w.sensors.set s { sw with s := s1 } }
  if doIt then
    let vals := sw.attrs.map (fun a => if a == 0 then (w.part p).quality else w.partValue p)
    let s2 := s1.collect vals
    let w := { w with sensors := w.sensors.set s { sw with s := s2 } }
    s2.cbs.foldl (fun w c => w.addRes (.sense s c w.now vals)) w
  else w

/-- `Sink._finish_cycle` / `PartHandler._finish_cycle` / `PartProcessor._finish_cycle`. -/
def finishCycleHandler (w : World) (x : Nat) : World :=
  let d := w.dev x
  if !w.operational x then w.setErr "assert-operational"
  else match d.part with
  | none => w.setErr "assert-input-missing"
  | some p =>
    if d.output.isSome then w.setErr "assert-output-full"
    else
      let w := w.setDev x { d with output := some p, part := none }
      w.schedulePass x 0

def genPart (w : World) (x : Nat) : World × Nat :=
  let d := w.dev x
  if d.genBatch == 0 then
    let (w, p) := w.newPart { quality := d.genQuality, value := d.genValue }
    ({ w with generated := w.generated ++ [p] }, p)
  else
    let n := d.genBatch.toNat
    let (w, kids) := (List.range n).foldl (fun (acc : World × List Nat) _ =>
      let (w', k) := acc.1.newPart { quality := d.genQuality, value := d.genValue }
      (w', acc.2 ++ [k])) (w, [])
    let w := { w with generated := w.generated ++ kids }
    w.newPart { quality := 0, value := 0, kids := some kids }

def finishCycle (w : World) (x : Nat) : World :=
  let d := w.dev x
  match d.kind with
  | .source =>
    let w := if d.output.isNone then
        let (w, p) := w.genPart x
        let w := w.modDev x (fun d => { d with output := some p })
        w.addHist p x
      else w
    w.schedulePass x 0
  | .sink =>
    let w := w.finishCycleHandler x
    let w := w.modDev x (fun d => { d with output := none })
    w.notify x
  | .processor =>
    let w := w.finishCycleHandler x
    let d := w.dev x
    let w := w.setDev x { d with timeInUse := d.timeInUse + (w.now - d.lastUseStart.getD w.now),
                                 lastUseStart := none }
    let w := if d.reserved.isSome then w.schedLib w.now d.aid (.releaseIfIdle x) pRelease else w
    match (w.dev x).output with
    | none => w
    | some p =>
      let w := d.finCbs.foldl (fun w c => w.applyPartCb x p c) w
      let w := d.finSensors.foldl (fun w s => w.senseOutput s p) w
      w.addRec (.produced x w.now p (w.part p).quality (w.partValue p))
  | _ => w.finishCycleHandler x

/-- `_schedule_finish_cycle()`. -/
def scheduleFinish (w : World) (x : Nat) : World :=
  let d := w.dev x
  let c := w.cycleTime x + d.offset
  let c := if c < 0 then 0 else c
  let w := w.setDev x { d with offset := 0 }
  if c ≤ 0 then w.finishCycle x
  else w.schedLib (w.now + c) d.aid (.finishCycle x) pFinish

/-- Move parts from the batcher's input to its output / batch under construction. -/
def batcherLoop : Nat → World → Nat → World
  | 0, w, _ => w
  | f + 1, w, x =>
    let d := w.dev x
    match d.output, d.part with
    | none, some p =>
      -- _get_part_from_input
      let (w, t) := match (w.part p).kids with
        | some (k :: rest) =>
          let w := w.modPart p (fun r => { r with kids := some rest })
          let w := if rest.isEmpty then w.modDev x (fun d => { d with part := none }) else w
          (w, k)
        | _ => (w.modDev x (fun d => { d with part := none }), p)
      -- _add_part_to_output
      let w := match (w.dev x).bsize with
        | none => w.modDev x (fun d => { d with output := some t })
        | some n =>
          let (w, b) := match (w.dev x).inprog with
            | some b => (w, b)
            | none =>
              let (w, b) := w.newPart { quality := 0, value := 0, kids := some [] }
              (w.modDev x (fun d => { d with inprog := some b }), b)
          let w := w.modPart b (fun r => { r with kids := some ((r.kids.getD []) ++ [t]) })
          if ((w.part b).kids.getD []).length ≥ n then
            w.modDev x (fun d => { d with output := some b, inprog := none })
          else w
      batcherLoop f w x
    | _, _ => w

/-- `_try_move_part_to_output()`. -/
def tryMove (w : World) (x : Nat) : World :=
  let d := w.dev x
  match d.kind with
  | .buffer =>
    match d.part with
    | none => w
    | some p =>
      let w := w.setDev x { d with buf := d.buf ++ [(w.now, p)], part := none }
      let w := w.notify x
      if (w.dev x).buf.length == 1 then w.schedulePass x d.delay else w
  | .batcher =>
    if !w.operational x || d.part.isNone || d.output.isSome then w
    else
      match d.part with
      | none => w
      | some p =>
        if (match (w.part p).kids with | some l => l.isEmpty | none => false) then
          w.setDev x { d with part := none }
        else
          let w := batcherLoop (w.leafCount p + 2) w x
          if (w.dev x).output.isSome then w.schedulePass x 0 else w
  | .processor =>
    if w.operational x && d.part.isSome && d.output.isNone then
      let w := w.setDev x { d with lastUseStart := some w.now }
      w.scheduleFinish x
    else w
  | _ =>
    if w.operational x && d.part.isSome && d.output.isNone then w.scheduleFinish x else w

/-- `_on_received_new_part()`. -/
def onReceived (w : World) (x p : Nat) : World :=
  let d := w.dev x
  let w := match d.kind with
    | .sink =>
      let v := w.partValue p
      let w := w.setDev x { d with
        recvCount := d.recvCount + w.leafCount p
        recvValue := d.recvValue + v
        val := d.val.addValue lblCollected w.now v
        collected := if d.collect then d.collected ++ [p] else d.collected }
      w
    | .buffer =>
      let w := w.setDev x { d with level := d.level + w.leafCount p }
      w.addRec (.level x w.now (w.dev x).level)
    | _ => w
  let w := w.addRec (.received x w.now p (w.part p).quality (w.partValue p))
  let w := (w.dev x).recvCbs.foldl (fun w c => w.applyPartCb x p c) w
  if (w.dev x).output.isNone then w.tryMove x else w

/-- `_accept_part(part)`. -/
def acceptPart (w : World) (x p : Nat) : World :=
  let w := if (w.dev x).kind == .sink then { w with delivered := w.delivered ++ w.leavesOf p } else w
  let w := w.modDev x (fun d => { d with part := some p })
  let w := w.addHist p x
  let w := w.setWaiting x false false
  w.onReceived x p

/-- Offer `p` to the devices of `l` in order until one accepts. -/
def tryList (g : World → Nat → Nat → World × Bool) : World → List Nat → Nat → World × Bool
  | w, [], _ => (w, false)
  | w, y :: ys, p =>
    match g w y p with
    | (w', true) => (w', true)
    | (w', false) => tryList g w' ys p

/-- `give_part(part)` with the class dispatch written out. -/
def give : Nat → World → Nat → Nat → World × Bool
  | 0, w, _, _ => (w.setErr "fuel", false)
  | f + 1, w, x, p =>
    let d := w.dev x
    match d.kind with
    | .source | .handler | .buffer | .batcher | .sink =>
      if w.canAcceptBasic x p then (w.acceptPart x p, true) else (w, false)
    | .processor =>
      if w.canAcceptBasic x p then
        match w.procAcquire x with
        | (w, true) => (w.acceptPart x p, true)
        | (w, false) => (w, false)
      else (w, false)
    | .gate =>
      if !w.gatePred d.pred p then (w, false)
      else if !w.canAcceptBasic x p then (w, false)
      else
        let w := w.addHist p x
        match tryList (give f) w (w.sortedDown x) p with
        | (w, true) => (w, true)
        | (w, false) => (w.dropHist p, false)
    | .ginput =>
      if !w.canAcceptBasic x p then (w, false)
      else tryList (give f) w (w.sortedDown x) p
    | .gpath =>
      if d.blockInput then (w, false)
      else
        let w := w.modPart p (fun r => { r with stack := r.stack ++ [x] })
        let w := w.addHist p x
        match give f w (w.groups.getD d.group default).input p with
        | (w, true) => (w, true)
        | (w, false) =>
          let w := w.modPart p (fun r => { r with stack := r.stack.dropLast })
          (w.dropHist p, false)
    | .goutput =>
      match (w.part p).stack.getLast? with
      | none => (w.setErr "no-group-path", false)
      | some g =>
        -- F8 repair: leave the group (pop) before handing over, re-enter on refusal
        let w := w.modPart p (fun r => { r with stack := r.stack.dropLast })
        match tryList (give f) w (w.sortedDown g) p with
        | (w, true) => (w, true)
        | (w, false) => (w.modPart p (fun r => { r with stack := r.stack ++ [g] }), false)

def givePart (w : World) (x p : Nat) : World × Bool := give w.fuel w x p

/-! ### passing parts downstream -/

/-- `PartHandler._pass_part_downstream()`. -/
def passHandler (w : World) (x : Nat) : World :=
  let d := w.dev x
  if !w.operational x then w
  else match d.output with
  | none => w
  | some p =>
    match tryList givePart w (w.sortedDown x) p with
    | (w, true) =>
      let w := w.modDev x (fun d => { d with output := none })
      w.notify x
    | (w, false) => w.modDev x (fun d => { d with waitingDS := true })

/-- The loop of `Buffer._pass_part_downstream`. -/
def bufferLoop : Nat → World → Nat → World
  | 0, w, _ => w
  | f + 1, w, x =>
    let d := w.dev x
    match d.buf with
    | [] => w
    | (t, p) :: rest =>
      if d.delay - (w.now - t) > 0 then w
      else
        let n := w.leafCount p
        match tryList givePart w (w.sortedDown x) p with
        | (w, true) =>
          -- `self._buffer.pop(0)`: the head as it is NOW (a hand-over that loops back into this very
          -- buffer has appended an entry in the meantime)
          let w := w.modDev x (fun d => { d with level := d.level - n, buf := d.buf.drop 1 })
          let w := w.addRec (.level x w.now (w.dev x).level)
          bufferLoop f w x
        | (w, false) => w

def passPart (w : World) (x : Nat) : World :=
  let d := w.dev x
  match d.kind with
  | .source =>
    let remaining : Option Int := d.maxParts.map (fun m => if m - d.produced < 0 then 0 else m - d.produced)
    if (match remaining with | some r => decide (r < 1) | none => false) then w
    else match d.output with
    | none => w
    | some p =>
      let v := w.partValue p
      let w := w.passHandler x
      if (w.dev x).output.isNone then
        let w := w.modDev x (fun d => { d with
          produced := d.produced + 1
          val := d.val.addCost lblSupplied w.now v
          costProduced := d.costProduced + v })
        let w := w.addRec (.supplied x w.now p)
        w.scheduleFinish x
      else w
  | .buffer =>
    let w := bufferLoop (d.buf.length + 1) w x
    let d := w.dev x
    let w := match d.buf with
      | [] => w
      | (t, _) :: _ =>
        let rem := d.delay - (w.now - t)
        if rem > 0 then w.schedulePass x rem
        else w.setDev x { d with waitingDS := true }
    w.notify x
  | .batcher =>
    let w := w.passHandler x
    if (w.dev x).output.isNone then w.tryMove x else w
  | .sink => w
  | _ => w.passHandler x

/-! ### processors: failure, shutdown, restore -/

/-- `_shutdown(is_failure, lost_part)` (with the repair of F6: a failure that arrives while the
machine is shut down with a part in process still discards the machine's events and reports the
lost part). -/
def shutdownDev (w : World) (x : Nat) (isFailure : Bool) (lost : Option Nat) : World :=
  let d := w.dev x
  if d.shutDown then
    if isFailure && lost.isSome then
      let w := w.envOp (.cancel d.aid)
      (List.range d.nShutCbs).foldl (fun w k => w.addRes (.shut x k true lost)) w
    else w
  else
    let w := w.setDev x { d with shutDown := true }
    let w := if isFailure then w.envOp (.cancel d.aid) else w.envOp (.pause d.aid)
    let d := w.dev x
    let d := { d with uptime := d.uptime + (w.now - d.lastRestore.getD w.now), lastRestore := none }
    let d := match d.lastUseStart with
      | some t => { d with timeInUse := d.timeInUse + (w.now - t), lastUseStart := none }
      | none => d
    let w := w.setDev x d
    let w := w.setWaiting x false false
    (List.range d.nShutCbs).foldl (fun w k => w.addRes (.shut x k isFailure lost)) w

/-- `_fail()`. -/
def failDev (w : World) (x : Nat) : World :=
  let lost := (w.dev x).part
  let w := match lost with
    | some p => { w with lost := w.lost ++ w.leavesOf p }
    | none => w
  let w := w.modDev x (fun d => { d with part := none })
  let w := w.releaseReserved x
  let w := w.addRec (.failure x w.now lost)
  w.shutdownDev x true lost

/-- `restore_functionality()`. -/
def restoreDev (w : World) (x : Nat) : World :=
  let d := w.dev x
  if !d.shutDown then w
  else
    let w := w.setDev x { d with shutDown := false, lastRestore := some w.now }
    let w := w.envOp (.unpause d.aid)
    let w := if (w.dev x).output.isSome then w.schedulePass x 0
      else if (w.dev x).part.isNone then w.notify x else w
    let w := if (w.dev x).part.isSome then w.modDev x (fun d => { d with lastUseStart := some w.now }) else w
    (List.range d.nRestCbs).foldl (fun w k => w.addRes (.restored x k)) w

/-- `_release_resources_if_idle()`. -/
def releaseIfIdle (w : World) (x : Nat) : World :=
  if !w.operational x || (w.dev x).part.isNone then w.releaseReserved x else w

/-- `_reserve_resource_callback`. -/
def procResourceCb (w : World) (x : Nat) : World :=
  let w := w.modDev x (fun d => { d with waitingRes := false })
  w.notify x

/-! ### scripted operations on devices -/

/-- `block_input = b`. -/
def setBlock (w : World) (x : Nat) (b : Bool) : World :=
  if (w.dev x).blockInput == b then w
  else
    let w := w.modDev x (fun d => { d with blockInput := b })
    if !b then w.notify x else w

/-- `Source.adjust_part_count(v)`. -/
def adjustParts (w : World) (x : Nat) (v : Int) : World :=
  let d := w.dev x
  match d.maxParts with
  | none => w          -- inf - produced < 1 is false; inf + v = inf
  | some m =>
    let wasEmpty := decide (m - d.produced < 1)
    let m' := if m + v < d.produced then d.produced else m + v
    let w := w.setDev x { d with maxParts := some m' }
    if wasEmpty then w.schedulePass x 0 else w

/-- `set_upstream(new)` at run time (validity is the scenario generator's business). -/
def rewire (w : World) (x : Nat) (ups : List Nat) : World :=
  let d := w.dev x
  let w := if isHandlerLike d.kind && d.since.isSome && d.inited then w.setWaiting x true true else w
  let w := (w.dev x).up.foldl (fun w u => w.modDev u (fun du => { du with down := du.down.erase x })) w
  let w := w.modDev x (fun d => { d with up := ups })
  ups.foldl (fun w u =>
    if (w.dev u).down.contains x then w
    else
      let w := w.modDev u (fun du => { du with down := du.down ++ [x] })
      if (w.dev u).inited then w.spaceAvailable u else w) w

/-- `initialize(env)` of a device (class dispatch). -/
def initDev (w : World) (x : Nat) : World :=
  let w := w.modDev x (fun d => { d with inited := true, val := d.val.reset })
  let d := w.dev x
  match d.kind with
  | .gate | .gpath | .ginput | .goutput => w
  | .processor =>
    let w := w.setWaiting x true true
    w.modDev x (fun d => { d with lastRestore := some w.now })
  | .source =>
    let w := w.setWaiting x true true
    w.scheduleFinish x
  | _ => w.setWaiting x true true

end World
end SimProc
