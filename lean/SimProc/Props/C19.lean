/-
C19 — sensors sample when they should and keep bounded, aligned data.

Theorems about `SimProc/Model/Sensor.lean` (with the repair of finding F4) for every interval,
capacity, number of probes and every sequence of probed values.
-/
import SimProc.Model.Sensor
import SimProc.Model.World
import SimProc.Proofs.C19Lemmas

namespace SimProc
namespace C19

/-! ### when: periodic sensors -/

/-- The times at which a periodic sensor started at `t0` measures: each measurement schedules the
next one `interval` later (`World.periodicSense`, `World.initAsset`). -/
def senseTimes : Nat → Int → Int → List Int
  | 0, _, _ => []
  | n + 1, t, i => (t + i) :: senseTimes n (t + i) i

/-- The k-th measurement (k = 1, 2, …) happens exactly k intervals after the start. -/
theorem periodic_kth (n : Nat) (t0 i : Int) (k : Nat) (hk : k < n) :
    (senseTimes n t0 i)[k]? = some (t0 + ((k : Int) + 1) * i) := by
  induction n generalizing t0 k with
  | zero => omega
  | succ n ih =>
    cases k with
    | zero => simp [senseTimes]
    | succ k =>
      simp only [senseTimes, List.getElem?_cons_succ]
      rw [ih _ _ (by omega)]
      congr 1
      push_cast
      simp only [Int.add_mul]
      omega

/-! ### when: output-part sensors -/

/-- Which of the next `n` finished parts are measured. -/
def pattern : Nat → Sensor → List Bool
  | 0, _ => []
  | n + 1, s => (s.countPart).2 :: pattern n (s.countPart).1

/-- General counter: with `counter = c ≤ n = interval`, the next measured part is the `c`-th. -/
private theorem pattern_gen (m : Nat) (s : Sensor) (c n : Nat) (hc : s.counter = (c : Int))
    (hi : s.interval = (n : Int)) (hcn : c ≤ n) (j : Nat) (hj : j < m) :
    (pattern m s)[j]? = some (decide ((j + (n + 1 - c)) % (n + 1) = 0)) := by
  induction m generalizing s c j with
  | zero => omega
  | succ m ih =>
    cases j with
    | zero =>
      simp only [pattern, List.getElem?_cons_zero, Sensor.countPart, Nat.zero_add]
      by_cases h0 : c = 0
      · subst h0; simp [hc]
      · have h1 : ¬ (s.counter - 1 < 0) := by omega
        have h2 : (n + 1 - c) % (n + 1) = n + 1 - c := Nat.mod_eq_of_lt (by omega)
        simp only [h1, if_false, h2]
        simp; omega
    | succ j =>
      simp only [pattern, List.getElem?_cons_succ, Sensor.countPart]
      by_cases h0 : c = 0
      · subst h0
        have h1 : s.counter - 1 < 0 := by omega
        simp only [h1, if_true]
        rw [ih _ n (by simp [hi]) (by simpa using hi) (Nat.le_refl _) j (by omega)]
        have : j + 1 + (n + 1 - 0) = j + (n + 1 - n) + (n + 1) := by omega
        rw [this, Nat.add_mod_right]
      · have h1 : ¬ (s.counter - 1 < 0) := by omega
        simp only [h1, if_false]
        rw [ih _ (c - 1) (by simp; omega) (by simpa using hi) (by omega) j (by omega)]
        have : j + 1 + (n + 1 - c) = j + (n + 1 - (c - 1)) := by omega
        rw [this]

/-- The first finished part is measured and then every (n+1)-th, for a sensing interval n ≥ 0:
part j (counting from 0) is measured iff `j mod (n+1) = 0`. -/
theorem output_pattern (s : Sensor) (hc : s.counter = 0) (hi : 0 ≤ s.interval) (m j : Nat) (hj : j < m) :
    (pattern m s)[j]? = some (decide (j % (s.interval.toNat + 1) = 0)) := by
  have h := pattern_gen m s 0 s.interval.toNat (by simp [hc]) (by omega) (by omega) j hj
  simpa using h

/-! ### what: one value per probe, bounded aligned series -/

/-- A measurement stores one value per probe and remembers them as `last`. -/
theorem measure_shape (s : Sensor) (vals : List Int) (h : s.data.length = vals.length) :
    (s.collect vals).last = vals ∧ (s.collect vals).data.length = s.data.length ∧
    (s.collect vals).cbs = s.cbs ∧ (s.collect vals).time = s.time := by
  refine ⟨rfl, ?_, rfl, rfl⟩
  simp only [Sensor.collect]
  split <;> simp [List.length_zip, h]

/-- `k` periodic measurements `(time, values)` applied to a sensor. -/
def runPeriodic (s : Sensor) (samples : List (Int × List Int)) : Sensor :=
  samples.foldl (fun s x => s.periodic x.1 x.2) s

/-- The last `min k c` elements. -/
def lastN (c : Option Nat) (l : List α) : List α :=
  match c with
  | none => l
  | some c => l.drop (l.length - c)

private theorem lastN_nil (c : Option Nat) : lastN c ([] : List α) = [] := by
  cases c <;> simp [lastN]

private theorem lastN_length (c : Option Nat) (l1 : List α) (l2 : List β)
    (h : l1.length = l2.length) : (lastN c l1).length = (lastN c l2).length := by
  cases c <;> simp [lastN, h]

private theorem lastN_snoc (s : Sensor) (l : List α) (x : α) :
    lastN s.cap (l ++ [x]) =
      if s.overCap ((lastN s.cap l).length + 1) then (lastN s.cap l ++ [x]).drop 1
      else lastN s.cap l ++ [x] := by
  unfold Sensor.overCap lastN
  cases s.cap with
  | none => simp
  | some c =>
    simp only []
    rw [C19L.drop_snoc]
    simp

/-- One `collect` keeps the window invariant of the probe series. -/
private theorem collect_step (s0 : Sensor) (n : Nat) (vs : List (List Int)) (v : List Int)
    (hd : s0.data = (List.range n).map (fun j => lastN s0.cap (vs.map (·.getD j 0))))
    (hv : v.length = n) :
    (s0.collect v).data =
      (List.range n).map (fun j => lastN s0.cap ((vs ++ [v]).map (·.getD j 0))) := by
  rw [C19L.collect_data s0 n (lastN s0.cap (vs.map (·.getD 0 0))).length _ v hd
    (fun j => lastN_length _ _ _ (by simp)) hv]
  apply List.map_congr_left
  intro j _
  rw [List.map_append, List.map_singleton, lastN_snoc,
    lastN_length s0.cap (vs.map (·.getD j 0)) (vs.map (·.getD 0 0)) (by simp)]

/-- One `periodic` keeps the window invariant of the time and probe series. -/
private theorem periodic_step (s0 : Sensor) (n : Nat) (pre : List (Int × List Int)) (x : Int × List Int)
    (ht : s0.time = lastN s0.cap (pre.map (·.1)))
    (hd : s0.data = (List.range n).map (fun j => lastN s0.cap (pre.map (fun x => x.2.getD j 0))))
    (hv : x.2.length = n) :
    (s0.periodic x.1 x.2).cap = s0.cap ∧
    (s0.periodic x.1 x.2).time = lastN s0.cap ((pre ++ [x]).map (·.1)) ∧
    (s0.periodic x.1 x.2).data =
      (List.range n).map (fun j => lastN s0.cap ((pre ++ [x]).map (fun x => x.2.getD j 0))) := by
  have hd' : s0.data = (List.range n).map (fun j => lastN s0.cap ((pre.map (·.2)).map (·.getD j 0))) := by
    simpa [List.map_map, Function.comp_def] using hd
  have hc := collect_step s0 n (pre.map (·.2)) x.2 hd' hv
  have hdata : (s0.periodic x.1 x.2).data = (s0.collect x.2).data := by
    simp only [Sensor.periodic]; split <;> rfl
  refine ⟨?_, ?_, ?_⟩
  · simp only [Sensor.periodic]; split <;> rfl
  · rw [List.map_append, List.map_singleton, lastN_snoc, ← ht]
    simp only [Sensor.periodic, Sensor.collect, List.length_append, List.length_cons, List.length_nil]
    have : ∀ d l k, Sensor.overCap { s0 with time := s0.time ++ [x.1], data := d, last := l } k = s0.overCap k :=
      fun _ _ _ => rfl
    simp only [this]
    split <;> simp
  · rw [hdata, hc]
    simp [List.map_map, Function.comp_def]

private theorem runPeriodic_gen (s0 : Sensor) (n : Nat) (pre samples : List (Int × List Int))
    (ht : s0.time = lastN s0.cap (pre.map (·.1)))
    (hd : s0.data = (List.range n).map (fun j => lastN s0.cap (pre.map (fun x => x.2.getD j 0))))
    (hs : ∀ x ∈ samples, x.2.length = n) :
    (runPeriodic s0 samples).cap = s0.cap ∧
    (runPeriodic s0 samples).time = lastN s0.cap ((pre ++ samples).map (·.1)) ∧
    (runPeriodic s0 samples).data =
      (List.range n).map (fun j => lastN s0.cap ((pre ++ samples).map (fun x => x.2.getD j 0))) := by
  induction samples generalizing s0 pre with
  | nil => simpa [runPeriodic] using ⟨ht, hd⟩
  | cons x xs ih =>
    obtain ⟨h1, h2, h3⟩ := periodic_step s0 n pre x ht hd (hs x (by simp))
    have := ih (s0.periodic x.1 x.2) (pre ++ [x]) (by rw [h1]; exact h2) (by rw [h1]; exact h3)
      (fun y hy => hs y (by simp [hy]))
    simpa [runPeriodic, h1] using this

/-- With a data capacity `c ≥ 1`, after any number of measurements of a freshly initialised
periodic sensor every per-probe series AND the time series hold exactly the most recent
`min(count, c)` entries, in order — so all series have the same length and stay aligned. -/
theorem series_window (s : Sensor) (samples : List (Int × List Int))
    (hc : ∀ c, s.cap = some c → 1 ≤ c) (hs : ∀ x ∈ samples, x.2.length = s.nprobes) :
    (runPeriodic s.reset samples).time = lastN s.cap (samples.map (·.1)) ∧
    (runPeriodic s.reset samples).data =
      (List.range s.nprobes).map (fun j => lastN s.cap (samples.map (fun x => x.2.getD j 0))) := by
  have _ := hc
  have h := runPeriodic_gen s.reset s.nprobes [] samples (by simp [Sensor.reset, lastN_nil])
    (by simp [Sensor.reset, lastN_nil, List.map_const']) hs
  simpa [Sensor.reset] using h.2

theorem series_aligned (s : Sensor) (samples : List (Int × List Int))
    (hc : ∀ c, s.cap = some c → 1 ≤ c) (hs : ∀ x ∈ samples, x.2.length = s.nprobes) :
    ∀ l ∈ (runPeriodic s.reset samples).data, l.length = (runPeriodic s.reset samples).time.length := by
  obtain ⟨h1, h2⟩ := series_window s samples hc hs
  rw [h1, h2]
  intro l hl
  simp only [List.mem_map, List.mem_range] at hl
  obtain ⟨j, _, rfl⟩ := hl
  exact lastN_length _ _ _ (by simp)

/-- The same window for an output-part sensor's probe series (no time series). -/
def runCollect (s : Sensor) (samples : List (List Int)) : Sensor :=
  samples.foldl (fun s x => s.collect x) s

private theorem runCollect_gen (s0 : Sensor) (n : Nat) (pre samples : List (List Int))
    (hd : s0.data = (List.range n).map (fun j => lastN s0.cap (pre.map (·.getD j 0))))
    (hs : ∀ x ∈ samples, x.length = n) :
    (runCollect s0 samples).cap = s0.cap ∧
    (runCollect s0 samples).data =
      (List.range n).map (fun j => lastN s0.cap ((pre ++ samples).map (·.getD j 0))) := by
  induction samples generalizing s0 pre with
  | nil => simpa [runCollect] using hd
  | cons x xs ih =>
    have h3 := collect_step s0 n pre x hd (hs x (by simp))
    have h1 : (s0.collect x).cap = s0.cap := rfl
    have := ih (s0.collect x) (pre ++ [x]) (by rw [h1]; exact h3) (fun y hy => hs y (by simp [hy]))
    simpa [runCollect, h1] using this

theorem series_window_collect (s : Sensor) (samples : List (List Int))
    (hc : ∀ c, s.cap = some c → 1 ≤ c) (hs : ∀ x ∈ samples, x.length = s.nprobes) :
    (runCollect s.reset samples).data =
      (List.range s.nprobes).map (fun j => lastN s.cap (samples.map (fun x => x.getD j 0))) := by
  have _ := hc
  have h := runCollect_gen s.reset s.nprobes [] samples
    (by simp [Sensor.reset, lastN_nil, List.map_const']) hs
  simpa [Sensor.reset] using h.2

/-! ### condition-monitoring system: each sensor registered once -/

/-- A sensor that is already registered with the cms is not added again. -/
private theorem addSensor_of_mem (w : World) (c s : Nat)
    (h : (w.cmsSensors.getD c []).contains s = true) :
    w.applyOp (.addSensor c s) = (w, .ok) := by
  simp only [World.applyOp, h, if_true]

/-- After `add_sensor` the sensor is registered with the cms. -/
private theorem mem_after_add (w : World) (c s : Nat) :
    ((w.applyOp (.addSensor c s)).1.cmsSensors.getD c []).contains s = true := by
  by_cases h : (w.cmsSensors.getD c []).contains s = true
  · rw [addSensor_of_mem w c s h]; exact h
  · have key : ∀ (l : List (List Nat)) (x : List Nat),
        ((if l.length ≤ c then l ++ List.replicate (c + 1 - l.length) [] else l).set c x).getD c [] = x := by
      intro l x
      rw [List.getD_eq_getElem?_getD, List.getElem?_set_self]
      · rfl
      · split
        · simp; omega
        · omega
    simp only [World.applyOp, h, Bool.false_eq_true, if_false, key]
    simp

/-- `Cms.add_sensor` is idempotent: adding a sensor a second time changes nothing, so the cms
receives each measurement exactly once. -/
theorem cms_once (w : World) (c s : Nat) :
    ((w.applyOp (.addSensor c s)).1.applyOp (.addSensor c s)).1.sensors =
      (w.applyOp (.addSensor c s)).1.sensors ∧
    ((w.applyOp (.addSensor c s)).1.applyOp (.addSensor c s)).1.cmsSensors =
      (w.applyOp (.addSensor c s)).1.cmsSensors := by
  rw [addSensor_of_mem _ c s (mem_after_add w c s)]
  exact ⟨rfl, rfl⟩

/-! ### non-vacuity -/

example :
    let s : Sensor := { nprobes := 2, cap := some 2 }
    let r := runPeriodic s.reset [(1, [10, 20]), (2, [11, 21]), (3, [12, 22])]
    (r.time, r.data, r.last) = ([2, 3], [[11, 12], [21, 22]], [12, 22]) ∧
    pattern 5 { interval := 1 } = [true, false, true, false, true] := by
  decide

end C19
end SimProc
