/-
C04 (extension) — timing of EVERY serial line equals the reference recurrence.

`Props/C04.lean` states the target (`SerialTiming`) and proves it for the shortest line
source → sink.  This file proves it in general: for every well-formed line
source → (handlers, processors, buffers)* → sink of arbitrary length, with arbitrary non-negative
cycle times and delays (zero included), arbitrary buffer capacities (`≥ 1` or unbounded), every
budget, every seed and modulus of the tie-break weights, every horizon `T` (also negative) and
every amount of loop fuel with which the run completes.

Method (files `Proofs/C04W*.lean`):
* `C04WModel`: the reachable worlds of a line in closed form `W P s` (static device fields fixed by
  the line: `Stat`), every model function mirrored as a transformer of the varying part `S`
  (`passS`, `notifyS`, `acceptS`, `giveS`, `passHS`, `passSrcS`, `bufLoopS`, `passBufS`, …) with a
  commutation lemma `f (W P s) = W P (fS s)`;
* `C04WInv`: the run invariant `Inv P T s x m` — for every station `j` the number `x j` of parts
  that have left it and a mode `m j` (idle / processing / hand-over pending at `t` / blocked /
  budget exhausted); per station (`PD`): all past departures happened at the reference's times,
  the slot contents are determined by the counts, the pending FINISH / PASS events are exactly
  those of the mode (`keysOf`), `waitingDS` is set iff the station is blocked, a blocked station's
  successor is full; the logged entry times are the reference's;
* `C04WFoot`, `C04WSpec`, `C04WAccept`: footprints (which stations a function touches) and the
  specification of each function w.r.t. the station invariant;
* `C04WRun`, `C04WBuf`, `C04WLoop`: one lemma per kind of event (FINISH of source / handler /
  processor / sink, PASS of source / handler / processor / buffer with its release loop,
  terminate), each mapping to one application of the recurrence; the order of same-time events
  (the tie-break weights) is irrelevant because the invariant is preserved by whichever event is
  popped;
* `C04WInit`: construction and initialisation of the line's world in closed form.
-/
import SimProc.Props.C04
import SimProc.Proofs.C04WInit

namespace SimProc
namespace C04W
open World C04

/-- From the final state of a completed run to the statement of C04. -/
theorem timing_of_done (L : Line) (hL : L.WF) (seed wmod : Nat) (T : Int) (s' : S)
    (d : Done ⟨L, seed, wmod⟩ T s') (N : Nat) (hN : s'.parts.length ≤ N) :
    (∀ j, 1 ≤ j → j ≤ L.n → entryTimes (W ⟨L, seed, wmod⟩ s') j = Ref.entries L j T N) ∧
    ((W ⟨L, seed, wmod⟩ s').dev L.n).recvCount = countBy L T N := by
  obtain ⟨x, f1, f2, f3, f4, f5, f6⟩ := d.ex
  have key : ∀ j, 1 ≤ j → j ≤ L.n →
      Ref.entries L j T N = (List.range (x (j - 1))).map (fun i => dI L (j - 1) (i + 1)) := by
    intro j h1 hj
    obtain ⟨j', rfl⟩ : ∃ j', j = j' + 1 := ⟨j - 1, by omega⟩
    have hj' : j' ≤ L.n := by omega
    have hkN : x j' ≤ N := Nat.le_trans (f3 j' hj') hN
    have hbk : inBudget L (x j') = true := by
      unfold inBudget
      cases hb : L.budget with
      | none => rfl
      | some B => simpa using f5 j' hj' B hb
    have hst : Ref.entries L (j' + 1) T N = Ref.entries L (j' + 1) T (x j') := by
      refine Ref.entries_stable L hL (j' + 1) T (x j') N hkN ?_
      intro t ht
      obtain ⟨hd, rfl⟩ := Ref.E_eq_some ht
      rcases f6 j' hj' with ⟨B, hB, hBx⟩ | hgt
      · have := hd.2.1
        unfold inBudget at this
        rw [hB] at this
        simp at this
        omega
      · exact hgt
    rw [hst]
    exact Ref.entries_eq_map L (j' + 1) T (x j') hj hbk (fun i hi => f4 j' hj' i hi)
  constructor
  · intro j h1 hj
    rw [entryTimes_W, f1 j h1 hj, key j h1 hj]
  · show (dv s' L.n).recvCount = ((countBy L T N : Nat) : Int)
    have hn := n_pos L
    rw [f2]
    unfold countBy
    rw [key L.n hn (Nat.le_refl _)]
    simp

/-- **C04 in general.**  For every well-formed serial line (any number and kind of inner stations,
cycle times and delays `≥ 0`, capacities `≥ 1` or unbounded), every budget, seed and modulus of the
tie-break weights, horizon and loop fuel: if the run completes, the `received_part` times logged at
every station `1 … n` are exactly the reference's entry times `≤ T`, in part order, and the sink's
part count is the reference's count.  This is the target statement `C04.SerialTiming`. -/
theorem serial_timing : SerialTiming := by
  intro L seed wmod T f hL he N hN
  obtain ⟨s', hw, d⟩ := run_done ⟨L, seed, wmod⟩ hL T f he
  have hw' : runLine L seed wmod T f = W ⟨L, seed, wmod⟩ s' := hw
  rw [hw'] at hN ⊢
  exact timing_of_done L hL seed wmod T s' d N hN

/-- The statement for one line / seed / modulus / horizon / fuel. -/
theorem serial_timing_at (L : Line) (hL : L.WF) (seed wmod : Nat) (T : Int) (f : Nat) :
    SerialTimingAt L seed wmod T f := serial_timing L seed wmod T f hL

/-- (1) source → one handler / processor → sink, all cycle times `≥ 0` (zero included), any
budget: an instance of the general theorem. -/
theorem serial_timing_one_handler (c0 c1 cn : Int) (budget : Option Nat) (proc : Bool) (cap : Option Nat)
    (h0 : 0 ≤ c0) (h1 : 0 ≤ c1) (hn : 0 ≤ cn) (seed wmod : Nat) (T : Int) (f : Nat) :
    SerialTimingAt ⟨c0, budget, [⟨if proc then .processor else .handler, c1, cap⟩], cn⟩ seed wmod T f := by
  refine serial_timing_at _ ?_ seed wmod T f
  intro s hs
  simp only [Line.stations, List.cons_append, List.nil_append, List.mem_cons, List.not_mem_nil,
    or_false] at hs
  rcases hs with rfl | rfl | rfl
  · exact ⟨h0, fun K hK => by simp [Station.effCap] at hK; omega⟩
  · refine ⟨h1, fun K hK => ?_⟩
    cases proc <;> simp [Station.effCap] at hK <;> omega
  · exact ⟨hn, fun K hK => by simp [Station.effCap] at hK; omega⟩

/-- (2) source → one buffer (delay `δ ≥ 0`, capacity `K ≥ 1` or unbounded) → sink. -/
theorem serial_timing_one_buffer (c0 δ cn : Int) (budget : Option Nat) (cap : Option Nat)
    (h0 : 0 ≤ c0) (h1 : 0 ≤ δ) (hn : 0 ≤ cn) (hK : ∀ K, cap = some K → 1 ≤ K)
    (seed wmod : Nat) (T : Int) (f : Nat) :
    SerialTimingAt ⟨c0, budget, [⟨.buffer, δ, cap⟩], cn⟩ seed wmod T f := by
  refine serial_timing_at _ ?_ seed wmod T f
  intro s hs
  simp only [Line.stations, List.cons_append, List.nil_append, List.mem_cons, List.not_mem_nil,
    or_false] at hs
  rcases hs with rfl | rfl | rfl
  · exact ⟨h0, fun K hK => by simp [Station.effCap] at hK; omega⟩
  · exact ⟨h1, fun K hK' => hK K (by simpa [Station.effCap] using hK')⟩
  · exact ⟨hn, fun K hK => by simp [Station.effCap] at hK; omega⟩

/-- **Throughput**: in a completed run the sink's part count equals the reference's count of parts
that have entered the sink by `T`. -/
theorem sink_count (L : Line) (hL : L.WF) (seed wmod : Nat) (T : Int) (f : Nat)
    (he : (runLine L seed wmod T f).error = none) (N : Nat) (hN : (runLine L seed wmod T f).parts.length ≤ N) :
    ((runLine L seed wmod T f).dev L.n).recvCount = countBy L T N :=
  (serial_timing_at L hL seed wmod T f he N hN).2

/-- **Weight independence**, for every line: two completed runs that differ only in the seed /
modulus of the tie-break weights (and in the fuel) log the same entry times at every station. -/
theorem weight_independence (L : Line) (hL : L.WF) (seed wmod seed' wmod' : Nat) (T : Int) (f f' : Nat)
    (he : (runLine L seed wmod T f).error = none) (he' : (runLine L seed' wmod' T f').error = none)
    (j : Nat) (h1 : 1 ≤ j) (hj : j ≤ L.n) :
    entryTimes (runLine L seed wmod T f) j = entryTimes (runLine L seed' wmod' T f') j :=
  weight_independence_of_serial_timing serial_timing L hL seed wmod seed' wmod' T f f' he he' j h1 hj

/-- … and the same sink counts. -/
theorem weight_independence_count (L : Line) (hL : L.WF) (seed wmod seed' wmod' : Nat) (T : Int) (f f' : Nat)
    (he : (runLine L seed wmod T f).error = none) (he' : (runLine L seed' wmod' T f').error = none) :
    ((runLine L seed wmod T f).dev L.n).recvCount = ((runLine L seed' wmod' T f').dev L.n).recvCount := by
  let N := max (runLine L seed wmod T f).parts.length (runLine L seed' wmod' T f').parts.length
  rw [sink_count L hL seed wmod T f he N (Nat.le_max_left _ _),
      sink_count L hL seed' wmod' T f' he' N (Nat.le_max_right _ _)]

/-- **Completion**: with a finite budget `B` the run of every serial line completes, whatever the
cycle times (also all zero), the weights and the horizon: `4 * B * (n + 1) + 4` units of loop fuel
suffice, where `n + 1` is the number of devices.  (Every event strictly decreases the measure
`C04W.phi`: four units per part that still has to leave a station, plus the pending events.) -/
theorem serial_line_completes (L : Line) (hL : L.WF) (B : Nat) (hB : L.budget = some B)
    (seed wmod : Nat) (T : Int) (f : Nat) (hf : 4 * B * (L.n + 1) + 4 ≤ f) :
    (runLine L seed wmod T f).error = none :=
  run_completes ⟨L, seed, wmod⟩ hL T f B hB hf

/-- The unconditional form for a finite budget: with that much fuel the logged entry times of every
station and the sink's count are the reference's. -/
theorem serial_timing_budget (L : Line) (hL : L.WF) (B : Nat) (hB : L.budget = some B)
    (seed wmod : Nat) (T : Int) (f : Nat) (hf : 4 * B * (L.n + 1) + 4 ≤ f)
    (N : Nat) (hN : (runLine L seed wmod T f).parts.length ≤ N) :
    (∀ j, 1 ≤ j → j ≤ L.n → entryTimes (runLine L seed wmod T f) j = Ref.entries L j T N) ∧
    ((runLine L seed wmod T f).dev L.n).recvCount = countBy L T N :=
  serial_timing_at L hL seed wmod T f (serial_line_completes L hL B hB seed wmod T f hf) N hN

/-- No part enters a station before the reference says so and none is missed: the `k`-th logged
entry time of station `j` is `E j k`. -/
theorem entry_time_eq (L : Line) (hL : L.WF) (seed wmod : Nat) (T : Int) (f : Nat)
    (he : (runLine L seed wmod T f).error = none) (j : Nat) (h1 : 1 ≤ j) (hj : j ≤ L.n) (k : Nat) (t : Int)
    (ht : (entryTimes (runLine L seed wmod T f) j)[k]? = some t) :
    Ref.E L j (k + 1) = some t ∧ t ≤ T := by
  have h := (serial_timing_at L hL seed wmod T f he _ (Nat.le_refl _)).1 j h1 hj
  rw [h] at ht
  -- the reference's list consists of the entry times `≤ T` of the parts `1, 2, …` in order, and by
  -- monotonicity it is a prefix of all entry times
  generalize hN : (runLine L seed wmod T f).parts.length = N at ht
  clear h hN
  induction N generalizing k t with
  | zero => simp [Ref.entries] at ht
  | succ N ih =>
    rw [Ref.entries_succ] at ht
    by_cases hk : k < (Ref.entries L j T N).length
    · rw [List.getElem?_append_left hk] at ht
      exact ih k t ht
    · rw [List.getElem?_append_right (by omega)] at ht
      cases hE : Ref.E L j (N + 1) with
      | none => simp [hE] at ht
      | some t' =>
        by_cases hle : t' ≤ T
        · simp only [hE, Option.filter, hle, decide_true] at ht
          have hlen : (Ref.entries L j T N).length ≤ N := by
            clear ih ht hk hE hle
            induction N with
            | zero => simp [Ref.entries]
            | succ N ih =>
              rw [Ref.entries_succ, List.length_append]
              have : ((Ref.E L j (N + 1)).filter (fun t => decide (t ≤ T))).toList.length ≤ 1 := by
                cases (Ref.E L j (N + 1)).filter (fun t => decide (t ≤ T)) <;> simp
              omega
          have hk0 : k - (Ref.entries L j T N).length = 0 := by
            by_cases h0 : k - (Ref.entries L j T N).length = 0
            · exact h0
            · obtain ⟨r, hr⟩ : ∃ r, k - (Ref.entries L j T N).length = r + 1 :=
                ⟨k - (Ref.entries L j T N).length - 1, by omega⟩
              rw [hr] at ht; simp at ht
          rw [hk0] at ht
          simp at ht
          subst ht
          -- all earlier parts entered by `T` as well, so the list has exactly `N` elements
          have hfull : (Ref.entries L j T N).length = N := by
            have hd := (Ref.E_eq_some hE).1
            have := Ref.entries_eq_map L j T N hj (inBudget_of_le L (by omega) hd.2.1) (fun i hi => by
              have h2 := eI_mono_le L hL j (by omega : i + 1 ≤ N + 1)
              have h3 := (Ref.E_eq_some hE).2
              omega)
            rw [this]; simp
          have : k = N := by omega
          subst this
          exact ⟨hE, hle⟩
        · simp [hE, Option.filter, hle] at ht

/-! ### non-vacuity -/

/-- source → processor → sink, zero cycle time in the middle, with a budget. -/
def lineH : Line := { c0 := 2, budget := some 3, mids := [⟨.processor, 0, none⟩], cn := 3 }
/-- source → bounded buffer → sink: the zero-cycle source is blocked by the full buffer. -/
def lineK : Line := { c0 := 0, budget := some 5, mids := [⟨.buffer, 1, some 2⟩], cn := 4 }

-- the hypotheses of the theorems are satisfiable on non-trivial lines
example : lineH.WF ∧ lineK.WF ∧ lineA.WF ∧ lineB.WF ∧ lineD.WF := by decide
-- the budget hypothesis and the fuel bound of `serial_line_completes` (line B: 5 devices, budget 7)
example : lineB.budget = some 7 ∧ 4 * 7 * (lineB.n + 1) + 4 ≤ 144 := by decide
example : (runLine lineB 2 7 30 144).error = none :=
  serial_line_completes lineB (by decide) 7 rfl 2 7 30 144 (by decide)
-- the conclusions are about non-empty logs: entry times of the middle station and of the sink
example : entryTimes (runLine lineH 1 0 20 60) 1 = [2, 4, 6] ∧
    entryTimes (runLine lineH 1 0 20 60) 2 = [2, 5, 8] := by decide +kernel
example : entryTimes (runLine lineK 3 5 9 100) 1 = [0, 0, 1, 5, 9] ∧
    entryTimes (runLine lineK 3 5 9 100) 2 = [1, 5, 9] ∧
    ((runLine lineK 3 5 9 100).dev 2).recvCount = 3 := by decide +kernel
-- … and they agree with the reference, as the theorem says (here obtained FROM the theorem)
example : entryTimes (runLine lineK 3 5 9 100) 2 = Ref.entries lineK 2 9 10 :=
  (serial_timing_budget lineK (by decide) 5 rfl 3 5 9 100 (by decide) 10 (by decide +kernel)).1 2
    (by decide) (by decide)
example : Ref.entries lineK 2 9 10 = [1, 5, 9] ∧ countBy lineK 9 10 = 3 := by decide
-- weight independence is about runs that really differ in their event order: different seeds and
-- moduli, same logs
example : entryTimes (runLine lineA 1 0 60 400) 4 = entryTimes (runLine lineA 3 5 60 400) 4 :=
  weight_independence lineA (by decide) 1 0 3 5 60 400 400 serial_timing_test_A_w0.1
    serial_timing_test_A_w5.1 4 (by decide) (by decide)
-- the instance lemmas apply to every choice of their parameters, e.g. all cycle times zero
example (seed wmod : Nat) (T : Int) (f : Nat) :
    SerialTimingAt ⟨0, some 4, [⟨.handler, 0, none⟩], 0⟩ seed wmod T f :=
  serial_timing_one_handler 0 0 0 (some 4) false none (by decide) (by decide) (by decide) seed wmod T f
example (seed wmod : Nat) (T : Int) (f : Nat) :
    SerialTimingAt ⟨0, none, [⟨.buffer, 0, some 1⟩], 0⟩ seed wmod T f :=
  serial_timing_one_buffer 0 0 0 none (some 1) (by decide) (by decide) (by decide)
    (fun K h => by cases h; decide) seed wmod T f

end C04W
end SimProc
