/-
C10 — waiting resource requests are served: exactly once, in order, only when feasible.

Part 1 is about `scanWaiting` (`_check_pending_requests`) for ARBITRARY callbacks: the scan is
generic in the state `σ` the callbacks act on (`ScanOps σ`); the only things assumed about a
callback are the two interface laws below (it can append registrations to the waiting list but
cannot remove any, and removing entry `i` removes exactly that entry).

Part 2 is about the resource manager together with the "an availability check is queued at the
current instant" flag: every operation that can make a waiting request feasible schedules a
check, so whenever no check is pending no waiting request is feasible (and by C01 a check queued
at `now` with `OTHER_HIGH_PRIORITY` runs before the clock advances).
-/
import SimProc.Model.Resource
import SimProc.Proofs.C10Lemmas

namespace SimProc
namespace C10

/-! ### Part 1: the scan -/

/-- Interface laws of the state the callbacks act on. -/
structure Laws {σ : Type} (o : ScanOps σ) : Prop where
  /-- a callback may append registrations, never remove or reorder waiting entries -/
  call_appends : ∀ s cb req, ∃ l, (o.rm (o.call s cb req)).waiting = (o.rm s).waiting ++ l
  /-- `pop(i)` removes exactly entry `i` and nothing else of the manager changes -/
  erase_spec : ∀ s i, o.rm (o.erase s i) = { o.rm s with waiting := (o.rm s).waiting.eraseIdx i }

/-- The scan instrumented with its call log: `(request, callback, manager at the moment of the
call)` in call order. -/
def scanLog {σ : Type} (o : ScanOps σ) : Nat → σ → Nat → σ × List (Req × Cb × RM)
  | 0, s, _ => (s, [])
  | f + 1, s, i =>
    match (o.rm s).waiting[i]? with
    | none => (s, [])
    | some (req, cb) =>
      if (o.rm s).canFulfill req then
        let r := scanLog o f (o.erase (o.call s cb req) i) i
        (r.1, (req, cb, o.rm s) :: r.2)
      else scanLog o f s (i + 1)

/-- The scan reached the end of the waiting list (it did not stop because the fuel of the
executable model ran out; the Python loop has no such bound). -/
def scanDone {σ : Type} (o : ScanOps σ) : Nat → σ → Nat → Bool
  | 0, _, _ => false
  | f + 1, s, i =>
    match (o.rm s).waiting[i]? with
    | none => true
    | some (req, cb) =>
      if (o.rm s).canFulfill req then scanDone o f (o.erase (o.call s cb req) i) i
      else scanDone o f s (i + 1)

/-- The instrumented scan computes the same state as the scan. -/
theorem scanLog_state {σ : Type} (o : ScanOps σ) (f : Nat) (s : σ) (i : Nat) :
    (scanLog o f s i).1 = scanWaiting o f s i := by
  induction f generalizing s i with
  | zero => simp [scanLog, scanWaiting]
  | succ f ih =>
    cases h : (o.rm s).waiting[i]? with
    | none => simp [scanLog, scanWaiting, h]
    | some e =>
      obtain ⟨req, cb⟩ := e
      by_cases hc : (o.rm s).canFulfill req = true
      · simp [scanLog, scanWaiting, h, hc, ih]
      · simp [scanLog, scanWaiting, h, hc, ih]

/-- A callback is only invoked for a request that fits at that moment, and it is given exactly the
registered request. -/
theorem cb_only_when_feasible {σ : Type} (o : ScanOps σ) (f : Nat) (s : σ) (i : Nat) :
    ∀ c ∈ (scanLog o f s i).2, c.2.2.canFulfill c.1 = true ∧ (c.1, c.2.1) ∈ c.2.2.waiting := by
  induction f generalizing s i with
  | zero => simp [scanLog]
  | succ f ih =>
    cases h : (o.rm s).waiting[i]? with
    | none => simp [scanLog, h]
    | some e =>
      obtain ⟨req, cb⟩ := e
      by_cases hc : (o.rm s).canFulfill req = true
      · simp only [scanLog, h, hc, if_true]
        intro c hc'
        simp only [List.mem_cons] at hc'
        rcases hc' with rfl | hc'
        · exact ⟨hc, List.mem_of_getElem? h⟩
        · exact ih _ _ c hc'
      · simp only [scanLog, h, hc]
        exact ih _ _

/-- Exactly once: the entries called back together with the entries still waiting afterwards are
exactly (as a multiset) the entries that were waiting before plus those registered by callbacks
during the scan — nothing is lost, nothing is called twice. -/
theorem cb_exactly_once {σ : Type} (o : ScanOps σ) (hl : Laws o) (f : Nat) (s : σ) (i : Nat) :
    ∃ added : List (Req × Cb),
      (((scanLog o f s i).2.map (fun c => (c.1, c.2.1))) ++ (o.rm (scanLog o f s i).1).waiting).Perm
        ((o.rm s).waiting ++ added) := by
  induction f generalizing s i with
  | zero => exact ⟨[], by simp [scanLog]⟩
  | succ f ih =>
    cases h : (o.rm s).waiting[i]? with
    | none => exact ⟨[], by simp [scanLog, h]⟩
    | some e =>
      obtain ⟨req, cb⟩ := e
      by_cases hc : (o.rm s).canFulfill req = true
      · simp only [scanLog, h, hc, if_true]
        obtain ⟨l, hl1⟩ := hl.call_appends s cb req
        obtain ⟨added, ha⟩ := ih (o.erase (o.call s cb req) i) i
        have hw : (o.rm (o.erase (o.call s cb req) i)).waiting
            = ((o.rm s).waiting ++ l).eraseIdx i := by
          rw [hl.erase_spec, hl1]
        rw [hw] at ha
        obtain ⟨hi, hget⟩ := List.getElem?_eq_some_iff.mp h
        have hi' : i < ((o.rm s).waiting ++ l).length := by simp; omega
        have hget' : ((o.rm s).waiting ++ l)[i] = (req, cb) := by
          rw [List.getElem_append_left hi]; exact hget
        refine ⟨l ++ added, ?_⟩
        simp only [List.map_cons, List.cons_append]
        refine ((ha.cons (req, cb))).trans ?_
        rw [← List.append_assoc, ← List.cons_append]
        refine List.Perm.append_right _ ?_
        rw [← hget']
        exact perm_cons_eraseIdx _ _ hi'
      · simp only [scanLog, h, hc]
        exact ih _ _

/-- Generalisation of `cb_registration_order` to a scan started at index `i`. -/
private theorem reg_order_gen {σ : Type} (o : ScanOps σ) (hl : Laws o) (f : Nat) (s : σ) (i : Nat) :
    ∃ added : List (Req × Cb),
      ((scanLog o f s i).2.map (fun c => (c.1, c.2.1))).Sublist
        ((o.rm s).waiting.drop i ++ added) := by
  induction f generalizing s i with
  | zero => exact ⟨[], by simp [scanLog]⟩
  | succ f ih =>
    cases h : (o.rm s).waiting[i]? with
    | none => exact ⟨[], by simp [scanLog, h]⟩
    | some e =>
      obtain ⟨req, cb⟩ := e
      obtain ⟨hi, hget⟩ := List.getElem?_eq_some_iff.mp h
      by_cases hc : (o.rm s).canFulfill req = true
      · simp only [scanLog, h, hc, if_true]
        obtain ⟨l, hl1⟩ := hl.call_appends s cb req
        obtain ⟨added, ha⟩ := ih (o.erase (o.call s cb req) i) i
        have hw : (o.rm (o.erase (o.call s cb req) i)).waiting
            = ((o.rm s).waiting ++ l).eraseIdx i := by
          rw [hl.erase_spec, hl1]
        rw [hw, drop_eraseIdx_append _ _ _ hi] at ha
        refine ⟨l ++ added, ?_⟩
        rw [List.drop_eq_getElem_cons hi, hget]
        simp only [List.map_cons, List.cons_append]
        rw [← List.append_assoc]
        exact ha.cons_cons _
      · simp only [scanLog, h, hc]
        obtain ⟨added, ha⟩ := ih s (i+1)
        refine ⟨added, ha.trans ?_⟩
        refine List.Sublist.append_right ?_ _
        rw [List.drop_eq_getElem_cons hi]
        exact List.sublist_cons_self _ _

/-- Registration order: the sequence of callbacks of one scan is a subsequence of the waiting list
extended by the registrations made during the scan (for a scan started at index 0: requests
that are feasible together are called back in registration order). -/
theorem cb_registration_order {σ : Type} (o : ScanOps σ) (hl : Laws o) (f : Nat) (s : σ) :
    ∃ added : List (Req × Cb),
      ((scanLog o f s 0).2.map (fun c => (c.1, c.2.1))).Sublist ((o.rm s).waiting ++ added) := by
  obtain ⟨added, h⟩ := reg_order_gen o hl f s 0
  exact ⟨added, by simpa using h⟩

/-- Generalisation of `scan_complete_pure`: the pools stay those of `rm0`, and everything the scan
has passed (indices `< i`) is infeasible. -/
private theorem scan_complete_gen {σ : Type} (o : ScanOps σ) (hl : Laws o)
    (hpure : ∀ s cb req, o.rm (o.call s cb req) = o.rm s) (rm0 : RM) (f : Nat) (s : σ) (i : Nat)
    (hp : (o.rm s).pools = rm0.pools)
    (hlt : ∀ j e, j < i → (o.rm s).waiting[j]? = some e → rm0.canFulfill e.1 = false)
    (hf : scanDone o f s i = true) :
    ∀ e ∈ (o.rm (scanWaiting o f s i)).waiting, rm0.canFulfill e.1 = false := by
  induction f generalizing s i with
  | zero => simp [scanDone] at hf
  | succ f ih =>
    cases h : (o.rm s).waiting[i]? with
    | none =>
      simp only [scanWaiting, h]
      intro e he
      obtain ⟨j, hj⟩ := List.mem_iff_getElem?.mp he
      have : (o.rm s).waiting.length ≤ i := List.getElem?_eq_none_iff.mp h
      have hj' : j < (o.rm s).waiting.length := (List.getElem?_eq_some_iff.mp hj).1
      exact hlt j e (by omega) hj
    | some e =>
      obtain ⟨req, cb⟩ := e
      by_cases hc : (o.rm s).canFulfill req = true
      · simp only [scanWaiting, scanDone, h, hc, if_true] at hf ⊢
        have hrm : o.rm (o.erase (o.call s cb req) i)
            = { o.rm s with waiting := (o.rm s).waiting.eraseIdx i } := by
          rw [hl.erase_spec, hpure]
        apply ih _ _ _ _ hf
        · rw [hrm]; exact hp
        · intro j e hj he
          rw [hrm] at he
          simp only [List.getElem?_eraseIdx, hj, if_true] at he
          exact hlt j e hj he
      · simp only [scanWaiting, scanDone, h, hc] at hf ⊢
        apply ih _ _ hp _ hf
        intro j e hj he
        by_cases hji : j = i
        · subst hji
          rw [h] at he
          cases he
          rw [← canFulfill_pools _ _ hp]
          simpa using hc
        · exact hlt j e (by omega) he

/-- With enough fuel the scan reaches the end of the list: every entry still waiting and not
registered during the scan was found infeasible when the scan passed it.  (Stated for callbacks
that do not touch the manager — the general post-condition is Part 2's invariant.) -/
theorem scan_complete_pure {σ : Type} (o : ScanOps σ) (hl : Laws o)
    (hpure : ∀ s cb req, o.rm (o.call s cb req) = o.rm s) (s : σ) (f : Nat)
    (hf : scanDone o f s 0 = true) :
    ∀ e ∈ (o.rm (scanWaiting o f s 0)).waiting, (o.rm s).canFulfill e.1 = false := by
  exact scan_complete_gen o hl hpure (o.rm s) f s 0 rfl (fun j e hj => absurd hj (Nat.not_lt_zero j)) hf

/-! ### Part 2: a check is pending whenever something waiting is feasible -/

/-- Resource manager + "an availability check event is queued at the current instant". -/
structure Sys where
  rm : RM := {}
  pending : Bool := false
deriving Repr

/-- Scripted callback behaviour: what a callback does to the manager (a list of operations). -/
abbrev CbScript := Cb → Req → List RMOp

def Sys.op (s : Sys) (op : RMOp) : Sys :=
  let r := s.rm.apply op
  { rm := r.1, pending := s.pending || r.2.2 }

def Sys.ops (s : Sys) (l : List RMOp) : Sys := l.foldl Sys.op s

def sysScan (script : CbScript) : ScanOps Sys where
  rm := fun s => s.rm
  call := fun s cb req => s.ops (script cb req)
  erase := fun s i => { s with rm := { s.rm with waiting := s.rm.waiting.eraseIdx i } }

/-- Executing the queued check event: the flag is consumed, the scan runs (callbacks may set the
flag again). -/
def Sys.check (script : CbScript) (fuel : Nat) (s : Sys) : Sys :=
  scanWaiting (sysScan script) fuel { s with pending := false } 0

/-- Some waiting request fits. -/
def feasibleWaiting (rm : RM) : Prop := ∃ e ∈ rm.waiting, rm.canFulfill e.1 = true

/-- The invariant: (initialised and) something waiting is feasible ⇒ a check is pending. -/
def PendInv (s : Sys) : Prop := s.rm.inited = true → feasibleWaiting s.rm → s.pending = true

theorem pend_init : PendInv {} := by
  intro h
  exact absurd h (by decide)

/-- Every operation preserves the invariant: whatever can make a request feasible (capacity
added, resources released, a request registered, initialisation with requests already waiting)
schedules a check. -/
theorem pend_op (s : Sys) (op : RMOp) (h : PendInv s) : PendInv (s.op op) := by
  intro hi hf
  simp only [Sys.op] at hi hf ⊢
  cases hp : s.pending with
  | true => simp
  | false =>
    simp only [Bool.false_or]
    cases hchk : (s.rm.apply op).2.2 with
    | true => rfl
    | false =>
      exfalso
      by_cases hin : s.rm.inited = true
      · obtain ⟨hw, hle⟩ := feasible_mono s.rm op hin hchk
        obtain ⟨e, he, hc⟩ := hf
        rw [hw] at he
        have := h hin ⟨e, he, canFulfill_mono hle _ hc⟩
        rw [hp] at this; cases this
      · by_cases hop : op = .init
        · subst hop
          rw [apply_init] at hchk hf
          obtain ⟨e, he, _⟩ := hf
          simp only [Bool.not_eq_eq_eq_not, Bool.not_false, List.isEmpty_iff] at hchk
          simp [hchk] at he
        · rw [apply_inited _ _ hop] at hi; exact hin hi

/-- Scan invariant: a check is pending, or everything the scan has passed is infeasible. -/
def ScanInv (s : Sys) (i : Nat) : Prop :=
  s.pending = true ∨
    (s.rm.inited = true →
      ∀ j e, j < i → s.rm.waiting[j]? = some e → s.rm.canFulfill e.1 = false)

private theorem scanInv_op (s : Sys) (op : RMOp) (i : Nat) (hlen : i < s.rm.waiting.length)
    (h : ScanInv s i) : ScanInv (s.op op) i ∧ i < (s.op op).rm.waiting.length := by
  have hlen' : i < (s.op op).rm.waiting.length := by
    obtain ⟨l, hl⟩ := apply_waiting s.rm op
    simp only [Sys.op, hl, List.length_append]; omega
  refine ⟨?_, hlen'⟩
  simp only [ScanInv, Sys.op]
  cases hp : s.pending with
  | true => exact .inl rfl
  | false =>
    cases hchk : (s.rm.apply op).2.2 with
    | true => exact .inl rfl
    | false =>
      right
      rcases h with h | h
      · rw [hp] at h; cases h
      · by_cases hin : s.rm.inited = true
        · obtain ⟨hw, hle⟩ := feasible_mono s.rm op hin hchk
          intro _ j e hj he
          rw [hw] at he
          have h1 := h hin j e hj he
          cases hc : (s.rm.apply op).1.canFulfill e.1 with
          | false => rfl
          | true => rw [canFulfill_mono hle _ hc] at h1; cases h1
        · by_cases hop : op = .init
          · subst hop
            rw [apply_init] at hchk
            simp only [Bool.not_eq_eq_eq_not, Bool.not_false, List.isEmpty_iff] at hchk
            simp [hchk] at hlen
          · intro hi
            rw [apply_inited _ _ hop] at hi; exact absurd hi hin

private theorem scanInv_ops (l : List RMOp) (s : Sys) (i : Nat) (hlen : i < s.rm.waiting.length)
    (h : ScanInv s i) : ScanInv (s.ops l) i := by
  induction l generalizing s with
  | nil => exact h
  | cons op t ih =>
    obtain ⟨h1, h2⟩ := scanInv_op s op i hlen h
    exact ih (s.op op) h2 h1

private theorem pend_check_gen (script : CbScript) (f : Nat) (s : Sys) (i : Nat) (h : ScanInv s i)
    (hf : scanDone (sysScan script) f s i = true) :
    PendInv (scanWaiting (sysScan script) f s i) := by
  induction f generalizing s i with
  | zero => simp [scanDone] at hf
  | succ f ih =>
    cases hw : s.rm.waiting[i]? with
    | none =>
      have hw' : ((sysScan script).rm s).waiting[i]? = none := hw
      simp only [scanWaiting, hw']
      intro hi ⟨e, he, hc⟩
      rcases h with h | h
      · exact h
      · obtain ⟨j, hj⟩ := List.mem_iff_getElem?.mp he
        have : s.rm.waiting.length ≤ i := List.getElem?_eq_none_iff.mp hw
        have hj' : j < s.rm.waiting.length := (List.getElem?_eq_some_iff.mp hj).1
        rw [h hi j e (by omega) hj] at hc; cases hc
    | some e =>
      obtain ⟨req, cb⟩ := e
      have hw' : ((sysScan script).rm s).waiting[i]? = some (req, cb) := hw
      obtain ⟨hi, _⟩ := List.getElem?_eq_some_iff.mp hw
      by_cases hc : s.rm.canFulfill req = true
      · have hc' : ((sysScan script).rm s).canFulfill req = true := hc
        simp only [scanWaiting, scanDone, hw', hc', if_true] at hf ⊢
        apply ih _ _ _ hf
        have h1 := scanInv_ops (script cb req) s i hi h
        rcases h1 with h1 | h1
        · exact .inl h1
        · right
          intro hin j e hj he
          simp only [sysScan, List.getElem?_eraseIdx, hj, if_true] at he
          exact h1 hin j e hj he
      · have hc' : ¬ ((sysScan script).rm s).canFulfill req = true := hc
        simp only [scanWaiting, scanDone, hw', hc'] at hf ⊢
        apply ih _ _ _ hf
        rcases h with h | h
        · exact .inl h
        · right
          intro hin j e hj he
          by_cases hji : j = i
          · subst hji
            rw [hw] at he; cases he
            simpa using hc
          · exact h hin j e (by omega) he

/-- A check that reaches the end of the waiting list re-establishes the invariant,
whatever the callbacks do. -/
theorem pend_check (script : CbScript) (s : Sys) (fuel : Nat)
    (hdone : scanDone (sysScan script) fuel { s with pending := false } 0 = true) :
    PendInv (Sys.check script fuel s) := by
  exact pend_check_gen script fuel { s with pending := false } 0
    (.inr fun _ j _ hj => absurd hj (Nat.not_lt_zero j)) hdone

/-- Hence: in every state reached by operations and (complete) checks, if no check is pending no
feasible request is waiting — "when time advances no feasible request is still waiting". -/
theorem no_feasible_waiting_when_idle (s : Sys) (h : PendInv s) (hi : s.rm.inited = true)
    (hp : s.pending = false) : ¬ feasibleWaiting s.rm := by
  intro hf
  have := h hi hf
  rw [hp] at this; cases this

/-- Each registration, non-zero capacity change and release on an initialised manager schedules a
check (`_schedule_check_pending_requesters`). -/
theorem check_after_change (rm : RM) (hi : rm.inited = true) :
    (∀ req cb, (rm.apply (.register req cb)).2.2 = true) ∧
    (∀ r a, a ≠ 0 → (rm.apply (.add r a)).2.1 = .ok → (rm.apply (.add r a)).2.2 = true) ∧
    (∀ id part, (rm.apply (.release id part)).2.1 = .ok → (rm.apply (.release id part)).2.2 = true) := by
  refine ⟨fun req cb => hi, ?_, ?_⟩
  · intro r a ha hok
    simp only [RM.apply] at hok ⊢
    rcases add_cases rm r a with ⟨_, h0 | hne⟩ | ⟨_, hc, _, _⟩
    · exact absurd h0 ha
    · exact absurd hok hne
    · rw [hc]; exact hi
  · intro id part hok
    simp only [RM.apply] at hok ⊢
    rcases release_cases rm id part with ⟨_, hne⟩ | ⟨_, hc, _, _⟩
    · exact absurd hok hne
    · rw [hc]; exact hi

/-! ### non-vacuity: two waiting requests become feasible together and are served in order -/

def exScript : CbScript := fun _ req => [.reserve req]

example :
    let s0 : Sys := {}
    let s1 := s0.ops [.add 0 1, .init, .reserve [(0, 1)], .register [(0, 2)] (.script 1),
                      .register [(0, 1)] (.script 2), .register [(0, 1)] (.script 3), .add 0 2]
    ((scanLog (sysScan exScript) 10 { s1 with pending := false } 0).2.map (fun c => c.2.1)) =
      [.script 1] ∧ s1.pending = true := by
  decide

end C10
end SimProc
