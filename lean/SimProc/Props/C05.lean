/-
C05 — buffers: capacity, level, FIFO order, minimum delay.

Part A: an abstract buffer machine `BufM` that mirrors exactly the arithmetic of the model's buffer
(`canAcceptBasic` / `onReceived` / `tryMove` / `bufferLoop` in `SimProc/Model/Floor.lean`), and its
contract for EVERY sequence of offers and release attempts with arbitrary downstream answers.
Part B: refinement lemmas that tie the machine to the model's functions.
-/
import SimProc.Model.World
import SimProc.Proofs.C05Lemmas

namespace SimProc
namespace C05

/-! ## Part A: the abstract buffer machine -/

/-- A stored entry: arrival time, part, number of leaf parts (1, or the size of a batch). -/
abbrev Entry := Int × Nat × Nat

/-- Number of parts stored by a list of entries (every part of a batch counts). -/
def count : List Entry → Nat
  | [] => 0
  | e :: l => e.2.2 + count l

/-- The buffer machine: `cap = none` is an infinite buffer, `delay` the minimum delay, `buf` the
stored entries (oldest first), `level` the reported level. -/
structure BufM where
  cap : Option Nat
  delay : Int
  buf : List Entry := []
  level : Nat := 0
deriving Repr, DecidableEq

namespace BufM

/-- Is there room for `n` more parts?  (The capacity test of `canAcceptBasic`.) -/
def room (m : BufM) (n : Nat) : Bool :=
  match m.cap with
  | none => true
  | some c => decide (m.level + n ≤ c) && decide (m.level < c)

/-- Offer part `p` with `n` leaves at time `now`: accepted iff there is room. -/
def offer (m : BufM) (now : Int) (p n : Nat) : BufM × Bool :=
  if m.room n then ({ m with level := m.level + n, buf := m.buf ++ [(now, p, n)] }, true)
  else (m, false)

/-- Is an entry that arrived at `t` still held back at time `now`?  (`delay - (now - t) > 0`,
literally the test of `bufferLoop`.) -/
def held (m : BufM) (now t : Int) : Bool := decide (m.delay - (now - t) > 0)

/-- A release attempt at time `now` (mirror of `bufferLoop`): while the head has waited long enough
and the next downstream answer is `true`, pop it and lower the level by its count.  Stops at the
first `false` answer, at a head that is still held back, at an empty buffer (or when the answers
run out).  Returns the new machine and the released entries in order. -/
def release (m : BufM) (now : Int) : List Bool → BufM × List Entry
  | [] => (m, [])
  | a :: as =>
    match m.buf with
    | [] => (m, [])
    | e :: rest =>
      if m.held now e.1 then (m, [])
      else if a then
        let r := release { m with level := m.level - e.2.2, buf := rest } now as
        (r.1, e :: r.2)
      else (m, [])

end BufM

/-- Operations on the machine. -/
inductive Op where
  | offer (now : Int) (p n : Nat)
  | release (now : Int) (answers : List Bool)
deriving Repr, DecidableEq

/-- The time at which an operation happens. -/
def Op.time : Op → Int
  | .offer now _ _ => now
  | .release now _ => now

/-- A run: the machine, the clock (time of the last operation), everything accepted so far (in
order) and everything released so far (in order, with the release time). -/
structure Run where
  m : BufM
  clock : Int
  accepted : List Entry := []
  released : List (Int × Entry) := []

/-- The empty buffer at time `t0`. -/
def Run.init (cap : Option Nat) (delay t0 : Int) : Run :=
  { m := { cap := cap, delay := delay }, clock := t0 }

/-- One operation of a run, with the bookkeeping of what was accepted / released and when. -/
def Run.step (s : Run) : Op → Run
  | .offer now p n =>
    let r := s.m.offer now p n
    { m := r.1, clock := now, released := s.released
      accepted := if r.2 then s.accepted ++ [(now, p, n)] else s.accepted }
  | .release now as =>
    let r := s.m.release now as
    { m := r.1, clock := now, accepted := s.accepted
      released := s.released ++ r.2.map (fun e => (now, e)) }

/-- A sequence of operations. -/
def Run.exec (s : Run) (ops : List Op) : Run := ops.foldl Run.step s

/-- Time does not run backwards: starting at `t`, the times of the operations are non-decreasing. -/
def Timed : Int → List Op → Prop
  | _, [] => True
  | t, op :: ops => t ≤ op.time ∧ Timed op.time ops

/-! ### facts about single operations -/

/-- `count` is additive. -/
theorem count_append (l₁ l₂ : List Entry) : count (l₁ ++ l₂) = count l₁ + count l₂ := by
  induction l₁ with
  | nil => simp [count]
  | cons e l ih => simp only [List.cons_append, count, ih]; omega

/-- (6) `offer` accepts iff there is room: the level plus the number of parts of the offered
part/batch does not exceed the capacity and the buffer is not already full (always, for an
infinite buffer).  The second condition only matters for an empty batch (`n = 0`). -/
theorem offer_accepts_iff (m : BufM) (now : Int) (p n : Nat) :
    (m.offer now p n).2 = true ↔
      (match m.cap with | none => True | some c => m.level + n ≤ c ∧ m.level < c) := by
  unfold BufM.offer BufM.room
  cases m.cap <;> simp
  split <;> simp_all

/-- For a part or a non-empty batch the acceptance test is the capacity test alone. -/
theorem offer_accepts_iff_pos (m : BufM) (now : Int) (p n : Nat) (hn : 0 < n) :
    (m.offer now p n).2 = true ↔
      (match m.cap with | none => True | some c => m.level + n ≤ c) := by
  rw [offer_accepts_iff]
  cases m.cap with
  | none => simp
  | some c => simp only; constructor
              · exact fun h => h.1
              · exact fun h => ⟨h, by omega⟩

/-- An accepted offer raises the level by the number of parts and appends the entry at the end;
capacity and delay are untouched. -/
theorem offer_accepted (m : BufM) (now : Int) (p n : Nat) (h : (m.offer now p n).2 = true) :
    (m.offer now p n).1 =
      { m with level := m.level + n, buf := m.buf ++ [(now, p, n)] } := by
  unfold BufM.offer at h ⊢
  split <;> simp_all

/-- A refused offer changes nothing. -/
theorem offer_refused (m : BufM) (now : Int) (p n : Nat) (h : (m.offer now p n).2 = false) :
    (m.offer now p n).1 = m := by
  unfold BufM.offer at h ⊢
  split <;> simp_all

/-- What a release attempt does: the released entries followed by the remaining content are the
old content; the level drops by the number of released parts; capacity and delay are untouched;
every released entry has waited at least `delay`. -/
theorem release_spec (m : BufM) (now : Int) (as : List Bool) :
    (m.release now as).2 ++ (m.release now as).1.buf = m.buf ∧
    (m.release now as).1.level = m.level - count (m.release now as).2 ∧
    (m.release now as).1.cap = m.cap ∧ (m.release now as).1.delay = m.delay ∧
    ∀ e ∈ (m.release now as).2, e.1 + m.delay ≤ now := by
  induction as generalizing m with
  | nil => simp [BufM.release, count]
  | cons a as ih =>
    unfold BufM.release
    split
    · next h => simp [h, count]
    · next e rest h =>
      split
      · simp [h, count]
      · next hheld =>
        cases a
        · simp [h, count]
        · obtain ⟨h1, h2, h3, h4, h5⟩ := ih { m with level := m.level - e.2.2, buf := rest }
          simp only [if_true]
          refine ⟨?_, ?_, h3, h4, ?_⟩
          · simp only [List.cons_append, h]; exact congrArg _ h1
          · rw [h2]; simp only [count]; omega
          · intro e' he'
            rcases List.mem_cons.1 he' with rfl | he'
            · simp only [BufM.held, decide_eq_true_eq] at hheld; omega
            · exact h5 e' he'

/-- Why a release attempt stops: it consumed `k` answers, all `true`; afterwards the buffer is
empty, or its head is still held back, or the next answer is `false`, or the answers ran out. -/
theorem release_stops (m : BufM) (now : Int) (as : List Bool) :
    let r := m.release now as
    (∀ a ∈ as.take r.2.length, a = true) ∧
    (r.1.buf = [] ∨ (∃ e rest, r.1.buf = e :: rest ∧ m.delay - (now - e.1) > 0) ∨
      as[r.2.length]? = some false ∨ r.2.length = as.length) := by
  induction as generalizing m with
  | nil => simp [BufM.release]
  | cons a as ih =>
    unfold BufM.release
    split
    · next h => simp [h]
    · next e rest h =>
      split
      · next hheld =>
        simp only [BufM.held, decide_eq_true_eq] at hheld
        simp only [List.length_nil, List.take_zero, List.not_mem_nil, false_implies, implies_true,
          true_and]
        exact Or.inr (Or.inl ⟨e, rest, h, hheld⟩)
      · cases a
        · simp
        · obtain ⟨h1, h2⟩ := ih { m with level := m.level - e.2.2, buf := rest }
          simp only [if_true, List.length_cons, List.take_succ_cons, List.mem_cons,
            List.getElem?_cons_succ, Nat.add_right_cancel_iff]
          refine ⟨?_, h2⟩
          rintro a (rfl | ha)
          · rfl
          · exact h1 a ha

/-! ### the invariant -/

/-- The contract of the buffer, as an invariant of runs. -/
structure Inv (s : Run) : Prop where
  /-- (1) the reported level is the number of stored parts (batches count their parts) -/
  levelEq : s.m.level = count s.m.buf
  /-- (2) the capacity is respected -/
  capOk : ∀ c, s.m.cap = some c → s.m.level ≤ c
  /-- (3) arrival times are non-decreasing (stated for everything ever accepted) … -/
  accSorted : (s.accepted.map (·.1)).Pairwise (· ≤ ·)
  /-- … and not in the future -/
  accClock : ∀ e ∈ s.accepted, e.1 ≤ s.clock
  /-- (4) FIFO: what has left, followed by what is stored, is what was accepted, in order -/
  fifo : s.released.map (·.2) ++ s.m.buf = s.accepted
  /-- (5) nothing left before its arrival time plus the minimum delay -/
  minDelay : ∀ r ∈ s.released, r.2.1 + s.m.delay ≤ r.1
  /-- release times are non-decreasing and not in the future -/
  relSorted : (s.released.map (·.1)).Pairwise (· ≤ ·)
  relClock : ∀ r ∈ s.released, r.1 ≤ s.clock

/-- The empty buffer satisfies the invariant. -/
theorem inv_init (cap : Option Nat) (delay t0 : Int) : Inv (Run.init cap delay t0) := by
  constructor <;> simp [Run.init, count]

/-- No operation changes the capacity … -/
theorem step_cap (s : Run) (op : Op) : (s.step op).m.cap = s.m.cap := by
  cases op with
  | offer now p n =>
    simp only [Run.step, BufM.offer]; split <;> rfl
  | release now as => exact (release_spec s.m now as).2.2.1

/-- … or the minimum delay. -/
theorem step_delay (s : Run) (op : Op) : (s.step op).m.delay = s.m.delay := by
  cases op with
  | offer now p n =>
    simp only [Run.step, BufM.offer]; split <;> rfl
  | release now as => exact (release_spec s.m now as).2.2.2.1

/-- The clock of a run is the time of its last operation. -/
theorem step_clock (s : Run) (op : Op) : (s.step op).clock = op.time := by
  cases op <;> rfl

private theorem pairwise_append_le {l : List Int} {t : Int} (h : l.Pairwise (· ≤ ·))
    (hle : ∀ a ∈ l, a ≤ t) : (l ++ [t]).Pairwise (· ≤ ·) := by
  rw [List.pairwise_append]
  refine ⟨h, by simp, ?_⟩
  intro a ha b hb
  simp only [List.mem_singleton] at hb
  subst hb; exact hle a ha

/-- Every operation that does not run backwards in time preserves the invariant. -/
theorem step_inv (s : Run) (op : Op) (ht : s.clock ≤ op.time) (h : Inv s) : Inv (s.step op) := by
  cases op with
  | offer now p n =>
    have ht : s.clock ≤ now := ht
    cases hacc : (s.m.offer now p n).2
    · -- refused
      have hm := offer_refused s.m now p n hacc
      have hs : s.step (.offer now p n) = { s with clock := now } := by
        simp only [Run.step, hm, hacc]; rfl
      rw [hs]
      exact { h with
        accClock := fun e he => Int.le_trans (h.accClock e he) ht
        relClock := fun r hr => Int.le_trans (h.relClock r hr) ht }
    · have hm := offer_accepted s.m now p n hacc
      have hroom := (offer_accepts_iff s.m now p n).1 hacc
      have hs : s.step (.offer now p n) =
          { m := { s.m with level := s.m.level + n, buf := s.m.buf ++ [(now, p, n)] }, clock := now,
            accepted := s.accepted ++ [(now, p, n)], released := s.released } := by
        simp only [Run.step, hm, hacc]; rfl
      rw [hs]
      refine ⟨?_, ?_, ?_, ?_, ?_, h.minDelay, h.relSorted, ?_⟩
      · simp only [count_append, count, h.levelEq, Nat.add_zero]
      · intro c hc
        simp only at hc
        rw [hc] at hroom; exact hroom.1
      · rw [List.map_append]
        apply pairwise_append_le h.accSorted
        intro a ha
        obtain ⟨e, he, rfl⟩ := List.mem_map.1 ha
        exact Int.le_trans (h.accClock e he) ht
      · intro e he
        rcases List.mem_append.1 he with he | he
        · exact Int.le_trans (h.accClock e he) ht
        · simp only [List.mem_singleton] at he; subst he; exact Int.le_refl _
      · simp only [← List.append_assoc, h.fifo]
      · exact fun r hr => Int.le_trans (h.relClock r hr) ht
  | release now as =>
    have ht : s.clock ≤ now := ht
    obtain ⟨h1, h2, h3, h4, h5⟩ := release_spec s.m now as
    have hcount : count s.m.buf = count (s.m.release now as).2 + count (s.m.release now as).1.buf := by
      rw [← count_append, h1]
    refine ⟨?_, ?_, h.accSorted, ?_, ?_, ?_, ?_, ?_⟩
    · show (s.m.release now as).1.level = count (s.m.release now as).1.buf
      rw [h2, h.levelEq]; omega
    · intro c hc
      have hc' : s.m.cap = some c := by rw [← h3]; exact hc
      have := h.capOk c hc'
      show (s.m.release now as).1.level ≤ c
      omega
    · exact fun e he => Int.le_trans (h.accClock e he) ht
    · show (s.released ++ (s.m.release now as).2.map (fun e => (now, e))).map (·.2) ++
        (s.m.release now as).1.buf = s.accepted
      rw [List.map_append, List.map_map, List.append_assoc]
      have : ((fun (r : Int × Entry) => r.2) ∘ fun e => (now, e)) = id := rfl
      rw [this, List.map_id, h1, h.fifo]
    · intro r hr
      show r.2.1 + (s.m.release now as).1.delay ≤ r.1
      rw [h4]
      rcases List.mem_append.1 hr with hr | hr
      · exact h.minDelay r hr
      · obtain ⟨e, he, rfl⟩ := List.mem_map.1 hr
        exact h5 e he
    · show ((s.released ++ (s.m.release now as).2.map (fun e => (now, e))).map (·.1)).Pairwise (· ≤ ·)
      rw [List.map_append, List.pairwise_append]
      refine ⟨h.relSorted, ?_, ?_⟩
      · rw [List.map_map, List.pairwise_map]
        exact List.pairwise_of_forall (fun _ _ => Int.le_refl _)
      · intro a ha b hb
        obtain ⟨r, hr, rfl⟩ := List.mem_map.1 ha
        rw [List.map_map] at hb
        obtain ⟨e, _, rfl⟩ := List.mem_map.1 hb
        exact Int.le_trans (h.relClock r hr) ht
    · intro r hr
      rcases List.mem_append.1 hr with hr | hr
      · exact Int.le_trans (h.relClock r hr) ht
      · obtain ⟨e, _, rfl⟩ := List.mem_map.1 hr
        exact Int.le_refl _

/-- Every sequence of operations with non-decreasing times preserves the invariant. -/
theorem exec_inv (ops : List Op) (s : Run) (ht : Timed s.clock ops) (h : Inv s) :
    Inv (s.exec ops) := by
  induction ops generalizing s with
  | nil => exact h
  | cons op ops ih =>
    obtain ⟨h1, h2⟩ := ht
    apply ih (s.step op)
    · rw [step_clock]; exact h2
    · exact step_inv s op h1 h

/-- No sequence of operations changes the capacity … -/
theorem exec_cap (ops : List Op) (s : Run) : (s.exec ops).m.cap = s.m.cap := by
  induction ops generalizing s with
  | nil => rfl
  | cons op ops ih => exact (ih (s.step op)).trans (step_cap s op)

/-- … or the minimum delay. -/
theorem exec_delay (ops : List Op) (s : Run) : (s.exec ops).m.delay = s.m.delay := by
  induction ops generalizing s with
  | nil => rfl
  | cons op ops ih => exact (ih (s.step op)).trans (step_delay s op)

/-- In a state that satisfies the invariant the stored arrival times are non-decreasing and not
in the future. -/
theorem Inv.bufSorted {s : Run} (h : Inv s) :
    (s.m.buf.map (·.1)).Pairwise (· ≤ ·) ∧ ∀ e ∈ s.m.buf, e.1 ≤ s.clock := by
  have hs := h.accSorted
  rw [← h.fifo, List.map_append, List.pairwise_append] at hs
  refine ⟨hs.2.1, fun e he => h.accClock e ?_⟩
  rw [← h.fifo]; exact List.mem_append_right _ he

/-! ### the contract for every run from the empty buffer

`ops` is an arbitrary list of offers (single parts and batches of any size) and release attempts
(with arbitrary downstream answers) whose times do not decrease, starting at time `t0` with an
empty buffer of capacity `cap` (`none` = infinite) and minimum delay `delay`. -/

section contract
variable (cap : Option Nat) (delay t0 : Int) (ops : List Op)

/-- (1) The reported level is the number of parts stored (every part of a batch counts). -/
theorem run_level (ht : Timed t0 ops) :
    ((Run.init cap delay t0).exec ops).m.level = count ((Run.init cap delay t0).exec ops).m.buf :=
  (exec_inv ops _ ht (inv_init cap delay t0)).levelEq

/-- (2) The buffer never stores more parts than its capacity. -/
theorem run_capacity (ht : Timed t0 ops) (c : Nat) (hc : cap = some c) :
    count ((Run.init cap delay t0).exec ops).m.buf ≤ c := by
  have h := exec_inv ops _ ht (inv_init cap delay t0)
  rw [← h.levelEq]
  exact h.capOk c (by rw [exec_cap]; exact hc)

/-- (3) The stored entries are in order of arrival. -/
theorem run_sorted (ht : Timed t0 ops) :
    (((Run.init cap delay t0).exec ops).m.buf.map (·.1)).Pairwise (· ≤ ·) :=
  (exec_inv ops _ ht (inv_init cap delay t0)).bufSorted.1

/-- (4) FIFO: everything released so far (in the order of release) followed by the current content
is exactly the sequence of everything accepted so far (in the order of acceptance); in particular
the released parts are a prefix of the accepted ones: parts leave in the order in which they
arrived, none is lost, duplicated or overtaken. -/
theorem run_fifo (ht : Timed t0 ops) :
    ((Run.init cap delay t0).exec ops).released.map (·.2) ++
        ((Run.init cap delay t0).exec ops).m.buf = ((Run.init cap delay t0).exec ops).accepted ∧
    ((Run.init cap delay t0).exec ops).released.map (·.2) <+:
      ((Run.init cap delay t0).exec ops).accepted := by
  have h := (exec_inv ops _ ht (inv_init cap delay t0)).fifo
  exact ⟨h, ⟨_, h⟩⟩

/-- (5) No part leaves earlier than its arrival time plus the minimum delay; and the release times
are non-decreasing. -/
theorem run_min_delay (ht : Timed t0 ops) :
    (∀ r ∈ ((Run.init cap delay t0).exec ops).released, r.2.1 + delay ≤ r.1) ∧
    (((Run.init cap delay t0).exec ops).released.map (·.1)).Pairwise (· ≤ ·) := by
  have h := exec_inv ops _ ht (inv_init cap delay t0)
  refine ⟨fun r hr => ?_, h.relSorted⟩
  have := h.minDelay r hr
  rw [exec_delay] at this
  exact this

end contract

/-! ## Part B: the model's buffer refines the machine -/

open World

/-- The machine entries of a queue of the model: the leaf count is read from the world. -/
def entries (w : World) (l : List (Int × Nat)) : List Entry :=
  l.map (fun e => (e.1, e.2, w.leafCount e.2))

/-- Number of parts (leaves) in a queue of the model. -/
def leafSum (w : World) (l : List (Int × Nat)) : Nat := count (entries w l)

/-- The machine state of buffer `x` in world `w`. -/
def absM (w : World) (x : Nat) : BufM :=
  { cap := (w.dev x).cap, delay := (w.dev x).delay, buf := entries w (w.dev x).buf
    level := (w.dev x).level }

/-- The buffer's own bookkeeping after a successful hand-over (`self._buffer.pop(0)`, the level,
the `level` data point): exactly the three lines of `bufferLoop`. -/
def popHead (w : World) (x n : Nat) : World :=
  let w := w.modDev x (fun d => { d with level := d.level - n, buf := d.buf.drop 1 })
  w.addRec (.level x w.now (w.dev x).level)

/-- One round of the loop of `Buffer._pass_part_downstream`.  Note that the number of parts of the
head (`leafCount`) is read BEFORE the hand-over (a batcher downstream unpacks the batch while
accepting it). -/
theorem bufferLoop_succ (f : Nat) (w : World) (x : Nat) :
    bufferLoop (f + 1) w x =
      match (w.dev x).buf with
      | [] => w
      | (t, p) :: _ =>
        if (w.dev x).delay - (w.now - t) > 0 then w
        else
          match tryList givePart w (w.sortedDown x) p with
          | (w1, true) => bufferLoop f (popHead w1 x (w.leafCount p)) x
          | (w1, false) => w1 := by
  rw [bufferLoop]
  rfl

/-- The hand-over of the head `p` of buffer `x` (the rest of the queue being `rest`) does not
loop back into `x`: the buffer's own fields, the clock and the number of devices are as before,
the parts that stay in the buffer keep their leaf counts, and so does `p` if it is refused.

This holds in every topology in which no chain of pass-through controllers (gates, group
inputs/outputs/paths) leads from the buffer back to itself: `givePart` changes the non-flow fields
only of the device that finally accepts the part (and of processors that reserve resources), and the
notifications it triggers only touch the flow flags `since` / `waitingDS` and the event queue.
The leaf count of `p` itself may change when it is accepted (a batcher unpacks it), which is why
the model reads it before the hand-over. -/
structure HandOverFrame (x : Nat) (w : World) (p : Nat) (rest : List (Int × Nat)) : Prop where
  buf : ((tryList givePart w (w.sortedDown x) p).1.dev x).buf = (w.dev x).buf
  level : ((tryList givePart w (w.sortedDown x) p).1.dev x).level = (w.dev x).level
  delay : ((tryList givePart w (w.sortedDown x) p).1.dev x).delay = (w.dev x).delay
  cap : ((tryList givePart w (w.sortedDown x) p).1.dev x).cap = (w.dev x).cap
  kind : ((tryList givePart w (w.sortedDown x) p).1.dev x).kind = (w.dev x).kind
  len : (tryList givePart w (w.sortedDown x) p).1.devs.length = w.devs.length
  now : (tryList givePart w (w.sortedDown x) p).1.now = w.now
  leafRest : ∀ e ∈ rest, (tryList givePart w (w.sortedDown x) p).1.leafCount e.2 = w.leafCount e.2
  leafRefused : (tryList givePart w (w.sortedDown x) p).2 = false →
    (tryList givePart w (w.sortedDown x) p).1.leafCount p = w.leafCount p

/-- What `k` releases do to buffer `x` (from world `w` to world `w'`). -/
structure Released (x : Nat) (w w' : World) (k : Nat) : Prop where
  le : k ≤ (w.dev x).buf.length
  /-- the new queue is the old one without its first `k` entries -/
  buf : (w'.dev x).buf = (w.dev x).buf.drop k
  /-- the level dropped by the number of parts (leaves) of the released entries -/
  level : (w'.dev x).level = (w.dev x).level - leafSum w ((w.dev x).buf.take k)
  /-- every released entry had waited at least the minimum delay -/
  expired : ∀ e ∈ (w.dev x).buf.take k, e.1 + (w.dev x).delay ≤ w.now
  cap : (w'.dev x).cap = (w.dev x).cap
  delay : (w'.dev x).delay = (w.dev x).delay
  kind : (w'.dev x).kind = (w.dev x).kind
  len : w'.devs.length = w.devs.length
  now : w'.now = w.now
  /-- the entries that stay have kept their number of parts -/
  leaf : ∀ e ∈ (w.dev x).buf.drop k, w'.leafCount e.2 = w.leafCount e.2

/-- Unfolding lemmas for `entries` / `leafSum`. -/
theorem entries_cons (w : World) (e : Int × Nat) (l : List (Int × Nat)) :
    entries w (e :: l) = (e.1, e.2, w.leafCount e.2) :: entries w l := rfl

theorem leafSum_cons (w : World) (e : Int × Nat) (l : List (Int × Nat)) :
    leafSum w (e :: l) = w.leafCount e.2 + leafSum w l := rfl

/-- `entries` only depends on the leaf counts of the parts in the queue. -/
theorem entries_congr {w w' : World} {l : List (Int × Nat)}
    (h : ∀ e ∈ l, w'.leafCount e.2 = w.leafCount e.2) : entries w' l = entries w l := by
  unfold entries
  apply List.map_congr_left
  intro e he
  rw [h e he]

/-- The buffer after its bookkeeping: head popped, level lowered by `n`. -/
theorem popHead_dev (w : World) (x n : Nat) (hx : x < w.devs.length) :
    (popHead w x n).dev x =
      { w.dev x with level := (w.dev x).level - n, buf := (w.dev x).buf.drop 1 } := by
  unfold popHead
  simp only [dev_addRec, dev_modDev_same hx]

/-- The record written by the bookkeeping: the buffer's new level, at the current time, as the last
record of the log. -/
theorem popHead_recs (w : World) (x n : Nat) (hx : x < w.devs.length) :
    (popHead w x n).recs = w.recs ++ [.level x w.now ((w.dev x).level - n)] := by
  unfold popHead
  simp only [addRec, dev_modDev_same hx, modDev_recs]
  rfl

/-- **Release (refinement of `BufM.release`).**  Let `Good` be any set of worlds that contains `w`,
in which the hand-over from buffer `x` satisfies the frame condition `HandOverFrame` (it does not
loop back into `x`), and that is closed under hand-overs from `x` and under the buffer's own
bookkeeping `popHead`.  Then `bufferLoop n w x` releases the first `k` entries of the queue, for
some `k ≤ n`: the new queue is the old one without them, the level drops by their number of
parts, each of them had waited at least `delay`, capacity/delay/kind/clock are unchanged, and the
loop stopped because the fuel ran out (`k = n`; impossible for the fuel `buf.length + 1` that
`passPart` uses), or the queue is empty, or its head is still held back, or the head was refused by
all downstream devices. -/
theorem bufferLoop_release (Good : World → Prop) (x : Nat)
    (hframe : ∀ w' t p rest, Good w' → x < w'.devs.length → (w'.dev x).kind = .buffer →
      (w'.dev x).buf = (t, p) :: rest → ¬ (w'.dev x).delay - (w'.now - t) > 0 →
      HandOverFrame x w' p rest ∧ Good (tryList givePart w' (w'.sortedDown x) p).1)
    (hbook : ∀ w' n, Good w' → Good (popHead w' x n))
    (n : Nat) (w : World) (hx : x < w.devs.length) (hk : (w.dev x).kind = .buffer)
    (hg : Good w) :
    ∃ k, k ≤ n ∧ Released x w (bufferLoop n w x) k ∧ Good (bufferLoop n w x) ∧
      (k = n ∨ ((bufferLoop n w x).dev x).buf = [] ∨
        ∃ t p rest, ((bufferLoop n w x).dev x).buf = (t, p) :: rest ∧
          (((bufferLoop n w x).dev x).delay - ((bufferLoop n w x).now - t) > 0 ∨
           ∃ w'', Good w'' ∧ (w''.dev x).buf = (t, p) :: rest ∧
             tryList givePart w'' (w''.sortedDown x) p = (bufferLoop n w x, false))) := by
  have hrefl : ∀ w : World, Released x w w 0 := fun w =>
    ⟨Nat.zero_le _, rfl, by simp [leafSum, entries, count], by simp, rfl, rfl, rfl, rfl, rfl,
      fun _ _ => rfl⟩
  induction n generalizing w with
  | zero => exact ⟨0, Nat.le_refl _, hrefl w, hg, Or.inl rfl⟩
  | succ f ih =>
    rw [bufferLoop_succ]
    cases hb : (w.dev x).buf with
    | nil => exact ⟨0, Nat.zero_le _, hrefl w, hg, Or.inr (Or.inl hb)⟩
    | cons e rest =>
      obtain ⟨t, p⟩ := e
      dsimp only
      by_cases hheld : (w.dev x).delay - (w.now - t) > 0
      · rw [if_pos hheld]
        exact ⟨0, Nat.zero_le _, hrefl w, hg, Or.inr (Or.inr ⟨t, p, rest, hb, Or.inl hheld⟩)⟩
      · rw [if_neg hheld]
        obtain ⟨hf, hg1⟩ := hframe w t p rest hg hx hk hb hheld
        generalize hr : tryList givePart w (w.sortedDown x) p = r at hf hg1
        obtain ⟨w1, b⟩ := r
        have hfb := hf.buf; have hfl := hf.level; have hfd := hf.delay; have hfc := hf.cap
        have hfk := hf.kind; have hfn := hf.len; have hfw := hf.now; have hfr := hf.leafRest
        have hfp := hf.leafRefused
        rw [hr] at hfb hfl hfd hfc hfk hfn hfw hfr hfp
        dsimp only at hfb hfl hfd hfc hfk hfn hfw hfr hfp hg1
        cases b with
        | false =>
          dsimp only
          refine ⟨0, Nat.zero_le _, ?_, hg1, Or.inr (Or.inr ⟨t, p, rest, hfb.trans hb, Or.inr
            ⟨w, hg, hb, hr⟩⟩)⟩
          refine ⟨Nat.zero_le _, by rw [hfb]; rfl, by simp [hfl, leafSum, entries, count],
            by simp, hfc, hfd, hfk, hfn, hfw, ?_⟩
          intro e he
          rw [List.drop_zero, hb] at he
          rcases List.mem_cons.1 he with rfl | he
          · exact hfp rfl
          · exact hfr e he
        | true =>
          dsimp only
          have hx1 : x < w1.devs.length := by omega
          have hd2 := popHead_dev w1 x (w.leafCount p) hx1
          generalize hw2 : popHead w1 x (w.leafCount p) = w2 at hd2
          have hg2 : Good w2 := hw2 ▸ hbook w1 _ hg1
          have hx2 : x < w2.devs.length := by
            rw [← hw2]; unfold popHead; simp [hx1]
          have hnow2 : w2.now = w.now := by rw [← hw2, ← hfw]; rfl
          have hlen2 : w2.devs.length = w.devs.length := by
            rw [← hw2, ← hfn]; unfold popHead; simp
          have hlc2 : ∀ q, w2.leafCount q = w1.leafCount q := by
            intro q; rw [← hw2]; rfl
          have hbuf2 : (w2.dev x).buf = rest := by rw [hd2, hfb, hb]; rfl
          have hk2 : (w2.dev x).kind = .buffer := by rw [hd2]; exact hfk.trans hk
          obtain ⟨k, hkf, hrel, hgood, hstop⟩ := ih w2 hx2 hk2 hg2
          refine ⟨k + 1, Nat.succ_le_succ hkf, ?_, hgood, ?_⟩
          · have hle := hrel.le
            rw [hbuf2] at hle
            have hent : entries w2 (rest.take k) = entries w (rest.take k) :=
              entries_congr (fun e he => by rw [hlc2]; exact hfr e (List.mem_of_mem_take he))
            refine ⟨by rw [hb]; simp [hle], ?_, ?_, ?_, ?_, ?_, ?_, ?_, ?_, ?_⟩
            · rw [hrel.buf, hbuf2, hb]; rfl
            · rw [hrel.level, hbuf2, hb, List.take_succ_cons, leafSum_cons]
              unfold leafSum
              rw [hent, hd2, hfl]
              exact Nat.sub_sub _ _ _
            · intro e he
              rw [hb, List.take_succ_cons] at he
              rcases List.mem_cons.1 he with rfl | he
              · show t + (w.dev x).delay ≤ w.now
                omega
              · have := hrel.expired e (by rw [hbuf2]; exact he)
                rw [hd2, hnow2] at this
                exact hfd ▸ this
            · rw [hrel.cap, hd2]; exact hfc
            · rw [hrel.delay, hd2]; exact hfd
            · rw [hrel.kind, hd2]; exact hfk.trans rfl
            · rw [hrel.len, hlen2]
            · rw [hrel.now, hnow2]
            · intro e he
              rw [hb, List.drop_succ_cons] at he
              rw [hrel.leaf e (by rw [hbuf2]; exact he), hlc2]
              exact hfr e (List.mem_of_mem_drop he)
          · rcases hstop with h | h | h
            · exact Or.inl (by omega)
            · exact Or.inr (Or.inl h)
            · exact Or.inr (Or.inr h)

/-- A release attempt whose first `l₁.length` answers are `true` and whose next answer is `false`
releases exactly `l₁` if all of `l₁` has waited long enough. -/
theorem release_prefix (m : BufM) (now : Int) (l₁ l₂ : List Entry) (hb : m.buf = l₁ ++ l₂)
    (hexp : ∀ e ∈ l₁, e.1 + m.delay ≤ now) :
    m.release now (List.replicate l₁.length true ++ [false]) =
      ({ m with level := m.level - count l₁, buf := l₂ }, l₁) := by
  induction l₁ generalizing m with
  | nil =>
    obtain ⟨c, d, b, l⟩ := m
    simp only [List.nil_append] at hb
    subst hb
    simp only [List.length_nil, List.replicate_zero, List.nil_append, BufM.release, count,
      Nat.sub_zero]
    split
    · rfl
    · split <;> rfl
  | cons e l₁ ih =>
    simp only [List.length_cons, List.replicate_succ, List.cons_append, BufM.release]
    rw [List.cons_append] at hb
    rw [hb]
    have he : m.held now e.1 = false := by
      have := hexp e (List.mem_cons_self ..)
      simp only [BufM.held, decide_eq_false_iff_not]; omega
    simp only [he, Bool.false_eq_true, if_false, if_true]
    rw [ih { m with level := m.level - e.2.2, buf := l₁ ++ l₂ } rfl
      (fun e' he' => hexp e' (List.mem_cons_of_mem _ he'))]
    simp only [count, Nat.sub_sub]

/-- `entries` and `leafSum` of a concatenation. -/
theorem entries_append (w : World) (l₁ l₂ : List (Int × Nat)) :
    entries w (l₁ ++ l₂) = entries w l₁ ++ entries w l₂ := by
  simp [entries]

theorem leafSum_append (w : World) (l₁ l₂ : List (Int × Nat)) :
    leafSum w (l₁ ++ l₂) = leafSum w l₁ + leafSum w l₂ := by
  simp [leafSum, entries_append, count_append]

/-- **Release refines the machine.**  `k` releases of the model's buffer are the machine's release
attempt with `k` answers `true` followed by `false`, at the world's clock. -/
theorem Released.refines {x : Nat} {w w' : World} {k : Nat} (h : Released x w w' k) :
    ((absM w x).release w.now (List.replicate k true ++ [false])).1 = absM w' x ∧
    ((absM w x).release w.now (List.replicate k true ++ [false])).2 =
      entries w ((w.dev x).buf.take k) := by
  have hlen : (entries w ((w.dev x).buf.take k)).length = k := by
    simp [entries, Nat.min_eq_left h.le]
  have := release_prefix (absM w x) w.now (entries w ((w.dev x).buf.take k))
    (entries w ((w.dev x).buf.drop k))
    (by rw [← entries_append, List.take_append_drop]; rfl)
    (by
      intro e he
      obtain ⟨e', he', rfl⟩ := List.mem_map.1 he
      exact h.expired e' he')
  rw [hlen] at this
  rw [this]
  refine ⟨?_, rfl⟩
  unfold absM
  rw [h.cap, h.delay, h.level, h.buf, entries_congr h.leaf]
  rfl

/-! ### acceptance -/

/-- **`canAcceptBasic` of a buffer**: there is room for all parts of the offered part/batch (always,
for an infinite buffer) and the buffer is not already full (a full buffer refuses even an empty
batch: fix of finding F12), the input is not blocked, and both slots are empty. -/
theorem canAccept_buffer (w : World) (x p : Nat) (hk : (w.dev x).kind = .buffer) :
    w.canAcceptBasic x p = true ↔
      (match (w.dev x).cap with
        | none => True
        | some c => (w.dev x).level + w.leafCount p ≤ c ∧ (w.dev x).level < c) ∧
      (w.dev x).blockInput = false ∧ (w.dev x).part = none ∧ (w.dev x).output = none := by
  unfold canAcceptBasic operational
  simp only [hk]
  cases (w.dev x).cap with
  | none => simp [Option.isNone_iff_eq_none, and_assoc]
  | some c =>
    simp only [Bool.and_eq_true, decide_eq_true_eq, Bool.not_eq_eq_eq_not,
      Bool.not_true, Option.isNone_iff_eq_none, and_assoc]
    constructor
    · rintro ⟨h1, h2, -, h4, h5, h6⟩; exact ⟨h1, h2, h4, h5, h6⟩
    · rintro ⟨h1, h2, h4, h5, h6⟩; exact ⟨h1, h2, by simp, h4, h5, h6⟩

/-- The capacity part of `canAcceptBasic` is the machine's `room`. -/
theorem canAccept_buffer_room (w : World) (x p : Nat) (hk : (w.dev x).kind = .buffer) :
    w.canAcceptBasic x p = true ↔
      (absM w x).room (w.leafCount p) = true ∧
      (w.dev x).blockInput = false ∧ (w.dev x).part = none ∧ (w.dev x).output = none := by
  rw [canAccept_buffer w x p hk]
  unfold BufM.room absM
  cases (w.dev x).cap <;> simp

/-- `give_part` on a buffer: accept iff `canAcceptBasic`; a refusal changes nothing. -/
theorem givePart_buffer (w : World) (x p : Nat) (hk : (w.dev x).kind = .buffer) :
    w.givePart x p = if w.canAcceptBasic x p then (w.acceptPart x p, true) else (w, false) := by
  unfold givePart World.fuel
  rw [give]
  simp only [hk]

/-- **Acceptance.**  A buffer with an empty output slot that accepts part `p` (what `give_part`
does when `canAcceptBasic` holds): the level rises by the number of parts of `p`, `p` is appended
to the queue with the current time, the input slot is empty again, capacity/delay/kind are
unchanged, the clock does not move, and exactly two records are appended to the data log: the new
level and the `received` record. -/
theorem acceptPart_buffer (w : World) (x p : Nat) (hx : x < w.devs.length)
    (hk : (w.dev x).kind = .buffer) (ho : (w.dev x).output = none) :
    ((w.acceptPart x p).dev x).level = (w.dev x).level + w.leafCount p ∧
    ((w.acceptPart x p).dev x).buf = (w.dev x).buf ++ [(w.now, p)] ∧
    ((w.acceptPart x p).dev x).part = none ∧
    ((w.acceptPart x p).dev x).output = none ∧
    ((w.acceptPart x p).dev x).cap = (w.dev x).cap ∧
    ((w.acceptPart x p).dev x).delay = (w.dev x).delay ∧
    ((w.acceptPart x p).dev x).kind = .buffer ∧
    ((w.acceptPart x p).dev x).blockInput = (w.dev x).blockInput ∧
    (w.acceptPart x p).recs = w.recs ++
      [.level x w.now ((w.dev x).level + w.leafCount p),
       .received x w.now p (w.part p).quality (w.partValue p)] ∧
    (w.acceptPart x p).now = w.now ∧
    (w.acceptPart x p).devs.length = w.devs.length ∧
    ∀ q, (w.acceptPart x p).leafCount q = w.leafCount q := by
  obtain ⟨h1, _, h3, h4, h5, h6⟩ := World.acceptPart_buffer w x p hx hk ho
  obtain ⟨f1, f2, f3, f4, f5, f6, f7, f8⟩ := bufView_fields_upd h1
  exact ⟨f5, f4, f6, f7.trans ho, f2, f3, f1.trans hk, f8, h3, h4, h5, h6⟩

/-- The buffers other than `x` (and all other devices, as far as a buffer's fields are concerned)
are not affected by `x` accepting a part. -/
theorem acceptPart_buffer_others (w : World) (x p : Nat) (hx : x < w.devs.length)
    (hk : (w.dev x).kind = .buffer) (ho : (w.dev x).output = none) (y : Nat) (hy : y ≠ x) :
    absM (w.acceptPart x p) y = absM w y ∧ ((w.acceptPart x p).dev y).kind = (w.dev y).kind := by
  obtain ⟨_, h2, _, _, _, h6⟩ := World.acceptPart_buffer w x p hx hk ho
  obtain ⟨f1, f2, f3, f4, f5, _, _, _⟩ := bufView_fields (h2 y hy)
  refine ⟨?_, f1⟩
  unfold absM
  rw [f2, f3, f4, f5, entries_congr (fun e _ => h6 e.2)]

/-- **Acceptance refines the machine.**  `give_part` on a buffer whose slots are empty and whose
input is not blocked answers like the machine's `offer` (with the number of parts of `p` and the
world's clock), and the machine state afterwards is the one `offer` computes. -/
theorem givePart_refines (w : World) (x p : Nat) (hx : x < w.devs.length)
    (hk : (w.dev x).kind = .buffer) (hb : (w.dev x).blockInput = false)
    (hp : (w.dev x).part = none) (ho : (w.dev x).output = none) :
    (w.givePart x p).2 = ((absM w x).offer w.now p (w.leafCount p)).2 ∧
    absM (w.givePart x p).1 x = ((absM w x).offer w.now p (w.leafCount p)).1 := by
  rw [givePart_buffer w x p hk]
  have hiff := canAccept_buffer_room w x p hk
  unfold BufM.offer
  cases hroom : (absM w x).room (w.leafCount p)
  · have : w.canAcceptBasic x p = false := by
      cases h : w.canAcceptBasic x p
      · rfl
      · rw [hiff.1 h |>.1] at hroom; cases hroom
    simp [this]
  · have : w.canAcceptBasic x p = true := hiff.2 ⟨hroom, hb, hp, ho⟩
    simp only [this, if_true, true_and]
    obtain ⟨h1, h2, _, _, h5, h6, _, _, _, _, _, h12⟩ := acceptPart_buffer w x p hx hk ho
    unfold absM
    rw [h1, h2, h5, h6, entries_congr (fun e _ => h12 e.2), entries_append]
    rfl

/-! ### `passPart` -/

/-- `Buffer._pass_part_downstream` is the release loop with fuel `buf.length + 1`; what follows
(rescheduling after the head's remaining wait or setting `waitingDS`, notifying upstream) only
touches the event queue and the flow flags. -/
theorem passPart_buffer (w : World) (x : Nat) (hk : (w.dev x).kind = .buffer) :
    (w.passPart x).core = (bufferLoop ((w.dev x).buf.length + 1) w x).core ∧
    (w.passPart x).clockRecs = (bufferLoop ((w.dev x).buf.length + 1) w x).clockRecs := by
  unfold passPart
  simp only [hk]
  rw [notify_core, notify_clockRecs]
  split
  · exact ⟨rfl, rfl⟩
  · split
    · exact ⟨schedulePass_core _ _ _, schedulePass_clockRecs _ _ _⟩
    · exact ⟨setDev_core_of_core_eq rfl, rfl⟩

/-- `Released` only looks at the core of the final world and at its clock. -/
theorem Released.of_core {x : Nat} {w w₁ w₂ : World} {k : Nat} (h : Released x w w₁ k)
    (hc : w₂.core = w₁.core) (hn : w₂.now = w₁.now) : Released x w w₂ k :=
  { le := h.le
    buf := (core_eq_dev_buf hc x).trans h.buf
    level := (core_eq_dev_level hc x).trans h.level
    expired := h.expired
    cap := (core_eq_dev_cap hc x).trans h.cap
    delay := (core_eq_dev_delay hc x).trans h.delay
    kind := (core_eq_dev_kind hc x).trans h.kind
    len := (core_eq_devs_length hc).trans h.len
    now := hn.trans h.now
    leaf := fun e he => (core_eq_leafCount hc e.2).trans (h.leaf e he) }

/-- **`passPart` on a buffer releases a prefix of the queue** (under the frame condition of
`bufferLoop_release`), and it stops only at an empty queue, at a head that is still held back, or
at a head that all downstream devices refused. -/
theorem passPart_release (Good : World → Prop) (x : Nat)
    (hframe : ∀ w' t p rest, Good w' → x < w'.devs.length → (w'.dev x).kind = .buffer →
      (w'.dev x).buf = (t, p) :: rest → ¬ (w'.dev x).delay - (w'.now - t) > 0 →
      HandOverFrame x w' p rest ∧ Good (tryList givePart w' (w'.sortedDown x) p).1)
    (hbook : ∀ w' n, Good w' → Good (popHead w' x n))
    (w : World) (hx : x < w.devs.length) (hk : (w.dev x).kind = .buffer) (hg : Good w) :
    ∃ k, Released x w (w.passPart x) k ∧
      (((w.passPart x).dev x).buf = [] ∨
        ∃ t p rest, ((w.passPart x).dev x).buf = (t, p) :: rest ∧
          (((w.passPart x).dev x).delay - ((w.passPart x).now - t) > 0 ∨
           ∃ w'' w''', Good w'' ∧ (w''.dev x).buf = (t, p) :: rest ∧
             tryList givePart w'' (w''.sortedDown x) p = (w''', false))) := by
  obtain ⟨hc, hcr⟩ := passPart_buffer w x hk
  obtain ⟨k, hkn, hrel, _, hstop⟩ :=
    bufferLoop_release Good x hframe hbook ((w.dev x).buf.length + 1) w hx hk hg
  have hn := clockRecs_now hcr
  refine ⟨k, hrel.of_core hc hn, ?_⟩
  rw [core_eq_dev_buf hc x, core_eq_dev_delay hc x, hn]
  rcases hstop with h | h | ⟨t, p, rest, h1, h2⟩
  · have := hrel.le; omega
  · exact Or.inl h
  · refine Or.inr ⟨t, p, rest, h1, ?_⟩
    rcases h2 with h2 | ⟨w'', hg'', hb'', ht''⟩
    · exact Or.inl h2
    · exact Or.inr ⟨w'', _, hg'', hb'', ht''⟩

/-! ### a family of topologies in which the frame condition holds -/

/-- Every downstream device of `x` is a machine (`PartHandler`, `PartProcessor`), a sink or a
buffer, and none of them is `x` itself.  (No pass-through controller, hence no chain of them that
could lead back to `x`; sources and batchers are excluded as receivers.) -/
def PlainDown (x : Nat) (w : World) : Prop :=
  ∀ y ∈ (w.dev x).down, y ≠ x ∧ plainKind (w.dev y).kind

/-- In such a topology a hand-over from `x` changes none of `x`'s non-flow fields, nor the clock,
the number of devices, the batch structure of any part, or the kind of any device. -/
theorem handOver_same (x : Nat) (w : World) (p : Nat) (h : PlainDown x w) :
    Same x w (tryList givePart w (w.sortedDown x) p).1 :=
  same_tryList _ w p (fun y hy => h y (mem_sortedDown hy))

/-- `PlainDown` only depends on what `Same` preserves. -/
theorem PlainDown.of_same {x : Nat} {w w' : World} (h : PlainDown x w) (hs : Same x w w') :
    PlainDown x w' := by
  intro y hy
  have hd : (w'.dev x).down = (w.dev x).down := (core_fields hs.dev).2.2.2.2.1
  rw [hd] at hy
  exact ⟨(h y hy).1, by rw [hs.kind y]; exact (h y hy).2⟩

/-- In a `PlainDown` topology the frame condition of `bufferLoop_release` holds, and hand-overs stay inside the family. -/
theorem handOver_frame (x : Nat) (w : World) (p : Nat) (rest : List (Int × Nat))
    (h : PlainDown x w) :
    HandOverFrame x w p rest ∧ PlainDown x (tryList givePart w (w.sortedDown x) p).1 := by
  have hs := handOver_same x w p h
  obtain ⟨h1, h2, h3, h4, _, _⟩ := core_fields hs.dev
  exact ⟨⟨h1, h2, h3, h4, hs.kind x, hs.len, hs.now, fun e _ => hs.leafCount e.2,
    fun _ => hs.leafCount p⟩, h.of_same hs⟩

/-- The buffer's own bookkeeping stays inside the family. -/
theorem popHead_plainDown (x n : Nat) (w : World) (h : PlainDown x w) :
    PlainDown x (popHead w x n) := by
  have hdev : ∀ z, ((popHead w x n).dev z).kind = (w.dev z).kind ∧
      ((popHead w x n).dev z).down = (w.dev z).down := by
    intro z
    unfold popHead
    simp only [dev_addRec, dev_modDev]
    split
    · next hz => rw [hz.1]; exact ⟨rfl, rfl⟩
    · exact ⟨rfl, rfl⟩
  intro y hy
  rw [(hdev x).2] at hy
  exact ⟨(h y hy).1, by rw [(hdev y).1]; exact (h y hy).2⟩

/-- **Release, unconditionally, for a buffer that feeds machines, sinks and other buffers.**
`bufferLoop n w x` releases the first `k ≤ n` entries of the queue, exactly as described in
`bufferLoop_release` (see `Released`), and it stops only for the reasons listed there. -/
theorem bufferLoop_release_plain (n : Nat) (w : World) (x : Nat) (hx : x < w.devs.length)
    (hk : (w.dev x).kind = .buffer) (hd : PlainDown x w) :
    ∃ k, k ≤ n ∧ Released x w (bufferLoop n w x) k ∧ PlainDown x (bufferLoop n w x) ∧
      (k = n ∨ ((bufferLoop n w x).dev x).buf = [] ∨
        ∃ t p rest, ((bufferLoop n w x).dev x).buf = (t, p) :: rest ∧
          (((bufferLoop n w x).dev x).delay - ((bufferLoop n w x).now - t) > 0 ∨
           ∃ w'', PlainDown x w'' ∧ (w''.dev x).buf = (t, p) :: rest ∧
             tryList givePart w'' (w''.sortedDown x) p = (bufferLoop n w x, false))) :=
  bufferLoop_release (PlainDown x) x
    (fun w' _ p rest hg _ _ _ _ => handOver_frame x w' p rest hg)
    (fun w' n hg => popHead_plainDown x n w' hg) n w hx hk hd

/-- **`Buffer._pass_part_downstream`, unconditionally, for a buffer that feeds machines, sinks
and other buffers**: a prefix of the queue is released (FIFO), the level drops by the number of
parts released, each released entry had waited at least the minimum delay, and the contract
`BufOK` is preserved (see `Released.ok`). -/
theorem passPart_release_plain (w : World) (x : Nat) (hx : x < w.devs.length)
    (hk : (w.dev x).kind = .buffer) (hd : PlainDown x w) :
    ∃ k, Released x w (w.passPart x) k ∧
      (((w.passPart x).dev x).buf = [] ∨
        ∃ t p rest, ((w.passPart x).dev x).buf = (t, p) :: rest ∧
          (((w.passPart x).dev x).delay - ((w.passPart x).now - t) > 0 ∨
           ∃ w'' w''', PlainDown x w'' ∧ (w''.dev x).buf = (t, p) :: rest ∧
             tryList givePart w'' (w''.sortedDown x) p = (w''', false))) :=
  passPart_release (PlainDown x) x
    (fun w' _ p rest hg _ _ _ _ => handOver_frame x w' p rest hg)
    (fun w' n hg => popHead_plainDown x n w' hg) w hx hk hd

/-! ### the contract on the model's state -/

/-- The state part of the contract, on the model's buffer `x` itself: the reported level is the
number of stored parts (batches count their parts), the capacity is respected, the queue is in
order of arrival and nothing in it arrived in the future. -/
structure BufOK (w : World) (x : Nat) : Prop where
  levelEq : (w.dev x).level = leafSum w (w.dev x).buf
  capOk : ∀ c, (w.dev x).cap = some c → leafSum w (w.dev x).buf ≤ c
  sorted : ((w.dev x).buf.map (·.1)).Pairwise (· ≤ ·)
  arrived : ∀ e ∈ (w.dev x).buf, e.1 ≤ w.now

/-- Accepting a part (when `canAcceptBasic` says so) preserves the contract: in particular the
capacity is never exceeded, whatever the size of the accepted batch. -/
theorem acceptPart_ok (w : World) (x p : Nat) (hx : x < w.devs.length)
    (hk : (w.dev x).kind = .buffer) (hacc : w.canAcceptBasic x p = true) (h : BufOK w x) :
    BufOK (w.acceptPart x p) x := by
  obtain ⟨hroom, _, _, ho⟩ := (canAccept_buffer w x p hk).1 hacc
  obtain ⟨h1, h2, _, _, h5, _, _, _, _, h10, _, h12⟩ := acceptPart_buffer w x p hx hk ho
  have hsum : leafSum (w.acceptPart x p) ((w.acceptPart x p).dev x).buf =
      leafSum w (w.dev x).buf + w.leafCount p := by
    unfold leafSum
    rw [h2, entries_congr (fun e _ => h12 e.2), entries_append, count_append]
    simp [entries, count]
  refine ⟨?_, ?_, ?_, ?_⟩
  · rw [hsum, h1, h.levelEq]
  · intro c hc
    rw [h5] at hc
    rw [hc] at hroom
    rw [hsum, ← h.levelEq]; exact hroom.1
  · rw [h2, List.map_append]
    apply pairwise_append_le h.sorted
    intro a ha
    obtain ⟨e, he, rfl⟩ := List.mem_map.1 ha
    exact h.arrived e he
  · intro e he
    rw [h2] at he
    rw [h10]
    rcases List.mem_append.1 he with he | he
    · exact h.arrived e he
    · simp only [List.mem_singleton] at he; subst he; exact Int.le_refl _

/-- Releasing a prefix of the queue preserves the contract. -/
theorem Released.ok {x : Nat} {w w' : World} {k : Nat} (hrel : Released x w w' k)
    (h : BufOK w x) : BufOK w' x := by
  have hsplit : leafSum w (w.dev x).buf =
      leafSum w ((w.dev x).buf.take k) + leafSum w ((w.dev x).buf.drop k) := by
    rw [← leafSum_append, List.take_append_drop]
  have hsum : leafSum w' (w'.dev x).buf = leafSum w ((w.dev x).buf.drop k) := by
    unfold leafSum; rw [hrel.buf, entries_congr hrel.leaf]
  refine ⟨?_, ?_, ?_, ?_⟩
  · rw [hsum, hrel.level, h.levelEq]; omega
  · intro c hc
    rw [hrel.cap] at hc
    have := h.capOk c hc
    rw [hsum]; omega
  · rw [hrel.buf]
    exact h.sorted.sublist ((List.drop_sublist k _).map _)
  · intro e he
    rw [hrel.buf] at he
    rw [hrel.now]
    exact h.arrived e (List.mem_of_mem_drop he)

/-- `give_part` on a buffer preserves the contract, whether the part is accepted or refused. -/
theorem givePart_ok (w : World) (x p : Nat) (hx : x < w.devs.length)
    (hk : (w.dev x).kind = .buffer) (h : BufOK w x) : BufOK (w.givePart x p).1 x := by
  rw [givePart_buffer w x p hk]
  split
  · next hacc => exact acceptPart_ok w x p hx hk hacc h
  · exact h

/-- `Buffer._pass_part_downstream` preserves the contract for a buffer that feeds machines, sinks
and other buffers. -/
theorem passPart_ok_plain (w : World) (x : Nat) (hx : x < w.devs.length)
    (hk : (w.dev x).kind = .buffer) (hd : PlainDown x w) (h : BufOK w x) :
    BufOK (w.passPart x) x := by
  obtain ⟨k, hrel, _⟩ := passPart_release_plain w x hx hk hd
  exact hrel.ok h

/-! ### non-vacuity -/

/-- A run: capacity 3, delay 2.  A batch of 2 is accepted, a second batch of 2 is refused, a single
part is accepted; a release attempt at time 1 is too early, one at time 5 releases the batch and is
then refused. -/
def exOps : List Op :=
  [.offer 0 10 2, .offer 0 11 2, .offer 1 12 1, .release 1 [true, true], .release 5 [true, false]]

example : Timed 0 exOps := by simp [exOps, Timed, Op.time]
example : ((Run.init (some 3) 2 0).exec exOps).m.buf = [(1, 12, 1)] := by decide
example : ((Run.init (some 3) 2 0).exec exOps).m.level = 1 := by decide
example : ((Run.init (some 3) 2 0).exec exOps).accepted = [(0, 10, 2), (1, 12, 1)] := by decide
example : ((Run.init (some 3) 2 0).exec exOps).released = [(5, (0, 10, 2))] := by decide

/-- A buffer (device 0: capacity 3, delay 2) that feeds a sink (device 1); part 0 is a single part,
part 1 a batch of parts 2 and 3. The clock is at 5. -/
def exW : World :=
  { env := { now := 5 }
    devs := [{ kind := .buffer, aid := 1, down := [1], cap := some 3, delay := 2 },
             { kind := .sink, aid := 2, up := [0] }]
    parts := [{}, { kids := some [2, 3] }, {}, {}] }

example : 0 < exW.devs.length ∧ (exW.dev 0).kind = .buffer ∧ (exW.dev 0).output = none := by decide
example : PlainDown 0 exW := by
  intro y hy
  have : y = 1 := by simpa [exW, World.dev] using hy
  subst this
  exact ⟨by decide, Or.inr (Or.inr (Or.inl rfl))⟩
example : exW.canAcceptBasic 0 1 = true := by decide
example : exW.leafCount 1 = 2 := by decide
example : ((exW.acceptPart 0 1).dev 0).level = 2 := by decide
example : ((exW.acceptPart 0 1).dev 0).buf = [(5, 1)] := by decide
example : (exW.acceptPart 0 1).recs = [.level 0 5 2, .received 0 5 1 1 0] := by decide
example : exW.canAcceptBasic 0 1 = true ∧ (exW.acceptPart 0 1).canAcceptBasic 0 1 = false ∧
    (exW.acceptPart 0 1).canAcceptBasic 0 0 = true := by decide

/-- The same floor with two stored entries: the batch (part 1) arrived at 0, part 0 at 4. -/
def exW2 : World :=
  { exW with devs := [{ kind := .buffer, aid := 1, down := [1], cap := some 3, delay := 2,
                        buf := [(0, 1), (4, 0)], level := 3 },
                      { kind := .sink, aid := 2, up := [0] }] }

example : 0 < exW2.devs.length ∧ (exW2.dev 0).kind = .buffer := by decide
example : PlainDown 0 exW2 := by
  intro y hy
  have : y = 1 := by simpa [exW2, World.dev] using hy
  subst this
  exact ⟨by decide, Or.inr (Or.inr (Or.inl rfl))⟩
example : BufOK exW2 0 := by
  refine ⟨by decide, ?_, by decide, by decide⟩
  intro c hc
  have : c = 3 := by simpa [exW2, exW, World.dev] using hc.symm
  subst this; decide
/-- The batch has waited long enough and the sink takes it; part 0 is still held back. -/
example : ((bufferLoop 3 exW2 0).dev 0).buf = [(4, 0)] ∧ ((bufferLoop 3 exW2 0).dev 0).level = 1 := by
  decide
example : ((exW2.passPart 0).dev 0).buf = [(4, 0)] ∧ ((exW2.passPart 0).dev 0).level = 1 := by decide
example : (bufferLoop 3 exW2 0).recs.getLast? = some (.level 0 5 1) := by decide
example : (absM exW2 0).release 5 [true, false] =
    ({ cap := some 3, delay := 2, buf := [(4, 0, 1)], level := 1 }, [(0, 1, 2)]) := by decide

/-- A sink that refuses (blocked input): nothing is released. -/
def exW3 : World :=
  { exW with devs := [{ kind := .buffer, aid := 1, down := [1], cap := some 3, delay := 2,
                        buf := [(0, 1), (4, 0)], level := 3 },
                      { kind := .sink, aid := 2, up := [0], blockInput := true }] }
example : ((bufferLoop 3 exW3 0).dev 0).buf = [(0, 1), (4, 0)] ∧
    ((bufferLoop 3 exW3 0).dev 0).level = 3 := by decide

/-- The frame hypothesis of `bufferLoop_release` is needed: a buffer that is its own downstream
device hands its head over to itself, so the new queue is not a suffix of the old one. -/
def exLoop : World :=
  { env := { now := 5 }
    devs := [{ kind := .buffer, aid := 1, down := [0], up := [0], buf := [(0, 0)], level := 1 }]
    parts := [{}] }
example : ((bufferLoop 1 exLoop 0).dev 0).buf = [(5, 0)] := by decide
example : ¬ PlainDown 0 exLoop := by
  intro h
  exact (h 0 (by decide)).1 rfl


/-- Why the leaf count of the head is read before the hand-over, and why the frame condition only
asks for the leaf counts of the parts that stay (or of a refused head): a batcher downstream
unpacks the batch it accepts, so `leafCount 1` drops from 2 to 1 during the hand-over; the level
is nevertheless lowered by 2. -/
def exBatcher : World :=
  { exW2 with devs := [{ kind := .buffer, aid := 1, down := [1], cap := some 3, delay := 2,
                         buf := [(0, 1), (4, 0)], level := 3 },
                       { kind := .batcher, aid := 2, up := [0] }] }
example : exBatcher.leafCount 1 = 2 ∧
    (tryList givePart exBatcher (exBatcher.sortedDown 0) 1).2 = true ∧
    (tryList givePart exBatcher (exBatcher.sortedDown 0) 1).1.leafCount 1 = 1 ∧
    ((bufferLoop 3 exBatcher 0).dev 0).level = 1 ∧
    ((bufferLoop 3 exBatcher 0).dev 0).buf = [(4, 0)] := by decide

/-- The theorems apply to these worlds. -/
example : PlainDown 0 exW2 → ∃ k, Released 0 exW2 (exW2.passPart 0) k := fun hd =>
  (passPart_release_plain exW2 0 (by decide) (by decide) hd).imp (fun _ h => h.1)

example : BufOK (exW.givePart 0 1).1 0 :=
  givePart_ok exW 0 1 (by decide) (by decide)
    ⟨by decide, fun c _ => by simp [leafSum, entries, count, exW, World.dev], by decide, by decide⟩

end C05
end SimProc
