/-
C08 — routing: parts move along configured connections, gates and blocked inputs are respected, a
refused hand-over leaves no trace, routing histories are only ever extended, a shared group is left
through the path it was entered by (innermost first), sinks collect in arrival order, and among
parallel devices the one that has been idle longest is offered the part first.

All theorems are about the model functions of `SimProc/Model/Floor.lean` (`stableSort`,
`sortedDown`, `tryList`, `give`, `givePart`, `acceptPart`, `addHist`, `dropHist`) and hold for EVERY
world, device id, part id and fuel unless a hypothesis says otherwise (ids out of range included).
-/
import SimProc.Proofs.C08Lemmas

namespace SimProc
namespace C08
open World C08L

/-! ## (a) the sort behind `get_sorted_downstream_list`, and `tryList` -/

/-- `stableSort` only rearranges its input. -/
theorem stableSort_perm (key : Nat → Option Int) (l : List Nat) : (stableSort key l).Perm l :=
  C08L.stableSort_perm key l

/-- The result of `stableSort` is sorted by key (`none` = +infinity last). -/
theorem stableSort_sorted (key : Nat → Option Int) (l : List Nat) :
    (stableSort key l).Pairwise (fun a b => keyLe (key a) (key b) = true) :=
  C08L.stableSort_sorted key l

/-- Stability, general form: an occurrence of `a` before an occurrence of `b` in the input, with
`key a ≤ key b` (in particular with equal keys), stays before it in the output. -/
theorem stableSort_stable {key : Nat → Option Int} {a b : Nat} {l : List Nat}
    (h : [a, b].Sublist l) (hle : keyLe (key a) (key b) = true) :
    [a, b].Sublist (stableSort key l) :=
  C08L.stableSort_pair h hle

/-- Stability, class form: the elements of one key class appear in the output exactly as (same
elements, same multiplicities, same order) they appear in the input.  Together with
`stableSort_perm` and `stableSort_sorted` this determines the output. -/
theorem stableSort_stable_class (key : Nat → Option Int) (l : List Nat) (k : Option Int) :
    (stableSort key l).filter (fun a => decide (key a = k)) =
      l.filter (fun a => decide (key a = k)) :=
  C08L.stableSort_filter key l k

/-- An element with a strictly smaller key comes before (and never after) one with a larger key. -/
theorem stableSort_lt_before {key : Nat → Option Int} {a b : Nat} {l : List Nat}
    (ha : a ∈ l) (hb : b ∈ l) (hlt : keyLe (key b) (key a) = false) :
    [a, b].Sublist (stableSort key l) ∧ ¬ [b, a].Sublist (stableSort key l) := by
  have hnot : ¬ [b, a].Sublist (stableSort key l) := by
    intro hs
    have hp := (C08L.stableSort_sorted key l).sublist hs
    have := (List.pairwise_cons.1 hp).1 a (by simp)
    rw [this] at hlt; cases hlt
  have hne : a ≠ b := by
    intro h; subst h; rw [keyLe_refl] at hlt; cases hlt
  rcases pair_sublist_or (mem_stableSort.2 ha) (mem_stableSort.2 hb) hne with h | h
  · exact ⟨h, hnot⟩
  · exact absurd h hnot

/-- The sort key of `sortedDown`: since when the device has been waiting for a part. -/
abbrev idleKey (w : World) (d : Nat) : Option Int := waitingSince w.fuel w d

/-- For a device with a slot of its own the key is its `since` field. -/
theorem idleKey_handlerLike (w : World) (d : Nat) (h : isHandlerLike (w.dev d).kind = true) :
    idleKey w d = (w.dev d).since :=
  waitingSince_handlerLike w d h

/-- The sorted downstream list consists of exactly the configured downstream devices. -/
theorem sortedDown_perm (w : World) (x : Nat) : (w.sortedDown x).Perm (w.dev x).down :=
  C08L.stableSort_perm _ _

theorem sortedDown_mem (w : World) (x y : Nat) : y ∈ w.sortedDown x ↔ y ∈ (w.dev x).down :=
  (sortedDown_perm w x).mem_iff

/-- … and is sorted by waiting time. -/
theorem sortedDown_sorted (w : World) (x : Nat) :
    (w.sortedDown x).Pairwise (fun a b => keyLe (idleKey w a) (idleKey w b) = true) :=
  C08L.stableSort_sorted _ _

/-- Idle longest first: a downstream device that has been waiting strictly longer is offered the
part before (and never after) one that has been waiting for a shorter time. -/
theorem sortedDown_longest_idle_first (w : World) (x : Nat) {a b : Nat} {ta tb : Int}
    (ha : a ∈ (w.dev x).down) (hb : b ∈ (w.dev x).down)
    (hta : idleKey w a = some ta) (htb : idleKey w b = some tb) (hlt : ta < tb) :
    [a, b].Sublist (w.sortedDown x) ∧ ¬ [b, a].Sublist (w.sortedDown x) :=
  stableSort_lt_before ha hb (by
    show keyLe (idleKey w b) (idleKey w a) = false
    rw [hta, htb, keyLe_some_some]; simp; omega)

/-- Devices that are not waiting for a part come after all waiting ones. -/
theorem sortedDown_not_waiting_last (w : World) (x : Nat) {a b : Nat} {ta : Int}
    (ha : a ∈ (w.dev x).down) (hb : b ∈ (w.dev x).down)
    (hta : idleKey w a = some ta) (htb : idleKey w b = none) :
    [a, b].Sublist (w.sortedDown x) ∧ ¬ [b, a].Sublist (w.sortedDown x) :=
  stableSort_lt_before ha hb (by
    show keyLe (idleKey w b) (idleKey w a) = false
    rw [hta, htb]; rfl)

/-- Ties (and, more generally, pairs that are already in key order) keep the configured order. -/
theorem sortedDown_ties_config_order (w : World) (x : Nat) {a b : Nat}
    (h : [a, b].Sublist (w.dev x).down) (hle : keyLe (idleKey w a) (idleKey w b) = true) :
    [a, b].Sublist (w.sortedDown x) :=
  C08L.stableSort_pair h hle

/-- The devices of one waiting-time class appear in configuration order. -/
theorem sortedDown_class (w : World) (x : Nat) (k : Option Int) :
    (w.sortedDown x).filter (fun a => decide (idleKey w a = k)) =
      (w.dev x).down.filter (fun a => decide (idleKey w a = k)) :=
  C08L.stableSort_filter _ _ k

/-- The sorted downstream list reads the devices only (it does not change when parts change). -/
theorem sortedDown_congr {w w' : World} (h : w'.devs = w.devs) (x : Nat) :
    w'.sortedDown x = w.sortedDown x :=
  C08L.sortedDown_congr h x

/-- `tryList` offers in list order and stops at the first acceptance: it succeeds with `w'` iff the
list splits into a refusing prefix `l1` (states threaded through), and a device `y` accepting in the
state `wm` the prefix has left. -/
theorem tryList_spec (g : World → Nat → Nat → World × Bool) (w w' : World) (l : List Nat) (p : Nat) :
    tryList g w l p = (w', true) ↔
      ∃ l1 y l2 wm, l = l1 ++ y :: l2 ∧ tryList g w l1 p = (wm, false) ∧ g wm y p = (w', true) := by
  constructor
  · exact tryList_true
  · rintro ⟨l1, y, l2, wm, rfl, h1, h2⟩
    rw [tryList_append, h1]
    exact tryList_cons_true _ h2

/-- A refusing `tryList` has asked every device of the list, in order, and every one refused. -/
theorem tryList_refused_all {g : World → Nat → Nat → World × Bool} {w w' : World} {l1 l2 : List Nat}
    {y p : Nat} (h : tryList g w (l1 ++ y :: l2) p = (w', false)) :
    ∃ wa wb, tryList g w l1 p = (wa, false) ∧ g wa y p = (wb, false) ∧
      tryList g wb l2 p = (w', false) :=
  tryList_false_split h

/-! ## (c) a refused hand-over leaves no trace -/

/-- `remove_from_routing_history(-1)` exactly undoes `add_routing_history`: for every world, part
id (valid or not) and kids list (out-of-range, repeated or self-referential kids included) the
world is literally the same as before. -/
theorem dropHist_addHist (w : World) (p d : Nat) : (w.addHist p d).dropHist p = w :=
  C08L.dropHist_addHist w p d

/-- **No leftovers.**  If a hand-over is refused — by whatever kind of device, through whatever
nesting of gates, group paths, group inputs and outputs — the parts table is exactly as before:
the routing history and the group-path stack of the part, of its kids and of every other part are
unchanged. -/
theorem no_leftovers (f : Nat) (w : World) (x p : Nat) (w' : World)
    (h : give f w x p = (w', false)) : w'.parts = w.parts :=
  (give_refused f w x p w' h).1

/-- The same for the entry point `givePart` and for a whole refusing offer round. -/
theorem no_leftovers_givePart (w : World) (x p : Nat) (w' : World)
    (h : givePart w x p = (w', false)) : w'.parts = w.parts :=
  no_leftovers _ w x p w' h

theorem no_leftovers_tryList (f : Nat) (w : World) (l : List Nat) (p : Nat) (w' : World)
    (h : tryList (give f) w l p = (w', false)) : w'.parts = w.parts :=
  (tryList_refused (fun w y w' h => give_refused f w y p w' h) h).1

theorem no_leftovers_tryList_givePart (w : World) (l : List Nat) (p : Nat) (w' : World)
    (h : tryList givePart w l p = (w', false)) : w'.parts = w.parts :=
  (tryList_refused (fun w y w' h => give_refused _ w y p w' h) h).1

/-- A refused hand-over changes no device except for the `waitingRes` flag (a processor that could
not get its resources registers for them), and none of the tables below.  (What may change besides:
the event queue, the logs, the error flag and the resource manager's waiting list.) -/
theorem refused_frame (f : Nat) (w : World) (x p : Nat) (w' : World)
    (h : give f w x p = (w', false)) :
    (∀ y, (w'.dev y).noWR = (w.dev y).noWR) ∧ w'.devs.length = w.devs.length ∧
      w'.groups = w.groups ∧ w'.generated = w.generated ∧ w'.delivered = w.delivered ∧
      w'.lost = w.lost := by
  have hr := (give_refused f w x p w' h).2
  have h1 := congrArg World.groups hr
  have h2 := congrArg World.generated hr
  have h3 := congrArg World.delivered hr
  have h4 := congrArg World.lost hr
  exact ⟨refFrame_dev hr, refFrame_devs_length hr, h1, h2, h3, h4⟩

/-- In particular the slots of all devices are unchanged by a refusal. -/
theorem refused_slots (f : Nat) (w : World) (x p : Nat) (w' : World)
    (h : give f w x p = (w', false)) (y : Nat) :
    (w'.dev y).part = (w.dev y).part ∧ (w'.dev y).output = (w.dev y).output ∧
      (w'.dev y).buf = (w.dev y).buf ∧ (w'.dev y).inprog = (w.dev y).inprog ∧
      (w'.dev y).level = (w.dev y).level ∧ (w'.dev y).collected = (w.dev y).collected ∧
      (w'.dev y).since = (w.dev y).since ∧ (w'.dev y).blockInput = (w.dev y).blockInput := by
  have hd := (refused_frame f w x p w' h).1 y
  have h1 := congrArg Dev.part hd
  have h2 := congrArg Dev.output hd
  have h3 := congrArg Dev.buf hd
  have h4 := congrArg Dev.inprog hd
  have h5 := congrArg Dev.level hd
  have h6 := congrArg Dev.collected hd
  have h7 := congrArg Dev.since hd
  have h8 := congrArg Dev.blockInput hd
  exact ⟨h1, h2, h3, h4, h5, h6, h7, h8⟩

/-! ## (a, continued) the device that has been idle longest receives the part -/

/-- **Idle longest receives it** (inside gates and groups).  If the offer round over the sorted
downstream list of `x` succeeds, then the accepting device `y` is a configured downstream device of
`x`, it accepted in a state `wm` that differs from `w` by refusals only (same parts table, same
devices up to `waitingRes`), and every downstream device `z` that has been waiting strictly longer
than `y` was offered the part before `y` — also in a state that differs from `w` by refusals only —
and refused it. -/
theorem idle_longest_receives_give (f : Nat) (w w' : World) (x p : Nat)
    (h : tryList (give f) w (w.sortedDown x) p = (w', true)) :
    ∃ y wm, y ∈ (w.dev x).down ∧ wm.parts = w.parts ∧ (∀ d, (wm.dev d).noWR = (w.dev d).noWR) ∧
      give f wm y p = (w', true) ∧
      ∀ z ∈ (w.dev x).down, keyLe (idleKey w y) (idleKey w z) = false →
        ∃ wa wb, wa.parts = w.parts ∧ (∀ d, (wa.dev d).noWR = (w.dev d).noWR) ∧
          give f wa z p = (wb, false) := by
  obtain ⟨y, wm, hy, hr, hg, hz⟩ :=
    tryList_sorted_true (fun w y w' h => give_refused f w y p w' h) h
  refine ⟨y, wm, hy, hr.1, refFrame_dev hr.2, hg, ?_⟩
  intro z hzd hlt
  obtain ⟨wa, wb, hra, hgz⟩ := hz z hzd hlt
  exact ⟨wa, wb, hra.1, refFrame_dev hra.2, hgz⟩

/-- **Idle longest receives it** (the offer round of `_pass_part_downstream`, which uses
`givePart`). -/
theorem idle_longest_receives (w w' : World) (x p : Nat)
    (h : tryList givePart w (w.sortedDown x) p = (w', true)) :
    ∃ y wm, y ∈ (w.dev x).down ∧ wm.parts = w.parts ∧ (∀ d, (wm.dev d).noWR = (w.dev d).noWR) ∧
      givePart wm y p = (w', true) ∧
      ∀ z ∈ (w.dev x).down, keyLe (idleKey w y) (idleKey w z) = false →
        ∃ wa wb, wa.parts = w.parts ∧ (∀ d, (wa.dev d).noWR = (w.dev d).noWR) ∧
          givePart wa z p = (wb, false) := by
  obtain ⟨y, wm, hy, hr, hg, hz⟩ :=
    tryList_sorted_true (g := givePart) (fun w y w' h => give_refused _ w y p w' h) h
  refine ⟨y, wm, hy, hr.1, refFrame_dev hr.2, hg, ?_⟩
  intro z hzd hlt
  obtain ⟨wa, wb, hra, hgz⟩ := hz z hzd hlt
  exact ⟨wa, wb, hra.1, refFrame_dev hra.2, hgz⟩

/-! ## (b) gates and blocked inputs -/

/-- A decision gate whose predicate rejects the part refuses it, and nothing at all changes. -/
theorem gate_respected (f : Nat) (w : World) (x p : Nat) (hk : (w.dev x).kind = .gate)
    (hp : w.gatePred (w.dev x).pred p = false) : give (f + 1) w x p = (w, false) := by
  rw [give.eq_2, hk]; simp [hp]

/-- Conversely a part passes a gate only if the predicate accepts it. -/
theorem gate_passed_only_if_pred (f : Nat) (w w' : World) (x p : Nat)
    (hk : (w.dev x).kind = .gate) (h : give (f + 1) w x p = (w', true)) :
    w.gatePred (w.dev x).pred p = true := by
  cases hp : w.gatePred (w.dev x).pred p with
  | true => rfl
  | false => rw [gate_respected f w x p hk hp] at h; simp at h

/-- A device whose input is blocked refuses every part, and nothing at all changes.  This holds
for every kind of device except a group output (`goutput`), which does not look at the flag (see
the example `blocked_goutput_passes` below). -/
theorem blocked_never_entered (f : Nat) (w : World) (x p : Nat)
    (hb : (w.dev x).blockInput = true) (hk : (w.dev x).kind ≠ .goutput) :
    give (f + 1) w x p = (w, false) := by
  have hc := canAcceptBasic_blocked (w := w) (x := x) p hb
  rw [give.eq_2]
  split
  all_goals first
    | (rename_i hk'; exact absurd hk' hk)
    | simp [hc, hb]

/-- Conversely a successful hand-over to anything but a group output means the input was open. -/
theorem entered_only_if_unblocked (f : Nat) (w w' : World) (x p : Nat)
    (hk : (w.dev x).kind ≠ .goutput) (h : give (f + 1) w x p = (w', true)) :
    (w.dev x).blockInput = false := by
  cases hb : (w.dev x).blockInput with
  | false => rfl
  | true => rw [blocked_never_entered f w x p hb hk] at h; simp at h

/-! ## moves along configured connections only -/

/-- A gate (or a group input) that passes a part on passes it to one of its configured downstream
devices — after that device's predecessors in the sorted list have refused, which left no trace. -/
theorem gate_passes_downstream (f : Nat) (w w' : World) (x p : Nat) (hk : (w.dev x).kind = .gate)
    (h : give (f + 1) w x p = (w', true)) :
    ∃ y wm, y ∈ (w.dev x).down ∧ wm.parts = (w.addHist p x).parts ∧ give f wm y p = (w', true) := by
  rw [give.eq_2, hk] at h
  dsimp only at h
  split at h
  · simp at h
  · split at h
    · simp at h
    · split at h
      · next w2 htl =>
        have : w2 = w' := (Prod.mk.inj h).1
        subst this
        obtain ⟨l1, y, l2, wm, hl, h1, h2⟩ := tryList_true htl
        refine ⟨y, wm, ?_, no_leftovers_tryList f _ l1 p wm h1, h2⟩
        have : y ∈ (w.addHist p x).sortedDown x := by rw [hl]; simp
        rw [sortedDown_congr (addHist_devs w p x)] at this
        exact (sortedDown_mem w x y).1 this
      · simp at h

theorem ginput_passes_downstream (f : Nat) (w w' : World) (x p : Nat)
    (hk : (w.dev x).kind = .ginput) (h : give (f + 1) w x p = (w', true)) :
    ∃ y wm, y ∈ (w.dev x).down ∧ wm.parts = w.parts ∧ give f wm y p = (w', true) := by
  rw [give.eq_2, hk] at h
  dsimp only at h
  split at h
  · simp at h
  · obtain ⟨l1, y, l2, wm, hl, h1, h2⟩ := tryList_true h
    refine ⟨y, wm, ?_, no_leftovers_tryList f _ l1 p wm h1, h2⟩
    have : y ∈ w.sortedDown x := by rw [hl]; simp
    exact (sortedDown_mem w x y).1 this

/-! ## (d) routing histories -/

/-- What `add_routing_history` does to the history of an existing part `q`: it appends `d` once for
every occurrence of `q` in `p :: kids p` — so exactly once for the part itself and for each of its
kids (when the kids list has no repetitions and does not contain `p`), and not at all for any other
part. -/
theorem addHist_hist (w : World) (p d q : Nat) (hq : q < w.parts.length) :
    ((w.addHist p d).part q).hist =
      (w.part q).hist ++ List.replicate ((p :: ((w.part p).kids.getD [])).count q) d :=
  addHist_part_hist w p d q hq

/-- Parts other than `p` and its kids are not touched by `add_routing_history` at all. -/
theorem addHist_other (w : World) (p d q : Nat) (hq : q ∉ p :: ((w.part p).kids.getD [])) :
    (w.addHist p d).part q = w.part q :=
  addHist_part_of_notin w p d q hq

/-- **History on acceptance.**  `_accept_part` by device `x` appends exactly `x` to the routing
history of the part and of each of its kids (general form: once per occurrence in `p :: kids`),
changes no other history of an existing part, and changes no group-path stack. -/
theorem acceptPart_history (w : World) (x p q : Nat) (hq : q < w.parts.length) :
    ((w.acceptPart x p).part q).hist =
      (w.part q).hist ++ List.replicate ((p :: ((w.part p).kids.getD [])).count q) x ∧
    ((w.acceptPart x p).part q).stack = (w.part q).stack := by
  have h := acceptPart_hist_stack w x p q hq
  exact ⟨by rw [h.1, addHist_hist w p x q hq], h.2.1⟩

/-- The part itself (not contained in its own kids list): exactly `x` is appended. -/
theorem acceptPart_history_self (w : World) (x p : Nat) (hp : p < w.parts.length)
    (hself : p ∉ (w.part p).kids.getD []) :
    ((w.acceptPart x p).part p).hist = (w.part p).hist ++ [x] := by
  rw [(acceptPart_history w x p p hp).1, List.count_cons_self, List.count_eq_zero.2 hself]
  rfl

/-- Parts that are neither `p` nor one of its kids keep their history. -/
theorem acceptPart_history_other (w : World) (x p q : Nat) (hq : q < w.parts.length)
    (hne : q ∉ p :: ((w.part p).kids.getD [])) :
    ((w.acceptPart x p).part q).hist = (w.part q).hist := by
  rw [(acceptPart_history w x p q hq).1, List.count_eq_zero.2 hne]
  simp

/-- What a successful hand-over to a device with a slot of its own is: `_accept_part`, in a state
with the same parts table (for a processor: after the resources have been reserved). -/
theorem give_handlerLike_true (f : Nat) (w w' : World) (x p : Nat)
    (hk : isHandlerLike (w.dev x).kind = true) (h : give (f + 1) w x p = (w', true)) :
    ∃ w1 : World, w1.parts = w.parts ∧ w' = w1.acceptPart x p := by
  rw [give.eq_2] at h
  split at h
  iterate 5
    · split at h
      · exact ⟨w, rfl, ((Prod.mk.inj h).1).symm⟩
      · simp at h
  · split at h
    · split at h
      · next w1 hacq =>
        refine ⟨w1, ?_, ((Prod.mk.inj h).1).symm⟩
        have := procAcquire_fst_parts w x; rw [hacq] at this; exact this
      · simp at h
    · simp at h
  all_goals (next hk' => rw [hk'] at hk; simp [isHandlerLike] at hk)

/-- **Histories are only ever extended.**  Whatever a hand-over does (accepted or refused, through
any nesting), the routing history of every existing part afterwards starts with its history
before: nothing is ever removed or rewritten, and refused attempts leave nothing behind. -/
theorem give_history_extended (f : Nat) (w w' : World) (x p : Nat) (b : Bool)
    (h : give f w x p = (w', b)) (q : Nat) (hq : q < w.parts.length) :
    (w.part q).hist <+: (w'.part q).hist :=
  (give_histExt h).2 q hq

/-- A part that passes a gate has the gate in its history, directly after what was there before,
followed by whatever the accepting downstream chain adds. -/
theorem gate_history_prefix (f : Nat) (w w' : World) (x p : Nat) (hk : (w.dev x).kind = .gate)
    (hp : p < w.parts.length) (h : give (f + 1) w x p = (w', true)) :
    (w.part p).hist ++ [x] <+: (w'.part p).hist := by
  obtain ⟨y, wm, _, hparts, hg⟩ := gate_passes_downstream f w w' x p hk h
  have h1 : (wm.part p).hist <+: (w'.part p).hist :=
    give_history_extended f wm w' y p true hg p (by rw [hparts, addHist_parts_length]; exact hp)
  rw [part_congr hparts, addHist_hist w p x p hp, List.count_cons_self,
    List.replicate_succ, List.append_cons] at h1
  exact (List.prefix_append _ _).trans h1

/-! ## (e) groups: out through the path the part came in by -/

/-- **Same path exit.**  A group output hands a part whose innermost (= last entered) group path is
`g` — stack `s ++ [g]` — to the sorted downstream list of exactly `g`, with the stack reduced to
`s` while it does so; on refusal `g` is pushed back.  For nested groups the stack makes the order
innermost first: the next group output sees `s` and uses its last element. -/
theorem same_path_exit (f : Nat) (w : World) (x p : Nat) (s : List Nat) (g : Nat)
    (hk : (w.dev x).kind = .goutput) (hs : (w.part p).stack = s ++ [g]) :
    give (f + 1) w x p =
      (match tryList (give f) (w.modPart p (fun r => { r with stack := s })) (w.sortedDown g) p with
       | (w2, true) => (w2, true)
       | (w2, false) => (w2.modPart p (fun r => { r with stack := r.stack ++ [g] }), false)) ∧
    ((w.modPart p (fun r => { r with stack := s })).part p).stack = s := by
  have hlt : p < w.parts.length := by
    apply Nat.lt_of_not_le
    intro hle
    rw [part_of_length_le hle] at hs
    have hd : (default : PartRec).stack = [] := rfl
    rw [hd] at hs
    simp at hs
  have hmod : w.modPart p (fun r => { r with stack := r.stack.dropLast }) =
      w.modPart p (fun r => { r with stack := s }) :=
    modPart_congr w p (by simp [hs])
  constructor
  · rw [give.eq_2, hk]
    dsimp only
    have hl : (w.part p).stack.getLast? = some g := by rw [hs]; simp
    rw [hl]
    dsimp only
    rw [hmod, sortedDown_congr (w := w) (modPart_devs w p _)]
    generalize tryList (give f) _ (w.sortedDown g) p = r
    obtain ⟨w2, b⟩ := r
    cases b <;> rfl
  · rw [part_modPart_same hlt]

/-- On refusal the group output restores the stack (and everything else in the parts table). -/
theorem same_path_exit_refused (f : Nat) (w w' : World) (x p : Nat)
    (h : give f w x p = (w', false)) : (w'.part p).stack = (w.part p).stack := by
  rw [part_congr (no_leftovers f w x p w' h)]

/-- A part that is in no group cannot leave one: refused, and the model error is flagged. -/
theorem goutput_empty_stack (f : Nat) (w : World) (x p : Nat)
    (hk : (w.dev x).kind = .goutput) (hs : (w.part p).stack = []) :
    give (f + 1) w x p = (w.setErr "no-group-path", false) := by
  rw [give.eq_2, hk]
  dsimp only
  rw [hs]
  rfl

/-- The devices a group output offers the part to are the downstream devices of the path. -/
theorem goutput_passes_downstream (f : Nat) (w w' : World) (x p : Nat) (s : List Nat) (g : Nat)
    (hk : (w.dev x).kind = .goutput) (hs : (w.part p).stack = s ++ [g])
    (h : give (f + 1) w x p = (w', true)) :
    ∃ y wm, y ∈ (w.dev g).down ∧
      wm.parts = (w.modPart p (fun r => { r with stack := s })).parts ∧
      give f wm y p = (w', true) := by
  rw [(same_path_exit f w x p s g hk hs).1] at h
  split at h
  · next w2 htl =>
    have : w2 = w' := (Prod.mk.inj h).1
    subst this
    obtain ⟨l1, y, l2, wm, hl, h1, h2⟩ := tryList_true htl
    refine ⟨y, wm, ?_, no_leftovers_tryList f _ l1 p wm h1, h2⟩
    have : y ∈ w.sortedDown g := by rw [hl]; simp
    exact (sortedDown_mem w g y).1 this
  · simp at h

/-- **Entering a group.**  An unblocked group path pushes itself on the part's stack and history
and hands the part to the group's input device; on refusal both are taken back (and by
`no_leftovers` the parts table is then exactly as before). -/
theorem gpath_enter (f : Nat) (w : World) (x p : Nat) (hk : (w.dev x).kind = .gpath)
    (hb : (w.dev x).blockInput = false) :
    give (f + 1) w x p =
      (match give f ((w.modPart p (fun r => { r with stack := r.stack ++ [x] })).addHist p x)
          (w.groups.getD (w.dev x).group default).input p with
       | (w2, true) => (w2, true)
       | (w2, false) =>
         ((w2.modPart p (fun r => { r with stack := r.stack.dropLast })).dropHist p, false)) := by
  rw [give.eq_2, hk]
  simp only [hb, Bool.false_eq_true, ↓reduceIte, addHist_groups, modPart_groups]
  generalize give f _ (w.groups.getD (w.dev x).group default).input p = r
  obtain ⟨w2, b⟩ := r
  cases b <;> rfl

/-- The state in which the group input is asked has `x` on top of the part's stack. -/
theorem gpath_enter_stack (w : World) (x p : Nat) (hp : p < w.parts.length) :
    (((w.modPart p (fun r => { r with stack := r.stack ++ [x] })).addHist p x).part p).stack =
      (w.part p).stack ++ [x] := by
  rw [addHist_part_stack, part_modPart_same hp]

/-! ## (f) sinks collect in arrival order -/

/-- **Collected in order.**  `_accept_part` of a collecting sink appends the part at the END of
its `collected` list; every other `collected` list (other devices, non-collecting sinks) is
unchanged. -/
theorem collected_in_order (w : World) (x p y : Nat) :
    ((w.acceptPart x p).dev y).collected =
      if y = x ∧ x < w.devs.length ∧ (w.dev x).kind = .sink ∧ (w.dev x).collect = true then
        (w.dev x).collected ++ [p]
      else (w.dev y).collected :=
  acceptPart_collected w x p y

/-- The instance asked for: the collecting sink itself. -/
theorem collected_sink (w : World) (x p : Nat) (hx : x < w.devs.length)
    (hk : (w.dev x).kind = .sink) (hc : (w.dev x).collect = true) :
    ((w.acceptPart x p).dev x).collected = (w.dev x).collected ++ [p] := by
  rw [collected_in_order]; simp [hx, hk, hc]

/-- No hand-over ever reorders or shortens a `collected` list: afterwards every list starts with
what it was before. -/
theorem give_collected_extended (f : Nat) (w w' : World) (x p : Nat) (b : Bool)
    (h : give f w x p = (w', b)) (y : Nat) : (w.dev y).collected <+: (w'.dev y).collected :=
  give_collExt h y

/-! ### non-vacuity -/

/-- A gate (0, accepts quality ≥ 1) in front of two parallel handlers: 1 waiting since 3, 2 waiting
since 1 (idle longest), and a third (3) that is not waiting; one part of quality 1 and a batch (1)
of two parts (2, 3). -/
def exGate : World :=
  { devs := [{ kind := .gate, down := [1, 2, 3], pred := .qualityGe 1 },
             { kind := .handler, up := [0], since := some 3, inited := true, cycle := 5 },
             { kind := .handler, up := [0], since := some 1, inited := true, cycle := 5 },
             { kind := .handler, up := [0], since := none, inited := true, cycle := 5 }],
    parts := [{ quality := 1, hist := [9] }, { quality := 1, kids := some [2, 3] }, {}, { quality := 0 }] }

-- the sort: waiting-longest first, not waiting last, ties in configuration order
example : exGate.sortedDown 0 = [2, 1, 3] := by decide
example : stableSort (fun d => [some 5, none, some 2, some 5, some 2].getD d none) [0, 1, 2, 3, 4]
    = [2, 4, 0, 3, 1] := by decide

-- the idle-longest handler (2) receives the part; the history gains gate and handler, in order
example : (give 5 exGate 0 0).2 = true ∧ ((give 5 exGate 0 0).1.part 0).hist = [9, 0, 2] ∧
    ((give 5 exGate 0 0).1.dev 2).part = some 0 ∧ ((give 5 exGate 0 0).1.dev 1).part = none := by
  decide

-- a batch: the kids' histories are extended, too
example : ((give 5 exGate 0 1).1.part 1).hist = [0, 2] ∧ ((give 5 exGate 0 1).1.part 2).hist = [0, 2] ∧
    ((give 5 exGate 0 1).1.part 3).hist = [0, 2] ∧ ((give 5 exGate 0 1).1.part 0).hist = [9] := by
  decide

/-- The same line with all three handlers occupied: the gate's offer round is refused. -/
def exBusy : World :=
  { exGate with devs := exGate.devs.map (fun d => { d with part := some 7 }) }

example : (give 5 exBusy 0 0).2 = false ∧ (give 5 exBusy 0 0).1.parts = exBusy.parts := by decide

-- the gate's predicate rejects a part of quality 0 (hypothesis of `gate_respected`)
example : (exGate.dev 0).kind = .gate ∧ exGate.gatePred (exGate.dev 0).pred 3 = false := by decide

/-- A shared group 0 (input 2, handler 3, output 4) used by two lines through the group paths 0
(→ sink 5) and 1 (→ sink 6); part 0 is outside, part 1 sits in the group and came in by path 1,
part 2 is in no group. -/
def exGroup : World :=
  { devs := [{ kind := .gpath, group := 0, down := [5] },
             { kind := .gpath, group := 0, down := [6] },
             { kind := .ginput, group := 0, down := [3] },
             { kind := .handler, up := [2], down := [4], inited := true, cycle := 5 },
             { kind := .goutput, group := 0 },
             { kind := .sink, up := [0], inited := true, collect := true, collected := [8] },
             { kind := .sink, up := [1], inited := true, collect := true, collected := [8] }],
    groups := [{ paths := [0, 1], input := 2, output := 4 }],
    parts := [{}, { hist := [1, 3], stack := [1] }, {}, { stack := [0, 1] }] }

-- entering through path 1: path and handler in the history, path 1 on the stack
example : (give 8 exGroup 1 0).2 = true ∧ ((give 8 exGroup 1 0).1.part 0).hist = [1, 3] ∧
    ((give 8 exGroup 1 0).1.part 0).stack = [1] := by decide

-- leaving: the part that came in by path 1 goes to sink 6 (not 5), appended at the end of
-- `collected`, and the stack is empty again
example : (give 8 exGroup 4 1).2 = true ∧ ((give 8 exGroup 4 1).1.dev 6).collected = [8, 1] ∧
    ((give 8 exGroup 4 1).1.dev 5).collected = [8] ∧ ((give 8 exGroup 4 1).1.part 1).stack = [] ∧
    ((give 8 exGroup 4 1).1.part 1).hist = [1, 3, 6] := by decide

-- a part that is in no group is refused by the group output, with the model error
example : give 8 exGroup 4 2 = (exGroup.setErr "no-group-path", false) := 
  goutput_empty_stack 7 exGroup 4 2 (by decide) (by decide)
example : (give 8 exGroup 4 2).1.error = some "no-group-path" := by decide

/-- The group's handler occupied: entering is refused and stack and history are restored. -/
def exGroupBusy : World :=
  { exGroup with devs := exGroup.devs.map (fun d => { d with part := some 7 }) }

example : (give 8 exGroupBusy 1 0).2 = false ∧ (give 8 exGroupBusy 1 0).1.parts = exGroupBusy.parts := by
  decide

/-- Sink 6 blocked: the part cannot leave, and path 1 is pushed back. -/
def exGroupBlocked : World :=
  { exGroup with devs := exGroup.devs.map (fun d => { d with blockInput := d.kind == .sink }) }

example : (give 8 exGroupBlocked 4 1).2 = false ∧
    ((give 8 exGroupBlocked 4 1).1.part 1).stack = [1] := by decide

/-- **A blocked group output still passes parts** (`blocked_never_entered` excludes `goutput`
for this reason: `give` on a group output never looks at `blockInput`). -/
def exGoutBlocked : World :=
  { exGroup with devs := exGroup.devs.map (fun d => { d with blockInput := d.kind == .goutput }) }

example : (exGoutBlocked.dev 4).blockInput = true ∧ (give 8 exGoutBlocked 4 1).2 = true := by decide

-- nested entries leave innermost first: with the stack [0, 1] the part goes to path 1's sink (6)
-- and keeps [0]; the next group output would use path 0
example : (exGroup.part 3).stack = [0] ++ [1] ∧ (give 8 exGroup 4 3).2 = true ∧
    ((give 8 exGroup 4 3).1.dev 6).collected = [8, 3] ∧
    ((give 8 exGroup 4 3).1.part 3).stack = [0] := by decide

/-- Handler 2 (idle longest) occupied: the offer round of the gate's upstream neighbour reaches
handler 1 only after 2 has refused. -/
def exGate2 : World :=
  { exGate with devs := exGate.devs.map (fun d => { d with part := if d.since == some 1 then some 7 else none }) }

example : (tryList givePart exGate2 (exGate2.sortedDown 0) 0).2 = true ∧
    ((tryList givePart exGate2 (exGate2.sortedDown 0) 0).1.dev 1).part = some 0 ∧
    keyLe (idleKey exGate2 1) (idleKey exGate2 2) = false ∧
    (givePart exGate2 2 0).2 = false := by decide

-- hypotheses of the `sortedDown` corollaries
example : idleKey exGate 2 = some 1 ∧ idleKey exGate 1 = some 3 ∧ idleKey exGate 3 = none ∧
    1 ∈ (exGate.dev 0).down ∧ 2 ∈ (exGate.dev 0).down ∧ 3 ∈ (exGate.dev 0).down := by decide

-- hypotheses of `blocked_never_entered`, `same_path_exit`, `collected_sink`,
-- `acceptPart_history_self` (a batch) and `gate_history_prefix`
example : (exGroupBlocked.dev 6).blockInput = true ∧ (exGroupBlocked.dev 6).kind ≠ .goutput := by
  decide
example : (exGroup.dev 4).kind = .goutput ∧ (exGroup.part 1).stack = [] ++ [1] := by decide
example : 6 < exGroup.devs.length ∧ (exGroup.dev 6).kind = .sink ∧ (exGroup.dev 6).collect = true := by
  decide
example : 1 < exGate.parts.length ∧ 1 ∉ (exGate.part 1).kids.getD [] ∧
    ((exGate.acceptPart 2 1).part 1).hist = [2] ∧ ((exGate.acceptPart 2 1).part 3).hist = [2] := by
  decide
example : (exGate.dev 0).kind = .gate ∧ 0 < exGate.parts.length ∧ (give 5 exGate 0 0).2 = true := by
  decide

-- `dropHist` after `addHist` on a degenerate batch (its own kid, a repeated and an invalid kid)
example : let w : World := { parts := [{ hist := [4], kids := some [0, 1, 1, 9] }, { hist := [] }] }
    ((w.addHist 0 7).part 0).hist = [4, 7, 7] ∧ ((w.addHist 0 7).part 1).hist = [7, 7] ∧
    ((w.addHist 0 7).dropHist 0).parts = w.parts := by decide

end C08
end SimProc
