/-
C01W — the event-queue theorems (C01, C07) hold in the closed world.

`Props/C01.lean` and `Props/C07.lean` are about the environment model `Env` driven by ARBITRARY
lists of operations.  Here: the world model (`Model/Floor.lean`, `Model/World.lean`) touches its
event queue ONLY through that API —

1. `env_refines_*` : every function `f` that can run inside an event action or as a scripted
   operation satisfies `Via w (f w)`, i.e. (`via_iff`) under the closed-world invariant `Good w`
   (device asset ids ≥ 1, scripts issue only user operations) there is a list `ops` of *library
   operations* (`LibOp`: `.sched` with an action other than the private terminate action and a
   priority above `TERMINATE`; `.pause/.unpause/.cancel` of an asset other than −1; never `.step`,
   never `.runBegin`) with `(f w).env = (w.env.applyAll Arith.exact ops).1`, and `Good (f w)`;
2. `step_refines`, `runBegin_refines` : a world step is the environment's `.step` followed by
   library operations; `World.runBegin` is the environment's `.runBegin`;
3. hence everything proved about `Env.apply/applyAll` holds in every reachable world (`Reach`):
   `envInv_reachable`, `dispatch_order_world`, `clock_monotone_world`, `executed_once_world`,
   `run_ends_world`, `cancelled_never_runs_world`, `cancelled_stays_world`.

No restriction on the topology or on the scripts beyond `ScriptsUser` (they may create assets,
re-wire, fail/shutdown/restore machines, …): `Static` is not needed.
-/
import SimProc.Proofs.C01WRun

namespace SimProc
namespace C01W
open World

/-! ### 1. `env_refines`: function by function -/

/-- What `Via` says. -/
theorem via_iff (w w' : World) :
    Via w w' ↔ (Good w → Good w' ∧ ∃ ops : List EnvOp, (∀ op ∈ ops, LibOp op) ∧
      w'.env = (w.env.applyAll Arith.exact ops).1) := Iff.rfl

/-- Library operations are the `C01.UserOp`s other than `step`. -/
theorem libOp_iff_userOp (op : EnvOp) : LibOp op ↔ C01.UserOp op ∧ op ≠ .step := libOp_iff op

/-- `Via` is reflexive and transitive (operation lists concatenate, `applyAll_append`). -/
theorem via_refl (w : World) : Via w w := Via.refl w
theorem via_trans {a b c : World} (h1 : Via a b) (h2 : Via b c) : Via a c := h1.trans h2

/-- The invariant is established by the constructors: `addDev` assigns asset id
`registration index + 1 ≥ 1` (part of `env_refines_addAsset`); an empty floor satisfies it. -/
theorem good_of_no_devs (w : World) (hd : w.devs = []) (hs : ScriptsUser w) : Good w :=
  ⟨(by intro a ha; simp [hd] at ha), hs⟩

-- primitives of `WorldDef`
/-- `sched` is exactly ONE environment operation (`.sched`, accepted or rejected). -/
theorem sched_is_one_op (w : World) (t a : Int) (act : Action) (p : Int) :
    (w.sched t a act p).1.env = (w.env.apply Arith.exact
      (.sched t a act.toNat p (weightOf w.seed w.wmod t a act.toNat p))).1 := sched_env w t a act p
theorem schedLib_is_one_op (w : World) (t a : Int) (act : Action) (p : Int) :
    (w.schedLib t a act p).env = (w.env.apply Arith.exact
      (.sched t a act.toNat p (weightOf w.seed w.wmod t a act.toNat p))).1 := schedLib_env w t a act p
theorem envOp_is_one_op (w : World) (op : EnvOp) :
    (w.envOp op).env = (w.env.apply Arith.exact op).1 := rfl

theorem env_refines_sched (w : World) (t a : Int) (act : Action) (p : Int)
    (ha : act ≠ .terminate) (hp : prioTerminate < p) : Via w (w.sched t a act p).1 :=
  Via_sched w t a act p ha hp
theorem env_refines_schedLib (w : World) (t a : Int) (act : Action) (p : Int)
    (ha : act ≠ .terminate) (hp : prioTerminate < p) : Via w (w.schedLib t a act p) :=
  Via_schedLib w t a act p ha hp
theorem env_refines_envOp (w : World) (op : EnvOp) (h : LibOp op) : Via w (w.envOp op) :=
  Via_envOp w op h
theorem env_refines_rmEffects (w : World) (recs : List ResRec) (chk : Bool) :
    Via w (w.rmEffects recs chk) := Via_rmEffects w recs chk

/-- The priority table: every library priority is above `TERMINATE`. -/
theorem lib_priorities :
    prioTerminate = pTerminate ∧ prioTerminate < pOtherLow ∧ prioTerminate < pStartWork ∧
    prioTerminate < pSensor ∧ prioTerminate < pFail ∧ prioTerminate < pRelease ∧
    prioTerminate < pPassPart ∧ prioTerminate < pFinish ∧ prioTerminate < pRestore ∧
    prioTerminate < pFinishWork ∧ prioTerminate < pOtherHigh := by decide

-- the factory floor
theorem env_refines_setWaiting (w : World) (x : Nat) (a b : Bool) : Via w (w.setWaiting x a b) :=
  Via_setWaiting w x a b
theorem env_refines_schedulePass (w : World) (x : Nat) (o : Int) : Via w (w.schedulePass x o) :=
  Via_schedulePass w x o
theorem env_refines_notifyUp (n : Nat) (w : World) (x : Nat) : Via w (notifyUp n w x) :=
  Via_notifyUp n w x
theorem env_refines_spaceAvail (n : Nat) (w : World) (x : Nat) : Via w (spaceAvail n w x) :=
  Via_spaceAvail n w x
theorem env_refines_notify (w : World) (x : Nat) : Via w (w.notify x) := Via_notify w x
theorem env_refines_spaceAvailable (w : World) (x : Nat) : Via w (w.spaceAvailable x) :=
  Via_spaceAvailable w x
theorem env_refines_releaseReserved (w : World) (x : Nat) : Via w (w.releaseReserved x) :=
  Via_releaseReserved w x
theorem env_refines_procAcquire (w : World) (x : Nat) : Via w (w.procAcquire x).1 :=
  Via_procAcquire w x
theorem env_refines_addHist (w : World) (p d : Nat) : Via w (w.addHist p d) := Via_addHist w p d
theorem env_refines_dropHist (w : World) (p : Nat) : Via w (w.dropHist p) := Via_dropHist w p
theorem env_refines_applyPartCb (w : World) (x p : Nat) (c : PartCb) :
    Via w (w.applyPartCb x p c) := Via_applyPartCb w x p c
theorem env_refines_senseOutput (w : World) (s p : Nat) : Via w (w.senseOutput s p) :=
  Via_senseOutput w s p
theorem env_refines_genPart (w : World) (x : Nat) : Via w (w.genPart x).1 := Via_genPart w x
theorem env_refines_finishCycleHandler (w : World) (x : Nat) : Via w (w.finishCycleHandler x) :=
  Via_finishCycleHandler w x
theorem env_refines_finishCycle (w : World) (x : Nat) : Via w (w.finishCycle x) :=
  Via_finishCycle w x
theorem env_refines_scheduleFinish (w : World) (x : Nat) : Via w (w.scheduleFinish x) :=
  Via_scheduleFinish w x
theorem env_refines_batcherLoop (n : Nat) (w : World) (x : Nat) : Via w (batcherLoop n w x) :=
  Via_batcherLoop n w x
theorem env_refines_tryMove (w : World) (x : Nat) : Via w (w.tryMove x) := Via_tryMove w x
theorem env_refines_onReceived (w : World) (x p : Nat) : Via w (w.onReceived x p) :=
  Via_onReceived w x p
theorem env_refines_acceptPart (w : World) (x p : Nat) : Via w (w.acceptPart x p) :=
  Via_acceptPart w x p
theorem env_refines_give (n : Nat) (w : World) (x p : Nat) : Via w (give n w x p).1 :=
  Via_give n w x p
theorem env_refines_givePart (w : World) (x p : Nat) : Via w (w.givePart x p).1 :=
  Via_givePart w x p
theorem env_refines_tryList (g : World → Nat → Nat → World × Bool)
    (hg : ∀ w y p, Via w (g w y p).1) (w : World) (l : List Nat) (p : Nat) :
    Via w (tryList g w l p).1 := Via_tryList g hg w l p
theorem env_refines_passHandler (w : World) (x : Nat) : Via w (w.passHandler x) :=
  Via_passHandler w x
theorem env_refines_bufferLoop (n : Nat) (w : World) (x : Nat) : Via w (bufferLoop n w x) :=
  Via_bufferLoop n w x
theorem env_refines_passPart (w : World) (x : Nat) : Via w (w.passPart x) := Via_passPart w x
theorem env_refines_shutdownDev (w : World) (x : Nat) (f : Bool) (lost : Option Nat) :
    Via w (w.shutdownDev x f lost) := Via_shutdownDev w x f lost
theorem env_refines_failDev (w : World) (x : Nat) : Via w (w.failDev x) := Via_failDev w x
theorem env_refines_restoreDev (w : World) (x : Nat) : Via w (w.restoreDev x) := Via_restoreDev w x
theorem env_refines_releaseIfIdle (w : World) (x : Nat) : Via w (w.releaseIfIdle x) :=
  Via_releaseIfIdle w x
theorem env_refines_procResourceCb (w : World) (x : Nat) : Via w (w.procResourceCb x) :=
  Via_procResourceCb w x
theorem env_refines_setBlock (w : World) (x : Nat) (b : Bool) : Via w (w.setBlock x b) :=
  Via_setBlock w x b
theorem env_refines_adjustParts (w : World) (x : Nat) (v : Int) : Via w (w.adjustParts x v) :=
  Via_adjustParts w x v
theorem env_refines_rewire (w : World) (x : Nat) (ups : List Nat) : Via w (w.rewire x ups) :=
  Via_rewire w x ups
theorem env_refines_initDev (w : World) (x : Nat) : Via w (w.initDev x) := Via_initDev w x

-- the world: scripted operations, events
theorem env_refines_startOrders (w : World) (m : Nat) (st : List Order) :
    Via w (w.startOrders m st) := Via_startOrders w m st
theorem env_refines_schedUpdate (w : World) (s : Nat) (advance : Bool) :
    Via w (w.schedUpdate s advance) := Via_schedUpdate w s advance
theorem env_refines_initAsset (w : World) (a : AssetRef) : Via w (w.initAsset a) :=
  Via_initAsset w a
theorem env_refines_addDev (w : World) (d : Dev) : Via w (w.addDev d) := Via_addDev w d
theorem env_refines_addAsset (w : World) (spec : AssetSpec) : Via w (w.addAsset spec) :=
  Via_addAsset w spec
/-- Every scripted operation (for `sched`/`schedRel`/`pause`/`unpause`/`cancel`: a user one). -/
theorem env_refines_applyOp (w : World) (op : Op) (h : opUser op = true) :
    Via w (w.applyOp op).1 := Via_applyOp w op h
theorem env_refines_applyOps (w : World) (ops : List Op) (h : ∀ op ∈ ops, opUser op = true) :
    Via w (w.applyOps ops) := Via_applyOps w ops h
theorem env_refines_runScript (w : World) (k : Nat) : Via w (w.runScript k) := Via_runScript w k
theorem env_refines_scanWaiting (n : Nat) (w : World) (i : Nat) :
    Via w (scanWaiting scanOps n w i) := Via_scanWaiting n w i
theorem env_refines_rmCheck (w : World) : Via w w.rmCheck := Via_rmCheck w
theorem env_refines_hookStart (w : World) (tgt : Nat) (tag : Int) : Via w (w.hookStart tgt tag) :=
  Via_hookStart w tgt tag
theorem env_refines_hookEnd (w : World) (tgt : Nat) (tag : Int) : Via w (w.hookEnd tgt tag) :=
  Via_hookEnd w tgt tag
theorem env_refines_startWork (w : World) (m seq : Nat) : Via w (w.startWork m seq) :=
  Via_startWork w m seq
theorem env_refines_finishWork (w : World) (m seq : Nat) : Via w (w.finishWork m seq) :=
  Via_finishWork w m seq
theorem env_refines_periodicSense (w : World) (s : Nat) : Via w (w.periodicSense s) :=
  Via_periodicSense w s
theorem env_refines_simulateInit (w : World) : Via w w.simulateInit := Via_simulateInit w

/-- **`env_refines`** for the action of any event, spelled out: it keeps the invariant and acts
on the event queue as a list of library operations — no `step`, no `runBegin`, no scheduling of
the terminate action or at/below the `TERMINATE` priority, no pause/unpause/cancel of the
environment's internal asset id. -/
theorem env_refines (w : World) (a : Action) (g : Good w) :
    Good (w.exec a) ∧ ∃ ops : List EnvOp, (∀ op ∈ ops, LibOp op) ∧
      (w.exec a).env = (w.env.applyAll Arith.exact ops).1 := Via_exec w a g

theorem env_refines_exec (w : World) (a : Action) : Via w (w.exec a) := Via_exec w a

/-! ### 2. `step`, `runBegin` -/

/-- **A world step is the environment's `.step` followed by library operations.** -/
theorem step_refines {w w' : World} {e : Event} (g : Good w) (h : w.step = some (e, w')) :
    ∃ env1, w.env.step = some (e, env1) ∧ Via { w with env := env1 } w' ∧ Good w' ∧
      ∃ ops : List EnvOp, (∀ op ∈ ops, LibOp op) ∧
        w'.env = (w.env.applyAll Arith.exact (.step :: ops)).1 := by
  obtain ⟨env1, hs1, hv, _, _⟩ := step_via h
  obtain ⟨g', l, hl, he⟩ := hv (g.with_env _)
  refine ⟨env1, hs1, hv, g', l, hl, ?_⟩
  rw [applyAll_cons_fst, apply_step_some _ hs1]
  exact he

/-- `World.step` fails exactly when the environment's `step` does (empty queue). -/
theorem step_none_iff (w : World) : w.step = none ↔ w.env.step = none := by
  unfold World.step
  split
  · rename_i h; simp [h]
  · rename_i h; simp [h]

/-- `World.runBegin` is exactly the environment's `.runBegin` operation (accepted or rejected);
it keeps the invariant. -/
theorem runBegin_refines (w : World) (d : Int) :
    (w.runBegin d).1.env = (w.env.apply Arith.exact (.runBegin d
        (weightOf w.seed w.wmod (w.env.now + d) (-1) terminateAct pTerminate))).1 ∧
    (Good w → Good (w.runBegin d).1) :=
  ⟨(runBegin_env w d).1, runBegin_good w d⟩

/-! ### 3. every reachable world -/

/-- The invariant holds in every reachable world. -/
theorem good_reachable {w : World} {h : List Event} (hr : Reach w h) : Good w := hr.hist.good

/-- The environment of a reachable world is the empty environment after a list of environment
operations, whose popped events are exactly the history of the world. -/
theorem env_reachable {w : World} {h : List Event} (hr : Reach w h) :
    ∃ ops : List EnvOp, w.env = (({} : Env).applyAll Arith.exact ops).1 ∧
      popped (({} : Env).applyAll Arith.exact ops).2 = h := hr.hist.ops

/-- **The queue invariants of C01 and C07 hold in every reachable world**: the queue is sorted by
the dispatch order, no pending event lies in the past, uids are unique and below the counter;
every paused event carries the time it was paused at (not after its due time, not after now). -/
theorem envInv_reachable {w : World} {h : List Event} (hr : Reach w h) :
    C01.Inv w.env ∧ C07.PInv w.env := ⟨hr.hist.inv, hr.hist.pinv⟩

/-- **Dispatch order in the closed world**: the event executed by `World.step` is a minimum of the
queue — no pending event has an earlier time, nor the same time and a higher priority (nor then a
lower weight, nor then a lower asset id: `e'.lt e = false`). -/
theorem dispatch_order_world {w w' : World} {h : List Event} {e : Event} (hr : Reach w h)
    (hs : w.step = some (e, w')) :
    e ∈ w.env.events ∧ ∀ e' ∈ w.env.events,
      e'.lt e = false ∧ e.time ≤ e'.time ∧ (e'.time = e.time → e'.prio ≤ e.prio) := by
  obtain ⟨env1, hs1, _⟩ := step_via hs
  have hi := hr.hist.inv
  refine ⟨(C01.step_min hi hs1).1, fun e' he' => ⟨(C01.step_min hi hs1).2 e' he',
    C01.step_min_time hi hs1 e' he', C01.step_max_prio hi hs1 e' he'⟩⟩

/-- **Clock**: a step sets `now` to the time of the event just executed and never decreases it
(the event's action does not touch the clock); `runLoop` never decreases it; over the whole
history events were executed in nondecreasing time order, none later than `now`. -/
theorem clock_monotone_world {w : World} {h : List Event} (hr : Reach w h) :
    (∀ e w', w.step = some (e, w') → w'.now = e.time ∧ w.now ≤ w'.now) ∧
    (∀ n, w.now ≤ (runLoop n w).now) ∧
    h.Pairwise (fun a b => a.time ≤ b.time) ∧ (∀ e ∈ h, e.time ≤ w.now) :=
  ⟨fun _ _ hs => step_now hr.hist.inv hr.hist.good hs, fun n => runLoop_now hr.hist n,
    hr.hist.sorted, hr.hist.past⟩

/-- Along a run the clock is monotone and the events are popped in nondecreasing time order. -/
theorem clock_monotone_runLoop {w : World} {h : List Event} (hr : Reach w h) (n : Nat) :
    (runEvents n w).Pairwise (fun a b => a.time ≤ b.time) ∧
    (∀ e ∈ runEvents n w, w.now ≤ e.time ∧ e.time ≤ (runLoop n w).now) := by
  have hh := (hr.runLoop n).hist
  have hs := List.pairwise_append.1 hh.sorted
  refine ⟨hs.2.1, fun e he => ⟨?_, hh.past e (List.mem_append_right _ he)⟩⟩
  -- every event of the run was pending in a state reached from `w`
  clear hs hh
  induction n generalizing w h with
  | zero => simp [runEvents] at he
  | succ n ih =>
    rw [runEvents] at he
    split at he
    · split at he
      · cases he
      · rename_i e0 w' hst
        have hn := step_now hr.hist.inv hr.hist.good hst
        rcases List.mem_cons.1 he with rfl | he
        · omega
        · have := ih (hr.step hst) he; omega
    · cases he

/-- **No event is executed twice**: the uids of the events popped over the whole history are
pairwise distinct (uids identify `Event` objects); in particular along `runLoop`. -/
theorem executed_once_world {w : World} {h : List Event} (hr : Reach w h) :
    (h.map Event.uid).Nodup ∧ ∀ n, ((h ++ runEvents n w).map Event.uid).Nodup :=
  ⟨hr.hist.nodup, fun n => (hr.runLoop n).hist.nodup⟩

/-- **`run(d)`** in the closed world.  From a reachable world in which all earlier runs were
carried through (`ReachI`), `runBegin d` followed by `runLoop n`:

* executes no event due later than `t0 + d`;
* if the loop stopped because the run was terminated: ends with `now = t0 + d` and leaves no
  event (live or cancelled) due at or before `t0 + d` in the queue;
* otherwise (not terminated) the loop cannot have stopped by itself — the fuel ran out
  (`error` is set) — and `now ≤ t0 + d`. -/
theorem run_ends_world {w0 w1 : World} {h : List Event} {d : Int} (hr : ReachI w0 h)
    (hb : w0.runBegin d = (w1, .ok)) (n : Nat) :
    (∀ e ∈ runEvents n w1, e.time ≤ w0.now + d) ∧
    ((runLoop n w1).env.terminated = true →
      (runLoop n w1).now = w0.now + d ∧ ∀ e ∈ (runLoop n w1).env.events, w0.now + d < e.time) ∧
    ((runLoop n w1).env.terminated = false →
      (runLoop n w1).now ≤ w0.now + d ∧ (runLoop n w1).error.isSome = true) := by
  have hsp := hr.spec
  have := run_world hsp.1.hist.good hsp.1.hist.inv hsp.2 hb n
  exact ⟨this.2.2.1, this.2.2.2.1, this.2.2.2.2⟩

/-- The same in the formulation of `C01.run_spec`: the run loop is a `C01.Guarded` list of
environment operations (library operations are `UserOp`s, steps are taken only while the run is not
terminated), so `C01.run_spec` applies verbatim. -/
theorem run_spec_world {w0 w1 : World} {h : List Event} {d : Int} (hr : ReachI w0 h)
    (hb : w0.runBegin d = (w1, .ok)) (n : Nat) :
    ∃ ops : List EnvOp, C01.Guarded Arith.exact w1.env ops ∧
      (runLoop n w1).env = (w1.env.applyAll Arith.exact ops).1 ∧
      popped (w1.env.applyAll Arith.exact ops).2 = runEvents n w1 ∧
      ((runLoop n w1).env.terminated = false →
        (runLoop n w1).env.running = true ∧ (runLoop n w1).now ≤ w0.now + d) ∧
      ((runLoop n w1).env.terminated = true → (runLoop n w1).now = w0.now + d) := by
  have hsp := hr.spec
  obtain ⟨wt, hb1, hek⟩ := runBegin_ok hb
  have g1 : Good w1 := by
    have := runBegin_good w0 d hsp.1.hist.good
    rwa [hb] at this
  obtain ⟨ops, hg, he, hp, _⟩ := runLoop_guarded n w1 g1
  have := C01.run_spec Arith.exact hsp.1.hist.inv hsp.2 hb1 ops hg
  refine ⟨ops, hg, he, hp, ?_, ?_⟩
  · intro ht
    rw [he] at ht
    have h1 := this.1 ht
    refine ⟨by rw [he]; exact h1.1, ?_⟩
    show (runLoop n w1).env.now ≤ _
    rw [he]; exact h1.2
  · intro ht
    rw [he] at ht
    show (runLoop n w1).env.now = _
    rw [he]; exact this.2 ht

/-- `runBegin d` succeeds exactly for non-negative durations. -/
theorem runBegin_ok_iff (w : World) (d : Int) : (w.runBegin d).2 = .ok ↔ 0 ≤ d := by
  unfold World.runBegin Env.runBegin Env.schedule
  dsimp only
  split
  · rename_i h
    split at h
    · rename_i hlt; simp only [Arith.exact] at hlt; constructor
      · intro h'; cases h'
      · intro h'; omega
    · cases h
  · rename_i e h
    split at h
    · cases h
    · rename_i hge; simp only [Arith.exact] at hge; constructor
      · intro _; omega
      · intro _; rfl

/-- Worlds reached with completed runs only are reachable, and carry no stale terminate event:
`run_ends_world` applies again (to the next run). -/
theorem reachI_reach {w : World} {h : List Event} (hr : ReachI w h) :
    Reach w h ∧ C01.UserState w.env := hr.spec

/-- **A cancelled event is never executed**: a step that pops an event whose `cancelled` flag is
set changes nothing but the queue and the clock. -/
theorem cancelled_never_runs_world {w w' : World} {e : Event} (hs : w.step = some (e, w'))
    (hc : e.cancelled = true) :
    ∃ env1, w.env.step = some (e, env1) ∧ w' = { w with env := env1 } := by
  obtain ⟨env1, hs1, _, hdead, _⟩ := step_via hs
  exact ⟨env1, hs1, hdead (by simp [Event.live, hc])⟩

/-- What a step does, exactly: pop (the environment's `step`), then run the event's action unless
the event is cancelled. -/
theorem step_exec_world {w w' : World} {e : Event} (hs : w.step = some (e, w')) :
    ∃ env1, w.env.step = some (e, env1) ∧
      w' = if e.cancelled then { w with env := env1 }
           else ({ w with env := env1 } : World).exec (Action.ofNat e.act) := by
  obtain ⟨env1, hs1, _, hdead, hlive⟩ := step_via hs
  refine ⟨env1, hs1, ?_⟩
  cases hc : e.cancelled with
  | true => simpa using hdead (by simp [Event.live, hc])
  | false => simpa using hlive (by simp [Event.live, hc])

/-- **Once cancelled, always cancelled** (C07 in the closed world): neither a world step nor any
library call (`Via`) clears the `cancelled` flag of an event that is still pending or paused. -/
theorem cancelled_stays_world {w : World} {h : List Event} (hr : Reach w h) :
    (∀ e w', w.step = some (e, w') → ∀ e' ∈ w'.env.events ++ w'.env.paused,
      e'.uid ∈ C07.cancelledUids w.env → e'.cancelled = true) ∧
    (∀ w', Via w w' → ∀ e' ∈ w'.env.events ++ w'.env.paused,
      e'.uid ∈ C07.cancelledUids w.env → e'.cancelled = true) := by
  have hi := hr.hist.inv
  have g := hr.hist.good
  constructor
  · intro e w' hs e' he' hu
    obtain ⟨_, _, _, _, ops, _, he⟩ := step_refines g hs
    rw [he] at he'
    exact cancelled_stays_applyAll _ _ hi e' he' hu
  · intro w' hv
    exact (hv g).2.cancelled_stays hi

/-- The remaining delay of a resumed event is preserved in every reachable world (C07's
`remaining_delay_preserved`, whose hypothesis `PInv` holds by `envInv_reachable`). -/
theorem remaining_delay_world {w : World} {h : List Event} (hr : Reach w h) (a : Int) :
    ∀ e ∈ w.env.paused, e.asset = a → ∃ p, e.pausedAt = some p ∧
      ∃ e' ∈ (w.envOp (.unpause a)).env.events,
        e'.uid = e.uid ∧ e'.act = e.act ∧ e'.asset = e.asset ∧ e'.prio = e.prio ∧
        e'.cancelled = e.cancelled ∧ e'.time - w.now = e.time - p :=
  C07.remaining_delay_preserved w.env a hr.hist.pinv

/-! ### non-vacuity -/

/-- A script that schedules a failure of the machine (device 1) one time unit later, and pauses
an unrelated asset. -/
def ex0 : World := { scripts := [[Op.schedFailRel 1 1, Op.pause 3]] }

/-- source → processor → sink, built by the constructors; script 0 is scheduled for time 4 with
priority `OTHER_LOW`. -/
def ex1 : World :=
  ((((ex0.addAsset (.dev { kind := .source, cycle := 2 })).addAsset
    (.dev { kind := .processor, up := [0], cycle := 3 })).addAsset
    (.dev { kind := .sink, up := [1] })).applyOp (.sched 4 100 0 8)).1

/-- `System.simulate(12)`: initialise, begin the run. -/
def ex2 : World := (ex1.simulateInit.runBegin 12).1

def stepN : Nat → World → World
  | 0, w => w
  | k + 1, w => match w.step with
    | none => w
    | some (_, w') => stepN k w'

theorem reach_stepN {w : World} {h : List Event} (hr : Reach w h) (k : Nat) :
    ∃ h', Reach (stepN k w) h' := by
  induction k generalizing w h with
  | zero => exact ⟨h, hr⟩
  | succ k ih =>
    rw [stepN]
    split
    · exact ⟨h, hr⟩
    · rename_i e w' hs; exact ih (hr.step hs)

-- the hypotheses are satisfiable: the scripts are user scripts, the initial world is `Good`
example : ScriptsUser ex0 ∧ Good ex0 ∧ ex0.env.events = [] := by decide
example : opUser (.sched 4 100 0 8) = true := by decide
-- a script that pauses the internal asset id or schedules at the TERMINATE priority is rejected
example : ¬ ScriptsUser { scripts := [[Op.pause (-1)]] } ∧
    ¬ ScriptsUser { scripts := [[Op.sched 3 1 0 4]] } := by decide

theorem reachI_ex1 : ReachI ex1 [] :=
  ReachI.applyOp _ (ReachI.addAsset _ (ReachI.addAsset _ (ReachI.addAsset _
    (ReachI.init ex0 rfl (by decide))))) (by decide)

theorem reach_ex2 : Reach ex2 [] := (reachI_ex1.spec.1.simulateInit).runBegin 12

-- the constructors assign asset ids 1, 2, 3 and wire the line
example : ex1.devs.map (·.aid) = [1, 2, 3] ∧ ex1.devs.map (·.down) = [[1], [2], []] := by decide

/-- All fields of an environment (`Env` has no decidable equality of its own). -/
def envKey (s : Env) : Int × List Event × List Event × Bool × Nat :=
  (s.now, s.events, s.paused, s.terminated, s.nextUid)

-- `finishCycle` of the source is ONE library operation (a `.sched` of the pass event) …
example : envKey (ex2.finishCycle 0).env =
    envKey (ex2.env.applyAll Arith.exact [.sched 0 1 (Action.passPart 0).toNat pPassPart 0]).1 := by
  decide
-- … and a failure of the running machine is a `.cancel` of its asset id
example : envKey ((stepN 8 ex2).failDev 1).env =
    envKey ((stepN 8 ex2).env.applyAll Arith.exact [.cancel 2]).1 := by decide

-- the queue after two steps: two events due at time 4 with priorities FINISH (32) and
-- OTHER_LOW (8), the machine's finish at 5, the terminate event at 12
example : (stepN 2 ex2).env.events.map (fun e => (e.uid, e.time, e.prio)) =
    [(5, 4, 32), (0, 4, 8), (4, 5, 32), (2, 12, 4)] := by decide

/-- `dispatch_order_world` instantiated: the step taken in that state pops uid 5 (time 4,
priority 32) and not uid 0 (same time, lower priority). -/
example : ∃ e w', (stepN 2 ex2).step = some (e, w') ∧ e.uid = 5 ∧
    e ∈ (stepN 2 ex2).env.events ∧
    ∀ e' ∈ (stepN 2 ex2).env.events, e.time ≤ e'.time ∧ (e'.time = e.time → e'.prio ≤ e.prio) := by
  obtain ⟨h', hr⟩ := reach_stepN reach_ex2 2
  have hu : (stepN 2 ex2).step.map (·.1.uid) = some 5 := by decide
  cases hs : (stepN 2 ex2).step with
  | none => rw [hs] at hu; cases hu
  | some q =>
    obtain ⟨e, w'⟩ := q
    rw [hs] at hu
    have := dispatch_order_world hr hs
    exact ⟨e, w', rfl, by simpa using hu, this.1, fun e' he' => (this.2 e' he').2⟩

-- the whole run: 13 events popped, in nondecreasing time order, pairwise distinct uids; the
-- scripted failure (uid 7, at 5) cancels the machine's finish event (uid 10), which is popped
-- at 8 but not executed; the run ends at 12 = 0 + 12 with an empty queue and no error
example : (runEvents 100 ex2).map (fun e => (e.uid, e.time, e.cancelled)) =
    [(1, 2, false), (3, 2, false), (5, 4, false), (6, 4, false), (0, 4, false), (4, 5, false),
     (8, 5, false), (9, 5, false), (7, 5, false), (11, 7, false), (12, 7, false), (10, 8, true),
     (2, 12, false)] := by decide

example : (ex1.simulateInit.runBegin 12).2 = .ok ∧ (runLoop 100 ex2).env.terminated = true ∧
    (runLoop 100 ex2).now = 12 ∧ (runLoop 100 ex2).env.events = [] ∧
    (runLoop 100 ex2).error = none := by decide

theorem runBegin_ex2 : ex1.simulateInit.runBegin 12 = (ex2, .ok) :=
  Prod.ext rfl (by decide)

/-- `run_ends_world` instantiated on the example. -/
example : (∀ e ∈ runEvents 100 ex2, e.time ≤ 12) ∧ (runLoop 100 ex2).now = 12 := by
  have h := run_ends_world (reachI_ex1.simulateInit) runBegin_ex2 100
  have hn : ex1.simulateInit.now = 0 := by decide
  rw [hn] at h
  exact ⟨by simpa using h.1, by simpa using (h.2.1 (by decide)).1⟩

-- the completed run is a `ReachI` state again: the next `run` starts without stale terminate events
example : ∃ h, ReachI (runLoop 100 ex2) h ∧ C01.UserState (runLoop 100 ex2).env :=
  have hr := ReachI.run 12 100 reachI_ex1.simulateInit runBegin_ex2 (by decide)
  ⟨_, hr, hr.spec.2⟩

-- with too little fuel the loop stops early and says so
example : (runLoop 5 ex2).env.terminated = false ∧ (runLoop 5 ex2).error = some "fuel" := by decide

-- a cancelled event is popped and skipped: only the queue and the clock change
example : ((stepN 11 ex2).env.events.map (fun e => (e.uid, e.cancelled))) = [(10, true), (2, false)] ∧
    (stepN 12 ex2).recs = (stepN 11 ex2).recs ∧ (stepN 12 ex2).now = 8 ∧
    C07.cancelledUids (stepN 11 ex2).env = [10] := by decide

-- `runBegin` with a negative duration is rejected and changes nothing
example : (ex1.runBegin (-1)).2 = .err .value ∧ (ex1.runBegin (-1)).1.env.events = ex1.env.events := by
  decide

end C01W
end SimProc
