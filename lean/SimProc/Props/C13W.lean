/-
C13W — SHUTDOWN, FAILURE AND RESTORE in the closed world.

"Shutdown, failure and restore: machine state, lost parts, uptime accounting: a processor that is
shut down (maintenance) or failed accepts nothing and releases nothing; a maintenance shutdown keeps
the part in process (its timer is paused and resumes at restore), a failure discards exactly the part
in process (its timer is cancelled), keeps an already finished part (which leaves after
restoration), reports the lost part once to the shutdown callbacks and in the failure record;
repeated shutdown / restore are no-ops; a default work order keeps its target shut down for exactly
the order's duration; at every instant uptime equals the total time the processor was operational
and utilisation the total time it spent processing parts."

`Props/C13.lean` proves the one-call theorems.  Here: theorems about EVERY STEP of the event loop
from a state satisfying the closed-world invariant `C06W.WI` and about whole runs (`C06T.wAt w k`, the
`k`-th world of the run from `w`).  `WI` holds in every world reachable from a fresh, statically
well-formed world (`C06W.Static'`, `C06W.Init`: `C06W.timer_reachable`, `C06T.wi_trace_reachable`) —
whatever the topology, the parameters, the scripts of the class and the tie-break weights; the
`*_reachable` forms are at the end.  Item 5 needs in addition the maintainer invariant `C12W.Inv`
(class `C12W.S`, `C12W.Fresh`: `C12W.inv_of_fresh`).

Machinery (`Proofs/C13W*.lean`): the MACHINE VIEW `pvw x w` of a device (slots, reservation, shutdown
flag, the four accounting fields, clock, ghost log of lost parts, failure records); every function
of the model that does not act on `x` itself leaves it alone; the action of every event is a
sequence of MACHINE MOVES of `x` — frames, FLOW moves (accept / acquire resources / output slot
emptied: hand-over events only), CONTROL moves (maintenance shutdown / restore: scripts, the resource
check, maintainer events only) — or is the failure, the finish event or the release event of a
device (`StepK`).

1. `down_is_inert` (+ `down_pending_false`: two sub-claims of the sketch are false in the class).
2. `shutdown_keeps_part`, `failure_discards_exactly`, `lost_only_by_failure`.
3. `finished_part_survives_step`, `finished_part_survives`, `finished_part_leaves`.
4. `repeated_ops_noop`.
5. `work_order_downtime_exact` (+ `work_order_downtime_ge_false`).
6. `uptime_exact`, `utilization_exact`.
-/
import SimProc.Proofs.C13WOrder
import SimProc.Props.C03W

namespace SimProc
namespace C13W
open World FloorCoreL C06W C06T

variable {x : Nat}

/-! ### 1. a machine that is down is inert -/

/-- **A down machine receives nothing, releases nothing, and its accounts stand still.**  In every
state of the closed-world invariant, across ANY step of the event loop in which processor `x` is shut
down before and after (maintenance or failure; also if the step restores it and shuts it down
again):

* `Inert`: its output slot, `uptime`, `_last_restore = None`, `utilization_time`,
  `_last_use_start = None` are unchanged; its input slot is unchanged unless the step is the live
  FAILURE event of `x` (then it is emptied); its reservation is unchanged unless the step is the live
  failure of `x` or a live release event of `x` (then it is given back) — see `down_pending_false`
  for why the last exception cannot be dropped in the class `Static' ∧ Init`;
* it refuses every part (`_can_accept_part` is false, `give_part` changes nothing) and its
  pass-part handler changes nothing;
* no live finish event of `x` is pending: the timer of a part in process is PAUSED (exactly one
  paused live finish event), and there is none if nothing is in process. -/
theorem down_is_inert {w w' : World} {e : Event} (h : WI w) (hk : (w.dev x).kind = .processor)
    (hst : w.step = some (e, w')) (hd : (w.dev x).shutDown = true)
    (hd' : (w'.dev x).shutDown = true) :
    Inert x w e w' ∧
    (∀ p, w.canAcceptBasic x p = false ∧ w.givePart x p = (w, false)) ∧
    w.passPart x = w ∧ w.passHandler x = w ∧
    finE w.env x = [] ∧
    (∀ p, (w.dev x).part = some p → ∃ e0, finP w.env x = [e0] ∧ e0.cancelled = false) ∧
    ((w.dev x).part = none → finP w.env x = []) := by
  have hT : isT (w.dev x).kind = true := by rw [hk]; rfl
  have hop : w.operational x = false := by simp [World.operational, hk, hd]
  obtain ⟨t1, t2⟩ := timer_spec h x hT
  refine ⟨inert_step h hk hst hd hd', fun p => ⟨(C13.down_refuses w p hk hd).1,
    (C13.down_refuses w p hk hd).2.2.1⟩, (C13.down_releases_nothing w hk hd).1,
    (C13.down_releases_nothing w hk hd).2.1, ?_, ?_, fun hp => (t2 hp).2⟩
  · cases hp : (w.dev x).part with
    | none => exact (t2 hp).1
    | some p =>
      obtain ⟨e0, hE, _⟩ := (t1 p hp).2.2 hop
      exact hE
  · intro p hp
    obtain ⟨e0, _, hP, _, hc, _⟩ := (t1 p hp).2.2 hop
    exact ⟨e0, hP, hc⟩

/-! ### 2. maintenance keeps the part in process, a failure discards exactly it -/

/-- step `k → k+1` of the run is the live failure event of `x` -/
def failsAt (w : World) (x k : Nat) : Bool :=
  match (wAt w k).step with
  | some (e, _) => e.live && decide (Action.ofNat e.act = .fail x)
  | none => false

/-- **A maintenance shutdown keeps the part in process and its remaining work.**  Run-level: if in
`w_a` processor `x` has part `p` in process with timer `(u, r)` (`C06W.rem`: uid of the finish event,
remaining work), and `x` is shut down in every world `w_a, …, w_{b−1}` and does not fail in any of
these steps, then in `w_b` — whether `x` is still down or has just been restored — the part in process
is still `p` and its timer is still `(u, r)`: same event, same remaining work (`C06W.remaining_rate`:
nothing is taken from the remaining work while the machine is down); if `x` is operational in `w_b`
(the restore step), the finish event is pending again and due exactly at `now + r`. -/
theorem shutdown_keeps_part {w : World} (h : WI w) (hk : (w.dev x).kind = .processor)
    {a b u p : Nat} {r : Int} (hab : a ≤ b) (hp : ((wAt w a).dev x).part = some p)
    (hr : rem (wAt w a).env x = [(u, r)])
    (hdown : ∀ k, a ≤ k → k < b → ((wAt w k).dev x).shutDown = true)
    (hnf : ∀ k, a ≤ k → k < b → failsAt w x k = false) :
    ((wAt w b).dev x).part = some p ∧ rem (wAt w b).env x = [(u, r)] ∧
    ((wAt w b).operational x = true →
      ∃ e0, finE (wAt w b).env x = [e0] ∧ finP (wAt w b).env x = [] ∧ e0.uid = u ∧
        e0.time = (wAt w b).now + r) := by
  have main : ∀ d, a + d ≤ b →
      ((wAt w (a + d)).dev x).part = some p ∧ rem (wAt w (a + d)).env x = [(u, r)] := by
    intro d
    induction d with
    | zero => intro _; exact ⟨hp, hr⟩
    | succ d ih =>
      intro hd
      obtain ⟨ip, ir⟩ := ih (by omega)
      have hwk := wi_wAt h (a + d)
      have hkk : ((wAt w (a + d)).dev x).kind = .processor := by rw [kind_wAt h]; exact hk
      have hks : ((wAt w (a + d)).dev x).kind ≠ .source := by rw [hkk]; decide
      have hsd := hdown (a + d) (by omega) (by omega)
      have hopf : (wAt w (a + d)).operational x = false := by simp [World.operational, hkk, hsd]
      cases hs : (wAt w (a + d)).step with
      | none => rw [show a + (d + 1) = (a + d) + 1 by omega, wAt_succ_none hs]; exact ⟨ip, ir⟩
      | some q =>
        have hst := step_wAt (e := q.1) (w' := q.2) hs
        have hm : (u, r) ∈ rem (wAt w (a + d)).env x := by rw [ir]; exact List.mem_singleton.mpr rfl
        have hfin : ¬ (q.1.live = true ∧ q.1.act = finAct x) := by
          rintro ⟨h1, h2⟩
          obtain ⟨env', henv, _⟩ := step_kind hwk hst
          have := (finish_at_zero hwk henv h1 h2 hks).2.1
          rw [hopf] at this; cases this
        have hfail : ¬ (q.1.live = true ∧ Action.ofNat q.1.act = .fail x) := by
          rintro ⟨h1, h2⟩
          have := hnf (a + d) (by omega) (by omega)
          unfold failsAt at this
          rw [hs] at this
          simp [h1, h2] at this
        obtain ⟨s1, s2⟩ := timer_survives hwk hst hks hm hfin hfail
        rw [hopf] at s1
        simp only [Bool.false_eq_true, if_false, Int.sub_zero] at s1
        rw [show a + (d + 1) = (a + d) + 1 by omega]
        exact ⟨s2.trans ip, s1⟩
  have hb := main (b - a) (by omega)
  rw [show a + (b - a) = b by omega] at hb
  refine ⟨hb.1, hb.2, ?_⟩
  intro hop
  have hT : isT ((wAt w b).dev x).kind = true := by rw [kind_wAt h, hk]; rfl
  obtain ⟨e0, hE, hP, _, _, _, _, _⟩ := ((timer_spec (wi_wAt h b) x hT).1 p hb.1).2.1 hop
  have hre : rem (wAt w b).env x = [(e0.uid, e0.time - (wAt w b).now)] := by
    unfold rem; rw [hE, hP]; rfl
  rw [hb.2] at hre
  simp only [List.cons.injEq, Prod.mk.injEq, and_true] at hre
  refine ⟨e0, hE, hP, hre.1.symm, ?_⟩
  have := hre.2
  show e0.time = (wAt w b).env.now + r
  have hnn : (wAt w b).now = (wAt w b).env.now := rfl
  omega

theorem filter_releaseRecs (w : World) (x : Nat) : (w.releaseRecs x).filter isFailRec = [] := by
  apply List.filter_eq_nil_iff.2
  intro r hr
  obtain ⟨a, t, u, c, rfl⟩ := C13.releaseRecs_resUpdate w x r hr
  simp [isFailRec]

/-- **A failure discards exactly the part in process, and reports it exactly once.**  The step that
executes the live failure event of `x` (in any state of the invariant: `x` operational, or already
down for maintenance — repair of F6 —, or already failed) is `_fail()` of the processor `x` at the
time of the event, and:

* the input slot is emptied, the OUTPUT slot (an already finished part) is untouched, the machine is
  down afterwards, the table of parts is untouched, no other device changes;
* the ghost log `lost` grows by exactly the leaves of the part in process — by nothing if there was
  none —, once;
* among the failure records of the data log exactly ONE is appended: `device_failure` of `x`, stamped
  with the time of the event, naming the lost part;
* each of the `nShutCbs` shutdown callbacks gets exactly one result `.shut x k true lost`, in
  registration order — unless the machine was already down with an empty input slot (then none is
  called);
* no timer of `x` is left (the finish event is cancelled: `C06T.Failed`, `C06.fail_cancels_all`). -/
theorem failure_discards_exactly {w w' : World} {e : Event} (h : WI w)
    (hst : w.step = some (e, w')) (hl : e.live = true) (ha : Action.ofNat e.act = .fail x) :
    (w.dev x).kind = .processor ∧
    (w'.dev x).part = none ∧ (w'.dev x).output = (w.dev x).output ∧ (w'.dev x).shutDown = true ∧
    w'.parts = w.parts ∧ (∀ y, y ≠ x → w'.dev y = w.dev y) ∧
    w'.lost = w.lost ++ (match (w.dev x).part with
      | some p => w.leavesOf p
      | none => []) ∧
    w'.recs.filter isFailRec = w.recs.filter isFailRec ++ [Rec.failure x e.time (w.dev x).part] ∧
    w'.results = w.results ++
      (if (w.dev x).shutDown = false ∨ (w.dev x).part.isSome = true
       then (List.range (w.dev x).nShutCbs).map (fun k => Res.shut x k true (w.dev x).part)
       else []) ∧
    rem w'.env x = [] := by
  have hf := failed_of_step h hst hl ha
  obtain ⟨env', henv, hw⟩ := hf.eq
  have hx : x < ({ w with env := env' } : World).devs.length := lt_of_processor hf.kind
  obtain ⟨g1, g2, g3, g4, g5, g6, g7⟩ := C13.fail_drops_input_only ({ w with env := env' } : World) hx
  have hn : ({ w with env := env' } : World).now = e.time := (fin_step henv 0).2.2.1
  subst hw
  refine ⟨hf.kind, g1, g2, g3, g6, g7, g4, ?_, C13.fail_reports_once _ hx, hf.rem⟩
  rw [g5, hn]
  simp only [List.filter_append, filter_releaseRecs, List.append_nil]
  rfl

/-- **… and nothing else ever does**: a step that is not a live failure event changes neither the
ghost log of lost parts nor the failure records of the data log (so a lost part is logged exactly
once, by the failure step that discards it). -/
theorem lost_only_by_failure {w w' : World} {e : Event} (h : WI w)
    (hk : (w.dev x).kind = .processor) (hst : w.step = some (e, w'))
    (hnf : ¬ (e.live = true ∧ ∃ y, Action.ofNat e.act = .fail y)) :
    w'.lost = w.lost ∧ w'.recs.filter isFailRec = w.recs.filter isFailRec :=
  logs_step h hk hst hnf

/-! ### 3. a finished part survives and leaves after the restoration -/

/-- **One step**: a part `q` in the output slot of processor `x` is still there after ANY step —
maintenance shutdown, failure, restoration, scripts, other machines' events — except a hand-over: a
live pass-part event of `x` itself, executed while `x` is operational. -/
theorem finished_part_survives_step {w w' : World} {e : Event} (h : WI w)
    (hk : (w.dev x).kind = .processor) (hst : w.step = some (e, w')) {q : Nat}
    (ho : (w.dev x).output = some q) :
    (w'.dev x).output = some q ∨
      (e.live = true ∧ Action.ofNat e.act = .passPart x ∧ w.operational x = true) :=
  output_step h hk hst ho

/-- step `k → k+1` of the run is a hand-over attempt of `x`: its live pass-part event, executed
while `x` is operational -/
def handoverAt (w : World) (x k : Nat) : Bool :=
  match (wAt w k).step with
  | some (e, _) => e.live && decide (Action.ofNat e.act = .passPart x) && (wAt w k).operational x
  | none => false

/-- **Along the run**: a part in the output slot of `x` in `w_a` stays there — through shutdowns,
failures and restorations — up to the first hand-over attempt of `x`. -/
theorem finished_part_survives {w : World} (h : WI w) (hk : (w.dev x).kind = .processor)
    {a b q : Nat} (hab : a ≤ b) (ho : ((wAt w a).dev x).output = some q)
    (hno : ∀ k, a ≤ k → k < b → handoverAt w x k = false) :
    ((wAt w b).dev x).output = some q := by
  have main : ∀ d, a + d ≤ b → ((wAt w (a + d)).dev x).output = some q := by
    intro d
    induction d with
    | zero => intro _; exact ho
    | succ d ih =>
      intro hd
      have io := ih (by omega)
      have hkk : ((wAt w (a + d)).dev x).kind = .processor := by rw [kind_wAt h]; exact hk
      rw [show a + (d + 1) = (a + d) + 1 by omega]
      cases hs : (wAt w (a + d)).step with
      | none => rw [wAt_succ_none hs]; exact io
      | some p =>
        have hst := step_wAt (e := p.1) (w' := p.2) hs
        rcases output_step (wi_wAt h (a + d)) hkk hst io with h1 | ⟨h1, h2, h3⟩
        · exact h1
        · have := hno (a + d) (by omega) (by omega)
          unfold handoverAt at this
          rw [hs] at this
          simp [h1, h2, h3] at this
  have := main (b - a) (by omega)
  rwa [show a + (b - a) = b by omega] at this

/-- **… and leaves after the restoration**: in every state of the wake-up invariant of C03W
(`C03W.GoodB`: every state reachable in the scope of C03W, `C03W.wakeC_reachable`), an OPERATIONAL
processor with a finished part `q` in its output slot — in particular right after its restoration —
has a live pass-part event queued for the present instant, or is flagged as waiting and none of its
downstream neighbours would accept `q` (and then it is woken as soon as one would:
`C03W.no_lost_wakeup*`). -/
theorem finished_part_leaves {w : World} (hg : C03W.GoodB w) {q : Nat}
    (hk : (w.dev x).kind = .processor) (hop : (w.dev x).shutDown = false)
    (ho : (w.dev x).output = some q) :
    (∃ e ∈ w.env.events, e.act = (Action.passPart x).toNat ∧ e.asset = (w.dev x).aid ∧
      e.cancelled = false ∧ e.time = w.now) ∨
    C03W.Blocked w [] [] x q := by
  have hh : C03W.holdsD (w.dev x) = some q := by simp [C03W.holdsD, hk, hop, ho]
  rcases hg.g.wake x q hh (by simp) with ha | hb
  · left
    refine C03W.att_ready_now hg.g.inv ⟨hh, ?_⟩ ha
    simp [C03W.expiredD, hk]
  · exact Or.inr hb

/-! ### 4. repeated shutdown / restore are no-ops -/

/-- **Repeated operations change nothing.**  For a processor `x` in any world: the scripted
`shutdown` of a machine that is down (for maintenance or failed) and the scripted `restore` of an
operational machine return the world unchanged; the maintenance hook of a work order on a machine
that is already down only logs the hook (the machine stays as it is: nothing is paused again, no
callback runs), likewise the end hook on an operational machine; and a failure of a machine that is
down with an empty input slot calls no shutdown callback. -/
theorem repeated_ops_noop (w : World) (hk : (w.dev x).kind = .processor) :
    ((w.dev x).shutDown = true →
      w.applyOp (.shutdown x) = (w, .ok) ∧ w.shutdownDev x false none = w ∧
      (∀ tgt tag, (w.targets.getD tgt default).dev = some x →
        w.hookStart tgt tag = w.addRes (.hook true tgt tag)) ∧
      ((w.dev x).part = none → (w.failDev x).results = w.results)) ∧
    ((w.dev x).shutDown = false →
      w.applyOp (.restore x) = (w, .ok) ∧ w.restoreDev x = w ∧
      (∀ tgt tag, (w.targets.getD tgt default).dev = some x →
        w.hookEnd tgt tag = w.addRes (.hook false tgt tag))) := by
  have hx := lt_of_processor hk
  constructor
  · intro hs
    have h1 := C13.shutdown_down_noop w x false none hs (Or.inl rfl)
    refine ⟨?_, h1, ?_, ?_⟩
    · simp only [World.applyOp, hk, bne_self_eq_false, Bool.false_eq_true, if_false, h1]
    · intro tgt tag ht
      have hs' : ((w.addRes (.hook true tgt tag)).dev x).shutDown = true := hs
      unfold World.hookStart
      simp only [ht]
      exact C13.shutdown_down_noop _ x false none hs' (Or.inl rfl)
    · intro hp
      rw [C13.fail_reports_once w hx]
      simp [hs, hp]
  · intro hs
    have h1 := C13.restore_up_noop w x hs
    refine ⟨?_, h1, ?_⟩
    · simp only [World.applyOp, hk, bne_self_eq_false, Bool.false_eq_true, if_false, h1]
    · intro tgt tag ht
      have hs' : ((w.addRes (.hook false tgt tag)).dev x).shutDown = false := hs
      unfold World.hookEnd
      simp only [ht]
      exact C13.restore_up_noop _ x hs'

/-! ### 5. a default work order keeps its target shut down for exactly the order's duration -/

/-- step `k → k+1` of the run is a live control event (script, resource check, maintainer event):
the only events that can restore (or shut down) a machine -/
def ctlAt (w : World) (k : Nat) : Bool :=
  match (wAt w k).step with
  | some (e, _) => e.live && ctlAct (Action.ofNat e.act)
  | none => false

/-- **A default work order on processor `x`.**  Let step `i → i+1` of the run execute the START event
of order `s` of maintainer `m` (order `o`, whose target stands for the processor `x`; `t` the time,
`dur` the duration the target reports at that moment), and let step `j → j+1` be the first step
after it that executes the order's FINISH event.  Then

* the START step takes no time and leaves `x` SHUT DOWN;
* the FINISH step happens at exactly `t + dur` and leaves `x` OPERATIONAL;
* over the order's span the operational time and the down time of `x` add up to `dur`; hence
  `downTime ≤ dur` — with EQUALITY iff nothing else restored the machine in between: if `x` is down
  in all worlds `w_{i+1}, …, w_j` then `downTime = dur` exactly;
* and that is the case whenever no step strictly between the two is a live control event (script,
  resource check, another maintainer event): hand-overs, failures, finish events, sensors, … never
  restore a machine.

(The sketch "`downTime ≥ dur`" is false for the span of the order: a script — or another order on the
same machine that ends earlier — can restore the machine in between, `work_order_downtime_ge_false`;
before `t` and after `t + dur` other sources may of course keep it down longer.) -/
theorem work_order_downtime_exact {w : World} (h : WI w) (hI : C12W.Inv w)
    (hk : (w.dev x).kind = .processor) {i j m s : Nat} {ei ej : Event} {o : Order} (hij : i < j)
    (hei : (wAt w i).step = some (ei, wAt w (i + 1))) (hki : C12W.ekey ei = some (false, m, s))
    (hej : (wAt w j).step = some (ej, wAt w (j + 1))) (hkj : C12W.ekey ej = some (true, m, s))
    (hfirst : ∀ k, i < k → k < j → ∀ ek wk, (wAt w k).step = some (ek, wk) →
      C12W.ekey ek ≠ some (true, m, s))
    (ho : ((wAt w i).maint m).findActive s = some o)
    (htx : ((wAt w i).targets.getD o.target default).dev = some x) :
    (wAt w (i + 1)).now = (wAt w i).now ∧ ((wAt w (i + 1)).dev x).shutDown = true ∧
    (wAt w (j + 1)).now = (wAt w i).now + ((wAt w i).targetParams o.target o.tag).1 ∧
    ((wAt w (j + 1)).dev x).shutDown = false ∧
    upTime w x (i + 1) (j + 1) + downTime w x (i + 1) (j + 1) =
      ((wAt w i).targetParams o.target o.tag).1 ∧
    downTime w x (i + 1) (j + 1) ≤ ((wAt w i).targetParams o.target o.tag).1 ∧
    ((∀ k, i + 1 ≤ k → k ≤ j → ((wAt w k).dev x).shutDown = true) →
      downTime w x (i + 1) (j + 1) = ((wAt w i).targetParams o.target o.tag).1) ∧
    ((∀ k, i < k → k < j → ctlAt w k = false) →
      ∀ k, i + 1 ≤ k → k ≤ j → ((wAt w k).dev x).shutDown = true) := by
  have hkk : ∀ k, ((wAt w k).dev x).kind = .processor := fun k => by rw [kind_wAt h]; exact hk
  have hxk : ∀ k, x < (wAt w k).devs.length := fun k => lt_of_processor (hkk k)
  -- the START step
  have hIi := inv12_wAt hI i
  obtain ⟨o', hf', _, hseq, _, hnow1, _, _, _, _, hact1, ⟨e1, he1, hk1, ht1, _⟩, _⟩ :=
    C12W.start_step hIi hei hki
  rw [ho] at hf'
  cases hf'
  obtain ⟨env1, henv1, _, _, hw1, _⟩ := C12W.step_start hIi.s hIi.g hei hki
  have hdown1 : ((wAt w (i + 1)).dev x).shutDown = true := by
    rw [hw1]
    exact startWork_shuts _ m s o ho htx (hxk i)
  -- the life of the order up to the FINISH step
  have hlife1 : LifeA m o ((wAt w i).now + ((wAt w i).targetParams o.target o.tag).1)
      (wAt w (i + 1)) := ⟨hact1, e1, he1, by rw [hseq]; exact hk1, ht1⟩
  have hlife : ∀ d, i + 1 + d ≤ j →
      LifeA m o ((wAt w i).now + ((wAt w i).targetParams o.target o.tag).1) (wAt w (i + 1 + d)) := by
    intro d
    induction d with
    | zero => intro _; exact hlife1
    | succ d ih =>
      intro hd
      have il := ih (by omega)
      obtain ⟨ek, hstk⟩ := step_earlier hej (show i + 1 + d ≤ j by omega)
      rw [show i + 1 + (d + 1) = (i + 1 + d) + 1 by omega]
      refine lifeA_step (inv12_wAt hI _) hstk il ?_
      rw [hseq]
      exact hfirst (i + 1 + d) (by omega) (by omega) ek _ hstk
  have hlj := hlife (j - (i + 1)) (by omega)
  rw [show i + 1 + (j - (i + 1)) = j by omega] at hlj
  obtain ⟨hoj, e0, he0, hk0, ht0⟩ := hlj
  -- the FINISH step
  have hIj := inv12_wAt hI j
  obtain ⟨envj, henvj, _, hwj, oj, spj⟩ := C12W.step_finish hIj.s hIj.g hej hkj
  have hmemj : ej ∈ (wAt w j).env.events := mem_events_of_step henvj
  have hnd : (C12W.skeys m (wAt w j).env.events).Nodup := by
    have := hIj.g.g0.nodup_lhs m; simpa using this
  have hee : ej = e0 := C12W.skeys_unique hnd he0 hmemj (by rw [← hseq]; exact hk0) hkj
  have hnowj : (wAt w (j + 1)).now = (wAt w i).now + ((wAt w i).targetParams o.target o.tag).1 := by
    rw [(step_now (wi_wAt h j) hej).1, hee, ht0]
  have hoo : oj = o := by
    have h1 : oj ∈ ((wAt w j).maint m).active := spj.mem
    exact C12L.eq_of_nodup_map (·.seq) _ (hIj.g.g0.nodup m) oj o h1 hoj (by rw [spj.seq, hseq])
  have hup : ((wAt w (j + 1)).dev x).shutDown = false := by
    rw [hwj]
    have hfj : ((({ wAt w j with env := envj } : World)).maint m).findActive s = some o := by
      have := spj.found; rw [hoo] at this; exact this
    refine finishWork_restores _ m s o hfj ?_
    have e1 := target_dev_of_map (tg_wAt h j) o.target
    have e2 := target_dev_of_map (tg_wAt h i) o.target
    exact (e1.trans e2.symm).trans htx
  have hsum := upTime_add_downTime w x (show i + 1 ≤ j + 1 by omega)
  rw [hnowj, hnow1] at hsum
  have hupn := upTime_nonneg h x (i + 1) (j + 1)
  refine ⟨hnow1, hdown1, hnowj, hup, by omega, by omega, ?_, ?_⟩
  · intro hall
    have hz : upTime w x (i + 1) (j + 1) = 0 := by
      unfold upTime
      apply sumFrom_zero
      intro k h1 h2
      have := hall k h1 (by omega)
      simp [World.operational, hkk k, this]
    omega
  · intro hnc
    have main : ∀ d, i + 1 + d ≤ j → ((wAt w (i + 1 + d)).dev x).shutDown = true := by
      intro d
      induction d with
      | zero => intro _; exact hdown1
      | succ d ih =>
        intro hd
        have idn := ih (by omega)
        obtain ⟨ek, hstk⟩ := step_earlier hej (show i + 1 + d ≤ j by omega)
        rw [show i + 1 + (d + 1) = (i + 1 + d) + 1 by omega]
        refine stays_down (wi_wAt h _) (hkk _) hstk idn ?_
        rintro ⟨c1, c2⟩
        have := hnc (i + 1 + d) (by omega) (by omega)
        unfold ctlAt at this
        rw [hstk] at this
        simp [c1, c2] at this
    intro k h1 h2
    have := main (k - (i + 1)) (by omega)
    rwa [show i + 1 + (k - (i + 1)) = k by omega] at this

/-! ### 6. uptime and utilisation, closed forms over runs -/

/-- The time processor `x` is operational WITH A PART IN PROCESS during the steps `a, …, b − 1`. -/
def busyTime (w : World) (x a b : Nat) : Int :=
  sumFrom (fun k => if (wAt w k).operational x && ((wAt w k).dev x).part.isSome then dt w k else 0) a b

theorem busyTime_succ (w : World) (x : Nat) {a b : Nat} (hab : a ≤ b) :
    busyTime w x a (b + 1) = busyTime w x a b +
      (if (wAt w b).operational x && ((wAt w b).dev x).part.isSome then dt w b else 0) :=
  sumFrom_succ _ hab

theorem busyTime_self (w : World) (x a : Nat) : busyTime w x a a = 0 := sumFrom_self _ a

/-- **`uptime` is exactly the operational time.**  Along any run from a state of the invariant, for
a processor `x` and steps `i ≤ j`: `uptime(w_j) − uptime(w_i)` (the public property,
`C13.uptimeAt`) `= C06T.upTime w x i j = Σ_{k=i}^{j−1} (if x operational in w_k then
now w_{k+1} − now w_k else 0)` — whatever happens in the steps (shutdowns, failures, restorations,
scripts, hand-overs). -/
theorem uptime_exact {w : World} (h : WI w) (hk : (w.dev x).kind = .processor) {i j : Nat}
    (hij : i ≤ j) :
    C13.uptimeAt (wAt w j) x - C13.uptimeAt (wAt w i) x = upTime w x i j := by
  induction j with
  | zero =>
    have : i = 0 := by omega
    subst this; rw [upTime_self]; omega
  | succ j ih =>
    by_cases hj : i = j + 1
    · subst hj; rw [upTime_self]; omega
    · have hij' : i ≤ j := by omega
      have ih := ih hij'
      rw [upTime_succ w x hij']
      have hkk : ((wAt w j).dev x).kind = .processor := by rw [kind_wAt h]; exact hk
      cases hs : (wAt w j).step with
      | none =>
        have e1 : wAt w (j + 1) = wAt w j := wAt_succ_none hs
        have : dt w j = 0 := by unfold dt; rw [e1]; omega
        rw [this, e1]
        simp only [ite_self]
        omega
      | some q =>
        have hst := step_wAt (e := q.1) (w' := q.2) hs
        have hu := uptime_step (wi_wAt h j) hkk hst
        have hn : (wAt w (j + 1)).now = q.1.time := (step_now (wi_wAt h j) hst).1
        have hop : (wAt w j).operational x = !((wAt w j).dev x).shutDown := by
          simp [World.operational, hkk]
        rw [hu, hop]
        unfold dt
        rw [hn]
        cases ((wAt w j).dev x).shutDown <;> simp <;> omega

/-- **`utilization_time` is exactly the time spent processing parts.**  Likewise
`utilization_time(w_j) − utilization_time(w_i) = Σ_{k=i}^{j−1} (if x operational with a part in
process in w_k then now w_{k+1} − now w_k else 0)`. -/
theorem utilization_exact {w : World} (h : WI w) (hk : (w.dev x).kind = .processor) {i j : Nat}
    (hij : i ≤ j) :
    C13.utilAt (wAt w j) x - C13.utilAt (wAt w i) x = busyTime w x i j := by
  induction j with
  | zero =>
    have : i = 0 := by omega
    subst this; rw [busyTime_self]; omega
  | succ j ih =>
    by_cases hj : i = j + 1
    · subst hj; rw [busyTime_self]; omega
    · have hij' : i ≤ j := by omega
      have ih := ih hij'
      rw [busyTime_succ w x hij']
      have hkk : ((wAt w j).dev x).kind = .processor := by rw [kind_wAt h]; exact hk
      cases hs : (wAt w j).step with
      | none =>
        have e1 : wAt w (j + 1) = wAt w j := wAt_succ_none hs
        have : dt w j = 0 := by unfold dt; rw [e1]; omega
        rw [this, e1]
        simp only [ite_self]
        omega
      | some q =>
        have hst := step_wAt (e := q.1) (w' := q.2) hs
        have hu := util_step (wi_wAt h j) hkk hst
        have hn : (wAt w (j + 1)).now = q.1.time := (step_now (wi_wAt h j) hst).1
        have hop : (wAt w j).operational x = !((wAt w j).dev x).shutDown := by
          simp [World.operational, hkk]
        rw [hu, hop]
        unfold dt
        rw [hn]
        cases ((wAt w j).dev x).shutDown <;> cases ((wAt w j).dev x).part <;> simp <;> omega

/-! ### reachable forms -/

/-- The invariant of all theorems above holds in every world of the run of a fresh, statically
well-formed world (`C06W.Static'`, `C06W.Init`) — after initialisation, after any number of steps. -/
theorem wi_run (w0 : World) (hs : Static' w0) (hi : Init w0) (k : Nat) :
    WI (wAt w0.simulateInit k) := wi_trace (wi_start hs hi) k

/-- … and so does the maintainer invariant needed by item 5, for a fresh world of the class
`C12W.S`. -/
theorem inv12_run (w0 : World) (hs : C12W.S w0) (hf : C12W.Fresh w0) (k : Nat) :
    C12W.Inv (wAt w0.simulateInit k) :=
  inv12_wAt (C12W.inv_reachable (C12W.inv_of_fresh hs hf).1 (.init .refl)) k

/-- `down_is_inert` for the `k`-th step of the run of a fresh world of the class. -/
theorem down_is_inert_run (w0 : World) (hs : Static' w0) (hi : Init w0) {k : Nat} {e : Event}
    (hk : (w0.simulateInit.dev x).kind = .processor)
    (hst : (wAt w0.simulateInit k).step = some (e, wAt w0.simulateInit (k + 1)))
    (hd : ((wAt w0.simulateInit k).dev x).shutDown = true)
    (hd' : ((wAt w0.simulateInit (k + 1)).dev x).shutDown = true) :
    Inert x (wAt w0.simulateInit k) e (wAt w0.simulateInit (k + 1)) :=
  (down_is_inert (wi_run w0 hs hi k) (by rw [kind_wAt (wi_start hs hi)]; exact hk) hst hd hd').1

/-- `uptime_exact` / `utilization_exact` for the run of a fresh world of the class: at every
instant `uptime` is its value at the start of the simulation (the accumulator alone:
`C13.init_starts_uptime`; 0 for a processor as constructed) plus the total operational time since,
and `utilization_time` its initial value plus the total time spent processing parts. -/
theorem accounting_exact_run (w0 : World) (hs : Static' w0) (hi : Init w0)
    (hk : (w0.simulateInit.dev x).kind = .processor) (j : Nat) :
    C13.uptimeAt (wAt w0.simulateInit j) x = C13.uptimeAt w0.simulateInit x + upTime w0.simulateInit x 0 j ∧
    C13.utilAt (wAt w0.simulateInit j) x = C13.utilAt w0.simulateInit x + busyTime w0.simulateInit x 0 j := by
  have h1 := uptime_exact (wi_start hs hi) hk (Nat.zero_le j)
  have h2 := utilization_exact (wi_start hs hi) hk (Nat.zero_le j)
  rw [wAt_zero] at h1 h2
  constructor <;> omega

/-! ### non-vacuity -/

instance (w : World) (op : Op) : Decidable (C02V.OpStatic w op) := by
  cases op <;> simp only [C02V.OpStatic] <;> infer_instance

instance (w : World) : Decidable (C02V.ScriptsStatic w) := by
  unfold C02V.ScriptsStatic; infer_instance

theorem ofNat_fail {n d : Nat} (h : Action.ofNat n = .fail d) : n % 16 = 4 := by
  have hlt : n % 16 < 16 := Nat.mod_lt _ (by decide)
  unfold Action.ofNat at h
  simp only [] at h
  split at h
  all_goals first
    | (split at h <;> cases h)
    | (rename_i hm; exact hm)
    | cases h

/-- no failure event is queued or paused -/
theorem noBad_of_noFail {w : World} (P : Nat → Prop)
    (h : ∀ n ∈ C02V.acts w.env, n % 16 ≠ 4) : ¬ C02V.HasBad (C02V.badAct P) w := by
  rintro ⟨n, hn, d, hd, _⟩
  exact h n hn (ofNat_fail hd)

/-- `Static'` for a line source → processor → sink, from decidable checks. -/
theorem static'_line3 (w : World) (d0 d1 d2 : Dev) (hd : w.devs = [d0, d1, d2]) (h0 : d0.down = [1])
    (h1 : d1.down = [2]) (h2 : d2.down = []) (hl1 : isHandlerLike d1.kind = true)
    (hl2 : isHandlerLike d2.kind = true) (hs : C02V.ScriptsStatic w)
    (hf : ∀ n ∈ C02V.acts w.env, n % 16 ≠ 4) (ha : (w.devs.map (·.aid)).Nodup)
    (ht : ∀ t ∈ w.targets, ∀ d, t.dev = some d → (w.dev d).kind = .processor)
    (hp : ScriptsNoPause w) : Static' w :=
  ⟨static_line w d0 d1 d2 hd h0 h1 h2 hl1 hl2 hs (noBad_of_noFail _ hf), ha, ht, hp,
    noBad_of_noFail _ hf⟩

/-- The example line of `C06W` — source (cycle 2, three parts) → processor (cycle 5, two shutdown
callbacks, one restored callback, maintenance target 0: duration 3) → sink — with a maintainer, a
WORK ORDER and two FAILURES: script 0 (time 3) requests a work order for the processor; script 1
(time 11) schedules a failure at 12; script 2 (time 14) restores the machine and blocks the sink;
script 3 (time 20) schedules a failure at 21; script 4 (time 23) restores the machine; script 5
(time 25) unblocks the sink. -/
def exSrc : Dev := { kind := .source, aid := 1, down := [1], maxParts := some 3, cycle := 2 }
def exProc : Dev :=
  { kind := .processor, aid := 2, up := [0], down := [2], cycle := 5, nShutCbs := 2, nRestCbs := 1 }
def exSink : Dev := { kind := .sink, aid := 3, up := [1] }
def scr (uid : Nat) (t : Int) (k : Nat) : Event :=
  { uid := uid, time := t, prio := pOtherHigh, weight := 0, asset := -1, act := (Action.script k).toNat }
def exEnv : Env :=
  { terminated := false, nextUid := 6
    events := [scr 0 3 0, scr 1 11 1, scr 2 14 2, scr 3 20 3, scr 4 23 4, scr 5 25 5] }
def exW : World :=
  { devs := [exSrc, exProc, exSink], assets := [.dev 0, .dev 1, .dev 2, .maint 0]
    maints := [{ m := { cap := some 1, val := { init := 100, value := 100 } }, aid := 4 }]
    targets := [{ dev := some 1, params := [(0, 3, 1, 5)] }]
    scripts := [[.workOrder 0 0 0 10], [.schedFail 1 12], [.restore 1, .block 2 true],
                [.schedFail 1 21], [.restore 1], [.block 2 false]]
    env := exEnv }

theorem init_of (w : World) (h1 : ∀ d ∈ w.devs, d.part = none ∧ d.output = none)
    (h2 : ∀ d ∈ w.devs, d.kind = .processor →
      d.shutDown = false ∧ d.lastRestore.isSome = true ∧ d.lastUseStart = none)
    (h3 : ∀ e ∈ w.env.events ++ w.env.paused, e.live = true → e.act % 16 ≠ 2)
    (h4 : C01.Inv w.env) (h5 : w.env.paused = []) (h6 : w.error = none) : Init w :=
  ⟨h1, h2, h3, h4, (by intro e he; rw [h5] at he; cases he), h6⟩

-- the hypotheses of all theorems hold for the example: the classes of C06W and of C12W
theorem static'_exW : Static' exW :=
  static'_line3 exW exSrc exProc exSink rfl rfl rfl rfl rfl rfl (by decide) (by decide) (by decide)
    (by decide) (by decide)
theorem init_exW : Init exW := init_of exW (by decide) (by decide) (by decide) (by decide) rfl rfl
theorem s12_exW : C12W.S exW ∧ C12W.Fresh exW := by decide

def ex0 : World := exW.simulateInit
theorem wi_ex0 : WI ex0 := wi_start static'_exW init_exW
theorem inv_ex0 : C12W.Inv ex0 :=
  C12W.inv_reachable (C12W.inv_of_fresh s12_exW.1 s12_exW.2).1 (.init .refl)
example (k : Nat) : WI (wAt ex0 k) := wi_run exW static'_exW init_exW k

/-- the step taken in `w_k` (if the queue is not empty) -/
theorem step_of_some {w : World} {k : Nat} (h : (wAt w k).step.isSome = true) :
    ∃ e, (wAt w k).step = some (e, wAt w (k + 1)) := by
  obtain ⟨q, hq⟩ := Option.isSome_iff_exists.mp h
  exact ⟨q.1, step_wAt (e := q.1) (w' := q.2) hq⟩

-- the run: clock; input slot, output slot and shutdown flag of the processor …
example : (List.range 27).map (fun k => ((wAt ex0 k).now, ((wAt ex0 k).dev 1).part,
      ((wAt ex0 k).dev 1).output, ((wAt ex0 k).dev 1).shutDown)) =
    [(0, none, none, false), (2, none, none, false), (2, some 0, none, false), (3, some 0, none, false),
     (3, some 0, none, true), (4, some 0, none, true), (4, some 0, none, true), (6, some 0, none, false),
     (10, none, some 0, false), (10, none, none, false), (10, some 1, none, false),
     (11, some 1, none, false), (12, some 1, none, false), (12, some 1, none, false),
     (12, none, none, true), (14, none, none, false), (14, some 2, none, false), (15, some 2, none, false),
     (16, some 2, none, false), (16, some 2, none, false), (19, none, some 2, false),
     (19, none, some 2, false), (20, none, some 2, false), (21, none, some 2, true),
     (23, none, some 2, false), (23, none, some 2, false), (25, none, some 2, false)] := by decide
-- … and the event executed by each step (step 16 pops the finish event cancelled by the failure)
example : (List.range 27).map (fun k => (evAt ex0 k).map (fun e => (e.live, Action.ofNat e.act))) =
    [some (true, .finishCycle 0), some (true, .passPart 0), some (true, .script 0),
     some (true, .startWork 0 0), some (true, .finishCycle 0), some (true, .passPart 0),
     some (true, .finishWork 0 0), some (true, .finishCycle 1), some (true, .passPart 1),
     some (true, .passPart 0), some (true, .script 1), some (true, .finishCycle 0),
     some (true, .passPart 0), some (true, .fail 1), some (true, .script 2), some (true, .passPart 0),
     some (false, .finishCycle 1), some (true, .finishCycle 0), some (true, .passPart 0),
     some (true, .finishCycle 1), some (true, .passPart 1), some (true, .script 3), some (true, .fail 1),
     some (true, .script 4), some (true, .passPart 1), some (true, .script 5),
     some (true, .passPart 1)] := by decide
example : ((wAt ex0 27).dev 1).output = none ∧ ((wAt ex0 27).dev 2).recvCount = 2 ∧
    (wAt ex0 27).lost = [1] ∧ (wAt ex0 27).error = none ∧ (wAt ex0 27).env.events = [] := by decide

theorem kind_ex0 (k : Nat) : ((wAt ex0 k).dev 1).kind = .processor := by
  rw [kind_wAt wi_ex0]; decide

-- 1. `down_is_inert` on step 4 → 5 (the source finishes a cycle while the processor is down for
-- maintenance with part 0 in process): by the theorem …
example : ∃ e, (wAt ex0 4).step = some (e, wAt ex0 5) ∧ Inert 1 (wAt ex0 4) e (wAt ex0 5) ∧
    finE (wAt ex0 4).env 1 = [] ∧ ∃ e0, finP (wAt ex0 4).env 1 = [e0] ∧ e0.cancelled = false := by
  obtain ⟨e, hst⟩ := step_of_some (w := ex0) (k := 4) (by decide)
  obtain ⟨h1, _, _, _, h5, h6, _⟩ :=
    down_is_inert (wi_trace wi_ex0 4) (kind_ex0 4) hst (by decide) (by decide)
  exact ⟨e, hst, h1, h5, h6 0 (by decide)⟩
-- … and evaluated: the machine is down before and after, nothing of it changes, it refuses parts, its
-- timer is paused with remaining work 4
example : ((wAt ex0 4).dev 1).shutDown = true ∧ ((wAt ex0 5).dev 1).shutDown = true ∧
    ((wAt ex0 5).dev 1).part = some 0 ∧ ((wAt ex0 4).dev 1).part = some 0 ∧
    ((wAt ex0 5).dev 1).uptime = 3 ∧ ((wAt ex0 4).dev 1).uptime = 3 ∧
    ((wAt ex0 5).dev 1).timeInUse = 1 ∧ ((wAt ex0 4).dev 1).timeInUse = 1 ∧
    (wAt ex0 4).canAcceptBasic 1 7 = false ∧
    rem (wAt ex0 4).env 1 = [(8, 4)] ∧ (finP (wAt ex0 4).env 1).map (·.uid) = [8] ∧
    C13.uptimeAt (wAt ex0 4) 1 = 3 ∧ C13.uptimeAt (wAt ex0 7) 1 = 3 := by decide

-- 2. `shutdown_keeps_part`: part 0 with timer (8, 4) in w_4 (shut down by the work order at time 3) is
-- still in process with timer (8, 4) in w_7 (restored at time 6); the finish event is due at 6 + 4
example : ((wAt ex0 7).dev 1).part = some 0 ∧ rem (wAt ex0 7).env 1 = [(8, 4)] ∧
    ((wAt ex0 7).operational 1 = true →
      ∃ e0, finE (wAt ex0 7).env 1 = [e0] ∧ finP (wAt ex0 7).env 1 = [] ∧ e0.uid = 8 ∧
        e0.time = (wAt ex0 7).now + 4) := by
  have hk : (ex0.dev 1).kind = .processor := by decide
  have hp : ((wAt ex0 4).dev 1).part = some 0 := by decide
  have hr : rem (wAt ex0 4).env 1 = [(8, 4)] := by decide
  have hdown : ∀ k, 4 ≤ k → k < 7 → ((wAt ex0 k).dev 1).shutDown = true := by
    intro k h1 h2
    have : k = 4 ∨ k = 5 ∨ k = 6 := by omega
    rcases this with rfl | rfl | rfl <;> decide
  have hnf : ∀ k, 4 ≤ k → k < 7 → failsAt ex0 1 k = false := by
    intro k h1 h2
    have : k = 4 ∨ k = 5 ∨ k = 6 := by omega
    rcases this with rfl | rfl | rfl <;> decide
  exact shutdown_keeps_part wi_ex0 hk (by omega) hp hr hdown hnf
example : (wAt ex0 7).now = 6 ∧ (wAt ex0 7).operational 1 = true ∧
    (finE (wAt ex0 7).env 1).map (fun e => (e.uid, e.time)) = [(8, 10)] ∧ (wAt ex0 8).now = 10 := by
  decide

-- `failure_discards_exactly` on step 13 → 14 (the failure at time 12 with part 1 in process): by the
-- theorem, and evaluated — part 1 is lost, logged once, both callbacks are called once with it
example : ∃ e, (wAt ex0 13).step = some (e, wAt ex0 14) ∧ e.live = true ∧
    Action.ofNat e.act = .fail 1 := by
  obtain ⟨e, hst⟩ := step_of_some (w := ex0) (k := 13) (by decide)
  have : (evAt ex0 13).map (fun e => (e.live, Action.ofNat e.act)) = some (true, .fail 1) := by decide
  unfold evAt at this
  rw [hst] at this
  simp only [Option.map_some, Option.some.injEq, Prod.mk.injEq] at this
  exact ⟨e, hst, this.1, this.2⟩
example : (wAt ex0 13).lost = [] ∧ (wAt ex0 14).lost = [1] ∧ ((wAt ex0 14).dev 1).part = none ∧
    (wAt ex0 14).recs.filter isFailRec = [Rec.failure 1 12 (some 1)] ∧
    (wAt ex0 14).results = (wAt ex0 13).results ++
      [Res.shut 1 0 true (some 1), Res.shut 1 1 true (some 1)] ∧
    rem (wAt ex0 13).env 1 = [(15, 3)] ∧ rem (wAt ex0 14).env 1 = [] := by decide
-- the second failure (step 22 → 23, time 21) finds the input slot empty and a finished part in the
-- output slot: nothing is lost, the finished part stays, the record names no part
example : (wAt ex0 23).lost = [1] ∧ ((wAt ex0 23).dev 1).output = some 2 ∧
    (wAt ex0 23).recs.filter isFailRec = [Rec.failure 1 12 (some 1), Rec.failure 1 21 none] := by decide
-- `lost_only_by_failure` on a step that is not a failure
example : ∃ e, (wAt ex0 14).step = some (e, wAt ex0 15) ∧ (wAt ex0 15).lost = (wAt ex0 14).lost := by
  obtain ⟨e, hst⟩ := step_of_some (w := ex0) (k := 14) (by decide)
  have : (evAt ex0 14).map (fun e => Action.ofNat e.act) = some (.script 2) := by decide
  unfold evAt at this
  rw [hst] at this
  simp only [Option.map_some, Option.some.injEq] at this
  refine ⟨e, hst, (lost_only_by_failure (x := 1) (wi_trace wi_ex0 14) (kind_ex0 14) hst ?_).1⟩
  rintro ⟨_, y, hy⟩
  rw [this] at hy; cases hy

-- 3. `finished_part_survives`: part 2, finished at time 19 while the sink is blocked, stays in the
-- output slot through the failure at 21 and the restoration at 23 (w_21 … w_24) …
example : ((wAt ex0 24).dev 1).output = some 2 := by
  refine finished_part_survives wi_ex0 (x := 1) (by decide) (a := 21) (b := 24) (by decide)
    (by decide) ?_
  intro k h1 h2
  have : k = 21 ∨ k = 22 ∨ k = 23 := by omega
  rcases this with rfl | rfl | rfl <;> decide
-- … after the restoration a live pass-part event is queued for that instant (time 23) …
example : (wAt ex0 24).now = 23 ∧ ((wAt ex0 24).dev 1).shutDown = false ∧
    (wAt ex0 24).env.events.map (fun e => (e.time, e.live, Action.ofNat e.act)) =
      [(23, true, .passPart 1), (25, true, .script 5)] := by decide
-- … and when the sink is unblocked (time 25) the part leaves (w_27)
example : ((wAt ex0 26).dev 1).output = some 2 ∧ ((wAt ex0 27).dev 1).output = none ∧
    ((wAt ex0 27).dev 2).recvCount = 2 := by decide
-- `finished_part_leaves` (the invariant of C03W holds along the run of the example: scope S1)
theorem good03_exW (n : Nat) : C03W.Good (runLoop n exW.simulateInit) :=
  C03W.wake_reachable n (by decide) (by decide) (by decide)
    (fun n hn d hd => absurd (ofNat_fail hd) ((by decide : ∀ n ∈ C02V.acts exW.env, n % 16 ≠ 4) n hn))
    ⟨rfl, rfl, rfl, rfl, by decide⟩
example : (∃ e ∈ (runLoop 24 exW.simulateInit).env.events, e.act = (Action.passPart 1).toNat ∧
      e.asset = ((runLoop 24 exW.simulateInit).dev 1).aid ∧ e.cancelled = false ∧
      e.time = (runLoop 24 exW.simulateInit).now) ∨
    C03W.Blocked (runLoop 24 exW.simulateInit) [] [] 1 2 :=
  finished_part_leaves (good03_exW 24).goodB (by decide) (by decide) (by decide)

-- 4. `repeated_ops_noop` in w_5 (down): by the theorem, and evaluated
example := (repeated_ops_noop (x := 1) (wAt ex0 5) (kind_ex0 5)).1 (by decide)
example := (repeated_ops_noop (x := 1) (wAt ex0 8) (kind_ex0 8)).2 (by decide)
example : ((wAt ex0 5).applyOp (.shutdown 1)).1.results = (wAt ex0 5).results ∧
    ((wAt ex0 8).applyOp (.restore 1)).1.results = (wAt ex0 8).results ∧
    ((wAt ex0 8).applyOp (.shutdown 1)).1.results ≠ (wAt ex0 8).results := by decide

-- 5. `work_order_downtime_exact`: the START event of order 0 is executed by step 3 → 4 (time 3), the
-- FINISH event by step 6 → 7; the target reports the duration 3; by the theorem …
example : ∃ o, ((wAt ex0 3).maint 0).findActive 0 = some o ∧
    (wAt ex0 7).now = (wAt ex0 3).now + ((wAt ex0 3).targetParams o.target o.tag).1 ∧
    downTime ex0 1 4 7 = ((wAt ex0 3).targetParams o.target o.tag).1 := by
  obtain ⟨ei, hei⟩ := step_of_some (w := ex0) (k := 3) (by decide)
  obtain ⟨ej, hej⟩ := step_of_some (w := ex0) (k := 6) (by decide)
  have hki : C12W.ekey ei = some (false, 0, 0) := by
    have : (evAt ex0 3).map C12W.ekey = some (some (false, 0, 0)) := by decide
    unfold evAt at this; rw [hei] at this; simpa using this
  have hkj : C12W.ekey ej = some (true, 0, 0) := by
    have : (evAt ex0 6).map C12W.ekey = some (some (true, 0, 0)) := by decide
    unfold evAt at this; rw [hej] at this; simpa using this
  have hfirst : ∀ k, 3 < k → k < 6 → ∀ ek wk, (wAt ex0 k).step = some (ek, wk) →
      C12W.ekey ek ≠ some (true, 0, 0) := by
    intro k h1 h2 ek wk hs
    have hk : (evAt ex0 k).map C12W.ekey = some (C12W.ekey ek) := by unfold evAt; rw [hs]; rfl
    have : k = 4 ∨ k = 5 := by omega
    rcases this with rfl | rfl
    · have : (evAt ex0 4).map C12W.ekey = some none := by decide
      rw [this] at hk
      have hk' := Option.some.inj hk
      rw [← hk']; exact fun h => by cases h
    · have : (evAt ex0 5).map C12W.ekey = some none := by decide
      rw [this] at hk
      have hk' := Option.some.inj hk
      rw [← hk']; exact fun h => by cases h
  have ho : ((wAt ex0 3).maint 0).findActive 0 =
      some { target := 0, tag := 0, needed := 1, info := 10, seq := 0 } := by decide
  obtain ⟨_, _, h3, _, _, _, h7, h8⟩ := work_order_downtime_exact (x := 1) wi_ex0 inv_ex0 (by decide)
    (by decide : 3 < 6) hei hki hej hkj hfirst ho (by decide)
  refine ⟨_, ho, h3, h7 (h8 ?_)⟩
  intro k h1 h2
  have : k = 4 ∨ k = 5 := by omega
  rcases this with rfl | rfl <;> decide
-- … and evaluated: started at 3, finished at 6 = 3 + 3, down for exactly 3
example : (wAt ex0 3).now = 3 ∧ (wAt ex0 7).now = 6 ∧ downTime ex0 1 4 7 = 3 ∧ upTime ex0 1 4 7 = 0 ∧
    ((wAt ex0 3).targetParams 0 0).1 = 3 := by decide

-- 6. `uptime_exact` / `utilization_exact` over the whole run, by the theorems, and evaluated: the
-- machine was operational for 25 − 3 − 2 − 2 = 18 time units and busy for 1 + 4 + 2 + 5 = 12
example : C13.uptimeAt (wAt ex0 27) 1 - C13.uptimeAt (wAt ex0 0) 1 = upTime ex0 1 0 27 :=
  uptime_exact wi_ex0 (by decide) (by decide)
example : C13.utilAt (wAt ex0 27) 1 - C13.utilAt (wAt ex0 0) 1 = busyTime ex0 1 0 27 :=
  utilization_exact wi_ex0 (by decide) (by decide)
example : C13.uptimeAt (wAt ex0 27) 1 = 18 ∧ upTime ex0 1 0 27 = 18 ∧ downTime ex0 1 0 27 = 7 ∧
    C13.utilAt (wAt ex0 27) 1 = 12 ∧ busyTime ex0 1 0 27 = 12 ∧ (wAt ex0 27).now = 25 := by decide

/-! #### two sub-claims of the sketch are FALSE in the class; the true variants are above -/

/-- The example with a resource requirement of the processor (one unit of resource 0, capacity 1)
and two STRAY events in the initial queue, for the asset id −1: a pass-part event and a release event
of the processor, both for time 5. -/
def exStray : World :=
  { exW with
    devs := [exSrc, { exProc with resReq := some [(0, 1)] }, exSink]
    rm := { pools := [(0, 0, 1)] }
    env := { exEnv with nextUid := 8, events :=
      [scr 0 3 0,
       { uid := 6, time := 5, prio := pOtherHigh, weight := 0, asset := -1,
         act := (Action.passPart 1).toNat },
       { uid := 7, time := 5, prio := pOtherHigh, weight := 1, asset := -1,
         act := (Action.releaseIfIdle 1).toNat },
       scr 1 11 1, scr 2 14 2, scr 3 20 3, scr 4 23 4, scr 5 25 5] } }

theorem static'_exStray : Static' exStray :=
  static'_line3 exStray exSrc { exProc with resReq := some [(0, 1)] } exSink rfl rfl rfl rfl rfl rfl
    (by decide) (by decide) (by decide) (by decide) (by decide)
theorem init_exStray : Init exStray :=
  init_of exStray (by decide) (by decide) (by decide) (by decide) rfl rfl

/-- **"No live pass / release event of a down machine is pending" and "the reservation of a down
machine is untouched" are FALSE in the class `Static' ∧ Init`** (`Init` constrains only the finish
events of the initial queue): `exStray` is in the class; in `w_4` of its run the processor is down
for maintenance (part 0 in process, reservation 0 held) while a live pass-part event and a live
release event of the processor are PENDING — they carry another asset id, so the shutdown did not
pause them; step 6 → 7 executes the pass-part event (it does nothing: `C13.down_releases_nothing`),
and step 7 → 8 executes the release event: the machine is down before and after, and its reservation
is given back.  (Hence the exception for release events in `Inert.reserved`; events scheduled by the
library itself carry the asset id of their device and are paused with it.) -/
theorem down_pending_false :
    Static' exStray ∧ Init exStray ∧
    ((wAt exStray.simulateInit 4).dev 1).shutDown = true ∧
    (∃ e ∈ (wAt exStray.simulateInit 4).env.events, e.live = true ∧
      Action.ofNat e.act = .passPart 1) ∧
    (∃ e ∈ (wAt exStray.simulateInit 4).env.events, e.live = true ∧
      Action.ofNat e.act = .releaseIfIdle 1) ∧
    ((wAt exStray.simulateInit 7).dev 1).shutDown = true ∧
    ((wAt exStray.simulateInit 8).dev 1).shutDown = true ∧
    ((wAt exStray.simulateInit 7).dev 1).part = some 0 ∧
    ((wAt exStray.simulateInit 7).dev 1).reserved = some 0 ∧
    ((wAt exStray.simulateInit 8).dev 1).reserved = none ∧
    (evAt exStray.simulateInit 7).map (fun e => (e.live, Action.ofNat e.act)) =
      some (true, .releaseIfIdle 1) :=
  ⟨static'_exStray, init_exStray, by decide, by decide, by decide, by decide, by decide, by decide,
    by decide, by decide, by decide⟩

/-- The example with a script that RESTORES the machine at time 4, in the middle of the work order
(started at 3, duration 3). -/
def exMid : World :=
  { exW with scripts := [[.workOrder 0 0 0 10], [.restore 1], [], [], [], []]
             env := { exEnv with events := [scr 0 3 0, scr 1 4 1] } }

theorem static'_exMid : Static' exMid :=
  static'_line3 exMid exSrc exProc exSink rfl rfl rfl rfl rfl rfl
    (by decide) (by decide) (by decide) (by decide) (by decide)
theorem init_exMid : Init exMid := init_of exMid (by decide) (by decide) (by decide) (by decide) rfl rfl

/-- **"`downTime` over the order's span ≥ duration" is FALSE**: `exMid` is in the classes of C06W
and C12W; the order is started by step 3 → 4 at time 3 with duration 3 and finished by step 7 → 8 at
time 6, but a script restores the machine at time 4: over the span the machine is down for 1 time
unit only (and operational for 2: together the duration, `work_order_downtime_exact`). -/
theorem work_order_downtime_ge_false :
    Static' exMid ∧ Init exMid ∧ C12W.S exMid ∧ C12W.Fresh exMid ∧
    (evAt exMid.simulateInit 3).map C12W.ekey = some (some (false, 0, 0)) ∧
    (evAt exMid.simulateInit 7).map C12W.ekey = some (some (true, 0, 0)) ∧
    ((wAt exMid.simulateInit 3).targetParams 0 0).1 = 3 ∧
    (wAt exMid.simulateInit 3).now = 3 ∧ (wAt exMid.simulateInit 8).now = 6 ∧
    downTime exMid.simulateInit 1 4 8 = 1 ∧ upTime exMid.simulateInit 1 4 8 = 2 ∧
    ¬ (3 ≤ downTime exMid.simulateInit 1 4 8) :=
  ⟨static'_exMid, init_exMid, by decide, by decide, by decide, by decide, by decide, by decide,
    by decide, by decide, by decide, by decide⟩

end C13W
end SimProc
